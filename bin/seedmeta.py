import json, os
R = {
 "C01": ("missed at first", ["C01"], "memory family extended: CODESIZE-relative CODECOPY, EXTCODECOPY; probe codecopy-past-end"),
 "C01b": ("first run", ["C01", "C09"], ""),
 "C01c": ("first run", ["C01", "C09"], "alias family (added after seed C02)"),
 "C02": ("missed at first", ["C02"], "new family harness/progs_alias.py (symbolic call / EXTCODE* targets)"),
 "C02b": ("first run", ["C02"], ""),
 "C02c": ("missed at first", ["C02"], "gadget `if (x<c1) invalid; if (x>c2) A else B` in fam_control; probe jumpi-invalid-then-branch; probes also run by C02"),
 "C03": ("missed at first", ["C03", "C01"], "testgen.sibling_tree + focus mode; equality guards in progs.Gen.cond"),
 "C03b": ("missed by C03 at first", ["C12", "C03"], "testgen.gen_dynamic_contract (uint256[] / bytes parameters)"),
 "C03c": ("missed by C03 at first", ["C04", "C03"], "division templates where the divisor is learnt to be zero after the operation (`late`), `znz`"),
 "C04": ("missed by C04 at first", ["C11", "C04"], "testgen.gen_divzero_contract"),
 "C04b": ("missed at first", ["C04"], "EXP templates exp_mul / exp_div / exp_only"),
 "C05": ("C16 ended in a machinery error at first; C05 had no cache scenario with a sat reply", ["C16", "C05"], "C16 judges real logs before negative controls; MC_Verdict_gencachesat scenarios in C05"),
 "C06": ("first run", ["C06", "C01"], ""),
 "C06b": ("first run", ["C06"], ""),
 "C07": ("first run", ["C07"], ""),
 "C08": ("missed at first", ["C08"], "symbolic storage: Evm.tla env.symstore, harness/symstore.py, progs_symstore.py"),
 "C08b": ("missed at first", ["C08"], "cross-account transient scenario check_other() through run_contract"),
 "C08c": ("no negative offsets in the corpus", ["C08"], "probe hash-const-minus-one (both layouts)"),
 "C09": ("missed at first", ["C09"], "EXTCODESIZE of created accounts in the root epilogue; CREATE2 twin retry"),
 "C09b": ("call trees extended first", ["C09", "C01"], "dirty return area; short / short_revert outcomes"),
 "C09c": ("missed at first", ["C09"], "probe static-tstore; static_write outcome varies SSTORE / TSTORE / LOG0"),
 "C10": ("first run", ["C10"], ""),
 "C10b": ("missed at first", ["C10"], "invariant_target_unsupported scenarios"),
 "C10c": ("missed at first", ["C10"], "nested unsupported-feature scenarios"),
 "C11": ("first run", ["C11"], ""),
 "C11b": ("first run", ["C11"], ""),
 "C12": ("first run", ["C12"], ""),
 "C12b": ("missed at first", ["C12"], "unnamed_gens (ABI items with empty names)"),
 "C12c": ("first run", ["C12", "C03"], ""),
 "C13": ("missed at first", ["C13"], "--verif-unknown injection (solver answers unknown)"),
 "C13b": ("first run", ["C13"], ""),
 "C14": ("missed at first", ["C14"], "symbolic branches inside prank histories"),
 "C14b": ("missed at first", ["C14"], "freshRange in Evm.tla; createUint256(string,min,max) / randomUint(min,max)"),
 "C14c": ("first run", ["C14"], ""),
 "C15": ("missed at first", ["C15"], "timestamps in Frontier.tla; timestamp-reading targets; same_block / later_block machines"),
 "C15b": ("missed at first", ["C15"], "all 17 filter shapes in every run"),
 "C15c": ("first run", ["C15"], "merge_machine / pairset targets (added with fix f0cf83b)"),
 "C16": ("first run", ["C16"], ""),
 "C17": ("first run", ["C17"], ""),
 "C17b": ("first run (conformance divergence)", ["C17"], "second shutdown thread being added to Executor.tla"),
 "C18": ("first run", ["C18"], ""),
 "C18b": ("first run", ["C18"], ""),
 "C19": ("first run", ["C19"], ""),
 "C19b": ("missed at first", ["C19", "C01"], "loop_head_programs; probe loop-head-at-pc0"),
 "C20": ("missed at first", ["C20"], "alias tests + alias key in TestRun.tla; writer->reader pairs always replayed"),
 "C20b": ("missed at first", ["C20"], "annotated / loopy tests + cfg key in TestRun.tla"),
 "C20c": ("missed by C20 (sibling-path clause is decided by the E1 checks)", ["C09"], "split_fail / split_mixed outcomes and read-modify-write effects in call trees"),
}
for sid, (first, caught, added) in R.items():
    p = f"/verif/seeded/{sid}/meta.json"
    if not os.path.exists(p):
        print("missing", sid); continue
    m = json.load(open(p))
    m["verif"] = {"confirmed_with": "bin/seedcheck (demo passes on the clean tree, fails on the changed one; baseline tests 8 failed / 306 passed)",
                  "first_result": first, "caught_by_quick_tier_of": caught, "added_to_catch_it": added}
    json.dump(m, open(p, "w"), indent=1)
print(len(R), sorted(set(os.listdir('/verif/seeded')) - set(R)))
