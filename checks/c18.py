"""C18 - configuration resolves by precedence and round-trips.

spec/Config.tla states precedence (Resolve / ResolveSolverCommand), the documented grammars of the
structured option values (recogniser: well formed / malformed / lenient, Parse, Unparse) and annotation
scoping; TLC checks the design-level invariants on every enumerated state and prints every enumerated
case with its expected outcome; harness/config_replay.py replays each case into halmos.
"""

from __future__ import annotations

import gc
import json
import time

from harness import config_replay as cr
from harness.common import Check, MachineryError, cleanup, workdir

# the thorough enumeration is split into three TLC runs to bound the size of one TLC output
CFG = {
    "quick": ["MC_ConfigQuick.cfg"],
    "thorough": ["MC_ConfigThoroughS3.cfg", "MC_ConfigThoroughS2.cfg", "MC_ConfigThoroughRest.cfg"],
}

INVARIANTS = [
    "ResolveIsFunction", "ResolveAgreesWithFold", "StepIsResolve", "ResolveIsHighest", "LayeringMonotone",
    "RecentWinsAmongEquals", "SolverCommandPrecedence", "StrictIsTolerant", "BlankInsensitive",
    "RoundTrip", "ScopeLocal",
]

STACK_FAMILIES = ("S3", "S2", "SE")
STRING_FAMILIES = ("T", "E", "C", "A", "B", "V")
OTHER_FAMILIES = ("RT", "TS", "X", "SC", "NS")
CONTROLS = ("value_with_source_ge", "most_recent_layer_wins", "value_with_source_ge_S2", "solver_command_gt",
            "strings", "scope_leak", "scope_devdoc_ignored", "lossy_unparse")


def report(chk: Check, out: cr.Outcome, family: str):
    chk.count("evaluations", out.cases)
    chk.count(f"cases_{family}", out.cases)
    for k, v in out.counts.items():
        chk.count(f"{family}.{k}", v)
    for m in out.mismatches:
        chk.violation(m.key, m.what, m.replay)
    hidden = out.nmismatch - len(out.mismatches)
    if hidden > 0:
        chk.count(f"{family}.mismatches_not_listed", hidden)
        chk.nviol += hidden


def run(chk: Check, tier: str):
    work = workdir("c18")
    chk.max_viol_reports = 24
    try:
        _run(chk, tier, work)
    finally:
        cr.config_pool_close()
        cleanup(work)


def _run(chk: Check, tier: str, work):
    t0 = time.time()
    seen: set = set()
    controls_done: dict = {}
    timing: dict = {}
    chk.cov["invariants_checked"] = INVARIANTS
    for cfg in CFG[tier]:
        t1 = time.time()
        r, headers, by_mode = cr.config_enumerate(cfg, work, coverage=(tier == "thorough"))
        chk.add_tlc(r)
        chk.count("tlc_records", len(r.records))
        timing[f"tlc:{cfg}"] = round(time.time() - t1, 1)
        seen |= set(headers) | {m for m, v in by_mode.items() if v}
        if tier == "thorough":
            chk.cov.setdefault("tlc_action_coverage", {})[cfg] = {
                a: list(v) for a, v in r.coverage.items() if a in ("Init", "PushLayer", "AppendSymbol")}
        del r
        # the comparison must be able to fail: deliberately wrong implementations / expectations first
        controls(headers, by_mode, controls_done)
        replay_families(chk, tier, headers, by_mode, work, timing)
        del headers, by_mode
        gc.collect()

    missing = [f for f in STACK_FAMILIES + STRING_FAMILIES + OTHER_FAMILIES if f not in seen]
    if missing:
        raise MachineryError(f"TLC did not enumerate the families {missing}")
    if tier == "thorough":
        cov = chk.cov.get("tlc_action_coverage", {})
        never = [a for a in ("Init", "PushLayer", "AppendSymbol")
                 if not any(v.get(a, [0])[0] > 0 for v in cov.values())]
        chk.cov["actions_never_taken"] = never
        if never:
            raise MachineryError(f"actions of Config.tla never taken: {never}")
    not_run = [c for c in CONTROLS if c not in controls_done]
    if not_run:
        raise MachineryError(f"negative controls not executed: {not_run}")
    chk.cov["negative_controls"] = controls_done
    chk.cov["timing_s"] = timing

    chk.cov["exhaustive"] = True
    chk.cov["rule"] = (
        "TLC enumerates (bounds in spec/MC_Config*.cfg): every stack of <= MaxL3 layers over the 5 sources x every "
        "subset of {loop, panic_error_codes, solver_timeout_assertion}, every stack of <= MaxL2 layers over "
        "{solver, solver_command} (<= MaxLE with '' commands), each on a void root and on default_config(); every "
        "string of length <= MaxStr over a 6/7-symbol alphabet per grammar (timeout, error codes, CSV ints, "
        "array-length maps in characters and in larger chunks) and <= MaxTok tokens for trace events, classified "
        "W/M/L; every value of the grammars' domains up to the bound of Config.tla; every placement of "
        "@custom:halmos --loop N on 2 contracts x 3 functions x {halmos.toml} x {command line}; every NatSpec text "
        "of <= 3 segments. Non-trivial: >= 2 layers compete, the string is W or M, a value is round-tripped, an "
        "annotation is present."
    )
    chk.assumptions += [
        "a bare TIMEOUT number is milliseconds (code comment 'keeping ms as the default unit for backward "
        "compatibility', in-repo annotations such as --solver-timeout-branching 1000); the help text itself only "
        "promises '200ms', '5s', '2m', '1h'",
        "lenient (unconstrained) classes: blanks anywhere, empty items / trailing, leading or doubled commas, "
        "leading zeros, signs, digit-group underscores, decimal fractions and exponents in timeouts, 0b/0o codes, "
        "digit-leading or duplicate names in array-length maps, the empty --trace-events list, a TOML float timeout, "
        "several --loop in one NatSpec text (any of them)",
        "get_solver_command is replaced by a stub (no solver lookup/download); run_test/setup are wrapped, not "
        "replaced; stacks whose --solver resolves to None and that have no command are not asked for a command",
    ]
    chk.sample({"stacks": chk.cov.get("stacks_replayed"), "strings": chk.cov.get("strings_replayed"),
                "values": chk.cov.get("cases_values"), "scope_scenarios": chk.cov.get("cases_scope"),
                "natspec_texts": chk.cov.get("cases_natspec")})
    chk.cov["total_wall_s"] = round(time.time() - t0, 1)


def replay_families(chk: Check, tier: str, headers, by_mode, work, timing):
    # ---- 1. precedence: every enumerated stack ------------------------------------------------
    t1 = time.time()
    for mode, out in cr.config_replay_stacks(headers, by_mode).items():
        report(chk, out, f"stacks_{mode}")
        chk.count("traces_validated_against_impl", out.cases)
        chk.count("stacks_replayed", out.cases)
        chk.count("distinct_nontrivial", out.counts.get("stacks_ge2_layers", 0))
        timing[f"replay:stacks_{mode}"] = round(time.time() - t1, 1)
        t1 = time.time()

    # ---- 2. values: round trips (reported first among the string families) ------------------------
    if by_mode.get("RT"):
        t1 = time.time()
        vals = cr.config_replay_values(by_mode["RT"], e2e_every=(4 if tier == "quick" else 1), work=work)
        report(chk, vals, "values")
        chk.count("traces_validated_against_impl", vals.cases)
        chk.count("distinct_nontrivial", vals.cases)
        r2, vd = cr.config_validate_with_spec(vals.extra, work)
        chk.add_tlc(r2)
        report(chk, cr.config_check_validation(vals.extra, vd), "unparse_validated_by_spec")
        timing["replay:values"] = round(time.time() - t1, 1)

    # ---- 3. strings of the value grammars -----------------------------------------------------------
    t1 = time.time()
    for kind, out in cr.config_replay_strings(headers, by_mode).items():
        report(chk, out, f"strings_{kind}")
        chk.count("traces_validated_against_impl", out.cases)
        chk.count("strings_replayed", out.cases)
        chk.count("distinct_nontrivial", out.counts.get("class_W", 0) + out.counts.get("class_M", 0))
    if by_mode.get("X"):
        probes = cr.Outcome()
        with cr.config_quiet():
            for i, rec in enumerate(by_mode["X"]):
                cr.config_judge_string(probes, rec["k"], rec["s"], rec["o"], i)
        report(chk, probes, "probes")
    if by_mode.get("TS"):
        report(chk, cr.config_replay_toml_scalars(by_mode["TS"]), "toml_scalars")
    timing["replay:strings"] = round(timing.get("replay:strings", 0) + time.time() - t1, 1)

    # ---- 4. annotation scoping ---------------------------------------------------------------------
    if by_mode.get("SC"):
        t1 = time.time()
        sc = cr.config_replay_scope_parallel(by_mode["SC"], work, deep_every=(32 if tier == "quick" else 1))
        report(chk, sc, "scope")
        chk.count("traces_validated_against_impl", sc.cases)
        chk.count("distinct_nontrivial", sc.counts.get("scenarios_with_annotations", 0))
        ns = cr.config_replay_natspec(by_mode["NS"])
        report(chk, ns, "natspec")
        chk.count("traces_validated_against_impl", ns.cases)
        timing["replay:scope"] = round(time.time() - t1, 1)


def controls(headers, by_mode, done: dict):
    """Every comparison is run once against a deliberately wrong implementation / expectation."""
    if "S3" in headers and "value_with_source_ge" not in done:
        res = {
            "value_with_source_ge": cr.config_control_resolver(headers, by_mode, cr.config_mutant_value_with_source),
            "most_recent_layer_wins": cr.config_control_resolver(headers, by_mode, cr.config_mutant_recent_wins),
        }
        base = cr.config_replay_stack_records(("S3", headers["S3"]["hdr"], by_mode["S3"][-60:]))
        if base.nmismatch:
            res["unmutated_same_records_mismatches"] = base.nmismatch
        _require(res)
        done.update(res)
    if "S2" in headers and "solver_command_gt" not in done:
        res = {
            "value_with_source_ge_S2": cr.config_control_resolver(
                headers, by_mode, cr.config_mutant_value_with_source, mode="S2"),
            "solver_command_gt": cr.config_control_solver_command(headers, by_mode),
        }
        _require(res)
        done.update(res)
    if all(k in headers for k in ("T", "E", "C", "A")) and "strings" not in done:
        strings = cr.config_control_strings(headers, by_mode)
        for kind, (defaulting, mutated, n) in strings.items():
            if defaulting == 0:
                raise MachineryError(f"negative control: a parser that silently defaults was accepted for {kind}")
            if not n or mutated == 0:
                raise MachineryError(f"negative control: mutated expected values were accepted for {kind}")
        done["strings"] = {k: {"defaulting_parser_rejected": a, "mutated_expectation_rejected": b}
                           for k, (a, b, _n) in strings.items()}
    if by_mode.get("SC") and "scope_leak" not in done:
        # an annotation leaking to the sibling contract must be noticed
        leak = cr.Outcome()
        rec = next(r for r in by_mode["SC"] if r["sites"] == [10] and not r["cli"] and not r["file"])
        observed = {(c, f): (110, 110, 3) for c in (1, 2) for f in range(3)}
        cr.config_scope_compare(leak, rec, observed, "control")
        _require({"scope_leak": leak.nmismatch})
        done["scope_leak"] = leak.nmismatch
        # halmos with function annotations switched off, observed through halmos._main
        rec = next(r for r in by_mode["SC"] if r["sites"] == [12] and not r["cli"] and r["file"])
        wd = workdir("c18ctl")
        try:
            with cr.config_patched(cr.hmain, "with_devdoc", lambda args, sig, cj: args):
                o = cr.config_replay_scope([rec], wd, deep_every=1)
        finally:
            cleanup(wd)
        _require({"scope_devdoc_ignored": o.nmismatch})
        done["scope_devdoc_ignored"] = o.nmismatch
    if by_mode.get("RT") and "lossy_unparse" not in done:
        # a lossy unparse must be noticed
        lossy = staticmethod(lambda values: ",".join(str(v) for v in values[:1]))
        with cr.config_patched(cr.ParseCSVInt, "unparse", lossy):
            o = cr.config_replay_values([r for r in by_mode["RT"] if r["k"] == "C"][:40], e2e_every=10**9)
        _require({"lossy_unparse": o.counts.get("values_not_roundtripping", 0)})
        done["lossy_unparse"] = o.counts.get("values_not_roundtripping", 0)


def _require(res: dict):
    for k, v in res.items():
        if k.startswith("unmutated"):
            continue
        if v == 0:
            raise MachineryError(f"negative control {k}: a wrong implementation was accepted on every replayed case")


def replay(chk: Check, path: str):
    """Re-run one recorded disagreement (the replay files carry the exact input)."""
    d = json.load(open(path))
    with cr.config_quiet():
        if "string" in d and "kind" in d:
            accepted = {}
            for chan, (status, val) in cr.config_channels(d["kind"], d["string"], 0):
                print(f"{chan}: {status} {cr.config_show(d['kind'], val) if status == 'ok' else val}")
                if status == "ok":
                    accepted[chan] = cr.config_show(d["kind"], val)
            if d.get("expected") == "rejected" and accepted:
                chk.violation(d["key"], d["what"], d)
        elif "failing" in d:
            bad = 0
            for it in d["failing"]:
                v = float(cr.Fraction(it["value"]))
                text = cr.ParseTimeout.unparse(v)
                back = cr.ParseTimeout.parse(text)
                if abs(back - v) > 1e-12:
                    bad += 1
                    if bad <= 5:
                        print(f"{v} -> {text!r} -> {back}")
            if bad:
                chk.violation(d["key"], d["what"], d)
        elif "toml" in d and "option" in d:
            try:
                got = cr.toml_parser().parse_str(f"[global]\n{d['toml']}\n")
                print("accepted:", got)
                if d.get("expected") == "rejected":
                    chk.violation(d["key"], d["what"], d)
            except (SystemExit, Exception) as e:  # noqa: BLE001
                print("rejected:", type(e).__name__, e)
        else:
            print(json.dumps(d, indent=1))
    chk.count("evaluations", 1)
