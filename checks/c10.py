"""C10 - incomplete exploration is always reported.

(A) SymExec.tla models SEVM.jumpi's unroll accounting under solver `unknown`s; TLC checks
    NeverDropFeasible / DeterminedLoopsNeverCut / SoundPaths and every terminal state is replayed into
    SEVM.run with the same fault schedule (covered inputs, returned values, bounded flag, number of
    solver queries must all agree).
(B) run_contract scenarios (regular tests, setUp, invariant targets, --width, --depth, unsupported
    opcodes, concrete loops): the paths halmos explores are captured, their coverage of an argument
    grid is evaluated, and whenever an input is not covered the test must carry a warning or a non-PASS
    status; the reference machine (TLC, Evm.tla) says which inputs matter.
"""

from __future__ import annotations

import random
import re
from contextlib import contextmanager

import z3

from harness import e1, reftest, symexec_replay as sr, zeval
from harness.artifacts import Contract, Fn, arg, panic, revert_plain, run_contract, selector
from harness.asm import assemble
from harness.common import Check, MachineryError, cleanup, run_tlc, workdir
from harness.hrun import hmain

WARN_PATTERNS = ("loop unrolling bound", "incomplete execution due to the specified limit")


# ---------------------------------------------------------------------------------------------
# (A) model + replay


def part_a(chk: Check, tier: str, work):
    cfg = "MC_SymExec.cfg" if tier == "quick" else "MC_SymExec_big.cfg"
    r = run_tlc("SymExec", cfg, work=work, coverage=True, expect_violation=True)
    if not r.ok:
        raise MachineryError(f"SymExec.tla violates its own invariant {r.violated}:\n{r.stdout[-2000:]}")
    chk.add_tlc(r)
    never = [a for a, (d, t) in r.coverage.items() if t == 0]
    if never:
        raise MachineryError(f"SymExec.tla: actions never taken: {never}")
    nmax = 5 if tier == "quick" else 7
    scen = {}
    for rec in r.records:
        scen[(rec["lo0"], rec["hi0"], rec["loop"], tuple(rec["sched"]))] = rec
    keys = sorted(scen)
    rnd = random.Random(chk.seed * 31 + 10)
    if tier == "quick":
        keys = [k for k in keys if not k[3]] + rnd.sample([k for k in keys if k[3]], 250)
    elif len(keys) > 6000:
        keys = [k for k in keys if not k[3]] + rnd.sample([k for k in keys if k[3]], 6000)
    for k in keys:
        rec = scen[k]
        got = sr.run_scenario(k[0], k[1], k[2], list(k[3]), nmax)
        want = sr.expected(rec)
        chk.count("evaluations")
        chk.count("traces_validated_against_impl")
        chk.nontrivial(("symexec", k))
        desc = {"lo0": k[0], "hi0": k[1], "loop": k[2], "unknown_at_check_calls": list(k[3]), "halmos": repr(got), "model": repr(want)}
        if sorted(map(repr, got[0])) != sorted(map(repr, want[0])):
            covered_h = {v for cov, _ in got[0] if cov for v in cov}
            covered_m = {v for cov, _ in want[0] for v in cov}
            if covered_m - covered_h and not got[1]:
                chk.violation(f"symexec:dropped:{k}", f"loop n in {k[0]}..{k[1]}, --loop {k[2]}, unknown at {list(k[3])}: inputs {sorted(covered_m - covered_h)} are explored by the model but by no halmos path, and no bounded-loop flag is set", desc)
            else:
                chk.violation(f"symexec:paths:{k}", f"loop n in {k[0]}..{k[1]}, --loop {k[2]}, unknown at {list(k[3])}: yielded paths differ from SymExec.tla", desc)
        elif got[1] != want[1]:
            chk.violation(f"symexec:flag:{k}", f"loop n in {k[0]}..{k[1]}, --loop {k[2]}, unknown at {list(k[3])}: bounded flag {got[1]}, SymExec.tla {want[1]}", desc)
        elif got[2] != want[2]:
            chk.violation(f"symexec:queries:{k}", f"loop n in {k[0]}..{k[1]}, --loop {k[2]}: {got[2]} solver queries, SymExec.tla {want[2]}", desc)
        chk.sample({"scenario": desc})
    # negative control: a run whose solver answers differ from the schedule the model assumed must be told apart
    ctrl = None
    for k in sorted(scen):
        k0 = (k[0], k[1], k[2], ())
        if k[3] and k0 in scen and sr.expected(scen[k]) != sr.expected(scen[k0]):
            ctrl = (k, k0)
            break
    if ctrl is None:
        raise MachineryError("no faulted scenario distinguishable from its fault-free twin")
    k, k0 = ctrl
    got = sr.run_scenario(k0[0], k0[1], k0[2], [], nmax)
    want = sr.expected(scen[k])
    if (sorted(map(repr, got[0])), got[1], got[2]) == (sorted(map(repr, want[0])), want[1], want[2]):
        raise MachineryError("negative control accepted: the replay comparison does not bind")
    chk.count("negative_controls_rejected")


# ---------------------------------------------------------------------------------------------
# (B) run_contract scenarios


@contextmanager
def capture_paths():
    """Record the path conditions of every Exec that run_test / the frontier computation consume."""
    rec: dict = {"tests": {}, "targets": {}}
    orig_rm, orig_tf = hmain.run_message, hmain.run_target_function

    def run_message(ctx, sevm, message, dyn_params):
        for ex in orig_rm(ctx, sevm, message, dyn_params):
            rec["tests"].setdefault(ctx.info.sig, []).append((list(ex.path.conditions.keys()), ex.context.output.error, ex.context.is_stuck()))
            yield ex

    def run_target_function(args, ex, addr, abi, fun_info, *a, **kw):
        for post in orig_tf(args, ex, addr, abi, fun_info, *a, **kw):
            rec["targets"].setdefault(fun_info.sig, []).append((list(post.path.conditions.keys()), post.context.output.error, post.context.is_stuck()))
            yield post

    hmain.run_message, hmain.run_target_function = run_message, run_target_function
    try:
        yield rec
    finally:
        hmain.run_message, hmain.run_target_function = orig_rm, orig_tf


def arg_symbols(conds) -> dict:
    """name of the symbol standing for the i-th static argument, from the path conditions."""
    out = {}
    seen = set()

    def walk(e):
        if e.get_id() in seen:
            return
        seen.add(e.get_id())
        if z3.is_const(e) and e.decl().kind() == z3.Z3_OP_UNINTERPRETED:
            m = re.match(r"^p_p(\d+)_uint256_", e.decl().name())
            if m:
                out[int(m.group(1))] = e.decl().name()
            return
        for c in e.children():
            walk(c)

    for c in conds:
        walk(c)
    return out


def covered_values(paths, values) -> set:
    """argument values (single uint256 argument) covered by some non-stuck recorded path."""
    cov = set()
    for conds, err, stuck in paths:
        if stuck:
            continue
        syms = arg_symbols(conds)
        for v in values:
            env = {nm: v for nm in syms.values()}
            ev = zeval.Evaluator(env)
            try:
                if all(ev.add_condition(c) for c in conds):
                    cov.add(v)
            except (zeval.Unbound, zeval.Unsupported):
                cov.add(v)  # undecidable for the harness: never a source of alarms
    return cov


def flagged(out, name: str) -> bool:
    text = out.logs + "\n" + out.stdout
    for line in re.split(r"\n(?=\S)", text):
        if any(p in line for p in WARN_PATTERNS) and name in line.replace("\n", " "):
            return True
    return False


def loop_test_body(K: int, T: int) -> list:
    """check(uint256 n): require(n <= K); i = 0; while (i < n) i++; if (i == T) Panic(1)"""
    return (
        [("PUSH", K)] + arg(0) + ["GT", ("PUSHL", "rev"), "JUMPI"]
        + [("PUSH", 0), ("LABEL", "head")] + arg(0) + ["DUP2", "LT", ("PUSHL", "body"), "JUMPI"]
        + [("PUSH", T), "EQ", ("PUSHL", "bad"), "JUMPI", "STOP"]
        + [("LABEL", "body"), ("PUSH", 1), "ADD", ("PUSHL", "head"), "JUMP"]
        + [("LABEL", "bad")] + panic(1) + [("LABEL", "rev")] + revert_plain()
    )


def uniq(body: list, tag: str) -> list:
    """make the labels of a body unique within a contract"""
    out = []
    for it in body:
        if isinstance(it, tuple) and it[0] in ("LABEL", "PUSHL", "MARK"):
            out.append((it[0], f"{it[1]}_{tag}"))
        else:
            out.append(it)
    return out


def regular_loops(chk: Check, tier: str, work):
    K = 5
    combos = [(L, T) for L in (1, 2, 3) for T in (0, 2, 4)] if tier == "quick" else [(L, T) for L in (1, 2, 3, 4, 6) for T in range(0, 6)]
    fns = [Fn("setUp()", ["STOP"])]
    for L, T in combos:
        fns.append(Fn(f"check_loop_L{L}_T{T}(uint256)", uniq(loop_test_body(K, T), f"{L}{T}"), devdoc=f"--loop {L}"))
    # a loop with a concrete trip count far above --loop: must be explored to its end (and fail)
    conc = [("PUSH", 0), ("LABEL", "h")] + [("PUSH", 9), "DUP2", "LT", ("PUSHL", "b"), "JUMPI", ("PUSH", 9), "EQ", ("PUSHL", "x"), "JUMPI", "STOP",
            ("LABEL", "b"), ("PUSH", 1), "ADD", ("PUSHL", "h"), "JUMP", ("LABEL", "x")] + panic(1)
    fns.append(Fn("check_concrete_loop()", uniq(conc, "c"), devdoc="--loop 2"))
    c = Contract("LoopT", fns)
    with capture_paths() as rec:
        out = run_contract(c)
    if out.exception:
        raise MachineryError(out.exception)
    res = out.by_sig()
    # reference: which n fail
    cases, index = [], {}
    for L, T in combos:
        sig = f"check_loop_L{L}_T{T}(uint256)"
        for n in range(0, K + 2):
            cid = len(cases)
            cases.append(reftest.test_case(cid, c, sig, reftest.encode_static(sig, (n,))))
            index[cid] = (sig, n)
    cid = len(cases)
    cases.append(reftest.test_case(cid, c, "check_concrete_loop()", reftest.encode_static("check_concrete_loop()", ())))
    index[cid] = ("check_concrete_loop()", 0)
    recs, tr = e1.run_spec(cases, work)
    chk.add_tlc(tr)
    fails = {}
    for cid, (sig, n) in index.items():
        if reftest.is_failure(recs[cid], {1}):
            fails.setdefault(sig, []).append(n)
    for L, T in combos:
        sig = f"check_loop_L{L}_T{T}(uint256)"
        r = res[sig]
        name = sig.split("(")[0]
        cov = covered_values(rec["tests"].get(sig, []), range(0, K + 2))
        missing = sorted(set(range(0, K + 1)) - cov)  # n = K+1 reverts and is covered by the revert path
        clean = r.exitcode == 0 and not flagged(out, name)
        chk.count("evaluations")
        chk.count("traces_validated_against_impl")
        chk.nontrivial(("regular-loop", L, T, bool(missing)))
        info = {"test": sig, "loop": L, "T": T, "covered": sorted(cov), "missing": missing, "exitcode": r.exitcode, "reference_failing_n": fails.get(sig, []),
                "halmos_output": (out.stdout + out.logs)[-1500:]}
        if missing and clean:
            chk.violation(f"regular-loop:unreported:L{L}:T{T}", f"{sig} with --loop {L}: inputs n={missing} are not explored, yet the test is a clean PASS without a loop-bound warning", info)
        if not missing and fails.get(sig) and r.exitcode == 0:
            chk.violation(f"regular-loop:missed-failure:L{L}:T{T}", f"{sig}: fully explored but PASS although n={fails[sig]} fails", info)
        chk.sample({k: info[k] for k in ("test", "loop", "covered", "missing", "exitcode")})
    r = res["check_concrete_loop()"]
    chk.count("traces_validated_against_impl")
    if not fails.get("check_concrete_loop()"):
        raise MachineryError("reference: the concrete loop test should fail")
    if r.exitcode == 0:
        chk.violation("concrete-loop:cut", "check_concrete_loop(): a loop with a concrete condition (9 iterations, --loop 2) was cut: PASS although the reference execution fails", {"halmos_output": (out.stdout + out.logs)[-1500:]})
    if flagged(out, "check_concrete_loop"):
        chk.violation("concrete-loop:flagged", "check_concrete_loop(): a loop with a concrete condition produced a loop-bound warning", {"halmos_output": (out.stdout + out.logs)[-1500:]})


def limits_and_unsupported(chk: Check, tier: str):
    # four-way branching test: --width 2 must warn; --depth small must warn; an unsupported opcode must not PASS
    body = arg(0) + [("PUSH", 3), "AND", "DUP1", ("PUSH", 0), "EQ", ("PUSHL", "a"), "JUMPI", "DUP1", ("PUSH", 1), "EQ", ("PUSHL", "b"), "JUMPI",
                     "DUP1", ("PUSH", 2), "EQ", ("PUSHL", "c"), "JUMPI", "STOP", ("LABEL", "a"), "STOP", ("LABEL", "b"), "STOP", ("LABEL", "c"), "STOP"]
    unsup = arg(0) + [("PUSH", 7), "EQ", ("PUSHL", "u"), "JUMPI", "STOP", ("LABEL", "u"), ("RAW", bytes([0x49])), "STOP"]  # BLOBHASH
    # ... also when the unsupported instruction sits one or two frames below the test (the test calls itself)
    def call_self(sig):
        return [("PUSHN", 32, int(selector(sig), 16) << 224), ("PUSH", 0), "MSTORE", ("PUSH", 0), ("PUSH", 0), ("PUSH", 4), ("PUSH", 0), ("PUSH", 0), "ADDRESS", ("PUSH", 0xFFFFFF), "CALL", "POP", "STOP"]

    c = Contract("LimitT", [Fn("setUp()", ["STOP"]), Fn("check_wide(uint256)", uniq(body, "w")), Fn("check_unsupported(uint256)", uniq(unsup, "u")),
                            Fn("boom()", [("RAW", bytes([0x49])), "STOP"]), Fn("relay()", call_self("boom()")),
                            Fn("peek(uint256)", arg(0) + ["MLOAD", "POP", "STOP"]),
                            Fn("check_nested_unsupported()", call_self("boom()")), Fn("check_nested2_unsupported()", call_self("relay()")),
                            Fn("check_nested_symbolic(uint256)", [("PUSHN", 32, int(selector("peek(uint256)"), 16) << 224), ("PUSH", 0), "MSTORE"] + arg(0) + [("PUSH", 4), "MSTORE",
                                ("PUSH", 0), ("PUSH", 0), ("PUSH", 36), ("PUSH", 0), ("PUSH", 0), "ADDRESS", ("PUSH", 0xFFFFFF), "CALL", "POP", "STOP"])])
    for cli, what, sig in [(("--width", "2"), "--width", "check_wide(uint256)"), (("--depth", "12"), "--depth", "check_wide(uint256)"),
                           (("--depth", "38"), "--depth", "check_wide(uint256)")]:
        with capture_paths() as rec:
            out = run_contract(c, cli=cli, funsigs=[sig])
        r = out.by_sig().get(sig)
        if r is None:
            raise MachineryError(f"no result for {sig} under {cli}: {out.stdout[-300:]} {out.exception}")
        cov = covered_values(rec["tests"].get(sig, []), range(0, 4))
        missing = sorted(set(range(4)) - cov)
        chk.count("traces_validated_against_impl")
        chk.nontrivial(("limit", what, bool(missing)))
        if missing and r.exitcode == 0 and not flagged(out, "check_wide"):
            chk.violation(f"limit:{what}:unreported", f"{sig} under {' '.join(cli)}: inputs {missing} unexplored, clean PASS without warning", {"halmos_output": (out.stdout + out.logs)[-1500:]})
    out = run_contract(c, funsigs=["check_unsupported(uint256)"])
    r = out.by_sig().get("check_unsupported(uint256)")
    chk.count("traces_validated_against_impl")
    chk.nontrivial(("unsupported-opcode",))
    if r is None or r.exitcode == 0:
        chk.violation("unsupported-opcode:pass", "check_unsupported(uint256): a path stopped by an unsupported opcode yet the test is PASS", {"halmos_output": (out.stdout + out.logs)[-1500:]})
    # ... also when the solver that is asked to confirm the stopped path gives no verdict (timeout, crash, garbage): the
    # path was not explored to its end all the same
    import json as _json
    import sys as _sys
    from pathlib import Path as _P

    stub = str(_P(__file__).resolve().parent.parent / "harness" / "stub_solver.py")
    wdir = workdir("c10s")
    try:
        for kind in ("unknown", "garbage", "nonzero", "empty"):
            scen = wdir / f"scen-{kind}.json"
            scen.write_text(_json.dumps({"default": {"kind": kind}, "replies": {}}))
            out = run_contract(c, funsigs=["check_unsupported(uint256)"], cli=("--solver-command", f"{_sys.executable} -S {stub} {scen}"))
            r = out.by_sig().get("check_unsupported(uint256)")
            chk.count("traces_validated_against_impl")
            chk.nontrivial(("unsupported-opcode", "solver", kind))
            if r is None or r.exitcode == 0:
                chk.violation(f"unsupported-opcode:pass:solver-{kind}", f"check_unsupported(uint256): a path stopped by an unsupported opcode, the solver asked about it answers '{kind}': the test is a clean PASS",
                              {"halmos_output": (out.stdout + out.logs)[-1500:]})
    finally:
        cleanup(wdir)
    for sig in ("check_nested_unsupported()", "check_nested2_unsupported()", "check_nested_symbolic(uint256)"):
        out = run_contract(c, funsigs=[sig])
        r = out.by_sig().get(sig)
        chk.count("traces_validated_against_impl")
        chk.nontrivial(("unsupported-nested", sig))
        if r is None or r.exitcode == 0:
            chk.violation(f"unsupported-nested:{sig}:pass", f"{sig}: the only path is stopped by an unsupported feature inside a nested call, yet the test is a clean PASS",
                          {"halmos_output": (out.stdout + out.logs)[-1500:]})


def setup_loop(chk: Check, tier: str):
    """setUp() loops a symbolic number of times (svm.createUint256) and continues for i == 1 or i == 4 only; the test that
    follows fails in the state i == 4, which lies beyond --loop 2: the PASS on the surviving state (i == 1) needs the warning.
    Second variant: only i == 3 continues - no setUp path survives the bound."""
    from harness.artifacts import SVM, cheat_call

    L = 2
    for variant, goods, bad in (("partial", (1, 4), 4), ("none", (3,), 3)):
        name_arg = [("PUSH", 0x20)]  # string offset; the string itself is left empty
        setup = cheat_call(SVM, "createUint256(string)", [name_arg, [("PUSH", 0)]], ret_words=1, mem=0x200)
        # n = mem[0x300]; i = 0; while (i < n) i++; require(i in goods); sstore(0, i)
        setup += [("PUSH", 0), ("LABEL", "h"), ("PUSH", 0x300), "MLOAD", "DUP2", "LT", ("PUSHL", "b"), "JUMPI"]
        for gval in goods:
            setup += ["DUP1", ("PUSH", gval), "EQ", ("PUSHL", "ok"), "JUMPI"]
        setup += [("PUSH", 0), ("PUSH", 0), "REVERT", ("LABEL", "b"), ("PUSH", 1), "ADD", ("PUSHL", "h"), "JUMP", ("LABEL", "ok"), ("PUSH", 0), "SSTORE", "STOP"]
        test = [("PUSH", 0), "SLOAD", ("PUSH", bad), "EQ", "ISZERO", ("PUSHL", "fine"), "JUMPI"] + panic(1) + [("LABEL", "fine"), "STOP"]
        c = Contract("SetupLoopT" + variant, [Fn("setUp()", setup, devdoc=f"--loop {L}"), Fn("check_after_setup()", test)])
        out = run_contract(c)
        res = out.by_sig()
        chk.count("traces_validated_against_impl")
        chk.nontrivial(("setup-loop", variant))
        r = res.get("check_after_setup()")
        # the setUp state in which the test fails is beyond the bound: either setUp fails as a whole (no test result), or the
        # test is not a clean PASS, or a loop-bound warning for setUp is present
        if r is not None and r.exitcode == 0 and not flagged(out, "setUp"):
            chk.violation(f"setup-loop:unreported:{variant}", f"setUp() was cut by the loop bound (states i in {goods} continue, --loop {L}) but the test that follows, which fails in the state i == {bad}, "
                          "is a clean PASS without a warning", {"halmos_output": (out.stdout + out.logs)[-1500:]})
        if variant == "partial" and r is None:
            raise MachineryError(f"setUp with a surviving path produced no test result: {out.stdout[-400:]} {out.exception}")
        chk.sample({"setup_loop": {"variant": variant, "result": None if r is None else r.exitcode, "flagged": flagged(out, "setUp")}})


def invariant_target_loop(chk: Check, tier: str, work):
    """A target function loops n times; the invariant breaks for n == T only, beyond --loop."""
    K, T, L = 5, 4, 2
    # target: inc(uint256 n): require(n <= K); for (i < n) i++; sstore(0, i)
    inc = ([("PUSH", K)] + arg(0) + ["GT", ("PUSHL", "rev"), "JUMPI", ("PUSH", 0), ("LABEL", "h")] + arg(0) + ["DUP2", "LT", ("PUSHL", "b"), "JUMPI",
           ("PUSH", 0), "SSTORE", "STOP", ("LABEL", "b"), ("PUSH", 1), "ADD", ("PUSHL", "h"), "JUMP", ("LABEL", "rev")] + revert_plain())
    get = [("PUSH", 0), "SLOAD", ("PUSH", 0), "MSTORE", ("PUSH", 32), ("PUSH", 0), "RETURN"]
    target = Contract("Counter", [Fn("inc(uint256)", inc), Fn("get()", get, mutability="view")], filename="src/Counter.sol")
    tinit = target.creation()
    # test contract: setUp deploys Counter and stores its address in slot 0; invariant: Counter.get() != T
    setup = [("PUSHN", 2, len(tinit)), ("PUSHL", "tinit"), ("PUSH", 0x100), "CODECOPY", ("PUSHN", 2, len(tinit)), ("PUSH", 0x100), ("PUSH", 0), "CREATE",
             ("PUSH", 0), "SSTORE", "STOP"]
    inv = [("PUSHN", 32, int(selector("get()"), 16) << 224), ("PUSH", 0), "MSTORE",
           ("PUSH", 32), ("PUSH", 0x40), ("PUSH", 4), ("PUSH", 0), ("PUSH", 0), ("PUSH", 0), "SLOAD", ("PUSH", 0xFFFFFF), "CALL", "POP",
           ("PUSH", 0x40), "MLOAD", ("PUSH", T), "EQ", ("PUSHL", "bad"), "JUMPI", "STOP", ("LABEL", "bad")] + panic(1)
    test = Contract("InvT", [Fn("setUp()", setup), Fn("invariant_counter()", inv)], data=[("MARK", "tinit"), ("RAW", tinit)])
    with capture_paths() as rec:
        out = run_contract(test, others=[target], cli=("--loop", str(L), "--invariant-depth", "1"))
    if out.exception:
        raise MachineryError(out.exception)
    r = out.by_sig().get("invariant_counter()")
    if r is None:
        raise MachineryError(f"no invariant result: {out.stdout[-500:]}")
    cov = covered_values(rec["targets"].get("inc(uint256)", []), range(0, K + 1))
    missing = sorted(set(range(K + 1)) - cov)
    chk.count("traces_validated_against_impl")
    chk.nontrivial(("invariant-target-loop", bool(missing)))
    info = {"covered_n": sorted(cov), "missing_n": missing, "exitcode": r.exitcode, "halmos_output": (out.stdout + out.logs)[-2000:]}
    if not rec["targets"].get("inc(uint256)"):
        raise MachineryError(f"the target function was not explored: {out.stdout[-800:]}")
    if missing and r.exitcode == 0 and not (flagged(out, "inc") or flagged(out, "invariant_counter")):
        chk.violation("invariant-target-loop-unreported", f"invariant test with --loop {L}: calls inc(n) for n={missing} are not explored (the invariant breaks at n={T}), yet invariant_counter() is a clean PASS and no loop-bound warning is printed", info)
    chk.sample({"invariant_target_loop": {k: info[k] for k in ("covered_n", "missing_n", "exitcode")}})


def invariant_target_unsupported(chk: Check, tier: str):
    """A target call is stopped by something halmos does not support (MSTORE at a symbolic offset, resp. an
    unsupported opcode) on exactly the path that breaks the invariant: a clean PASS without any report is wrong."""
    for tag, stuck in (("symbolic-memory-offset", arg(0) + [("PUSH", 1), "SWAP1", "MSTORE"]), ("unsupported-opcode", [("RAW", bytes([0x49])), "POP"])):
        # poke(x): if (x > 100) { <stuck>; sstore(0, 2) } else { sstore(0, 1) }
        poke = [("PUSH", 100)] + arg(0) + ["GT", ("PUSHL", "big"), "JUMPI", ("PUSH", 1), ("PUSH", 0), "SSTORE", "STOP", ("LABEL", "big")] + stuck + [("PUSH", 2), ("PUSH", 0), "SSTORE", "STOP"]
        get = [("PUSH", 0), "SLOAD", ("PUSH", 0), "MSTORE", ("PUSH", 32), ("PUSH", 0), "RETURN"]
        target = Contract("Poker", [Fn("poke(uint256)", poke), Fn("get()", get, mutability="view")], filename="src/Poker.sol")
        tinit = target.creation()
        setup = [("PUSHN", 2, len(tinit)), ("PUSHL", "tinit"), ("PUSH", 0x100), "CODECOPY", ("PUSHN", 2, len(tinit)), ("PUSH", 0x100), ("PUSH", 0), "CREATE",
                 ("PUSH", 0), "SSTORE", "STOP"]
        inv = [("PUSHN", 32, int(selector("get()"), 16) << 224), ("PUSH", 0), "MSTORE",
               ("PUSH", 32), ("PUSH", 0x40), ("PUSH", 4), ("PUSH", 0), ("PUSH", 0), ("PUSH", 0), "SLOAD", ("PUSH", 0xFFFFFF), "CALL", "POP",
               ("PUSH", 0x40), "MLOAD", ("PUSH", 2), "EQ", ("PUSHL", "bad"), "JUMPI", "STOP", ("LABEL", "bad")] + panic(1)
        test = Contract("InvU", [Fn("setUp()", setup), Fn("invariant_not_two()", inv)], data=[("MARK", "tinit"), ("RAW", tinit)])
        out = run_contract(test, others=[target], cli=("--invariant-depth", "1"))
        if out.exception:
            raise MachineryError(out.exception)
        r = out.by_sig().get("invariant_not_two()")
        if r is None:
            raise MachineryError(f"no invariant result: {out.stdout[-500:]}")
        text = out.stdout + out.logs
        reported = flagged(out, "poke") or flagged(out, "invariant_not_two") or any(w in text for w in ("ERROR", "Error", "symbolic memory offset", "Unsupported", "unsupported", "NotConcrete"))
        chk.count("traces_validated_against_impl")
        chk.nontrivial(("invariant-target-unsupported", tag))
        if r.exitcode == 0 and not reported:
            chk.violation(f"invariant-target-unsupported:{tag}", f"invariant test: the only call that breaks the invariant (poke(x), x > 100) is stopped by {tag}; "
                          "invariant_not_two() is a clean PASS and nothing reports the incomplete exploration", {"halmos_output": text[-2000:]})


def invariant_function_loop(chk: Check, tier: str):
    """The loop sits in the invariant function itself, which is evaluated once per frontier state: it is cut on the state
    reached through set(x) (count = x) and not on the one reached through one() (count = 1), in either order."""
    L = 2
    get = [("PUSH", 0), "SLOAD", ("PUSH", 0), "MSTORE", ("PUSH", 32), ("PUSH", 0), "RETURN"]
    for order in (("set(uint256)", "one()"), ("one()", "zset(uint256)")):
        fns = {"set(uint256)": arg(0) + [("PUSH", 0), "SSTORE", "STOP"], "zset(uint256)": arg(0) + [("PUSH", 0), "SSTORE", "STOP"],
               "one()": [("PUSH", 1), ("PUSH", 0), "SSTORE", "STOP"]}
        target = Contract("Cnt", [Fn(sig, fns[sig]) for sig in order] + [Fn("count()", get, mutability="view")], filename="src/Cnt.sol")
        tinit = target.creation()
        setup = [("PUSHN", 2, len(tinit)), ("PUSHL", "tinit"), ("PUSH", 0x100), "CODECOPY", ("PUSHN", 2, len(tinit)), ("PUSH", 0x100), ("PUSH", 0), "CREATE",
                 ("PUSH", 0), "SSTORE", "STOP"]
        # invariant_loop(): n = target.count(); for (i = 0; i < n; i++) {}
        inv = [("PUSHN", 32, int(selector("count()"), 16) << 224), ("PUSH", 0), "MSTORE",
               ("PUSH", 32), ("PUSH", 0x40), ("PUSH", 4), ("PUSH", 0), ("PUSH", 0), ("PUSH", 0), "SLOAD", ("PUSH", 0xFFFFFF), "CALL", "POP",
               ("PUSH", 0), ("LABEL", "h"), ("PUSH", 0x40), "MLOAD", "DUP2", "LT", ("PUSHL", "b"), "JUMPI", "STOP",
               ("LABEL", "b"), ("PUSH", 1), "ADD", ("PUSHL", "h"), "JUMP"]
        test = Contract("InvL", [Fn("setUp()", setup), Fn("invariant_loop()", inv)], data=[("MARK", "tinit"), ("RAW", tinit)])
        out = run_contract(test, others=[target], cli=("--loop", str(L), "--invariant-depth", "1"))
        if out.exception:
            raise MachineryError(out.exception)
        r = out.by_sig().get("invariant_loop()")
        if r is None:
            raise MachineryError(f"no invariant result: {out.stdout[-500:]}")
        chk.count("traces_validated_against_impl")
        chk.nontrivial(("invariant-function-loop", order))
        if r.exitcode == 0 and not flagged(out, "invariant_loop") and not r.num_bounded_loops:
            chk.violation(f"invariant-function-loop-unreported:{'-'.join(order)}", f"invariant_loop() with --loop {L}: on the state reached through set(x) the loop is cut for x > {L}, "
                          "yet the test is a clean PASS without a loop-bound warning", {"targets": order, "halmos_output": (out.stdout + out.logs)[-2000:]})


def setup_and_scope(chk: Check, tier: str):
    """Incomplete exploration outside the body of the test itself: a setUp() stopped inside a nested call, and the same limit hit by tests of the same name in
    two contracts of one run (halmos runs every contract of a project in one process)."""
    def call_self(sig):
        return [("PUSHN", 32, int(selector(sig), 16) << 224), ("PUSH", 0), "MSTORE", ("PUSH", 0), ("PUSH", 0), ("PUSH", 4), ("PUSH", 0), ("PUSH", 0), "ADDRESS", ("PUSH", 0xFFFFFF), "CALL", "POP"]

    # setUp(): x = 1; this.boom() [unsupported opcode]; x = 2.   The test passes exactly on the state in which setUp was abandoned
    for tag, stuck in (("unsupported-opcode", [("RAW", bytes([0x49])), "STOP"]),):
        setup = [("PUSH", 1), ("PUSH", 0), "SSTORE"] + call_self("boom()") + [("PUSH", 2), ("PUSH", 0), "SSTORE", "STOP"]
        test = [("PUSH", 0), "SLOAD", ("PUSH", 1), "EQ", ("PUSHL", "ok"), "JUMPI"] + panic(1) + [("LABEL", "ok"), "STOP"]
        c = Contract("SetupStuckT", [Fn("setUp()", setup), Fn("boom()", stuck), Fn("check_x_is_one()", test)])
        out = run_contract(c, funsigs=["check_x_is_one()"])
        r = out.by_sig().get("check_x_is_one()")
        text = out.stdout + out.logs + str(out.exception or "")
        reported = flagged(out, "setUp") or any(w in text for w in ("ERROR", "Error", "Unsupported", "unsupported", "internal-error", "No successful path"))
        chk.count("traces_validated_against_impl")
        chk.nontrivial(("setup-stuck-nested", tag))
        if r is not None and r.exitcode == 0 and not reported:
            chk.violation(f"setup-stuck-nested:{tag}", "setUp() is stopped by an unsupported opcode inside a nested call; the state at that point (x = 1, the rest of setUp not run) "
                          "is used as the setUp state and check_x_is_one() is a clean PASS without any report", {"halmos_output": text[-1500:]})

    # (a symbolic loop in the constructor of the test contract cannot be cut silently: deploy_test refuses constructors with
    #  more than one path - 'constructor: # of paths: n')

    # two contracts of one run with a test of the same signature, both cut by --depth: both must be reported
    body = arg(0) + [("PUSH", 3), "AND", "DUP1", ("PUSH", 0), "EQ", ("PUSHL", "a"), "JUMPI", "DUP1", ("PUSH", 1), "EQ", ("PUSHL", "b"), "JUMPI",
                     "DUP1", ("PUSH", 2), "EQ", ("PUSHL", "c"), "JUMPI", "STOP", ("LABEL", "a"), "STOP", ("LABEL", "b"), "STOP", ("LABEL", "c"), "STOP"]
    for k, name in enumerate(("DeepOne", "DeepTwo")):
        c = Contract(name, [Fn("setUp()", ["STOP"]), Fn("check_deep(uint256)", uniq(body, "d"))])
        with capture_paths() as rec:
            out = run_contract(c, cli=("--depth", "37"), funsigs=["check_deep(uint256)"])
        r = out.by_sig().get("check_deep(uint256)")
        if r is None:
            raise MachineryError(f"no result for check_deep in {name}: {out.stdout[-300:]} {out.exception}")
        cov = covered_values(rec["tests"].get("check_deep(uint256)", []), range(0, 4))
        missing = sorted(set(range(4)) - cov)
        chk.count("traces_validated_against_impl")
        chk.nontrivial(("same-signature", k, bool(missing)))
        if missing and r.exitcode == 0 and not flagged(out, "check_deep"):
            chk.violation(f"limit:--depth:unreported:contract-{k + 1}-of-2", f"{name}.check_deep(uint256) under --depth 37: inputs {missing} unexplored, clean PASS without warning "
                          "(the test of the same signature in the contract run before it was reported)", {"halmos_output": (out.stdout + out.logs)[-1500:]})


def run(chk: Check, tier: str):
    work = workdir("c10")
    try:
        part_a(chk, tier, work)
        regular_loops(chk, tier, work)
        limits_and_unsupported(chk, tier)
        setup_loop(chk, tier)
        setup_and_scope(chk, tier)
        invariant_target_loop(chk, tier, work)
        invariant_target_unsupported(chk, tier)
        invariant_function_loop(chk, tier)
        # several contracts in one process (MainRun.tla): every cut test is reported, whatever ran before it
        from harness import mainrun_replay

        mainrun_replay.phase(chk, tier, {"warnings"}, "main-run")
    finally:
        cleanup(work)
    chk.cov["rule"] = (
        "(A) all terminal states of SymExec.tla (n in lo0..hi0 <= N, --loop 1..MaxLoop, up to MaxFaults `unknown` answers at "
        "chosen check() calls) replayed into SEVM.run: yielded paths (covered inputs, returned value), bounded flag and "
        "number of solver queries compared; (B) run_contract scenarios with captured paths: symbolic loops x --loop x "
        "failing trip count in regular tests, a concrete loop above the bound, --width, --depth, an unsupported opcode, a "
        "loop in setUp(), a loop inside an invariant target; an input covered by no explored path requires a warning or a "
        "non-PASS status"
    )
