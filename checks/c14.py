"""C14 - prank, state-setting cheatcodes and fresh symbols behave as specified.

Three program families (harness/progs_cheats.py) are executed by TLC on Evm.tla + Cheats.tla (the
per-frame prank machine, deal/store/load/etch/warp/roll/fee/chainId/coinbase/difficulty, and the fresh
value oracle) and by halmos; every covering path must reproduce the reference output.
"""

from __future__ import annotations

import random
import re

import z3

from harness import e1, progs_cheats, zeval
from harness.common import Check, MachineryError, cleanup, workdir
from harness.e1corpus import describe, Item, run_items, release
from harness.hrun import run as halmos_run

from .c01 import judge


def fresh_symbols(hr) -> dict:
    """halmos_* symbols appearing in the paths: name -> (id, bits)."""
    out = {}
    seen = set()

    def walk(e):
        if e.get_id() in seen:
            return
        seen.add(e.get_id())
        if z3.is_const(e) and e.decl().kind() == z3.Z3_OP_UNINTERPRETED:
            nm = e.decl().name()
            m = re.match(r"^halmos_.*_(\d+)$", nm)
            if m and z3.is_bv(e):
                out[nm] = (int(m.group(1)), e.size())
            return
        for c in e.children():
            walk(c)

    for p in hr.paths:
        for c in p.conditions:
            walk(c)
        if p.data is not None and not isinstance(p.data, bytes):
            walk(p.data)
    return out


def run_fresh(chk: Check, tier: str, rnd: random.Random, work):
    n = 40 if tier == "quick" else 800
    progs = [progs_cheats.fam_fresh(rnd, ncalls=rnd.choice([1, 2, 3]), ninputs=4 if tier == "quick" else 8) for _ in range(n)]
    cases, index = [], {}
    hruns = []
    for pi, (prog, inputs) in enumerate(progs):
        hr = halmos_run(prog)
        hruns.append(hr)
        meta = prog.meta["fresh"]
        # which halmos symbol id belongs to the k-th fresh call (zero-sized values create no symbol)
        ids, nxt = [], 1
        for sig, size in meta:
            if size == 0:
                ids.append(None)
            else:
                ids.append(nxt)
                nxt += 1
        for inp in inputs:
            oracle = []
            for sig, size in meta:
                if isinstance(size, tuple):
                    # a value for a ranged symbol: the bounds, their neighbours (outside = not admissible), 2^255 and around, random inside
                    _, lo, hi = size
                    cands = [lo, hi, (lo + hi) // 2, rnd.randint(lo, hi), rnd.randint(lo, hi), min(max(2**255, lo), hi), min(max(2**255 - 1, lo), hi), (lo - 1) % 2**256, (hi + 1) % 2**256]
                    oracle.append(rnd.choice(cands).to_bytes(32, "big"))
                    continue
                nbytes = max(32, size or 0) if ("ytes(" in sig or "String(" in sig) else 32
                k = rnd.random()
                raw = bytes([255] * nbytes) if k < 0.2 else (bytes(nbytes) if k < 0.3 else rnd.randbytes(nbytes))
                oracle.append(raw)
            cid = len(cases)
            cases.append(e1.to_case(cid, prog, inp, oracle=oracle))
            index[cid] = (pi, inp, oracle, ids)
    recs, tr = e1.run_spec(cases, work)
    chk.add_tlc(tr)
    for cid, (pi, inp, oracle, ids) in index.items():
        prog, _ = progs[pi]
        hr = hruns[pi]
        rec = recs[cid]
        chk.count("evaluations")
        if hr.exception:
            chk.violation(f"{prog.name}:exception", f"{prog.name}: exception escaped SEVM.run: {hr.exception}", {"program": prog.name})
            continue
        if rec["status"] not in ("done", "discard"):
            raise MachineryError(f"{prog.name}: reference status {rec['status']}")
        syms = fresh_symbols(hr)
        env = {}
        for nm, (sid, bits) in syms.items():
            if sid not in ids:
                raise MachineryError(f"{prog.name}: unexpected fresh symbol {nm}")
            raw = oracle[ids.index(sid)]
            env[nm] = int.from_bytes(raw, "big") & ((1 << bits) - 1)
        m = e1.match_paths(prog, hr, inp, extra_env=env)
        info = {"program": prog.name, "code": prog.accounts[progs_cheats.TARGET].hex(), "oracle": [o.hex() for o in oracle], "fresh": prog.meta["fresh"],
                "symbols": {k: v for k, v in syms.items()}, "unevaluable": m.unevaluable}
        live = [c for c in m.covering if not c.path.stuck]
        if rec["status"] == "discard":
            # the environment's value lies outside the requested range: no reported path may claim it
            if live:
                chk.violation(f"{prog.name}:range-not-restricting", f"{prog.name}: the value {info['oracle']} is outside the requested range but path {live[0].index} covers it", info)
            else:
                chk.count("traces_validated_against_impl")
                chk.nontrivial((prog.name, tuple(o.hex() for o in oracle), "outside"))
            continue
        if not live:
            if m.unevaluable or any(p.stuck for p in hr.paths):
                chk.count("coverage_undecided")
                continue
            chk.violation(f"{prog.name}:uncovered", f"{prog.name}: no path covers the oracle values {info['oracle']} (created values must be unconstrained within their type)", info)
            continue
        for c in live:
            cl = e1.compare_end_state(c, rec, set(prog.accounts))
            if cl:
                chk.violation(f"{prog.name}:{cl.split(':')[0]}", f"{prog.name}: {cl}", info)
        chk.count("traces_validated_against_impl")
        chk.nontrivial((prog.name, tuple(o.hex() for o in oracle)))
        chk.sample({"program": prog.name, "oracle": info["oracle"][:2], "reference_output": bytes(rec["data"]).hex()[:200]})
    return len(progs)


def later_transactions(chk: Check) -> None:
    """What a state-setting cheatcode sets holds for the rest of its own transaction only: a test that warps / rolls / sets the
    fee, chain id, coinbase and prevrandao is followed by a test that reads the block - the values of setUp's state."""
    from harness.artifacts import HEVM, Contract, Fn, cheat_call, panic, run_contract

    sets = []
    for sig, v in (("warp(uint256)", 1000), ("roll(uint256)", 2000), ("fee(uint256)", 3000), ("chainId(uint256)", 4000), ("coinbase(address)", 0xC0FFEE), ("difficulty(uint256)", 5000)):
        sets += cheat_call(HEVM, sig, [[("PUSH", v)]])
    reads = []
    for k, (op, want) in enumerate((("TIMESTAMP", 1), ("NUMBER", 1), ("BASEFEE", 0), ("CHAINID", 31337), ("COINBASE", 0), ("DIFFICULTY", 0))):
        reads += [op, ("PUSH", want), "EQ", ("PUSHL", f"ok{k}"), "JUMPI"] + panic(1) + [("LABEL", f"ok{k}")]
    c = Contract("BlockLeakT", [Fn("setUp()", ["STOP"]), Fn("check_a_set()", sets + ["STOP"]), Fn("check_b_read()", reads + ["STOP"])])
    for order in (["check_a_set()", "check_b_read()"], ["check_b_read()"]):
        out = run_contract(c, funsigs=order)
        if out.exception:
            raise MachineryError(f"run_contract raised {out.exception}")
        r = out.by_sig().get("check_b_read()")
        chk.count("traces_validated_against_impl")
        chk.nontrivial(("later-transactions", len(order)))
        if r is None or r.exitcode != 0:
            if len(order) == 1:
                raise MachineryError(f"the block defaults assumed by the scenario are not halmos' defaults: {out.stdout[-400:]}")
            chk.violation("later-transaction:block-values-leak", "check_a_set() calls vm.warp/roll/fee/chainId/coinbase/difficulty; the test run after it, check_b_read(), does not read the block "
                          "values of the post-setUp state any more", {"halmos_output": (out.stdout + out.logs)[-1500:]})


def run(chk: Check, tier: str):
    rnd = random.Random(6151 * chk.seed + 14)
    work = workdir("c14")
    try:
        items = []
        nprank = 60 if tier == "quick" else 2500
        for i in range(nprank):
            prog, inputs = progs_cheats.fam_prank(rnd, length=[2, 3, 4, 5, 6][i % 5], ninputs=3)
            items.append(Item(prog, inputs, key=prog.name))
        nstate = 27 if tier == "quick" else 600
        for i in range(nstate):
            prog, inputs = progs_cheats.fam_statecheat(rnd, which=i % len(progs_cheats.STATE_CHEATS), ninputs=4)
            items.append(Item(prog, inputs, key=prog.name))
        later_transactions(chk)
        for br in (False, True):
            prog, inputs = progs_cheats.etch_probe(br)
            items.append(Item(prog, inputs, key=prog.name))
        skipped = 0
        for i in range(0, len(items), 120):
            if i:
                release(items[i - 120 : i])
            outs = run_items(items[i : i + 120], chk)
            judge(chk, outs)
            for o in outs:
                if o.skipped:
                    skipped += 1
                elif not o.covered and not o.flagged and not o.match.unevaluable:
                    chk.violation(f"{o.item.key}:uncovered", f"no reported path covers input {o.inp} of {o.item.key}", describe(o))
        chk.cov["prank_histories"] = nprank
        chk.cov["state_cheat_programs"] = nstate
        chk.cov["cases_left_unspecified"] = skipped
        nfresh = run_fresh(chk, tier, rnd, work)
        chk.cov["fresh_programs"] = nfresh
        chk.cov["programs"] = len(items) + nfresh
    finally:
        cleanup(work)
    chk.cov["rule"] = (
        "prank histories of length 2-6 over {prank, prank2, startPrank, startPrank2, stopPrank, CALL, STATICCALL, CREATE, "
        "cheatcode call, nested frame that itself pranks} with every callee reporting CALLER/ORIGIN; each state cheatcode "
        "followed by the matching read on the targeted and an untargeted account; 1-3 fresh-value cheatcodes per program "
        "with widths 1..256 / byte sizes 0..64, the k-th created value bound to the k-th oracle entry (random, all-ones, "
        "zero); histories whose Foundry behaviour is version dependent (prank over an active prank, pranked DELEGATECALL/"
        "CALLCODE) are left unspecified by Cheats.tla and skipped"
    )
