"""C17 - solver subprocess lifecycle is safe under every schedule (engine E3; spec/Executor.tla).

1. TLC: exhaustive safety for 1-2 jobs (3 jobs in thorough), liveness under weak fairness, mutated models
   (negative controls of the invariants), the as-stated invariants that the code does NOT satisfy
   (cancel-before-popen, join-raises-job-exception: expected violations -> counterexample schedules), and the
   PreFix configurations (order of submit()/_join() before commit 929919f): TLC must find the
   submit-shutdown-toctou counterexample there, and the repaired code must REFUSE to follow it.
2. spec -> code: schedules from TLC (every <=1-preemption schedule of one job, random schedules of 2-3
   jobs, the counterexamples) are replayed into the real PopenExecutor/PopenFuture (and through
   halmos.solve.solve_low_level) under the deterministic scheduler of harness/sched.py; state and enabled
   threads are compared after/before every step.  Property-level facts are observed on the real objects;
   a race that lets a process run after shutdown returned is reported under a stable key.
   Two shutdown requests on one executor (halmos: early-exit callbacks + ExecutorRegistry.shutdown_all) are part
   of the model (threads shut s1/s2): wait=True blocked in _join then wait=False, wait=False twice, wait=False
   then wait=True are model-checked, replayed and run with real subprocesses.
3. code -> property: randomised runs of the unmodified module with real subprocesses; solve_low_level
   with a stub solver that outlives its time limit.
"""

from __future__ import annotations

import hashlib
import json
import random
import time
from pathlib import Path

from harness import exec_tlc as xt
from harness.common import Check, MachineryError, cleanup, workdir

# *_2s_*: TWO shutdown callers on one executor (early-exit callbacks + ExecutorRegistry.shutdown_all at exit)
SAFETY = {"quick": ["MC_Executor_1.cfg", "MC_Executor_2.cfg", "MC_Executor_2s_1.cfg", "MC_Executor_2s_2q.cfg"],
          "thorough": ["MC_Executor_1.cfg", "MC_Executor_2.cfg", "MC_Executor_3.cfg", "MC_Executor_2s_1.cfg",
                       "MC_Executor_2s_2q.cfg", "MC_Executor_2s_2.cfg"]}
# (2-job liveness, MC_Executor_live_2q/live_2/2s_live, is thorough only: on a loaded box it alone took 5 min)
LIVENESS = {"quick": ["MC_Executor_live_1.cfg", "MC_Executor_2s_live_1.cfg"],
            "thorough": ["MC_Executor_live_1.cfg", "MC_Executor_live_2q.cfg", "MC_Executor_live_2.cfg",
                         "MC_Executor_2s_live_1.cfg", "MC_Executor_2s_live.cfg"]}
MUTANTS = {  # cfg -> text that must appear in TLC's verdict
    "MC_ExecMut_set_result_twice.cfg": "ResultAtMostOnce",
    "MC_ExecMut_result_ignores_exc.cfg": "TimeoutIsUnknown",
    "MC_ExecMut_cancel_skips.cfg": "QuiescentUnlessCbp",
    "MC_ExecMut_lost_result.cfg": "WaitReturns",
    "MC_ExecMut_no_check.cfg": "RejectAfterFlag",
    # "idempotent shutdown": a second request returns at once when the flag is already set
    "MC_ExecMut_early_return_safety.cfg": "QuiescentUnlessCbp",
    "MC_ExecMut_early_return_live.cfg": "ShutdownReturnsUnlessCbp",
}
WITNESS = {  # reachability (expected "violation" of a negated goal): the behaviour must exist AND replay cleanly
    "MC_Executor_2s_witness.cfg": "NoWaitThenNoWaitWitness",
}
RACES = {  # cfg -> invariant of the property as stated, violated by the code as written
    "MC_Executor_race_quiescent.cfg": "QuiescentAfterShutdown",
    "MC_Executor_race_cbp.cfg": "NoCancelBeforePopenWitness",
    "MC_Executor_race_joinraise.cfg": "NoJoinRaiseWitness",
}
PREFIX = {  # negative control: order of the code before commit 929919f -> the toctou counterexample
    "MC_Executor_prefix_toctou.cfg": "NoToctouWitness",
    "MC_Executor_prefix_accept.cfg": "NoAcceptAfterShutdown",
    "MC_Executor_prefix_wait.cfg": "NoToctouWaitWitness",
}
BUDGET = {
    "quick": {"pb": [("MC_ExecSched_pb1.cfg", 350), ("MC_ExecSched_2s_pb0.cfg", 300)],
              "sim": [("MC_ExecSched_sim2.cfg", 200), ("MC_ExecSched_2s_sim2.cfg", 150)], "solve_every": 4,
              "real": 24},
    "thorough": {"pb": [("MC_ExecSched_pb2.cfg", 6000), ("MC_ExecSched_2s_pb1.cfg", 3000)],
                 "sim": [("MC_ExecSched_sim2.cfg", 3000), ("MC_ExecSched_sim3.cfg", 2000),
                         ("MC_ExecSched_2s_sim2.cfg", 2000)],
                 "solve_every": 4, "real": 120},
}
# patterns of two shutdown requests that must be among the replayed schedules (label -> predicate on a record)
PATTERN_MIN = 3

# JVM start-up dominates the many small TLC runs: C1 only, few GC/compiler threads (measured 8.7 s -> 1.8 s)
SMALL_JVM = {"JAVA_TOOL_OPTIONS": "-XX:ParallelGCThreads=2 -XX:TieredStopAtLevel=1 -XX:CICompilerCount=1"}
BIG_JVM = {"JAVA_TOOL_OPTIONS": "-XX:ParallelGCThreads=4"}
TRACE_CAP = {"quick": 8, "thorough": 70}  # real-run event logs validated by Trace_Executor.tla (~30k states each)

WHAT = {
    "submit-shutdown-toctou": (
        "REGRESSION of commit 929919f: a job was registered/started after shutdown() had returned (the shutdown "
        "flag is not tested under the executor lock)"),
    "submit-shutdown-toctou:wait": (
        "REGRESSION of commit 929919f: a job was registered after _join() took its snapshot, shutdown(wait=True) "
        "returned while its process runs"),
    "cancel-before-popen": (
        "PopenFuture.cancel is a no-op while self.process is None: shutdown(wait=False) cancels a registered job "
        "whose worker thread has not yet executed Popen, returns, and the process starts afterwards"),
    "join-raises-job-exception": (
        "shutdown(wait=True): _join() re-raises the stored exception of a job (TimeoutExpired/OSError; only "
        "CancelledError is suppressed) and leaves shutdown without waiting for the remaining jobs, whose "
        "processes keep running"),
}


# ---------------------------------------------------------------------------------------------
# TLC phase


def tlc_run(tier: str, seed: int, work: Path):
    """Start every TLC job (no bookkeeping on chk: runs in a background thread)."""
    b = BUDGET[tier]
    jobs, tags = [], []

    big = {"MC_Executor_2.cfg", "MC_Executor_3.cfg", "MC_Executor_live_2q.cfg", "MC_Executor_live_2.cfg",
           "MC_ExecSched_pb2.cfg", "MC_Executor_2s_2q.cfg", "MC_Executor_2s_2.cfg", "MC_Executor_2s_live.cfg",
           "MC_ExecSched_2s_pb1.cfg"}

    def add(tag, module, cfg, **kw):
        tags.append((tag, cfg))
        jobs.append(dict(module=module, cfg=cfg, env=BIG_JVM if cfg in big else SMALL_JVM, **kw))

    for cfg in SAFETY[tier]:
        add("safety", "Executor", cfg, coverage=True, workers=8 if cfg in big else 2,
            heap="6g" if cfg == "MC_Executor_3.cfg" else None)
    for cfg in LIVENESS[tier]:
        add("live", "Executor", cfg, workers=4 if cfg in big else 2)
    for cfg, _ in b["pb"]:
        add("pb", "ExecSched", cfg, workers=4)
    for i, (cfg, n) in enumerate(b["sim"]):
        add("sim", "ExecSched", cfg, workers=1,
            extra=["-simulate", f"num={n}", "-depth", "400", "-seed", str(1 + seed * 7 + i), "-aril", "0"])
    for cfg in MUTANTS:
        add("mutant", "ExecMut", cfg, workers=1, expect_violation=True)
    for cfg in RACES:
        add("race", "Executor", cfg, workers=1, expect_violation=True)
    for cfg in PREFIX:
        add("prefix", "Executor", cfg, workers=1, expect_violation=True)
    for cfg in WITNESS:
        add("witness", "Executor", cfg, workers=1, expect_violation=True)
    return tags, xt.run_many(jobs, work, parallel=12 if tier == "quick" else 8)


def tlc_account(chk: Check, tags, results) -> dict:
    out = {"pb": [], "sim": [], "race": {}, "prefix": {}, "witness": {}}
    cov_total: dict[str, int] = {}
    tlc_log = []
    for (tag, cfg), r in zip(tags, results):
        tlc_log.append({"cfg": cfg, "states": r.distinct_states, "transitions": r.states_generated,
                        "depth": r.depth, "wall_s": round(r.wall_s, 1), "verdict": r.violated or "ok"})
        if tag in ("safety", "live"):
            if not r.ok:
                raise MachineryError(f"{cfg}: {r.violated or r.rc}: the specification violates its own "
                                     f"invariants/properties\n{r.stdout[-2500:]}")
            if r.distinct_states == 0:
                raise MachineryError(f"{cfg}: no states explored")
            chk.add_tlc(r)
            chk.count("tlc_runs_" + tag)
            for a, (d, t) in r.coverage.items():
                cov_total[a] = cov_total.get(a, 0) + t
        elif tag == "mutant":
            if not r.violated or MUTANTS[cfg] not in r.violated:
                raise MachineryError(f"negative control {cfg}: the mutated model was expected to violate "
                                     f"{MUTANTS[cfg]}, TLC said {r.violated!r}")
            chk.count("negative_controls_rejected")
        elif tag == "race":
            if r.violated != RACES[cfg]:
                # the code (hence the faithful model) no longer admits the interleaving: nothing to report
                if r.ok:
                    chk.notes.append(f"{cfg}: {RACES[cfg]} now HOLDS on the model")
                    out["race"][cfg] = None
                    continue
                raise MachineryError(f"{cfg}: expected {RACES[cfg]} to be violated, TLC said {r.violated!r}")
            out["race"][cfg] = xt.trace_to_schedule(xt.parse_error_trace(r.stdout))
            chk.count("model_violations_of_property_as_stated")
        elif tag == "prefix":
            if r.violated != PREFIX[cfg]:
                raise MachineryError(f"negative control {cfg}: the pre-fix order must violate {PREFIX[cfg]}, "
                                     f"TLC said {r.violated!r}")
            out["prefix"][cfg] = xt.trace_to_schedule(xt.parse_error_trace(r.stdout))
            chk.count("negative_controls_rejected")
        elif tag == "witness":
            if r.violated != WITNESS[cfg]:
                raise MachineryError(f"{cfg}: the behaviour {WITNESS[cfg]} must be reachable, TLC said {r.violated!r}")
            out["witness"][cfg] = xt.trace_to_schedule(xt.parse_error_trace(r.stdout))
        else:
            if r.violated:
                raise MachineryError(f"{cfg}: {r.violated}\n{r.stdout[-2000:]}")
            if not r.records:
                raise MachineryError(f"{cfg}: no schedule was printed")
            out[tag].append((cfg, r.records))
            if tag == "pb":
                chk.add_tlc(r)
    chk.cov["tlc"] = tlc_log
    never = sorted(a for a, t in cov_total.items() if t == 0)
    chk.cov["spec_actions_total"] = len(cov_total)
    chk.cov["spec_actions_covered"] = len(cov_total) - len(never)
    chk.cov["spec_actions_never_taken"] = never
    if never:
        raise MachineryError(f"actions of Executor.tla never taken in any configuration: {never}")
    chk.cov["exhaustive"] = True
    return out


# ---------------------------------------------------------------------------------------------
# replay phase


def _is_nontrivial(steps) -> bool:
    acts = {s["a"]["a"] for s in steps}
    return bool(acts & {"W_Timeout", "W_CommBroken", "W_PopenFail"}) or (
        any(a.startswith("H_") for a in acts) and "W_Popen" in acts)


def _sig(steps) -> str:
    return hashlib.sha1(" ".join(xt.labels(steps)).encode()).hexdigest()[:16]


def classify(kind: str, j: str, facts: dict) -> str:
    """Stable key of a property-level observation made on the real objects (facts come from the real run)."""
    after_return = facts.get("appended_after_return", {}).get(j)
    early = facts.get("cancel_found_no_process", {}).get(j)
    if kind == "accepted-after-shutdown-returned":
        return "submit-shutdown-toctou"  # repaired by 929919f: a NEW violation if it re-appears
    if kind == "running-after-shutdown-nowait":
        if after_return:
            return "submit-shutdown-toctou"
        return "cancel-before-popen" if early else "running-after-shutdown:unexplained"
    if kind == "running-after-shutdown-wait:returned":
        return "submit-shutdown-toctou:wait" if after_return else "running-after-shutdown-wait:unexplained"
    if kind == "running-after-shutdown-wait:raised":
        return "submit-shutdown-toctou:wait" if after_return else "join-raises-job-exception"
    return kind  # delivered-twice, timeout-seen-as-result, solver-timeout-reported-as-unsat, ...


def replay_one(chk: Check, consts: dict, mode: str, steps: list, *, origin: str, finish=True, solve_dir=None,
               report=True):
    from harness import sched

    rep = {"origin": origin, "jobs": consts["Jobs"], "has_timeout": consts["HasTimeout"],
           "ignores_term": consts["IgnoresTerm"], "mode": mode, "via_solve_low_level": solve_dir is not None,
           "schedule": xt.labels(steps), "steps": steps}
    try:
        res = sched.replay_schedule(consts["Jobs"], mode, steps, has_timeout=consts["HasTimeout"],
                                    ignores_term=consts["IgnoresTerm"], finish=finish, solve_dir=solve_dir)
    except sched.Divergence as d:
        a = (d.label or {}).get("a", "?") if isinstance(d.label, dict) else "?"
        rep["divergence"] = {"kind": d.kind, "detail": d.detail, "step": d.step}
        chk.violation(f"conformance:{d.kind}:{a}",
                      f"spec/Executor.tla and processes.py disagree at step {d.step} of {origin}: {d.detail}", rep)
        return None
    chk.count("traces_validated_against_impl")
    chk.count("replayed_steps", res.steps)
    if res.rp_notes:
        chk.cov.setdefault("replay_notes", sorted(set(res.rp_notes)))
    if report:
        for kind, j, step in res.observations:
            key = classify(kind, j, res.facts)
            r2 = dict(rep)
            r2.update({"observation": kind, "job": j, "first_seen_after_step": step, "facts": res.facts})
            chk.violation(key, f"{WHAT.get(key, kind)} [job {j}, schedule: {' '.join(xt.labels(steps[:step + 1]))}]",
                          r2)
    return res


def prefix_controls(chk: Check, tl: dict):
    """The toctou counterexamples of the PRE-FIX model: the repaired code must refuse to follow them; the same
    harness with the old submit() substituted follows them and shows the violation (so the refusal is due to
    the code, not to the harness)."""
    from harness import sched

    def submit_prefix(self, future):  # submit() as it was before commit 929919f
        if self._shutdown.is_set():
            raise sched.P.ShutdownError()
        with self._lock:
            self._futures.append(future)
            future.start()
            return future

    for cfg, (mode, steps) in tl["prefix"].items():
        consts = xt.cfg_constants(cfg)
        kw = dict(has_timeout=consts["HasTimeout"], ignores_term=consts["IgnoresTerm"])
        rep = {"origin": f"pre-fix counterexample of {PREFIX[cfg]} ({cfg})", "jobs": consts["Jobs"],
               "has_timeout": consts["HasTimeout"], "ignores_term": consts["IgnoresTerm"], "mode": mode,
               "schedule": xt.labels(steps), "steps": steps}
        try:
            res = sched.replay_schedule(consts["Jobs"], mode, steps, **kw)
        except sched.Divergence as d:
            chk.count("negative_controls_rejected")
            chk.cov.setdefault("negative_controls", {})["prefix-schedule:" + cfg] = f"refused by the code: {d.kind}"
        else:
            # the real code followed the pre-fix schedule state by state: the race is back
            key = "submit-shutdown-toctou:wait" if mode["s1"] == "wait" else "submit-shutdown-toctou"
            rep["observations"] = res.observations
            chk.violation(key, f"{WHAT[key]} [the code follows the pre-fix schedule {' '.join(xt.labels(steps))}]", rep)
            continue
        if mode["s1"] == "wait":
            continue  # the old _join() is not substituted
        try:
            res = sched.replay_schedule(consts["Jobs"], mode, steps, submit_override=submit_prefix, **kw)
        except sched.Divergence as d:
            # not even the old submit() makes the code follow the pre-fix model: something else differs
            a2 = (d.label or {}).get("a", "?") if isinstance(d.label, dict) else "?"
            rep["divergence"] = {"kind": d.kind, "detail": d.detail, "step": d.step}
            chk.violation(f"conformance:{d.kind}:{a2}",
                          f"spec/Executor.tla and processes.py disagree at step {d.step} of {rep['origin']} "
                          f"(old submit() substituted): {d.detail}", rep)
            continue
        keys = {classify(k, j, res.facts) for k, j, _ in res.observations}
        if "submit-shutdown-toctou" not in keys:
            raise MachineryError(f"{cfg}: with the old submit() substituted the harness did not show the toctou "
                                 f"violation (saw {sorted(keys)})")
        chk.count("negative_controls_rejected")
        chk.cov["negative_controls"]["old-submit-follows:" + cfg] = "followed, toctou observed"


def two_shutdown_patterns(rec) -> list[str]:
    """Which of the required orders of two shutdown requests a generated schedule exhibits."""
    m = rec["init"]["mode"]
    if not isinstance(m, dict) or "none" in (m.get("s1"), m.get("s2")):
        return []
    out = []
    hist = rec["hist"]
    final = hist[-1]["s"]["hpc"] if hist else {}
    for a, b2 in (("s1", "s2"), ("s2", "s1")):
        if m[a] == "wait" and m[b2] == "nowait":
            # the joiner is blocked in _join() on a running process when the other caller has not even started
            if any(st["s"]["hpc"][a] == "joining" and st["s"]["hpc"][b2] == "idle"
                   and "running" in st["s"]["proc"].values() for st in hist) and final.get(b2) == "returned":
                out.append("wait-blocked-then-nowait")
            if any(st["s"]["hpc"][b2] == "returned" and st["s"]["hpc"][a] == "idle" for st in hist):
                out.append("nowait-then-wait")
    if m["s1"] == "nowait" and m["s2"] == "nowait" and final.get("s1") == "returned" and final.get("s2") == "returned":
        out.append("nowait-twice")
    return out


def replay_phase(chk: Check, tier: str, work: Path, tl: dict):
    b = BUDGET[tier]
    rnd = random.Random(104729 * chk.seed + 5)
    solve_dir = work / "solve"
    # 1. the counterexamples of the property as stated: minimal deterministic schedules of each race
    for cfg, w in tl["race"].items():
        if w is None:
            continue
        mode, steps = w
        consts = xt.cfg_constants(cfg)
        res = replay_one(chk, consts, mode, steps, origin=f"counterexample of {RACES[cfg]} ({cfg})")
        if res is not None:
            chk.nontrivial(("race", cfg))
            chk.sample({"config": cfg, "violates": RACES[cfg], "schedule": xt.labels(steps),
                        "observed_on_real_code": sorted({classify(k, j, res.facts) for k, j, _ in res.observations})})
            if not res.observations:
                # the model says the bad state is reached and the code followed the schedule state by state:
                # the monitor must have seen it
                raise MachineryError(f"{cfg}: schedule replayed without divergence but the real objects do not "
                                     f"show the violation")
    prefix_controls(chk, tl)
    # the reachability witnesses (two shutdown requests: wait=True blocked, then wait=False) replay cleanly
    for cfg, (mode, steps) in tl["witness"].items():
        res = replay_one(chk, xt.cfg_constants(cfg), mode, steps, origin=f"witness of {WITNESS[cfg]} ({cfg})")
        if res is not None:
            chk.nontrivial(("witness", cfg))
            chk.sample({"config": cfg, "reaches": WITNESS[cfg], "schedule": xt.labels(steps)})
    # 2. every schedule with bounded preemptions (sampled down to the budget), 3. random schedules
    n = 0
    limits = dict(b["pb"])
    patterns: dict[str, int] = {}
    for tag in ("pb", "sim"):
        for cfg, recs in tl[tag]:
            consts = xt.cfg_constants(cfg)
            limit = limits.get(cfg, len(recs))
            recs = sorted(recs, key=lambda r: json.dumps([x["a"] for x in r["hist"]], sort_keys=True))
            chk.cov[f"schedules_available_{cfg}"] = len(recs)
            if len(recs) > limit:
                # the patterns of two shutdown requests are always among the sample
                must, seen_p = [], {}
                for r in recs:
                    for pt in two_shutdown_patterns(r):
                        if seen_p.get(pt, 0) < 2 * PATTERN_MIN:
                            seen_p[pt] = seen_p.get(pt, 0) + 1
                            must.append(r)
                            break
                ids = {id(r) for r in must}
                rest = [r for r in recs if id(r) not in ids]
                recs = must + rnd.sample(rest, max(0, min(len(rest), limit - len(must))))
            for rec in recs:
                n += 1
                for pt in two_shutdown_patterns(rec):
                    patterns[pt] = patterns.get(pt, 0) + 1
                use_solve = n % b["solve_every"] == 0
                res = replay_one(chk, consts, rec["init"]["mode"], rec["hist"], origin=f"{cfg}#{_sig(rec['hist'])}",
                                 solve_dir=solve_dir if use_solve else None)
                if res is None:
                    continue
                if use_solve:
                    chk.count("schedules_through_solve_low_level")
                if _is_nontrivial(rec["hist"]):
                    chk.nontrivial(_sig(rec["hist"]))
                if n % 97 == 1:
                    chk.sample({"config": cfg, "mode": rec["init"]["mode"], "schedule": xt.labels(rec["hist"])})
    chk.cov["schedules_replayed"] = n
    chk.cov["two_shutdown_patterns_replayed"] = patterns
    for pt in ("wait-blocked-then-nowait", "nowait-twice", "nowait-then-wait"):
        if patterns.get(pt, 0) < PATTERN_MIN:
            raise MachineryError(f"two-shutdown pattern `{pt}` occurs in only {patterns.get(pt, 0)} replayed schedules")


# ---------------------------------------------------------------------------------------------
# negative controls of the binding


def negative_controls(chk: Check, tl: dict, work: Path):
    from harness import sched

    cfg, recs = tl["sim"][0]
    consts = xt.cfg_constants(cfg)
    # a rich schedule: longest one that delivers a result and runs a shutdown
    cands = [r for r in recs if any(s["a"]["a"] == "W_SetResult" for s in r["hist"])
             and any(s["a"]["a"] == "S_Lock" for s in r["hist"])]
    if not cands:
        raise MachineryError("no schedule suitable for the negative controls")
    rec = max(cands, key=lambda r: (len(r["hist"]), json.dumps([x["a"] for x in r["hist"]], sort_keys=True)))
    mode, hist = rec["init"]["mode"], rec["hist"]
    kw = dict(has_timeout=consts["HasTimeout"], ignores_term=consts["IgnoresTerm"])

    def expect_div(name, steps, **extra):
        try:
            sched.replay_schedule(consts["Jobs"], mode, steps, **kw, **extra)
        except sched.Divergence as d:
            chk.count("negative_controls_rejected")
            chk.cov.setdefault("negative_controls", {})[name] = f"rejected: {d.kind}"
            return
        raise MachineryError(f"negative control `{name}` was accepted by the replay")

    # baseline: the unmodified schedule is accepted
    try:
        sched.replay_schedule(consts["Jobs"], mode, hist, **kw)
    except sched.Divergence as d:
        # spec and code disagree already on the unmodified schedule (reported by the replay phase as well):
        # the controls of the binding cannot be evaluated on this tree
        a2 = (d.label or {}).get("a", "?") if isinstance(d.label, dict) else "?"
        chk.violation(f"conformance:{d.kind}:{a2}",
                      f"spec/Executor.tla and processes.py disagree at step {d.step} of the control schedule: {d.detail}",
                      {"jobs": consts["Jobs"], "has_timeout": consts["HasTimeout"], "ignores_term": consts["IgnoresTerm"],
                       "mode": mode, "schedule": xt.labels(hist), "steps": hist})
        return
    cp = lambda: json.loads(json.dumps(hist))  # noqa: E731
    # (a) mutated TLC state: a result that was delivered is not
    h = cp()
    i = max(k for k, s in enumerate(h) if s["a"]["a"] == "W_SetResult")
    h[i]["s"]["delivered"][h[i]["a"]["j"]] = 0
    expect_div("mutated-state-delivered", h)
    # (b) mutated TLC state: process state
    h = cp()
    ks = [k for k, s in enumerate(h) if s["a"]["a"] == "W_Popen"]
    if ks:
        h[ks[0]]["s"]["proc"][h[ks[0]]["a"]["j"]] = "exited"
        expect_div("mutated-state-proc", h)
    # (c) dropped step
    h = cp()
    i = min(k for k, s in enumerate(h) if s["a"]["a"] == "S_Lock")
    del h[i]
    expect_div("dropped-step", h)
    # (d) mutated enabled set
    h = cp()
    i = len(h) // 2
    want = [list(x) for x in h[i]["en"]]
    extra_thread = next((t for t in ([k, j] for k in ("wrk", "sub") for j in consts["Jobs"]) if t not in want), None)
    h[i]["en"] = want + [extra_thread] if extra_thread else want[1:]
    expect_div("mutated-enabled-set", h)
    # (e) a wrapper that delivers the result twice
    expect_div("double-delivery-wrapper", cp(), double_delivery=True)

    # (f) a deliberately wrong submit (no lock): the code cannot follow the model's S_Lock
    def submit_nolock(self, future):
        if self._shutdown.is_set():
            raise sched.P.ShutdownError()
        self._futures.append(future)
        future.start()
        return future

    expect_div("submit-without-lock", cp(), submit_override=submit_nolock)


# ---------------------------------------------------------------------------------------------
# real subprocesses


def trace_phase(chk: Check, runs, work: Path, tier: str):
    """Event logs of the real runs must be behaviours of Executor.tla (spec/Trace_Executor.tla)."""
    from harness import exec_real as xr
    from harness.common import run_tlc

    runs = [r for r in runs if not r.counts.get("cancel_aborted_by_unexpected_exception")]
    two = [r for r in runs if r.scenario["style"].startswith("two:")]
    ntwo = 3 if tier == "quick" else 9
    one = [r for r in runs if not r.scenario["style"].startswith("two:")]
    if tier == "quick":  # a log of 3 jobs costs 10^5 states and more: thorough only
        one = [r for r in one if len(r.scenario["kinds"]) <= 2]
    runs = two[:ntwo] + one[:TRACE_CAP[tier]]
    traces = [xr.to_trace(r) for r in runs]
    controls = xr.corrupt_traces(traces)
    if len(controls) < 3:
        raise MachineryError("too few negative controls could be derived from the recorded traces")
    allt = traces + [c for _, c in controls]
    f = work / "c17_traces.json"
    f.write_text(json.dumps(allt))
    r = run_tlc("Trace_Executor", "MC_Trace_Executor.cfg", work=work, workers=8,
                env={"C17_TRACES": str(f), **BIG_JVM})
    if r.violated:
        raise MachineryError(f"Trace_Executor: {r.violated}\n{r.stdout[-2000:]}")
    # (not added to the states/transitions of the evidence: the size depends on the timing of the real runs)
    acc = {x["tid"] for x in r.records if "n" in x}
    for k, (run, t) in enumerate(zip(runs, traces), 1):
        if k in acc:
            chk.count("real_traces_accepted_by_spec")
        else:
            chk.violation("conformance:real-trace-rejected",
                          f"the event log of a real-subprocess run is not a behaviour of Executor.tla: "
                          f"kinds={run.scenario['kinds']} mode={run.scenario['mode']}",
                          {"scenario": run.scenario, "trace": t})
    for k, (name, _) in enumerate(controls, len(traces) + 1):
        if k in acc:
            raise MachineryError(f"negative control: corrupted trace `{name}` was accepted by Trace_Executor")
        chk.count("negative_controls_rejected")
        chk.cov.setdefault("negative_controls", {})["trace:" + name] = "rejected"
    chk.cov["trace_validation"] = {"traces": len(traces), "states": r.distinct_states, "wall_s": round(r.wall_s, 1)}


def real_phase(chk: Check, tier: str, work: Path):
    from harness import exec_real as xr

    n = BUDGET[tier]["real"]
    t0 = time.time()
    runs = xr.run_batch(n, chk.seed)
    agg: dict[str, int] = {}
    for r in runs:
        chk.count("traces_validated_against_impl")
        chk.count("real_subprocess_runs")
        for k in r.nontrivial:
            chk.nontrivial(("real",) + tuple(k))
        for k, v in r.counts.items():
            if k in ("popen_after_shutdown_returned", "accepted_after_shutdown_returned", "shutdown_wait_raised",
                     "late_submit_rejected", "pre_shutdown_alive", "cancel_aborted_by_unexpected_exception",
                     "descendant_survivors", "joiner_blocked"):
                agg[k] = agg.get(k, 0) + v
        for key, what in r.violations:
            chk.violation(f"real:{key}", what, {"scenario": r.scenario, "seen": r.seen, "counts": r.counts,
                                                "events": r.events[:200]})
        if r.scenario["idx"] < 3:
            chk.sample({"real_scenario": r.scenario, "seen": r.seen, "counts": r.counts})
    trace_phase(chk, runs, work, tier)
    chk.cov["real_runs"] = {"n": n, "wall_s": round(time.time() - t0, 1), "timing_dependent_observations": agg,
                            "max_dead_after_s": max((r.counts.get("dead_after_s", 0) for r in runs), default=0)}
    # negative control: a wrapper that delivers twice must be flagged by the judgement
    sc = {"idx": 9000, "style": "concurrent", "kinds": ["quick"], "mode": "none", "submit_delay": [0.0],
          "shutdown_delay": 0.0, "double_delivery": True}
    with xr.recording():
        r = xr.run_scenario(sc)
    if not any(k == "delivered-not-exactly-once" for k, _ in r.violations):
        raise MachineryError("negative control: a doubly delivering wrapper was not flagged in a real run")
    chk.count("negative_controls_rejected")
    left, _ = xr.wait_dead(xr.our_children_alive(), grace=xr.GRACE)
    if left:
        chk.violation("real:process-survives-completion",
                      f"{len(left)} child process(es) of the harness alive after all runs: {[p.pid for p in left]}",
                      {"pids": [p.pid for p in left]})


def registry_phase(chk: Check):
    """The exit-time shutdown request goes through the process-wide registry: FunctionContext registers the executor of
    every test (`ExecutorRegistry().register(..)`), `on_exit` and the signal handler call `ExecutorRegistry().shutdown_all()`
    - each through a fresh `ExecutorRegistry()` expression.  For every registered executor this is the model's
    shutdown(wait=False): flag set, running solvers killed, results delivered, later submissions refused."""
    import sys

    from halmos.processes import ExecutorRegistry, PopenExecutor, PopenFuture, ShutdownError

    exs = [PopenExecutor(), PopenExecutor()]
    for e in exs:
        ExecutorRegistry().register(e)
    futs = []
    for e in exs:
        f = PopenFuture([sys.executable, "-c", "import time; time.sleep(120)"], timeout=None)
        e.submit(f)
        futs.append(f)
    t0 = time.time()
    while time.time() - t0 < 10 and not all(getattr(f, "process", None) is not None for f in futs):
        time.sleep(0.02)
    procs = [f.process for f in futs]
    if any(p is None for p in procs):
        raise MachineryError("registry scenario: the solver stand-ins did not start")
    ExecutorRegistry().shutdown_all()
    t1 = time.time()
    while time.time() - t1 < 10 and any(p.poll() is None for p in procs):
        time.sleep(0.05)
    chk.count("traces_validated_against_impl")
    chk.nontrivial(("registry-shutdown-all",))
    problems = []
    if not all(e.is_shutdown() for e in exs):
        problems.append("an executor is not marked shut down")
    if any(p.poll() is None for p in procs):
        problems.append("a solver process is still running 10 s after the request returned")
    for f in futs:
        try:
            f.result(timeout=5)
        except Exception as e:  # noqa: BLE001
            if type(e).__name__ == "TimeoutError":
                problems.append("a job's outcome is not delivered (result() blocks)")
    late = PopenFuture([sys.executable, "-c", "pass"], timeout=None)
    try:
        exs[0].submit(late)
        problems.append("a job submitted after the shutdown request was accepted")
    except ShutdownError:
        pass
    for p in procs:  # never leave processes behind, whatever was found
        if p.poll() is None:
            p.kill()
    for e in exs:
        e.shutdown(wait=False)
    if problems:
        chk.violation("real:registry-shutdown-all", "ExecutorRegistry().shutdown_all() after two executors were registered through ExecutorRegistry().register(): " + "; ".join(problems),
                      {"problems": problems})


def solve_phase(chk: Check, work: Path):
    from harness import exec_solve as xs

    recs = []
    for name in xs.STUBS:
        rec = xs.run_stub(work, name)
        recs.append(rec)
        chk.count("traces_validated_against_impl")
        chk.nontrivial(("stub", name, rec["result"]))
        for key, what in xs.judge(rec):
            chk.violation(f"solve:{key}", what, rec)
    chk.cov["solve_low_level_stub_runs"] = recs
    chk.count("traces_validated_against_impl")
    chk.nontrivial(("refined-shutdown",))
    for key, what in xs.run_refined_shutdown(work):
        chk.violation(f"solve:{key}", what, {"scenario": "solve_end_to_end: sat with an abstraction in the model, refined job hangs, executor shut down"})
    bad = xs.run_stub(work, "late-unsat", solve=xs.bad_solve)
    if not any("reported-as-unsat" in k for k, _ in xs.judge(bad)):
        raise MachineryError("negative control: a solve wrapper turning the timeout into unsat was not flagged")
    chk.count("negative_controls_rejected")


# ---------------------------------------------------------------------------------------------


def run(chk: Check, tier: str):
    work = workdir("c17")
    phases = chk.cov.setdefault("phase_wall_s", {})

    def timed(name, fn, *a):
        t0 = time.time()
        try:
            return fn(*a)
        finally:
            phases[name] = round(time.time() - t0, 1)

    from concurrent.futures import ThreadPoolExecutor

    try:
        # TLC runs in subprocesses: start all of it in the background and use the wait for the real-subprocess
        # and stub-solver runs (whose verdicts do not depend on timing: margins of tens of seconds)
        with ThreadPoolExecutor(max_workers=1) as bg:
            t0 = time.time()
            fut = bg.submit(tlc_run, tier, chk.seed, work / "tlc")
            timed("real_subprocesses", real_phase, chk, tier, work)
            timed("solve_low_level", solve_phase, chk, work)
            timed("registry", registry_phase, chk)
            tags, results = fut.result()
            phases["tlc_total"] = round(time.time() - t0, 1)
        tl = tlc_account(chk, tags, results)
        timed("replay", replay_phase, chk, tier, work, tl)
        timed("negative_controls", negative_controls, chk, tl, work)
    finally:
        cleanup(work)
    chk.cov["rule"] = (
        "TLC: all interleavings of {submit, process start/exit, timeout, cancel, shutdown(wait=False|True), Popen "
        "failure, SIGTERM ignored} over 1-2 jobs (3 in thorough, cancel() coarse) + liveness under WF; replay: "
        "every schedule of one job with bounded preemptions, random schedules of 2-3 jobs and TLC's "
        "counterexamples, state and enabled threads compared at every step; a behaviour is non-trivial when a "
        "shutdown overlaps a started job or a timeout/Popen failure/broken pipe occurs; real-subprocess runs and "
        "stub-solver runs count one trace each")
    chk.assumptions += [
        "at most two shutdown() calls per executor (any pair of wait=True/False, any order, concurrent); each job is "
        "submitted once, by its own thread, which then waits on it",
        "a process without time limit eventually exits (fairness of Env_Exit only for jobs with timeout=None), except "
        "the jobs in NeverExits of the two-shutdown liveness configurations, which only a signal ends",
        "psutil/Popen are modelled at the level of their effect on the job's process (running/exited/killed) and "
        "pipes; process trees and real signals are exercised only in the real-subprocess runs",
        "3-job model: the psutil part of cancel() is one step (CoarseCancel); fine-grained for 1 and 2 jobs",
        "communicate() under pipes closed by a concurrent cancel() may return, raise OSError or raise "
        "TimeoutExpired (all three observed with real processes); fd reuse after that close is not modelled",
    ]


def replay(chk: Check, path: str):
    """bin/check C17 --replay <file>: re-run the schedule / scenario of a replay file."""
    d = json.loads(Path(path).read_text())
    if "steps" in d:
        consts = {"Jobs": d["jobs"], "HasTimeout": d["has_timeout"], "IgnoresTerm": d["ignores_term"]}
        work = workdir("c17r")
        try:
            res = replay_one(chk, consts, d["mode"], d["steps"], origin=f"replay of {path}",
                             solve_dir=(work / "solve") if d.get("via_solve_low_level") else None)
        finally:
            cleanup(work)
        if res is not None:
            print("schedule:", " ".join(d["schedule"]))
            print("observations on the real objects:", res.observations, res.facts)
    elif "scenario" in d:
        from harness import exec_real as xr

        with xr.recording():
            r = xr.run_scenario(d["scenario"])
        for key, what in r.violations:
            chk.violation(f"real:{key}", what, {"scenario": r.scenario, "seen": r.seen, "counts": r.counts})
        print(r.seen, r.counts, r.violations)
    else:
        from harness import exec_solve as xs

        work = workdir("c17r")
        try:
            rec = xs.run_stub(work, d["stub"])
        finally:
            cleanup(work)
        for key, what in xs.judge(rec):
            chk.violation(f"solve:{key}", what, rec)
        print(rec)
