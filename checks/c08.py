"""C08 - storage reads return the last write to the same slot; no aliasing (E1 over location expressions)."""

from __future__ import annotations

import random

from harness import e1, progs_storage, progs_symstore, reftest
from harness.artifacts import Contract, Fn, panic, run_contract
from harness.common import Check, MachineryError, cleanup, workdir
from harness.e1corpus import Item, describe, run_items

from .c01 import judge

BUDGET = {"quick": 60, "thorough": 2500}


def transient_across_transactions(chk: Check):
    """Transient storage written by setUp() must be gone in the test transaction (EIP-1153)."""
    from harness.asm import assemble

    # a second account, created by setUp(): it answers with its OWN transient slot 1 plus its own storage slot 1
    brt = assemble([("PUSH", 1), "TLOAD", ("PUSH", 1), "SLOAD", "ADD", ("PUSH", 0), "MSTORE", ("PUSH", 32), ("PUSH", 0), "RETURN"])
    binit = assemble([("PUSHN", 2, len(brt)), ("PUSHL", "rt"), ("PUSH", 0), "CODECOPY", ("PUSHN", 2, len(brt)), ("PUSH", 0), "RETURN", ("MARK", "rt"), ("RAW", brt)])
    setup = [("PUSH", 7), ("PUSH", 1), "TSTORE", ("PUSH", 9), ("PUSH", 1), "SSTORE",
             ("PUSHN", 2, len(binit)), ("PUSHL", "binit"), ("PUSH", 0x100), "CODECOPY", ("PUSHN", 2, len(binit)), ("PUSH", 0x100), ("PUSH", 0), "CREATE", ("PUSH", 7), "SSTORE", "STOP"]
    # check_other: TSTORE(1, 42) here, then ask the other account: its slots are untouched (0), otherwise Panic(1)
    other = [("PUSH", 42), ("PUSH", 1), "TSTORE", ("PUSH", 32), ("PUSH", 0x40), ("PUSH", 0), ("PUSH", 0), ("PUSH", 0), ("PUSH", 7), "SLOAD", ("PUSH", 0xFFFFFF), "CALL", "POP",
             ("PUSH", 0x40), "MLOAD", ("PUSHL", "bad3"), "JUMPI", "STOP", ("LABEL", "bad3")] + panic(1)
    # check_fresh: TLOAD(1) must be 0 and SLOAD(1) must be 9, otherwise Panic(1)
    fresh = [("PUSH", 1), "TLOAD", ("PUSHL", "bad"), "JUMPI", ("PUSH", 9), ("PUSH", 1), "SLOAD", "EQ", "ISZERO", ("PUSHL", "bad"), "JUMPI", "STOP", ("LABEL", "bad")] + panic(1)
    # check_leak: Panic(1) iff TLOAD(1) == 0, i.e. it must FAIL
    leak = [("PUSH", 1), "TLOAD", "ISZERO", ("PUSHL", "bad2"), "JUMPI", "STOP", ("LABEL", "bad2")] + panic(1)
    c = Contract("TransientT", [Fn("setUp()", setup), Fn("check_fresh()", fresh), Fn("check_leak()", leak), Fn("check_other()", other)],
                 data=[("MARK", "binit"), ("RAW", binit)])
    work = workdir("c08t")
    try:
        cases = [reftest.test_case(0, c, "check_fresh()", reftest.encode_static("check_fresh()", ())),
                 reftest.test_case(1, c, "check_leak()", reftest.encode_static("check_leak()", ())),
                 reftest.test_case(2, c, "check_other()", reftest.encode_static("check_other()", ()))]
        recs, tr = e1.run_spec(cases, work)
        chk.add_tlc(tr)
        want = {"check_fresh()": reftest.is_failure(recs[0], {1}), "check_leak()": reftest.is_failure(recs[1], {1}),
                "check_other()": reftest.is_failure(recs[2], {1})}
        if want != {"check_fresh()": False, "check_leak()": True, "check_other()": False}:
            raise MachineryError(f"reference machine: unexpected transient-storage outcome {want}")
        for layout in ("solidity", "generic"):
            out = run_contract(c, cli=("--storage-layout", layout))
            res = out.by_sig()
            for sig, fails in want.items():
                r = res.get(sig)
                if r is None:
                    raise MachineryError(f"no result for {sig}: {out.stdout[-300:]} {out.exception}")
                chk.count("traces_validated_against_impl")
                chk.nontrivial(("transient-2tx", sig, layout))
                if fails and r.exitcode == 0:
                    chk.violation(f"transient-2tx:{sig}:{layout}:pass", f"{sig} ({layout}): transient storage written by setUp() must be empty in the test transaction; halmos reports PASS for a test that fails on the reference machine", {"stdout": out.stdout[-800:]})
                if not fails and r.exitcode == 1:
                    chk.violation(f"transient-2tx:{sig}:{layout}:fail", f"{sig} ({layout}): halmos reports a counterexample for a test that cannot fail: transient storage leaked from setUp() into the test transaction, or from one account into another", {"stdout": out.stdout[-800:]})
    finally:
        cleanup(work)


def hash_registry_phase(chk: Check, tier: str):
    """HashRegistry.tla (KeccakRegistry + OffsetMap): model check, design mutations, replay of every history."""
    import random as _random

    from harness import hashreg_replay as hr
    from harness.common import run_tlc

    work = workdir("c08h")
    try:
        r = run_tlc("HashRegistry", f"MC_HashRegistry_{'q' if tier == 'quick' else 't'}.cfg", work=work, coverage=True, expect_violation=True, timeout=3000)
        if not r.ok:
            raise MachineryError(f"HashRegistry.tla violates {r.violated}")
        chk.add_tlc(r)
        never = [a for a, (d, t) in r.coverage.items() if t == 0]
        if never:
            raise MachineryError(f"HashRegistry.tla: actions never taken: {never}")
        for cfg, prop in (("m_dropvalues", "CopyComplete"), ("m_shares", "RegistrationPrivate"), ("m_centred", "NothingOutsideTheBlock")):
            m = run_tlc("HashRegistry", f"MC_HashRegistry_{cfg}.cfg", work=work, expect_violation=True)
            if not m.violated or prop not in m.violated:
                raise MachineryError(f"design mutation {cfg} is not refuted by {prop}: {m.violated}")
            chk.count("negative_controls_rejected")
        recs = [x for x in r.records if isinstance(x, dict) and "ops" in x]
        if not recs:
            raise MachineryError("HashRegistry.tla printed no histories")
        rnd = _random.Random(chk.seed * 7919 + 8)
        pick = recs if tier != "quick" or len(recs) <= 6000 else rnd.sample(recs, 6000)
        kinds = set()
        for rec in pick:
            bad = hr.replay(rec)
            chk.count("evaluations")
            chk.count("traces_validated_against_impl")
            shape = tuple(o["op"] for o in rec["ops"])
            kinds.add(shape)
            chk.nontrivial(("hashreg", shape, tuple(sorted(rec["hv"].items()))))
            if bad:
                key = "hash-registry:" + "-".join(shape)
                chk.violation(key, f"KeccakRegistry does not behave as HashRegistry.tla on the history {[(o['op'], o['reg'], o['expr']) for o in rec['ops']]} with hash values {rec['hv']}: {bad[0]}",
                              {"history": [(o["op"], o["reg"], o["expr"]) for o in rec["ops"]], "hash_values": rec["hv"], "disagreements": bad[:6],
                               "how": "harness.hashreg_replay.replay(record) - model keys are mapped to real 256-bit keys, see the module docstring"})
        # negative control of the replay: a registry whose copy forgets the values must be told apart
        K = hr._api()

        class Forgetful(K):
            def copy(self):
                c = Forgetful()
                c._hash_ids = self._hash_ids.copy()
                return c

        if not any(hr.replay(rec, Forgetful) for rec in pick if any(o["op"] == "copy" for o in rec["ops"])):
            raise MachineryError("negative control accepted: a registry copy without hash values is not noticed by the replay")
        chk.count("negative_controls_rejected")
        chk.cov["hash_registry"] = {"histories_enumerated": len(recs), "histories_replayed": len(pick), "operation_shapes": len(kinds)}
    finally:
        cleanup(work)


def probes() -> list[Item]:
    """Hand-written programs for the reach of halmos' hash reverse lookup (stable keys `probe:...`)."""
    from eth_hash.auto import keccak

    from harness.asm import assemble
    from harness.hrun import TARGET, Prog, Sym

    def k32(n):
        return int.from_bytes(keccak(n.to_bytes(32, "big")), "big")

    def prog(name, body):
        code = assemble(body + [("PUSH", 0), "MSTORE", ("PUSH", 32), ("PUSH", 0), "RETURN"])
        return Item(Prog(accounts={TARGET: code}, calldata=[Sym("cd0", 256)], name=name), [{"cd0": 5}, {"cd0": 0}], key=f"probe:{name}")

    runtime_hash = lambda slot: [("PUSH", slot), ("PUSH", 0x200), "MSTORE", ("PUSH", 32), ("PUSH", 0x200), "SHA3"]  # noqa: E731
    out = []
    # a[i] for a dynamic array at slot 7777: stored through the constant keccak(7777)+3 *before* the hash is
    # ever computed at run time (7777 is not among the commonly precomputed hashes), loaded through the run-time form
    out.append(prog("hash-const-before-runtime",
                    [("PUSH", 0), "CALLDATALOAD", ("PUSHN", 32, (k32(7777) + 3) % 2**256), "SSTORE"] + runtime_hash(7777) + [("PUSH", 3), "ADD", "SLOAD"]))
    # same, but the run-time form comes first (the local registry knows the hash): must be recognised
    out.append(prog("hash-const-after-runtime",
                    [("PUSH", 0), "CALLDATALOAD"] + runtime_hash(7777) + [("PUSH", 3), "ADD", "SSTORE", ("PUSHN", 32, (k32(7777) + 3) % 2**256), "SLOAD"]))
    # a[i] stored with a symbolic index i, loaded through the constant keccak(2)+far where far leaves the 2^16
    # window of the reverse lookup: for the input i = far both denote the same slot
    far = 0x10000 - (k32(2) & 0xFFFF) + 5
    it = prog("hash-offset-window",
              [("PUSH", 9)] + runtime_hash(2) + [("PUSH", 0), "CALLDATALOAD", "ADD", "SSTORE", ("PUSHN", 32, (k32(2) + far) % 2**256), "SLOAD"])
    it.inputs = [{"cd0": far}, {"cd0": 0}, {"cd0": far - 1}]
    out.append(it)
    # mapping with a short (5-byte) key at slot 1: stored under a symbolic key, loaded under a concrete key hashed at run
    # time (for cd0 = 0 both keys are five zero bytes)
    def short_map(key_code):
        return key_code + [("PUSH", 0x200), "MSTORE", ("PUSH", 1), ("PUSH", 0x205), "MSTORE", ("PUSH", 37), ("PUSH", 0x200), "SHA3"]

    body = [("PUSH", 0xAA)] + short_map([("PUSH", 0), "CALLDATALOAD"]) + ["SSTORE"] + short_map([("PUSH", 0)]) + ["SLOAD"]
    code = assemble(body + [("PUSH", 0), "MSTORE", ("PUSH", 32), ("PUSH", 0), "RETURN"])
    out.append(Item(Prog(accounts={TARGET: code}, calldata=[Sym("cd0", 256)], name="short-key-concrete-vs-symbolic"),
                    [{"cd0": 0}, {"cd0": 5}, {"cd0": 1 << 255}], key="probe:short-key-concrete-vs-symbolic"))
    # nested mapping m[a][b] at slot 0 with 32-byte keys: one slot spelled with concrete and with symbolic keys
    def nested(k1, k2):
        return k1 + [("PUSH", 0x200), "MSTORE", ("PUSH", 0), ("PUSH", 0x220), "MSTORE", ("PUSH", 64), ("PUSH", 0x200), "SHA3", ("PUSH", 0x260), "MSTORE"] + \
            k2 + [("PUSH", 0x240), "MSTORE", ("PUSH", 64), ("PUSH", 0x240), "SHA3"]

    X, Y = [("PUSH", 0), "CALLDATALOAD"], [("PUSH", 32), "CALLDATALOAD"]
    C = lambda v: [("PUSH", v)]  # noqa: E731
    pairs = {"sym2-then-con": ((C(1), Y), (C(1), C(2))), "sym-then-con": ((X, Y), (C(3), C(4))), "con-then-sym": ((C(1), C(2)), (X, Y)),
             "con-then-sym1": ((C(5), C(6)), (X, C(6)))}
    for nm, (st, ld) in pairs.items():
        body = [("PUSH", 0xABCDEF)] + nested(*st) + ["SSTORE"] + nested(*ld) + ["SLOAD"]
        code = assemble(body + [("PUSH", 0), "MSTORE", ("PUSH", 32), ("PUSH", 0), "RETURN"])
        out.append(Item(Prog(accounts={TARGET: code}, calldata=[Sym("cd0", 256), Sym("cd1", 256)], name=f"nested-map-{nm}"),
                        [{"cd0": 1, "cd1": 2}, {"cd0": 3, "cd1": 4}, {"cd0": 5, "cd1": 6}, {"cd0": 0, "cd1": 2}, {"cd0": 1, "cd1": 0}], key=f"probe:nested-map-{nm}"))
    # a[n-1] the way the optimiser writes it, (keccak(2) - 1) + n, against keccak(2) + m with m = n - 1
    body = runtime_hash(2) + ["POP", ("PUSH", 0xAA), ("PUSHN", 32, (k32(2) - 1) % 2**256), ("PUSH", 0), "CALLDATALOAD", "ADD", "SSTORE"] + \
        runtime_hash(2) + [("PUSH", 32), "CALLDATALOAD", "ADD", "SLOAD"]
    code = assemble(body + [("PUSH", 0), "MSTORE", ("PUSH", 32), ("PUSH", 0), "RETURN"])
    out.append(Item(Prog(accounts={TARGET: code}, calldata=[Sym("cd0", 256), Sym("cd1", 256)], name="hash-const-minus-one",
                         meta={"bounded_inputs": {"cd0": 2**64, "cd1": 2**64}}),
                    [{"cd0": 1, "cd1": 0}, {"cd0": 5, "cd1": 4}, {"cd0": 5, "cd1": 5}, {"cd0": 0, "cd1": 0}], key="probe:hash-const-minus-one"))
    # a mapping element written through the PUSH32 constant keccak(K . P) of halmos' precomputed table (never hashed at run
    # time before) and read through the run-time hash of a symbolic key: the same slot for key = K, another one otherwise
    for K, P in ((1, 7), (0, 5), (1, 0)):
        kc = int.from_bytes(keccak(K.to_bytes(32, "big") + P.to_bytes(32, "big")), "big")
        body = [("PUSH", 0x2A), ("PUSHN", 32, kc), "SSTORE",
                ("PUSH", 0), "CALLDATALOAD", ("PUSH", 0x200), "MSTORE", ("PUSH", P), ("PUSH", 0x220), "MSTORE", ("PUSH", 64), ("PUSH", 0x200), "SHA3", "SLOAD"]
        it = prog(f"precomputed-mapping-const-vs-runtime-{K}-{P}", body)
        it.inputs = [{"cd0": K}, {"cd0": P}, {"cd0": 1 - K}, {"cd0": 1 << 255}]
        out.append(it)
    # a callee that fails on both sides of a symbolic branch: the caller goes on along two paths, each of which increments a
    # slot (scalar, mapping element, transient) it has never written: what one path stores the other must not load
    failer = assemble([("PUSH", 0), "CALLDATALOAD", ("PUSH", 1), "AND", ("PUSHL", "o"), "JUMPI", ("PUSH", 0), ("PUSH", 0), "REVERT", ("LABEL", "o"), "INVALID"])
    callb = [("PUSH", 0), "CALLDATALOAD", ("PUSH", 0x300), "MSTORE", ("PUSH", 0), ("PUSH", 0), ("PUSH", 32), ("PUSH", 0x300), ("PUSH", 0), ("PUSH", 0xB0B), ("PUSH", 0xFFFFF), "CALL", "POP"]
    mkey = [("PUSH", 32), "CALLDATALOAD", ("PUSH", 0x200), "MSTORE", ("PUSH", 1), ("PUSH", 0x220), "MSTORE", ("PUSH", 64), ("PUSH", 0x200), "SHA3"]
    for nm, loc, ld, st in (("scalar", [("PUSH", 0)], "SLOAD", "SSTORE"), ("mapping", mkey, "SLOAD", "SSTORE"), ("transient", [("PUSH", 0)], "TLOAD", "TSTORE")):
        body = callb + loc + [ld, "DUP1", ("PUSH", 1), "ADD"] + loc + [st]
        code = assemble(body + [("PUSH", 0), "MSTORE", ("PUSH", 32), ("PUSH", 0), "RETURN"])
        out.append(Item(Prog(accounts={TARGET: code, 0xB0B: failer}, calldata=[Sym("cd0", 256), Sym("cd1", 256)], name=f"siblings-after-failed-call-{nm}"),
                        [{"cd0": 0, "cd1": 0}, {"cd0": 1, "cd1": 0}, {"cd0": 2, "cd1": 7}, {"cd0": 3, "cd1": 7}], key=f"probe:siblings-after-failed-call-{nm}"))
    # elements of the array at slot 1 / fields of the mapping entry m[1] at slot 0 addressed by PUSH32 constants
    # `hash + i` for hashes of halmos' precomputed table (never computed at run time on the path): distinct offsets are
    # distinct slots, equal offsets the same slot
    k64 = int.from_bytes(keccak((1).to_bytes(32, "big") + (0).to_bytes(32, "big")), "big")
    for nm, base in (("array", k32(1)), ("mapping", k64)):
        for (i, j) in ((1, 0), (0, 2), (3, 3)):
            body = [("PUSH", 0), "CALLDATALOAD", ("PUSHN", 32, (base + i) % 2**256), "SSTORE", ("PUSH", 0x22), ("PUSHN", 32, (base + j) % 2**256), "SSTORE",
                    ("PUSHN", 32, (base + i) % 2**256), "SLOAD"]
            out.append(prog(f"precomputed-hash-const-offsets-{nm}-{i}-{j}", body))
    # mapping(uint => S[]) m at slot 0 with a three-slot struct S: m[k][i].f1 lives at keccak(keccak(k . 0)) + 3*i + 1 - a sum of
    # a hash of symbolic data, a symbolic element offset and a constant field offset, in the orders a compiler may emit
    def elem(i_code, order):
        h = [("PUSH", 0), "CALLDATALOAD", ("PUSH", 0x200), "MSTORE", ("PUSH", 0), ("PUSH", 0x220), "MSTORE", ("PUSH", 64), ("PUSH", 0x200), "SHA3",
             ("PUSH", 0x240), "MSTORE", ("PUSH", 32), ("PUSH", 0x240), "SHA3"]
        i3 = i_code + [("PUSH", 3), "MUL"]
        if order == 0:
            return h + i3 + ["ADD", ("PUSH", 1), "ADD"]       # (hash + 3i) + 1
        if order == 1:
            return i3 + [("PUSH", 1), "ADD"] + h + ["ADD"]     # hash + (3i + 1)
        return [("PUSH", 1)] + h + ["ADD"] + i3 + ["ADD"]      # 3i + (hash + 1)

    I1, I2 = [("PUSH", 32), "CALLDATALOAD"], [("PUSH", 64), "CALLDATALOAD"]
    for order in (0, 1, 2):
        body = [("PUSH", 0xAA)] + elem(I1, order) + ["SSTORE", ("PUSH", 0xBB)] + elem(I2, (order + 1) % 3) + ["SSTORE"] + elem(I1, (order + 2) % 3) + ["SLOAD"]
        code = assemble(body + [("PUSH", 0), "MSTORE", ("PUSH", 32), ("PUSH", 0), "RETURN"])
        out.append(Item(Prog(accounts={TARGET: code}, calldata=[Sym("cd0", 256), Sym("cd1", 256), Sym("cd2", 256)], name=f"struct-array-in-mapping-{order}",
                             meta={"bounded_inputs": {"cd1": 2**64, "cd2": 2**64}}),
                        [{"cd0": 7, "cd1": 0, "cd2": 1}, {"cd0": 7, "cd1": 1, "cd2": 1}, {"cd0": 0, "cd1": 2, "cd2": 0}, {"cd0": 1 << 255, "cd1": 5, "cd2": 5}, {"cd0": 3, "cd1": 3, "cd2": 4}],
                        key=f"probe:struct-array-in-mapping-{order}"))
    # an account with symbolic storage: the transient element m[k] (mapping at slot 1 of symstore.LAYOUT) reads zero, the
    # persistent element of the same slot reads its unconstrained initial value - in either order, and around a store
    def m_at(key_code):
        return key_code + [("PUSH", 0x200), "MSTORE", ("PUSH", 1), ("PUSH", 0x220), "MSTORE", ("PUSH", 64), ("PUSH", 0x200), "SHA3"]

    K = [("PUSH", 0), "CALLDATALOAD"]
    bodies = {
        "symstore-tload-then-sload": m_at(K) + ["TLOAD", ("PUSH", 0), "MSTORE"] + m_at(K) + ["SLOAD", ("PUSH", 32), "MSTORE"],
        "symstore-sload-then-tload": m_at(K) + ["SLOAD", ("PUSH", 0), "MSTORE"] + m_at(K) + ["TLOAD", ("PUSH", 32), "MSTORE"],
        "symstore-tstore-other-then-sload": [("PUSH", 7)] + m_at([("PUSH", 32), "CALLDATALOAD"]) + ["TSTORE"] + m_at(K) + ["TLOAD", ("PUSH", 0), "MSTORE"] + m_at(K) + ["SLOAD", ("PUSH", 32), "MSTORE"],
    }
    for nm, body in bodies.items():
        code = assemble(body + [("PUSH", 64), ("PUSH", 0), "RETURN"])
        out.append(Item(Prog(accounts={TARGET: code}, calldata=[Sym("cd0", 256), Sym("cd1", 256)], name=nm, symstore={TARGET}, meta={"symstore_enabled": {TARGET}}),
                        [{"cd0": 0, "cd1": 0}, {"cd0": 5, "cd1": 4}, {"cd0": 5, "cd1": 5}, {"cd0": 1 << 200, "cd1": 3}], key=f"probe:{nm}"))
    return out


def run(chk: Check, tier: str):
    rnd = random.Random(27449 * chk.seed + 8)
    n = BUDGET[tier]
    items = []
    for i in range(n):
        transient = i % 5 == 4
        prog, inputs = progs_storage.fam_storage(rnd, ninputs=9 if tier == "quick" else 12, transient=transient)
        layout = ("--storage-layout", "generic") if i % 2 else ()
        items.append(Item(prog, inputs, cli=layout))
    nsym = max(12, n // 3)
    for i in range(nsym):
        # accounts with symbolic (arbitrary) storage: never-written elements hold the environment's values
        prog, inputs = progs_symstore.fam_symstorage(rnd, ninputs=9 if tier == "quick" else 12)
        items.append(Item(prog, inputs, cli=("--storage-layout", "generic") if i % 2 else ()))
    stuck_progs = 0
    for i in range(0, len(items), 120):
        outs = run_items(items[i : i + 120], chk)
        judge(chk, outs)
        for o in outs:
            if not o.covered and not o.flagged and not o.skipped and not o.match.unevaluable:
                chk.violation(f"{o.item.key}:uncovered", f"no reported path covers input {o.inp} of {o.item.key}", describe(o))
        del outs
        for it in items[i : i + 120]:
            if it.hr and it.hr.paths and all(p.stuck for p in it.hr.paths):
                stuck_progs += 1
            it.hr = None  # the halmos states of a batch are not needed any more (thousands of programs: tens of GB otherwise)
    for layout in ((), ("--storage-layout", "generic")):
        ps = probes()
        for it in ps:
            it.cli = layout
            it.key = it.key + (":generic" if layout else ":solidity")
        pouts = run_items(ps, chk, witnesses=False)
        judge(chk, pouts)
        for o in pouts:
            if not o.covered and not o.flagged and not o.skipped and not o.match.unevaluable:
                chk.violation(f"{o.item.key}:uncovered", f"no reported path covers input {o.inp} of {o.item.key}", describe(o))
    chk.cov["programs"] = len(items)
    chk.cov["programs_symbolic_storage"] = nsym
    chk.cov["programs_entirely_unsupported"] = stuck_progs
    transient_across_transactions(chk)
    hash_registry_phase(chk, tier)
    chk.cov["rule"] = (
        "sequences of 2-6 stores/loads over location expressions (scalars, mappings with 32-byte and short keys, dynamic "
        "arrays, struct offsets, nested to depth 3), each written in several syntactic forms (run-time SHA3, PUSH32 of "
        "the precomputed hash, additions in either order / re-associated), symbolic keys and indices evaluated on small "
        "colliding domains {0..3} and on large values, both --storage-layout settings, TSTORE/TLOAD variants; every written "
        "location is re-read by an epilogue in a possibly different form; the flat slot map of Evm.tla is the reference; "
        "plus programs over a typed layout whose account has symbolic storage (enabled initially or by svm.enableSymbolicStorage "
        "/ vm.setArbitraryStorage): never-written slots hold slot xor MASK in Evm.tla and in the reading of halmos' initial "
        "storage terms (harness/symstore.py); plus a two-transaction run_contract scenario for transient storage"
    )
    chk.assumptions += ["keccak is evaluated exactly (hash-collision-free inputs: assumption A4)", "symbolic *base* slots are outside halmos' solidity layout model (paths end stuck and are not judged)"]
