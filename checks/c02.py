"""C02 - no feasible behaviour is dropped during exploration (E1 coverage)."""

import random

from harness import progs, progs_alias, progs_calls, progs_cheats, progs_symstore
from harness.common import Check
from harness.e1corpus import Item, describe, run_items, release

BUDGET = {
    "quick": {"arith": 6, "control": 20, "memory": 6, "state": 12, "calls": 12, "alias": 12, "symstorage": 8, "assume": 8},
    "thorough": {"arith": 150, "control": 500, "memory": 100, "state": 400, "calls": 400, "alias": 300, "symstorage": 200, "assume": 100},
}
TIMEOUTS = ["0", "1ms", "10s"]


def run(chk: Check, tier: str):
    rnd = random.Random(104729 * chk.seed + 5)
    fams = dict(progs.FAMILIES)
    fams["calls"] = progs_calls.fam_calls
    fams["alias"] = progs_alias.fam_alias
    fams["symstorage"] = progs_symstore.fam_symstorage
    fams["assume"] = progs_cheats.fam_assume  # vm.assume under an `unknown` answer must keep the state
    items = []
    for fam, n in BUDGET[tier].items():
        for i in range(n):
            prog, inputs = fams[fam](rnd)
            # every value of --solver-timeout-branching: an `unknown` answer must never prune
            to = TIMEOUTS[i % len(TIMEOUTS)]
            loop = ["2", "3", "1"][i % 3]
            cli = ("--solver-timeout-branching", to, "--loop", loop)
            # every 4th program: the branching solver answers `unknown` (always / for a seeded half of its calls)
            if i % 4 == 2:
                cli += ("--verif-unknown", "all")
            elif i % 4 == 3:
                cli += ("--verif-unknown", str(i))
            items.append(Item(prog, inputs, cli=cli))
    # the hand-written corner programs of harness/probes.py (coverage direction only)
    from harness import probes

    items += probes.c01_probes()
    ncov = 0
    for i in range(0, len(items), 100):
        if i:
            release(items[i - 100 : i])
        outs = run_items(items[i : i + 100], chk)
        for o in outs:
            chk.count("evaluations")
            if o.skipped:
                continue
            if o.match.unevaluable:
                chk.count("unevaluable_paths", len(o.match.unevaluable))
            if o.covered:
                ncov += 1
                chk.count("traces_validated_against_impl")
                chk.nontrivial((o.item.key, tuple(sorted(o.inp.items()))))
            elif o.flagged:
                chk.count("uncovered_but_flagged")
            elif o.match.unevaluable:
                chk.count("coverage_undecided")
            else:
                chk.violation(
                    f"{o.item.key}:uncovered",
                    f"no reported path of {o.item.key} (cli {o.item.cli}) has constraints satisfied by the input "
                    f"{ {k: hex(v) for k, v in o.inp.items()} }, and the exploration was not flagged incomplete",
                    describe(o),
                )
            chk.sample({"program": o.item.key, "cli": o.item.cli, "input": {k: hex(v) for k, v in o.inp.items()},
                        "covering_paths": [c.index for c in o.match.covering]})
    chk.cov["programs"] = len(items)
    chk.cov["rule"] = (
        "E1 corpus (all families) x inputs (boundary, random, models of every reported path); for each input the "
        "conjunction of every path's constraints is evaluated pointwise; a case is non-trivial when covered; an input "
        "covered by no path while nothing was flagged (bounded loop, stuck path, escaped exception) is a violation; "
        "runs rotate --solver-timeout-branching over 0, 1ms, 10s and --loop over 1..3; in half of the runs the branching "
        "solver is made to answer `unknown` (for all / for a seeded half of its queries), as on a timeout"
    )
