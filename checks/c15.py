"""C15 - invariant testing covers every bounded call sequence.

Frontier.tla is the specification of bounded invariant testing: TLC's breadth-first search over
TargetCall (one whole transaction per action, Evm!Run) brute-forces every sequence of at most d calls
over complete finite domains and reports whether the invariant (or an assertion inside a target) can
break, with a shortest breaking sequence.  halmos' run_contract on the corresponding artifacts with
--invariant-depth d must FAIL iff TLC found a break, and every counterexample it reports (call sequence +
model, captured at the solver callback) is replayed on Evm.tla and must break the invariant.
"""

from __future__ import annotations

import json
import random
import threading
from contextlib import contextmanager

import z3

from harness import e1, invgen, reftest, zeval
from harness.artifacts import run_contract, selector
from harness.common import Check, MachineryError, cleanup, run_tlc, workdir
from harness.hrun import hmain


@contextmanager
def capture_cex():
    """Record the Exec and the solver output of every potential violation, at the solver callback."""
    rec = {"cex": []}
    lock = threading.Lock()
    H = hmain.CounterexampleHandler
    orig_cb = H._solve_end_to_end_callback

    def callback(self, future, ex, path_ctx, description):
        so = self._get_solver_output(future, path_ctx)
        with lock:
            rec["cex"].append((self.is_probe, ex, so))
        return orig_cb(self, future, ex=ex, path_ctx=path_ctx, description=description)

    orig_hv = H.handle_assertion_violation

    def handle(self, path_id, ex, panic_found, description=None):
        # every potential violation handed to the solver, recorded synchronously (the callback above is asynchronous)
        with lock:
            rec["submitted"].append((self.is_probe, ex))
        return orig_hv(self, path_id=path_id, ex=ex, panic_found=panic_found, description=description)

    rec["submitted"] = []
    H._solve_end_to_end_callback = callback
    H.handle_assertion_violation = handle
    try:
        yield rec
    finally:
        H._solve_end_to_end_callback = orig_cb
        H.handle_assertion_violation = orig_hv


GETTER_SELECTORS = {selector(g) for g in invgen.GETTERS}


@contextmanager
def capture_calls():
    """Record every target call halmos sets up: (target address, selector, admissible senders among the domain)."""
    rec = {"calls": set(), "senders": {}}
    orig = hmain.run_target_function

    def wrapped(args, ex, addr, abi, fun_info, tx_origin, msg_sender, msg_value, msg_sender_cond=None):
        a = addr.as_long() if hasattr(addr, "as_long") else int(addr)
        if a == reftest.FOUNDRY_TEST and fun_info.selector in GETTER_SELECTORS:
            # halmos reads the filters themselves through this function
            return orig(args, ex, addr, abi, fun_info, tx_origin, msg_sender, msg_value, msg_sender_cond)
        rec["calls"].add((a, fun_info.selector))
        ok = set()
        for s in (invgen.OWNER, invgen.OTHER, invgen.ANY):
            if msg_sender_cond is None:
                ok.add(s)
            else:
                v = z3.simplify(z3.substitute(msg_sender_cond, (msg_sender, z3.BitVecVal(s, 160))))
                if z3.is_true(v):
                    ok.add(s)
        rec["senders"][(a, fun_info.selector)] = ok
        return orig(args, ex, addr, abi, fun_info, tx_origin, msg_sender, msg_value, msg_sender_cond)

    hmain.run_target_function = wrapped
    try:
        yield rec
    finally:
        hmain.run_target_function = orig


def gen_filters(rnd: random.Random, fns, k: int | None = None) -> invgen.Filters:
    A, B = invgen.TARGET_ADDR, invgen.DUMMY_ADDR
    F = invgen.Filters
    f = rnd.choice(fns).sig
    g = rnd.choice(fns).sig
    shapes = [
        F(t_selectors=[(A, [f])]),
        F(x_selectors=[(A, [f])]),
        F(t_selectors=[(A, [f])], x_selectors=[(A, [f])]),  # excludeSelectors is ignored when selectors are targeted
        F(t_contracts=[B]),
        F(x_contracts=[B]),
        F(x_contracts=[A]),
        F(t_contracts=[B], t_selectors=[(A, [f, g])]),  # targetSelectors adds its contract
        F(t_selectors=[(A, [f]), (A, [g])]),  # several entries for one contract accumulate
        F(x_selectors=[(A, [f]), (B, ["noop()"])]),
        F(t_senders=[invgen.OWNER]),
        F(x_senders=[invgen.OWNER]),
        F(x_contracts=[A], t_selectors=[(A, [f])]),  # excluded, but named by targetSelectors: stays a target, restricted to f
        F(t_contracts=[A, B], x_contracts=[A], t_selectors=[(A, [f, g])]),
        F(x_contracts=[A, B], t_selectors=[(B, ["noop()"]), (A, [g])]),
        F(t_senders=[invgen.OWNER, invgen.OTHER]),  # two admissible senders: either of them
        F(t_senders=[invgen.OWNER, invgen.OTHER, invgen.ANY], x_senders=[invgen.ANY]),
        F(t_senders=[invgen.OWNER, invgen.OTHER], x_senders=[invgen.OWNER]),
        F(t_senders=[invgen.OTHER], x_senders=[invgen.OTHER]),  # nothing left to target: anyone but the excluded
        F(t_senders=[invgen.OWNER], x_selectors=[(A, [f])], x_contracts=[B]),
    ]
    return shapes[k % len(shapes)] if k is not None else rnd.choice(shapes)


NSHAPES = 19


def concretise(expr, env: dict) -> int:
    """Value of a z3 term / int under the model env; symbols the model leaves free are 0."""
    if isinstance(expr, int):
        return expr
    if hasattr(expr, "as_z3"):
        expr = expr.as_z3()
    names = {}

    def walk(e, seen=set()):
        if e.get_id() in seen:
            return
        seen.add(e.get_id())
        if z3.is_const(e) and e.decl().kind() == z3.Z3_OP_UNINTERPRETED and not z3.is_array(e):
            names[e.decl().name()] = 0
        for c in e.children():
            walk(c)

    walk(expr, set())
    full = dict(names)
    full.update({k: v for k, v in env.items() if k in names})
    v = zeval.Evaluator(full).eval(expr)
    return int(v)


def replay_case(cid, m, ex, model, final_inv: bool):
    """EvmRun case: deploy; setUp; the reported calls (concretised with the model); [the invariant call]."""
    env = {name: var.value for name, var in model.model.items()}
    txs = [e1.mk_tx(reftest.FOUNDRY_TEST, reftest.FOUNDRY_CALLER, reftest.FOUNDRY_CALLER, 0, m.test.creation(), create=True),
           e1.mk_tx(reftest.FOUNDRY_TEST, reftest.FOUNDRY_CALLER, reftest.FOUNDRY_CALLER, 0, bytes.fromhex(selector("setUp()")))]
    bal = {reftest.FOUNDRY_TEST: reftest.TEST_BALANCE}
    calls = []

    def ts_after(k: int, prev: int) -> int:
        """Block timestamp halmos chose after the k-th call (free in the model: time stands still)."""
        for name, v in env.items():
            if name.startswith(f"halmos_block_timestamp_depth{k}_"):
                return v
        return prev

    now = 1  # the first call happens at setUp's timestamp
    for k, cc in enumerate(ex.call_sequence):
        if k > 0:
            now = ts_after(k, now)
        msg = cc.message
        data = msg.data.unwrap()
        n = len(msg.data)
        dv = data if isinstance(data, bytes) else concretise(data, env).to_bytes(n, "big")
        caller = concretise(msg.caller, env)
        value = concretise(msg.value, env)
        to = concretise(msg.target, env)
        bal[caller] = max(bal.get(caller, 0), 2**100)
        tx = e1.mk_tx(to, caller, caller, value, dv, transfer=True)
        tx["ts"] = e1.word(now)
        txs.append(tx)
        calls.append({"to": hex(to), "data": dv.hex(), "caller": hex(caller), "value": value, "timestamp": now})
    if final_inv:
        tx = e1.mk_tx(reftest.FOUNDRY_TEST, reftest.FOUNDRY_CALLER, reftest.FOUNDRY_CALLER, 0, bytes.fromhex(selector("invariant_machine()")))
        tx["ts"] = e1.word(ts_after(len(ex.call_sequence), now))
        txs.append(tx)
    return e1.mk_case(cid, {}, txs, balances=bal), calls


def slicing_phase(chk: Check, tier: str, work):
    """PathSlice.tla: the slice of a path for a set of state variables is the connected component of its
    conditions (what identifies a frontier state); every history TLC enumerates is replayed into the real Path."""
    from harness import pathslice_replay

    tr = run_tlc("PathSlice", "MC_PathSlice_q.cfg" if tier == "quick" else "MC_PathSlice_t.cfg", work=work, timeout=3600)
    if tr.rc != 0 or tr.violated:
        raise MachineryError(f"PathSlice.tla: {tr.violated or tr.rc}\n{tr.stdout[-800:]}")
    chk.add_tlc(tr)
    neg = run_tlc("PathSlice", "MC_PathSlice_backward.cfg", work=work, timeout=1800, expect_violation=True)
    if neg.violated != "SliceIsComponent":
        raise MachineryError(f"PathSlice.tla: the backward-only dependency update is not refuted ({neg.violated})")
    chk.count("negative_controls_rejected")
    rnd = random.Random(chk.seed + 150)
    recs = tr.records
    if tier == "quick" and len(recs) > 2500:
        recs = rnd.sample(recs, 2500)
    elif len(recs) > 40000:
        recs = rnd.sample(recs, 40000)
    for rec in recs:
        errs = pathslice_replay.replay(rec)
        chk.count("slice_histories_replayed")
        if errs:
            chk.violation("slice-not-component:" + "|".join("".join(c) for c in rec["paths"][0]["conds"]), errs[0], {"history": rec, "disagreements": errs[:5]})
    # negative control of the replay: with the pre-fix update rule some history must disagree
    with pathslice_replay.backward_only_append():
        if not any(pathslice_replay.replay(rec) for rec in recs[:400]):
            raise MachineryError("slice replay: the backward-only update rule is not noticed")
    chk.count("negative_controls_rejected")


def run(chk: Check, tier: str):
    rnd = random.Random(92821 * chk.seed + 15)
    n = 16 if tier == "quick" else 300
    machines = []
    for i in range(n):
        d = [0, 1, 1, 2, 2, 2][i % 6] if tier == "quick" else [0, 1, 2, 2, 3, 3][i % 6]
        machines.append(invgen.gen_machine(rnd, depth=d))
    # target/exclude filter scenarios: the test contract declares forge-std's getters; every shape in every run
    for k in range(NSHAPES if tier == "quick" else 6 * NSHAPES):
        fns = invgen.gen_functions(rnd, rnd.randint(2, 4))
        machines.append(invgen.gen_machine(rnd, depth=1 if tier == "quick" else rnd.choice([1, 1, 2]), fns=fns, filters=gen_filters(rnd, fns, k)))
    work = workdir("c15")
    try:
        slicing_phase(chk, tier, work)
        # --- specification side: brute force of all bounded call sequences
        # probe with a stable key: the property's "non-decreasing timestamps" include a first call later than setUp
        # fixed machines: a break that needs two calls in the same block / a strictly later second call
        machines.append(invgen.same_block_machine())
        machines.append(invgen.later_block_machine())
        machines.append(invgen.merge_machine())
        # the depth of a test given by its own annotation: deeper (3) and shallower (1) than the default of 2
        machines.append(invgen.counter_machine(3))
        machines.append(invgen.counter_machine(1))
        machines.append(invgen.refuted_probe_machine(True))
        machines.append(invgen.refuted_probe_machine(False))
        late = len(machines)
        machines.append(invgen.late_machine())
        cases = [invgen.frontier_case(i, m, first_at_setup=(i != late)) for i, m in enumerate(machines)]
        f = work / "frontier.json"
        f.write_text(json.dumps(cases))
        cf = work / "cheats.json"
        from harness.cheats import DESCRIPTORS

        cf.write_text(json.dumps([{k: d[k] for k in ("sel", "kind", "op", "typ", "arr", "n")} for d in DESCRIPTORS]))
        tr = run_tlc("Frontier", "Frontier.cfg", work=work, env={"CASES": str(f), "CHEATS": str(cf)}, expect_violation=True, timeout=7200)
        if not tr.ok:
            raise MachineryError(f"Frontier.tla failed: {tr.violated}\n{tr.stdout[-2500:]}")
        chk.add_tlc(tr)
        breaks, probes, spec_calls = {}, {}, {}
        for rec in tr.records:
            if "calls" in rec:
                spec_calls[rec["id"]] = rec
                continue
            tab = breaks if rec["broken"] == "invariant" else probes
            cur = tab.get(rec["id"])
            if cur is None or len(rec["seq"]) < len(cur["seq"]):
                tab[rec["id"]] = rec
        # --- implementation side
        replay_cases, replay_index = [], {}
        for i, m in enumerate(machines):
            with capture_cex() as rec, capture_calls() as made:
                out = run_contract(m.test, others=[m.target] + ([m.dummy] if m.dummy else []), cli=("--invariant-depth", str(m.depth)) if m.depth_via == "cli" else ())
            if out.exception:
                raise MachineryError(f"run_contract: {out.exception}")
            r = out.by_sig().get("invariant_machine()")
            if r is None:
                raise MachineryError(f"no result: {out.stdout[-500:]}")
            spec_break = breaks.get(i)
            spec_probe = probes.get(i)
            chk.count("evaluations")
            chk.count("traces_validated_against_impl")
            key = f"machine:{'|'.join(m.meta['functions'])}|{m.meta['invariant']}|d{m.depth}|{m.meta.get('filters', 'none')}"
            info = {"functions": m.meta["functions"], "invariant": m.meta["invariant"], "depth": m.depth, "halmos_exitcode": r.exitcode,
                    "reference_break": None if spec_break is None else {"kind": spec_break["broken"], "calls": [
                        {"sel": bytes(c["sel"]).hex(), "args": [e1.unword(a) for a in c["args"]], "sender": hex(e1.unword(c["sender"])), "value": e1.unword(c["value"]),
                         "timestamp": e1.unword(c["ts"])}
                        for c in spec_break["seq"]]},
                    "halmos_output": (out.stdout + out.logs)[-1500:]}
            if spec_break is not None:
                chk.nontrivial((key, "breakable"))
            # the calls halmos sets up must be exactly the calls the specification resolves from the filters
            # (view functions change nothing and may or may not be called)
            sc = spec_calls.get(i)
            if sc is None:
                raise MachineryError(f"no resolved call set for case {i}")
            views = {bytes.fromhex(selector(g)) for g in ("getx()", "gety()")}
            want = {(e1.unword(c["addr"]), bytes(c["sel"]).hex()) for c in sc["calls"] if bytes(c["sel"]) not in views}
            got = {(a, sel) for a, sel in made["calls"] if bytes.fromhex(sel) not in views}
            info["filters"] = m.meta.get("filters")
            if m.depth > 0 and "No target contracts" not in (out.logs + out.stdout):
                chk.count("call_sets_compared")
                if m.filters is not None:
                    chk.nontrivial((key, "filters"))
                if got != want and not (not want and not got):
                    d = dict(info)
                    d["calls_specified"] = sorted((hex(a), sl) for a, sl in want)
                    d["calls_made"] = sorted((hex(a), sl) for a, sl in got)
                    chk.violation(f"target-set:{key}", f"filters [{m.meta.get('filters')}]: halmos calls {d['calls_made']} but Foundry's rules select {d['calls_specified']}", d)
                want_s = {e1.unword(x) for x in sc["senders"]}
                for (a, sel), ok in made["senders"].items():
                    if ok != want_s:
                        d = dict(info)
                        d["senders_specified"] = sorted(hex(x) for x in want_s)
                        d["senders_admitted"] = sorted(hex(x) for x in ok)
                        chk.violation(f"sender-set:{key}", f"filters [{m.meta.get('filters')}]: halmos admits senders {d['senders_admitted']} for {sel}, the rules give {d['senders_specified']}", d)
                        break
            if m.filters is not None and spec_break is None and spec_probe is None and r.exitcode == 1:
                chk.violation(f"filtered-break:{key}", f"filters [{m.meta.get('filters')}]: no admissible call sequence breaks '{m.meta['invariant']}' within depth {m.depth}, but halmos reports FAIL", info)
            if i == late and spec_break is not None and r.exitcode == 0:
                chk.violation("probe:first-call-at-setup-timestamp", "target late(): if(block.timestamp>1) x=3, invariant x != 3, depth 1: the one-call sequence [late() at a "
                              "timestamp after setUp's] breaks the invariant, but halmos runs the first call of every sequence at setUp's own timestamp and reports PASS "
                              "(with --invariant-depth 2 the break is found)", info)
            elif spec_break is not None and r.exitcode == 0 and not any(w in (out.logs + out.stdout) for w in ("loop unrolling bound", "incomplete execution")):
                chk.violation(f"missed-break:{key}", f"a sequence of {len(spec_break['seq'])} call(s) breaks '{m.meta['invariant']}' within depth {m.depth} on the reference machine, but halmos reports PASS", info)
            text = out.logs + out.stdout
            if spec_break is None and spec_probe is not None and r.exitcode == 0:
                chk.nontrivial((key, "probe"))
                # printed at best (asynchronously, by a solver callback nobody waits for) - never part of the verdict (recorded finding)
                chk.count("probe_printed" if "Assertion failure detected" in text else "probe_not_even_printed")
                chk.violation("probe-failure-not-in-verdict", f"an assertion inside a target function fails ({m.meta['functions']}): halmos reports invariant_machine() as PASS", info)
                # ... but it has to be checked: some potential violation inside a target that was handed to the solver is satisfiable
                verdicts = []
                for is_probe, pex in rec["submitted"]:
                    if is_probe:
                        sol = z3.Solver()
                        sol.set(timeout=10000)
                        sol.add(*list(pex.path.conditions))
                        verdicts.append(str(sol.check()))
                chk.count("probe_submissions_examined", len(verdicts))
                if "sat" not in verdicts and "unknown" not in verdicts:
                    d = dict(info)
                    d["potential_violations_submitted"] = verdicts
                    chk.violation(f"probe-not-checked:{key}", f"an assertion inside a target function fails within depth {m.depth} on the reference machine ({len(spec_probe['seq'])} call(s)), "
                                  f"but no satisfiable assertion failure of a target was ever handed to the solver (submitted: {verdicts or 'none'}): assertions in targets are not checked after every explored call", d)
            if spec_break is None and r.exitcode == 1:
                # a FAIL without a reference break is only wrong if halmos marks the counterexample valid: replayed below
                chk.count("fail_without_reference_break")
            chk.sample({k: info[k] for k in ("functions", "invariant", "depth", "halmos_exitcode", "reference_break")})
            for is_probe, ex, so in rec["cex"]:
                if so.model is None or not so.model.is_valid:
                    continue
                case, calls = replay_case(len(replay_cases), m, ex, so.model, final_inv=not is_probe)
                replay_index[len(replay_cases)] = (i, key, calls, is_probe, info)
                replay_cases.append(case)
        if replay_cases:
            recs, tr2 = e1.run_spec(replay_cases, work)
            chk.add_tlc(tr2)
            for cid, (i, key, calls, is_probe, info) in replay_index.items():
                rec = recs[cid]
                chk.count("counterexamples_replayed")
                if rec["status"] != "done":
                    chk.count("replay_unmodelled")
                    continue
                if not all(p["ok"] for p in rec["pre"][:2]):
                    raise MachineryError("replay: deployment/setUp failed")
                ok_prefix = all(p["ok"] for p in rec["pre"][2:])
                if not (reftest.is_failure(rec, {1}) and ok_prefix):
                    d = dict(info)
                    d["reported_calls"] = calls
                    d["replay"] = {"pre": rec["pre"], "kind": rec["kind"], "data": bytes(rec["data"]).hex()}
                    chk.violation(f"cex-not-reproducible:{key}", f"the call sequence halmos reports for '{info['invariant']}' ({'assertion in target' if is_probe else 'invariant'}) does not break it on the reference machine", d)
    finally:
        cleanup(work)
    chk.cov["programs"] = len(machines)
    chk.cov["rule"] = (
        "generated target contracts (2-4 functions over two state words: increments, guarded sets, owner-only, payable, "
        "asserting, swap/reset, and functions comparing block.timestamp with the timestamp of their previous call) with an invariant test contract; Frontier.tla explores every sequence of <= d calls over "
        "complete finite domains (arguments masked to 0..3, senders {OWNER, OTHER}, values {0,1}, non-decreasing timestamps from 1..d+1) with one Evm!Run per call; "
        "a third of the machines declare target/exclude filters (contracts, selectors, senders; 19 shapes) through forge-std's getters: "
        "Frontier!TargetAddrs/TargetFns/Senders resolve them by Foundry's rules and the calls and sender sets halmos sets up are compared with them; "
        "state identity: PathSlice.tla (slice = connected component of the path's conditions; backward-only update refuted) with every enumerated "
        "append/branch history replayed into the real Path; "
        "run_contract with --invariant-depth d must FAIL iff a break exists and each valid counterexample (captured call "
        "sequence + model) is replayed on Evm.tla; non-trivial = machines whose invariant is breakable within the depth"
    )
