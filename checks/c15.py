"""C15 - invariant testing covers every bounded call sequence.

Frontier.tla is the specification of bounded invariant testing: TLC's breadth-first search over
TargetCall (one whole transaction per action, Evm!Run) brute-forces every sequence of at most d calls
over complete finite domains and reports whether the invariant (or an assertion inside a target) can
break, with a shortest breaking sequence.  halmos' run_contract on the corresponding artifacts with
--invariant-depth d must FAIL iff TLC found a break, and every counterexample it reports (call sequence +
model, captured at the solver callback) is replayed on Evm.tla and must break the invariant.
"""

from __future__ import annotations

import json
import random
import threading
from contextlib import contextmanager

import z3

from harness import e1, invgen, reftest, zeval
from harness.artifacts import run_contract, selector
from harness.common import Check, MachineryError, cleanup, run_tlc, workdir
from harness.hrun import hmain


@contextmanager
def capture_cex():
    """Record the Exec and the solver output of every potential violation, at the solver callback."""
    rec = {"cex": []}
    lock = threading.Lock()
    H = hmain.CounterexampleHandler
    orig_cb = H._solve_end_to_end_callback

    def callback(self, future, ex, path_ctx, description):
        so = self._get_solver_output(future, path_ctx)
        with lock:
            rec["cex"].append((self.is_probe, ex, so))
        return orig_cb(self, future, ex=ex, path_ctx=path_ctx, description=description)

    H._solve_end_to_end_callback = callback
    try:
        yield rec
    finally:
        H._solve_end_to_end_callback = orig_cb


def concretise(expr, env: dict) -> int:
    """Value of a z3 term / int under the model env; symbols the model leaves free are 0."""
    if isinstance(expr, int):
        return expr
    if hasattr(expr, "as_z3"):
        expr = expr.as_z3()
    names = {}

    def walk(e, seen=set()):
        if e.get_id() in seen:
            return
        seen.add(e.get_id())
        if z3.is_const(e) and e.decl().kind() == z3.Z3_OP_UNINTERPRETED and not z3.is_array(e):
            names[e.decl().name()] = 0
        for c in e.children():
            walk(c)

    walk(expr, set())
    full = dict(names)
    full.update({k: v for k, v in env.items() if k in names})
    v = zeval.Evaluator(full).eval(expr)
    return int(v)


def replay_case(cid, m, ex, model, final_inv: bool):
    """EvmRun case: deploy; setUp; the reported calls (concretised with the model); [the invariant call]."""
    env = {name: var.value for name, var in model.model.items()}
    txs = [e1.mk_tx(reftest.FOUNDRY_TEST, reftest.FOUNDRY_CALLER, reftest.FOUNDRY_CALLER, 0, m.test.creation(), create=True),
           e1.mk_tx(reftest.FOUNDRY_TEST, reftest.FOUNDRY_CALLER, reftest.FOUNDRY_CALLER, 0, bytes.fromhex(selector("setUp()")))]
    bal = {reftest.FOUNDRY_TEST: reftest.TEST_BALANCE}
    calls = []
    for cc in ex.call_sequence:
        msg = cc.message
        data = msg.data.unwrap()
        n = len(msg.data)
        dv = data if isinstance(data, bytes) else concretise(data, env).to_bytes(n, "big")
        caller = concretise(msg.caller, env)
        value = concretise(msg.value, env)
        to = concretise(msg.target, env)
        bal[caller] = max(bal.get(caller, 0), 2**100)
        txs.append(e1.mk_tx(to, caller, caller, value, dv, transfer=True))
        calls.append({"to": hex(to), "data": dv.hex(), "caller": hex(caller), "value": value})
    if final_inv:
        txs.append(e1.mk_tx(reftest.FOUNDRY_TEST, reftest.FOUNDRY_CALLER, reftest.FOUNDRY_CALLER, 0, bytes.fromhex(selector("invariant_machine()"))))
    return e1.mk_case(cid, {}, txs, balances=bal), calls


def run(chk: Check, tier: str):
    rnd = random.Random(92821 * chk.seed + 15)
    n = 24 if tier == "quick" else 400
    machines = []
    for i in range(n):
        d = [0, 1, 1, 2, 2, 2][i % 6] if tier == "quick" else [0, 1, 2, 2, 3, 3][i % 6]
        machines.append(invgen.gen_machine(rnd, depth=d))
    work = workdir("c15")
    try:
        # --- specification side: brute force of all bounded call sequences
        cases = [invgen.frontier_case(i, m) for i, m in enumerate(machines)]
        f = work / "frontier.json"
        f.write_text(json.dumps(cases))
        cf = work / "cheats.json"
        from harness.cheats import DESCRIPTORS

        cf.write_text(json.dumps([{k: d[k] for k in ("sel", "kind", "op", "typ", "arr", "n")} for d in DESCRIPTORS]))
        tr = run_tlc("Frontier", "Frontier.cfg", work=work, env={"CASES": str(f), "CHEATS": str(cf)}, expect_violation=True, timeout=7200)
        if not tr.ok:
            raise MachineryError(f"Frontier.tla failed: {tr.violated}\n{tr.stdout[-2500:]}")
        chk.add_tlc(tr)
        breaks, probes = {}, {}
        for rec in tr.records:
            tab = breaks if rec["broken"] == "invariant" else probes
            cur = tab.get(rec["id"])
            if cur is None or len(rec["seq"]) < len(cur["seq"]):
                tab[rec["id"]] = rec
        # --- implementation side
        replay_cases, replay_index = [], {}
        for i, m in enumerate(machines):
            with capture_cex() as rec:
                out = run_contract(m.test, others=[m.target], cli=("--invariant-depth", str(m.depth)))
            if out.exception:
                raise MachineryError(f"run_contract: {out.exception}")
            r = out.by_sig().get("invariant_machine()")
            if r is None:
                raise MachineryError(f"no result: {out.stdout[-500:]}")
            spec_break = breaks.get(i)
            spec_probe = probes.get(i)
            chk.count("evaluations")
            chk.count("traces_validated_against_impl")
            key = f"machine:{'|'.join(m.meta['functions'])}|{m.meta['invariant']}|d{m.depth}"
            info = {"functions": m.meta["functions"], "invariant": m.meta["invariant"], "depth": m.depth, "halmos_exitcode": r.exitcode,
                    "reference_break": None if spec_break is None else {"kind": spec_break["broken"], "calls": [
                        {"sel": bytes(c["sel"]).hex(), "args": [e1.unword(a) for a in c["args"]], "sender": hex(e1.unword(c["sender"])), "value": e1.unword(c["value"])}
                        for c in spec_break["seq"]]},
                    "halmos_output": (out.stdout + out.logs)[-1500:]}
            if spec_break is not None:
                chk.nontrivial((key, "breakable"))
            if spec_break is not None and r.exitcode == 0 and not any(w in (out.logs + out.stdout) for w in ("loop unrolling bound", "incomplete execution")):
                chk.violation(f"missed-break:{key}", f"a sequence of {len(spec_break['seq'])} call(s) breaks '{m.meta['invariant']}' within depth {m.depth} on the reference machine, but halmos reports PASS", info)
            text = out.logs + out.stdout
            if spec_break is None and spec_probe is not None and r.exitcode == 0:
                chk.nontrivial((key, "probe"))
                if "Assertion failure detected" in text:
                    # reported, but only as text: the verdict and the exit code stay PASS (recorded finding)
                    chk.violation("probe-failure-not-in-verdict", f"an assertion inside a target function fails ({m.meta['functions']}): halmos prints the counterexample but reports invariant_machine() as PASS", info)
                elif not any(w in text for w in ("loop unrolling bound", "incomplete execution")):
                    chk.violation(f"missed-probe:{key}", "an assertion inside a target function can fail within the depth but halmos neither reports it nor fails", info)
            if spec_break is None and r.exitcode == 1:
                # a FAIL without a reference break is only wrong if halmos marks the counterexample valid: replayed below
                chk.count("fail_without_reference_break")
            chk.sample({k: info[k] for k in ("functions", "invariant", "depth", "halmos_exitcode", "reference_break")})
            for is_probe, ex, so in rec["cex"]:
                if so.model is None or not so.model.is_valid:
                    continue
                case, calls = replay_case(len(replay_cases), m, ex, so.model, final_inv=not is_probe)
                replay_index[len(replay_cases)] = (i, key, calls, is_probe, info)
                replay_cases.append(case)
        if replay_cases:
            recs, tr2 = e1.run_spec(replay_cases, work)
            chk.add_tlc(tr2)
            for cid, (i, key, calls, is_probe, info) in replay_index.items():
                rec = recs[cid]
                chk.count("counterexamples_replayed")
                if rec["status"] != "done":
                    chk.count("replay_unmodelled")
                    continue
                if not all(p["ok"] for p in rec["pre"][:2]):
                    raise MachineryError("replay: deployment/setUp failed")
                ok_prefix = all(p["ok"] for p in rec["pre"][2:])
                if not (reftest.is_failure(rec, {1}) and ok_prefix):
                    d = dict(info)
                    d["reported_calls"] = calls
                    d["replay"] = {"pre": rec["pre"], "kind": rec["kind"], "data": bytes(rec["data"]).hex()}
                    chk.violation(f"cex-not-reproducible:{key}", f"the call sequence halmos reports for '{info['invariant']}' ({'assertion in target' if is_probe else 'invariant'}) does not break it on the reference machine", d)
    finally:
        cleanup(work)
    chk.cov["programs"] = len(machines)
    chk.cov["rule"] = (
        "generated target contracts (2-4 functions over two state words: increments, guarded sets, owner-only, payable, "
        "asserting, swap/reset) with an invariant test contract; Frontier.tla explores every sequence of <= d calls over "
        "complete finite domains (arguments masked to 0..3, senders {OWNER, OTHER}, values {0,1}) with one Evm!Run per call; "
        "run_contract with --invariant-depth d must FAIL iff a break exists and each valid counterexample (captured call "
        "sequence + model) is replayed on Evm.tla; non-trivial = machines whose invariant is breakable within the depth"
    )
