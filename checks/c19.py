"""C19 - bytecode decoding and jump-destination validity follow the EVM.

spec/Bytecode.tla is the reference (InsnLen, OpAt, PushArg, NextPc, Boundaries, ValidJumpdests, CodeSlice);
spec/BytecodeRun.tla enumerates codes, checks the design-level invariants on them and prints the expected
decoding of each; harness/bytecode_replay.py replays every record into halmos' real Contract.

  A  exhaustive: every string of length <= 4 (quick) / <= 6 (thorough) over 8 byte values representing every
     decoding class, with every concrete-prefix/symbolic-suffix split (= every code p ++ SYM^m), plus - up to
     length 4 / 5 - every placement of opaque bytes; each in 2 (concrete) or 3 (symbolic) representations
  B  random byte strings up to 4 KiB (uniform, PUSH-heavy, instruction streams; truncated trailing PUSH;
     symbolic suffix / holes), expected values computed by TLC from a JSON file
  C  execution: PUSH target; JUMP / PUSH c; PUSH target; JUMPI programs in front of sampled strings and of
     hand-made shapes, (1) direct rule against ValidJumpdests of the assembled code, (2) complete executions
     compared with spec/Evm.tla by the E1 engine (concrete codes)
"""

from __future__ import annotations

import collections
import copy
import time
from concurrent.futures import ThreadPoolExecutor

from harness import bytecode_replay as br
from harness.common import Check, MachineryError, cleanup, workdir
from harness.e1corpus import Item, describe, run_items
from harness.hrun import TARGET, Prog, Sym

CFG = {"quick": "MC_Bytecode_q.cfg", "thorough": "MC_Bytecode_t.cfg"}
MAXLEN = {"quick": 4, "thorough": 6}
HOLELEN = {"quick": 4, "thorough": 5}
NRANDOM = {"quick": 200, "thorough": 3000}
NBODIES = {"quick": 36, "thorough": 500}
RANDOM_BATCH = 1000
MAX_PER_CLASS = 2  # violations reported per class of disagreement (smallest codes first)


def expected_counts(maxlen: int, holelen: int) -> dict:
    strings = sum(8**k for k in range(maxlen + 1))
    pairs = sum(8**k * (k + 1) for k in range(maxlen + 1))
    split_codes = sum(8**k * (maxlen + 1 - k) for k in range(maxlen + 1))
    hole_codes = sum(9**k for k in range(holelen + 1))
    split_short = sum(8**k * (holelen + 1 - k) for k in range(holelen + 1))
    return {"concrete_strings": strings, "string_split_pairs": pairs, "distinct_split_codes": split_codes,
            "codes": split_codes + hole_codes - split_short}


def run(chk: Check, tier: str):
    work = workdir("c19")
    try:
        _run(chk, tier, work)
    finally:
        cleanup(work)


def _run(chk: Check, tier: str, work):
    t0 = time.time()
    seed = chk.seed
    thorough = tier == "thorough"

    # ---- inputs for TLC mode "file": random codes and the assembled jump programs
    rcases = br.random_cases(NRANDOM[tier], seed, first_id=0)
    jcases = br.with_representations(br.handmade_cases() + br.sampled_cases(NBODIES[tier], MAXLEN[tier], seed))
    jbase = 10_000_000
    for i, c in enumerate(jcases):
        c.id = jbase + i
    jinput = [{"id": c.id, "code": c.code, "sl": [[0, len(c.code) + 1]]} for c in jcases]
    allcases = rcases + jinput
    batches = [allcases[i : i + RANDOM_BATCH] for i in range(0, len(allcases), RANDOM_BATCH)]

    # ---- TLC jobs in the background
    pool = ThreadPoolExecutor(max_workers=3)
    f_enum = pool.submit(br.tlc_enum, CFG[tier], work, coverage=thorough)
    f_neg = pool.submit(br.tlc_enum, "MC_Bytecode_neg.cfg", work, expect_violation=True, heap="1g")
    f_file = [pool.submit(br.tlc_file, b, work, f"b{i}", coverage=thorough and i == 0) for i, b in enumerate(batches)]

    # ---- C: execute the jump programs in halmos while TLC runs
    br.run_jump_cases(jcases)
    t_exec = time.time() - t0

    # ---- A: exhaustive enumeration
    recs, r = f_enum.result()
    chk.add_tlc(r)
    want = expected_counts(MAXLEN[tier], HOLELEN[tier])
    if len(recs) != want["codes"]:
        raise MachineryError(f"TLC enumerated {len(recs)} codes, expected {want['codes']}")
    nsplit = sum(1 for rec in recs if _suffix_sym(rec[br.F_CODE]))
    nconc = sum(1 for rec in recs if br.SYM not in rec[br.F_CODE])
    if nsplit != want["distinct_split_codes"] or nconc != want["concrete_strings"]:
        raise MachineryError(f"enumeration is not complete: {nconc} concrete strings, {nsplit} split codes, expected {want}")
    if thorough:
        never = [a for a, (d, t) in r.coverage.items() if t == 0]
        chk.cov["tlc_actions_never_taken"] = never
        if never:
            raise MachineryError(f"TLC actions never taken: {never}")
    timing = {"halmos_jump_programs_s": round(t_exec, 1), "tlc_enum_s": round(r.wall_s, 1)}
    t1 = time.time()
    st = br.replay_parallel(recs)
    timing["replay_enum_s"] = round(time.time() - t1, 1)
    chk.cov["exhaustive"] = True
    chk.cov["enumeration"] = {**want, "max_len": MAXLEN[tier], "hole_max_len": HOLELEN[tier], "tlc_groups": r.distinct_states // 2,
                              "tlc_wall_s": round(r.wall_s, 1), "contracts_built": st.contracts, "by_representation": st.by_repr,
                              "instructions_compared": st.insns, "codes_with_opaque_bytes": st.sym_codes,
                              "codes_with_opaque_opcode_at_boundary": st.unconstrained_codes,
                              "codes_with_truncated_push": st.truncated_push, "codes_with_5b_in_push_data": st.jumpdest_in_push}
    chk.count("traces_validated_against_impl", st.contracts)
    chk.count("evaluations", st.contracts)
    for rec in recs:
        if rec[br.F_J]:
            chk.nontrivial(("enum", tuple(rec[br.F_CODE])))
    if st.truncated_push == 0 or st.jumpdest_in_push == 0 or st.sym_codes == 0:
        raise MachineryError("enumeration did not reach truncated PUSH / 5b in PUSH data / opaque bytes")
    disagreements = list(st.disagreements)
    mid = recs[len(recs) // 2]
    chk.sample({"part": "A", "code": br.code_hex(mid[br.F_CODE]), "boundaries": str(mid[br.F_B]), "valid_jumpdests": str(mid[br.F_J]),
                "insns": str([i[:3] for i in mid[br.F_I]])})

    # ---- B + expected sets for C
    frecs = {}
    for i, f in enumerate(f_file):
        out, rf = f.result()
        chk.add_tlc(rf)
        frecs.update(out)
    codes = {c["id"]: c["code"] for c in rcases}
    rrecs = [frecs[c["id"]] for c in rcases]
    timing["tlc_file_s"] = [round(f.result()[1].wall_s, 1) for f in f_file]
    t1 = time.time()
    stb = br.replay_parallel(rrecs, codes=codes, full=False, light=True, batch=20)
    timing["replay_random_s"] = round(time.time() - t1, 1)
    chk.cov["random"] = {"codes": stb.codes, "bytes": sum(len(c["code"]) for c in rcases), "max_len": max(len(c["code"]) for c in rcases),
                         "contracts_built": stb.contracts, "by_representation": stb.by_repr, "instructions_compared": stb.insns,
                         "codes_with_opaque_bytes": stb.sym_codes, "codes_with_truncated_push": stb.truncated_push,
                         "codes_with_5b_in_push_data": stb.jumpdest_in_push}
    chk.count("traces_validated_against_impl", stb.contracts)
    chk.count("evaluations", stb.contracts)
    for c in rcases:
        if frecs[c["id"]][br.F_J]:
            chk.nontrivial(("rnd", c["id"]))
    disagreements += stb.disagreements

    # ---- report decoding disagreements, smallest code of each class first
    report_decoding(chk, disagreements)

    # ---- C: judge
    t1 = time.time()
    judge_exec(chk, jcases, frecs)
    loop_head_programs(chk)
    timing["judge_exec_with_e1_s"] = round(time.time() - t1, 1)

    # ---- negative controls
    t1 = time.time()
    negative_controls(chk, recs, jcases, frecs, f_neg)
    timing["negative_controls_s"] = round(time.time() - t1, 1)
    chk.cov["timing"] = timing
    pool.shutdown()

    chk.cov["rule"] = (
        "A: all codes over {00,5b,5f,60,61,7f,56,01} up to the tier's length with every concrete-prefix/symbolic-suffix split "
        "(and every placement of opaque bytes up to hole_max_len), expected decoding printed by TLC from Bytecode.tla and "
        "compared with Contract.valid_jumpdests/decode_instruction/next_pc/__getitem__/slice/unwrapped_slice/len in every "
        "representation; B: seeded random codes up to 4 KiB likewise; C: jump programs run through SEVM.run, destination "
        "validity against ValidJumpdests of the assembled code and complete executions against Evm.tla.  A case is "
        "non-trivial when the code has at least one valid jump destination (A, B) or the jump is executed (C)"
    )
    chk.assumptions += [
        "decoding beyond an instruction whose opcode is symbolic is unconstrained (only bounded by PossibleJ)",
        "the report of a symbolic opcode (NotConcreteError or a symbolic term) and pc/next_pc of the implicit STOP are unconstrained",
        "the 8 byte values represent the decoding classes: PUSH3..PUSH31 behave like PUSH2/PUSH32 (covered by the random part)",
    ]


def _suffix_sym(code) -> bool:
    seen = False
    for b in code:
        if b == br.SYM:
            seen = True
        elif seen:
            return False
    return True


def report_decoding(chk: Check, disagreements: list) -> None:
    classes = collections.defaultdict(list)
    for codehex, rep, fld, detail in disagreements:
        classes[(fld, rep)].append((codehex, detail))
    chk.cov["disagreements_by_class"] = {f"{f}:{r}": len(v) for (f, r), v in sorted(classes.items())}
    for (fld, rep), lst in sorted(classes.items()):
        lst.sort(key=lambda x: (len(x[0]), x[0]))
        for codehex, detail in lst[:MAX_PER_CLASS]:
            chk.violation(
                f"decode:{fld}:{rep}:{codehex[:96]}",
                f"code {codehex[:200]} as {rep}: {detail} ({len(lst)} codes disagree in this class)",
                {"kind": "decode", "code": codehex, "representation": rep, "field": fld, "detail": detail,
                 "how": "harness.bytecode_replay.build(code, representation) then compare() against the TLC record of BytecodeRun.tla"},
            )


def judge_exec(chk: Check, jcases, frecs, require_classes: bool = True) -> None:
    classes = collections.Counter()
    direct = collections.defaultdict(list)
    for c in jcases:
        rec = frecs[c.id]
        cls, dis = br.judge_jump_direct(c, rec)
        classes[f"{cls}:{'conc' if c.concrete else 'sym-' + c.rep}"] += 1
        chk.count("traces_validated_against_impl")
        if cls in ("valid", "invalid"):
            chk.nontrivial(("jump", c.form, tuple(c.code)))
        for clause, detail in dis:
            direct[f"exec:{clause}:{c.rep}"].append(
                (f"exec:{clause}:{c.key}", f"{c.name} [{c.form}, code as {c.rep}] code {br.code_hex(c.code)}: {detail}",
                 {"kind": "exec", "code": br.code_hex(c.code), "form": c.form, "target": c.target, "name": c.name,
                  "representation": c.rep, "want_marker": c.want_marker, "valid_jumpdests": rec[br.F_J], "possible": rec[br.F_U]}))
    # complete executions against Evm.tla (concrete codes)
    items = []
    for c in jcases:
        if not c.concrete:
            continue
        if c.form == "jumpis":
            prog = Prog(accounts={TARGET: bytes(c.code)}, calldata=[Sym("x", 256)], name=f"c19-{c.form}")
            inputs = [{"x": 0}, {"x": 1}, {"x": 1 << 255}]
        else:
            prog = Prog(accounts={TARGET: bytes(c.code)}, name=f"c19-{c.form}")
            inputs = [{}]
        it = Item(prog, inputs, hr=c.hr, key=f"{c.form}:{br.code_hex(c.code)}")
        it.case = c
        items.append(it)
    ncmp = 0
    found = direct  # class -> [(key, what, replay)]
    for i in range(0, len(items), 1500):
        outs = run_items(items[i : i + 1500], chk)
        for o in outs:
            chk.count("evaluations")
            c = o.item.case
            rec = frecs[c.id]
            if o.skipped:
                chk.count("e1_skipped_unmodelled")
                continue
            if o.match.covering:
                ncmp += 1
            invalid = c.target not in set(rec[br.F_J])
            for idx, clause in o.clauses:
                d = describe(o)
                d.update({"kind": "exec", "c19_code": br.code_hex(c.code), "form": c.form, "target": c.target,
                          "representation": c.rep, "valid_jumpdests": rec[br.F_J], "name": c.name})
                kind = clause.split(":")[0].replace(" ", "-")
                cls = "exec-jumpi-symbolic-condition-invalid-target" if c.form == "jumpis" and invalid else "exec-e1"
                found[cls].append((f"{cls}:{kind}:{o.item.key}",
                                               f"{c.name} [{c.form}] target {c.target} input {o.inp}: path {idx}: {clause}", d))
            if not o.covered and not o.flagged and not o.match.unevaluable:
                found["exec-e1:uncovered"].append((f"exec-e1:uncovered:{o.item.key}",
                                                   f"{c.name}: no reported path covers input {o.inp}", describe(o)))
    for cls, lst in sorted(found.items()):
        lst.sort(key=lambda x: (len(x[0]), x[0]))
        for key, what, d in lst[:MAX_PER_CLASS]:
            chk.violation(key, f"{what} ({len(lst)} disagreements in this class)", d)
    chk.cov["exec_disagreements_by_class"] = {k: len(v) for k, v in found.items()}
    chk.cov["exec_disagreements_by_kind"] = dict(collections.Counter(":".join(key.split(":")[:2]) for v in found.values() for key, _, _ in v))
    chk.cov["exec"] = {"programs": len(jcases), "handmade": sum(1 for c in jcases if c.name != "sampled" and c.name != "sampled-sym"),
                       "classes": dict(classes), "e1_programs": len(items), "e1_inputs_compared": ncmp,
                       "forms": dict(collections.Counter(c.form for c in jcases))}
    for need in () if not require_classes else ("valid:conc", "invalid:conc", "valid:sym-chunks", "invalid:sym-chunks", "unconstrained:sym-chunks",
                 "valid:sym-concat", "invalid:sym-concat", "notaken:conc"):
        if not classes.get(need):
            raise MachineryError(f"no jump program of class {need} was executed")
    chk.sample({"part": "C", "classes": dict(classes)})


def loop_head_programs(chk: Check) -> None:
    """Backward jumps to a genuine JUMPDEST at pc 0..3 (a loop head at the very beginning of the code), taken by
    JUMP, by JUMPI with a literally true condition and by JUMPI whose symbolic condition follows from the path."""
    from harness.asm import assemble

    from .c01 import judge

    items = []
    for h in range(4):
        for flavour in ("jump", "jumpi-true", "jumpi-implied"):
            body = [("RAW", bytes([0x5B] * (h + 1)))]  # JUMPDESTs at 0..h; the loop head is pc h
            body += [("PUSH", 0), "MLOAD", ("PUSHL", "exit"), "JUMPI", ("PUSH", 1), ("PUSH", 0), "MSTORE"]
            if flavour == "jump":
                body += [("PUSH", h), "JUMP"]
            elif flavour == "jumpi-true":
                body += [("PUSH", 1), ("PUSH", h), "JUMPI"]
            else:
                # only inputs x > 5 get here; then `x > 3` is symbolic but certainly true
                body += [("PUSH", 5), ("PUSH", 0), "CALLDATALOAD", "GT", ("PUSHL", "go"), "JUMPI", ("PUSH", 0xEE), ("PUSH", 32), "MSTORE", ("PUSH", 64), ("PUSH", 0), "RETURN",
                         ("LABEL", "go"), ("PUSH", 3), ("PUSH", 0), "CALLDATALOAD", "GT", ("PUSH", h), "JUMPI"]
            body += ["INVALID", ("LABEL", "exit"), ("PUSH", 0xC1), ("PUSH", 32), "MSTORE", ("PUSH", 64), ("PUSH", 0), "RETURN"]
            prog = Prog(accounts={TARGET: assemble(body)}, calldata=[Sym("x", 256)], name=f"c19-loophead-{flavour}")
            items.append(Item(prog, [{"x": 0}, {"x": 6}, {"x": 1 << 255}], key=f"loophead:{flavour}:pc{h}"))
    outs = run_items(items, chk, witnesses=False)
    judge(chk, outs)
    for o in outs:
        if not o.covered and not o.flagged and not o.skipped and not o.match.unevaluable:
            chk.violation(f"{o.item.key}:uncovered", f"no reported path covers input {o.inp} of {o.item.key}", describe(o))
    chk.cov["loop_head_programs"] = len(items)


# ---------------------------------------------------------------------------------------------
# negative controls


def negative_controls(chk: Check, recs, jcases, frecs, f_neg) -> None:
    res = {}
    # 1. the TLC invariants are not vacuous
    _, r = f_neg.result()
    if r.violated != ["NegEveryJumpdestByteValid", "NegEveryPositionBoundary"]:
        raise MachineryError(f"negative control: TLC must refute exactly the two Neg* invariants and keep InvChain, got {r.violated!r}")
    res["tlc"] = "NegEveryJumpdestByteValid and NegEveryPositionBoundary violated as expected, InvChain holds in the same run"
    # 2. a jump-destination scan that forgets to skip PUSH data / slices that are not zero-padded are rejected
    small = [rec for rec in recs if rec[br.F_N] <= 3]
    st = br.replay_batch(small, api=br.ForgetsPushData(), reprs=("bytes", "chunks"))
    hits = [d for d in st.disagreements if d[2] == "jumpdests-extra"]
    if not any(d[0] == "605b" for d in hits):
        raise MachineryError("negative control: a valid_jumpdests() that does not skip PUSH data was accepted on 605b")
    res["ForgetsPushData"] = f"{len(hits)} contracts rejected"
    st = br.replay_batch(small, api=br.NoZeroPadding(), reprs=("bytes", "chunks"))
    hits = [d for d in st.disagreements if d[2] in ("slice", "slice-byte")]
    if not hits:
        raise MachineryError("negative control: slices that are not zero beyond the end were accepted")
    res["NoZeroPadding"] = f"{len(hits)} slices rejected"
    # 3. mutated expectations are rejected
    byhex = {br.code_hex(rec[br.F_CODE]): rec for rec in recs}
    muts = {
        "boundary-shifted": ("615b5b5b", lambda m: m[br.F_I][1].__setitem__(0, 2)),
        "nextpc-shifted": ("615b5b5b", lambda m: m[br.F_I][0].__setitem__(2, 2)),
        "operand-pad-nonzero": ("5b7f5b", lambda m: m[br.F_I][1][3].__setitem__(31, 1)),
        "operand-left-padded": ("615b", lambda m: m[br.F_I][0].__setitem__(3, [0, 0x5B])),
        "implicit-stop-not-stop": ("5b", lambda m: m[br.F_E].__setitem__(0, 1)),
        "jumpdest-dropped": ("605b5b", lambda m: m[br.F_J].clear()),
        "jumpdest-in-push-added": ("605b5b", lambda m: m[br.F_J].insert(0, 1)),
        "slice-past-end-nonzero": ("5b", lambda m: [s[2].__setitem__(len(s[2]) - 1, 1) for s in m[br.F_S] if s[0] == 0 and s[1] == 3]),
        "length": ("5b", lambda m: m.__setitem__(br.F_N, 2)),
        "sym-jumpdest-dropped": ("5b??", lambda m: m[br.F_J].clear()),
        "sym-operand-concretised": ("61??5b", lambda m: m[br.F_I][0].__setitem__(3, [0, 0x5B])),
    }
    for name, (hexcode, mut) in muts.items():
        rec = byhex.get(hexcode)
        if rec is None:
            raise MachineryError(f"negative control {name}: no record for {hexcode}")
        code = rec[br.F_CODE]
        m = copy.deepcopy(rec)
        mut(m)
        if m == rec:
            raise MachineryError(f"negative control {name}: the mutation changed nothing")
        reps = ("chunks", "runs") if br.SYM in code else ("bytes",)
        for rep in reps:
            if br.compare(rec, code, br.build(code, rep)):
                continue  # a genuine disagreement on the unmutated record is reported elsewhere
            if not br.compare(m, code, br.build(code, rep)):
                raise MachineryError(f"negative control: mutated expectation '{name}' for {hexcode} ({rep}) was accepted")
        res[f"mutated:{name}"] = "rejected"
    # 4. execution level: flipped destination sets are rejected by the direct rule
    flipped = 0
    for c in jcases:
        if c.form not in ("jump", "jumpi1") or c.name.startswith("sampled"):
            continue
        rec = frecs[c.id]
        cls, dis = br.judge_jump_direct(c, rec)
        if dis or cls not in ("valid", "invalid"):
            continue
        m = copy.deepcopy(rec)
        if cls == "valid":
            m[br.F_J].remove(c.target)
            m[br.F_U] = [u for u in m[br.F_U] if u != c.target]
        else:
            m[br.F_J].append(c.target)
        _, dis2 = br.judge_jump_direct(c, m)
        if not dis2:
            raise MachineryError(f"negative control: flipped destination set accepted for {c.name} [{c.form}]")
        flipped += 1
    if flipped < 10:
        raise MachineryError("negative control: too few jump programs to flip")
    res["exec-flipped-destination-sets"] = f"{flipped} rejected"
    chk.cov["negative_controls"] = res


# ---------------------------------------------------------------------------------------------
# bin/check C19 --replay <file>


def _parse_hex(h: str) -> list[int]:
    if h == "(empty)":
        return []
    return [br.SYM if h[i : i + 2] == "??" else int(h[i : i + 2], 16) for i in range(0, len(h), 2)]


def replay(chk: Check, path: str) -> None:
    """Re-run one recorded disagreement (kind decode: one code in one representation; kind exec: one
    jump program)."""
    import json

    rp = json.load(open(path))
    work = workdir("c19r")
    try:
        if rp.get("kind") == "decode":
            code = _parse_hex(rp["code"])
            n = len(code)
            recs, r = br.tlc_file([{"id": 0, "code": code, "sl": [[0, n + 2], [1, 2], [n, 2], [max(0, n - 1), 3], [n + 40, 1]]}], work, "rp")
            chk.add_tlc(r)
            st = br.replay_batch([recs[0]], codes={0: code}, reprs=(rp["representation"],))
            chk.count("traces_validated_against_impl", st.contracts)
            report_decoding(chk, st.disagreements)
            chk.sample({"code": rp["code"], "representation": rp["representation"], "disagreements": [d[2:] for d in st.disagreements]})
        elif rp.get("kind") == "exec":
            code = _parse_hex(rp.get("c19_code") or rp["code"])
            form = rp["form"]
            c = br.JumpCase(rp.get("name", "replay"), form, code, rp["target"], br.prologue(form, rp["target"])[1], rp.get("want_marker"),
                            id=10_000_000, rep=rp.get("representation", "bytes"))
            recs, r = br.tlc_file([{"id": c.id, "code": code, "sl": [[0, len(code) + 1]]}], work, "rp")
            chk.add_tlc(r)
            br.run_jump_cases([c])
            judge_exec(chk, [c], recs, require_classes=False)
        else:
            raise MachineryError("replay file has no kind (decode / exec)")
    finally:
        cleanup(work)
