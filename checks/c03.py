"""C03 - PASS means no admissible input violates the test (end to end), and
C04 - counterexamples marked valid are reproducible.

Generated test contracts (harness/testgen.py) are run through halmos' real `run_contract`; the reference
machine brute-forces `deploy; setUp(); test(args)` over designed and boundary argument tuples (TLC on
Evm.tla).  C03: a test with a failing tuple must not be reported PASS.  C04 (checks/c04.py reuses this
module): every model marked valid is replayed on the reference machine and must fail.
"""

from __future__ import annotations

import hashlib
import random
import re

from harness import e1, reftest, testgen
from harness.artifacts import run_contract
from harness.common import Check, MachineryError, cleanup, workdir

CONFIGS = [
    (),
    ("--solver", "z3"),
    ("--storage-layout", "generic"),
    ("--panic-error-codes", "0x01,0x11"),
    ("--panic-error-codes", "*"),
    ("--solver", "z3", "--storage-layout", "generic"),
]

BUDGET = {"quick": 6, "thorough": 120}


def codes_of(cli: tuple) -> set[int] | None:
    if "--panic-error-codes" in cli:
        v = cli[cli.index("--panic-error-codes") + 1]
        if v == "*":
            return None
        return {int(x, 0) for x in v.split(",")}
    return {1}


def contract_key(c) -> str:
    return hashlib.sha1(c.runtime()).hexdigest()[:10]


def model_args(model, nargs: int) -> tuple:
    """Argument tuple assigned by a halmos counterexample (unmentioned arguments are free: 0)."""
    vals = [0] * nargs
    for name, var in model.model.items():
        m = re.match(r"^p_p(\d+)_uint256_", name)
        if m and int(m.group(1)) < nargs:
            vals[int(m.group(1))] = var.value
    return tuple(vals)


def show(tup) -> list:
    return [hex(x) if isinstance(x, int) else ([hex(y) for y in x] if isinstance(x, list) else "0x" + bytes(x).hex()) for x in tup]


def calldata_of(meta, tup) -> bytes:
    if getattr(meta, "dyn_tuples", None):
        return testgen.encode_abi(meta.sig, tup)
    return reftest.encode_static(meta.sig, tup)


def model_args_dyn(model, meta):
    """Argument tuple of a counterexample for a test with uint256[] / bytes parameters (None: length left free)."""
    alens, blens = meta.dyn_bounds
    types = meta.sig[meta.sig.index("(") + 1 : -1].split(",")
    vals = {}
    for name, var in model.model.items():
        m = re.match(r"^p_p(\d+)(?:\[(\d+)\])?_(uint256|length|bytes)_", name)
        if m:
            vals[(int(m.group(1)), m.group(2), m.group(3))] = var.value
    out = []
    for i, t in enumerate(types):
        if t == "uint256":
            out.append(vals.get((i, None, "uint256"), 0))
            continue
        # (a length the model does not mention is a "don't care" of the solver: the counterexample claims to fail whatever it is)
        n = vals.get((i, None, "length"), 0)
        if n > 4096:
            return None  # an absurd length cannot be laid out; counted by the caller
        if t == "uint256[]":
            out.append([vals.get((i, str(k), "uint256"), 0) for k in range(n)])
        else:
            cap = (max(blens) + 31) // 32 * 32
            raw = vals.get((i, None, "bytes"), 0).to_bytes(cap, "big") if cap else b""
            out.append(raw[:n])
    return tuple(out)


def explore(chk: Check, tier: str, want: str):
    """want = "C03" or "C04": which property's violations are reported (both are always evaluated)."""
    rnd = random.Random(48271 * chk.seed + (3 if want == "C03" else 4))
    # (C04 replays the reported models only and skips the grid brute force: it affords twice the contracts)
    n = BUDGET[tier] * (2 if want == "C04" and tier == "quick" else 1)
    work = workdir(f"{want.lower()}")
    try:
        runs = []
        for i in range(n):
            contract, metas = testgen.gen_test_contract(rnd, ntests=4, allow_fail=False)
            cli = CONFIGS[i % len(CONFIGS)]
            out = run_contract(contract, cli=cli)
            if out.exception:
                raise MachineryError(f"run_contract raised {out.exception}")
            runs.append((contract, metas, cli, out))
        # division / remainder with a symbolic divisor around the zero divisor (refinement of the abstractions)
        # (z3 needs minutes for the 256-bit division queries: thorough tier only; --cache-solver: the named-assertion encoding
        # goes through refinement too)
        for cli in ((), ("--cache-solver",)) if tier == "quick" else CONFIGS + [("--cache-solver",), ("--cache-solver", "--solver", "z3")]:
            contract, metas = testgen.gen_divzero_contract(rnd)
            out = run_contract(contract, cli=cli)
            if out.exception:
                raise MachineryError(f"run_contract raised {out.exception}")
            runs.append((contract, metas, cli, out))
        # dynamic parameters: the failure needs one of the configured length candidates and particular contents
        for cfg in range(len(testgen.DYN_CONFIGS)) if tier != "quick" else [chk.seed % 5, 3, 2]:  # (3: a single length candidate per parameter)
            contract, metas, cli = testgen.gen_dynamic_contract(rnd, cfg)
            out = run_contract(contract, cli=cli)
            if out.exception:
                raise MachineryError(f"run_contract raised {out.exception}")
            runs.append((contract, metas, cli, out))
        # an immutable variable: the code the constructor returns differs from the runtime code of the artifact
        contract, metas = testgen.gen_immutable_contract(rnd)
        out = run_contract(contract)
        if out.exception:
            raise MachineryError(f"run_contract raised {out.exception}")
        runs.append((contract, metas, (), out))
        # a function-level annotation (other Panic codes for one test) followed by a test without annotation
        contract, metas = testgen.gen_annotated_contract(rnd)
        out = run_contract(contract)
        if out.exception:
            raise MachineryError(f"run_contract raised {out.exception}")
        runs.append((contract, metas, (), out))
        # brute force on the reference machine
        cases, index = [], {}
        cid = 0
        for ri, (contract, metas, cli, out) in enumerate(runs):
            for meta in metas:
                if want == "C04":
                    break  # C04 judges the reported models only (replayed below); the grid brute force belongs to C03
                for tup in getattr(meta, "dyn_tuples", None) or testgen.arg_tuples(meta, rnd, cap=(30 if meta.sig.startswith(("check_div", "check_sdiv", "check_mod", "check_smod")) else 45) if tier == "quick" else 100):
                    cases.append(reftest.test_case(cid, contract, meta.sig, calldata_of(meta, tup)))
                    index[cid] = (ri, meta.sig, tup, "grid")
                    cid += 1
            # replay of every reported model
            res = out.by_sig()
            for meta in metas:
                r = res.get(meta.sig)
                for mi, mdl in enumerate((r.models or []) if r else []):
                    tup = model_args_dyn(mdl, meta) if getattr(meta, "dyn_tuples", None) else model_args(mdl, meta.nargs)
                    if tup is None:
                        chk.count("models_with_free_length_skipped")
                        continue
                    cases.append(reftest.test_case(cid, contract, meta.sig, calldata_of(meta, tup)))
                    index[cid] = (ri, meta.sig, tup, ("model", mi, mdl.is_valid))
                    cid += 1
        # (in batches: one TLC run per 5000 reference executions keeps every run far below its time limit on a loaded machine)
        recs = {}
        for b in range(0, len(cases), 5000):
            part, tr = e1.run_spec(cases[b : b + 5000], work, timeout=5400)
            recs.update(part)
            chk.add_tlc(tr)
        # aggregate
        failing = {}  # (ri, sig) -> first failing tuple
        ntuples = {}
        for cid, (ri, sig, tup, kind) in index.items():
            rec = recs.get(cid)
            if rec is None:
                raise MachineryError(f"no reference record for case {cid}")
            if rec["status"] != "done":
                chk.count("unmodelled_cases")
                continue
            cli = runs[ri][2]
            if rec["pre"] and not all(p["ok"] for p in rec["pre"]):
                raise MachineryError(f"reference deployment/setUp failed for {sig}: {rec['pre']}")
            fails = reftest.is_failure(rec, codes_of(cli))
            chk.count("evaluations")
            if kind == "grid":
                ntuples[(ri, sig)] = ntuples.get((ri, sig), 0) + 1
                if fails:
                    failing.setdefault((ri, sig), tup)
            else:
                _, mi, valid = kind
                chk.count("models_replayed")
                if valid:
                    chk.count("traces_validated_against_impl")
                    chk.nontrivial(("model", contract_key(runs[ri][0]), sig, repr(tup)))
                    if not fails and want == "C04":
                        c = runs[ri][0]
                        chk.violation(
                            f"{contract_key(c)}:{sig}:valid-model-does-not-fail",
                            f"{sig} [{' '.join(cli)}]: counterexample marked valid {show(tup)} ends in {rec['kind']} "
                            f"0x{bytes(rec['data']).hex()[:80]} on the reference machine, not in an assertion failure",
                            {"runtime": c.runtime().hex(), "sig": sig, "args": show(tup), "cli": cli,
                             "reference": {"kind": rec["kind"], "data": bytes(rec["data"]).hex()}, "tree": meta_of(runs[ri][1], sig).tree},
                        )
                    if fails:
                        failing.setdefault((ri, sig), tup)
        for ri, (contract, metas, cli, out) in enumerate(runs):
            res = out.by_sig()
            for meta in metas:
                r = res.get(meta.sig)
                if r is None:
                    raise MachineryError(f"no TestResult for {meta.sig}: {out.stdout[-500:]}")
                reach = failing.get((ri, meta.sig))
                clean = r.exitcode == 0 and not incomplete_warning(out, meta.sig)
                if want == "C03":
                    chk.count("traces_validated_against_impl")
                    if reach is not None:
                        chk.nontrivial(("failing", contract_key(contract), meta.sig))
                    else:
                        chk.count("tests_without_reachable_failure")
                    if reach is not None and clean:
                        chk.violation(
                            f"{contract_key(contract)}:{meta.sig}:pass-but-failing",
                            f"{meta.sig} [{' '.join(cli)}] is reported PASS, but arguments {show(reach)} make it fail on "
                            f"the reference machine; test body: {meta.tree}",
                            {"runtime": contract.runtime().hex(), "creation": contract.creation().hex(), "sig": meta.sig,
                             "args": show(reach), "cli": cli, "tree": meta.tree, "halmos_stdout": out.stdout[-1500:]},
                        )
                    if reach is None and r.exitcode == 1:
                        chk.count("fail_without_grid_witness")
                chk.sample({"test": meta.sig, "cli": cli, "body": meta.tree[:300], "halmos_exitcode": r.exitcode,
                            "reference_failing_args": show(reach) if reach else None,
                            "tuples_bruteforced": ntuples.get((ri, meta.sig), 0)})
        chk.cov["programs"] = sum(len(m) for _, m, _, _ in runs)
    finally:
        cleanup(work)


def meta_of(metas, sig):
    return next(m for m in metas if m.sig == sig)


def incomplete_warning(out, sig: str) -> bool:
    """Did halmos flag the exploration of this test as incomplete?"""
    name = sig
    text = out.logs + out.stdout
    for line in text.splitlines():
        if ("loop unrolling bound" in line or "incomplete execution" in line) and name.split("(")[0] in line:
            return True
    return False


def run(chk: Check, tier: str):
    explore(chk, tier, "C03")
    chk.cov["rule"] = (
        "test contracts generated from the guarded-failure grammar (decision trees over ==, <, >, *, /, %, +, storage "
        "written by setUp, leaves ok/Panic(k)/revert/bubbled nested Panic/swallowed nested failure), run through the real "
        "run_contract under rotating --solver / --storage-layout / --panic-error-codes; TLC brute-forces deploy;setUp;"
        "test(args) on Evm.tla over designed witnesses (one per leaf) and a boundary grid; non-trivial = tests for which "
        "some tuple fails on the reference machine"
    )
    chk.assumptions += ["argument tuples are within the bounds halmos prints (static uint256 parameters)",
                        "direction checked: failure reachable on the reference => not a clean PASS"]
