"""C07 - byte sequences (memory, calldata, returndata, code) behave as a flat zero-extended byte array.

Specification: spec/ByteSeq.tla (flat model) and spec/ChunkVec.tla (implementation-shaped refinement of
src/halmos/bytevec.py, run in lock step with the flat model on the same commands).

1. TLC checks the laws of the flat model on its own (MC_ByteSeq).
2. TLC checks Flatten(ChunkVec) = ByteSeq, chunk well-formedness, CopyIndependence and agreement of the
   implementation-shaped read paths over all histories of the level schedules MC_ChunkVec_{q,t}*.cfg with
   the case `bytevec-aligned-nested-alias` excluded (must hold), and over the FAITHFUL model
   (MC_ChunkVec_alias.cfg), where TLC is expected to exhibit the counterexample.
3. Conformance: TLC generates histories with the expected flat value after every command (one JSON
   record per transition of the state graph, plus long random histories under -simulate); each is replayed
   into real ByteVec objects and into halmos.sevm.State (set_mslice / mslice / __deepcopy__) and read back
   through the public read API after every command (harness/bytevec_replay.py).
4. The counterexamples of the faithful model are replayed: if the real code behaves as the chunk model
   predicts (and therefore not as a flat array), that is a violation of C07 with the stable key
   `bytevec-aligned-nested-alias`.
5. Negative controls: deliberately broken ByteVec variants and a corrupted expectation must be rejected.
"""

from __future__ import annotations

import concurrent.futures as cf
import itertools
import json
import time

from harness import bytevec_replay as R
from harness.common import NCPU, Check, MachineryError, cleanup, run_tlc, workdir

LEVEL = "model_checking"

TIERS = {
    "quick": {
        "flat": ["MC_ByteSeq_q.cfg"],
        "refine": ["MC_ChunkVec_q1.cfg"],
        "gen": ["MC_ChunkVec_g1.cfg", "MC_ChunkVec_g2.cfg"],
        "sim": [(200, 41)],  # (traces, seed offset) per single-worker TLC run
        "variant_stride": 25,
        "coverage": False,
    },
    "thorough": {
        "flat": ["MC_ByteSeq.cfg"],
        "refine": ["MC_ChunkVec_q1.cfg", "MC_ChunkVec_q2.cfg", "MC_ChunkVec_t1.cfg", "MC_ChunkVec_t2.cfg",
                   "MC_ChunkVec_t3.cfg", "MC_ChunkVec_t4.cfg", "MC_ChunkVec_t5.cfg"],
        "gen": ["MC_ChunkVec_g1.cfg", "MC_ChunkVec_g2.cfg", "MC_ChunkVec_g3.cfg", "MC_ChunkVec_g4.cfg"],
        "sim": [(750, 100 + i) for i in range(8)],
        "variant_stride": 10,
        "coverage": True,
    },
}

REAL = ["ByteVec", "State"]

# branches of set_slice / set_byte (ChunkVec!Branch) that the replayed histories must reach
REQUIRED_BRANCHES = {
    "noop", "backfill", "backfill-gap", "aligned",
    "general+pre+post+same", "general+pre+same", "general+post+same",
    "general+post+remove", "general+pre+post+remove", "general+pre+remove", "general+remove",
    "general+extend", "general+pre+extend", "general+extend+remove", "general+pre+extend+remove",
    "byte-backfill", "byte-backfill-gap", "byte-inside", "byte-inside+pre", "byte-inside+post",
    "byte-inside+pre+post", "Append", "Slice", "Copy",
}


_seq = itertools.count()


def _tlc(module, cfg, work, **kw):
    # one sub-directory per run: run_tlc names its output file by the millisecond
    d = work / f"run{next(_seq)}"
    d.mkdir()
    return run_tlc(module, cfg, work=d, **kw)


def run(chk: Check, tier: str):
    T = TIERS[tier]
    work = workdir("c07")
    try:
        _run(chk, tier, T, work)
    finally:
        cleanup(work)


def _run(chk: Check, tier: str, T: dict, work):
    variants = R.register_variants()
    procs = max(2, min(NCPU, 16))
    timings = {}

    # ---- all TLC runs are started together (they are independent); results are consumed in order
    pool = cf.ThreadPoolExecutor(max_workers=4)
    w_small = max(2, NCPU // 4)
    fut = {}
    for cfg in T["flat"]:
        fut[("flat", cfg)] = pool.submit(_tlc, "MC_ByteSeq", cfg, work, workers=w_small, coverage=T["coverage"])
    fut[("alias", "MC_ChunkVec_alias.cfg")] = pool.submit(
        _tlc, "MC_ChunkVec", "MC_ChunkVec_alias.cfg", work, workers=w_small, expect_violation=True,
        extra=["-continue"],  # list every violating history of the bounded graph, not only the first
    )
    for cfg in T["gen"]:
        fut[("gen", cfg)] = pool.submit(_tlc, "MC_ChunkVec", cfg, work, workers=w_small)
    for n, so in T["sim"]:
        fut[("sim", so)] = pool.submit(
            _tlc, "MC_ChunkVec", "MC_ChunkVec_sim.cfg", work, workers=1,
            extra=["-simulate", f"num={n}", "-depth", "41", "-seed", str(1000 * chk.seed + so)],
        )
    for cfg in T["refine"]:
        fut[("refine", cfg)] = pool.submit(
            _tlc, "MC_ChunkVec", cfg, work, workers="auto" if tier == "thorough" else w_small,
            coverage=T["coverage"], timeout=3000,
        )

    def get(kind, name):
        r = fut[(kind, name)].result()
        timings[f"{kind}:{name}"] = round(r.wall_s, 1)
        return r

    # ---- 1. flat model
    for cfg in T["flat"]:
        r = get("flat", cfg)
        if not r.ok:
            raise MachineryError(f"the flat model violates its own laws ({cfg}): {r.violated}")
        chk.add_tlc(r)
        chk.count("tlc_flat_states", r.distinct_states)

    # ---- 3. conformance: histories generated by TLC, replayed into the implementation
    t_replay = time.time()
    total_hist = 0
    sample_for_controls = []
    for cfg in T["gen"]:
        r = get("gen", cfg)
        if not r.ok:
            raise MachineryError(f"generator {cfg}: invariant {r.violated} violated with the alias case excluded")
        chk.add_tlc(r)
        hs = r.records
        if not hs:
            raise MachineryError(f"generator {cfg} printed no history")
        R.check_prefix_closed(hs)
        res = R.run_batch(hs, REAL, seed=chk.seed, last_only=True, procs=procs)
        _judge(chk, hs, res, source=cfg, last_only=True)
        total_hist += len(hs)
        chk.count(f"histories[{cfg}]", len(hs))
        sample_for_controls += hs[:: T["variant_stride"]]
    sim_hists = []
    for n, so in T["sim"]:
        r = get("sim", so)
        if r.violated:
            raise MachineryError(f"simulation seed {so}: {r.violated}")
        if len(r.records) != n:
            raise MachineryError(f"simulation seed {so}: {len(r.records)} histories printed, expected {n}")
        sim_hists += r.records
    if len({json.dumps(h, sort_keys=True) for h in sim_hists}) < 0.9 * len(sim_hists):
        raise MachineryError("simulation runs produced mostly identical histories")
    res = R.run_batch(sim_hists, REAL, seed=chk.seed + 1, last_only=False, procs=procs, chunk=4)
    _judge(chk, sim_hists, res, source="simulate")
    total_hist += len(sim_hists)
    chk.count("histories[simulate]", len(sim_hists))
    chk.cov["max_history_length"] = max(len(h) for h in sim_hists)
    sample_for_controls += sim_hists[:: max(1, len(sim_hists) // 40)]
    timings["replay_real"] = round(time.time() - t_replay, 1)
    chk.cov["histories_replayed"] = total_hist
    seen_br = {k.split(":", 1)[-1] for k in chk.cov["branches_replayed"]}
    if REQUIRED_BRANCHES - seen_br:
        raise MachineryError(f"replayed histories never reach: {sorted(REQUIRED_BRANCHES - seen_br)}")

    # ---- 2b/4. the faithful model: TLC must exhibit the aliasing counterexample; replay it
    r = get("alias", "MC_ChunkVec_alias.cfg")
    chk.add_tlc(r)
    cex = [x for x in r.records if isinstance(x, dict) and "cex" in x]
    chk.cov["faithful_model_violated"] = r.violated
    if r.violated is None:
        chk.notes.append("faithful ChunkVec model no longer violates the refinement (model changed?)")
    elif not str(r.violated).startswith("Inv"):
        raise MachineryError(f"faithful model: unexpected TLC error {r.violated}")
    elif not cex:
        raise MachineryError("faithful model violated an invariant but printed no counterexample record")
    chk.cov["faithful_model_counterexamples"] = len(cex)
    cex = _diverse(cex)
    _replay_cex(chk, cex)

    # ---- 5. negative controls
    t_neg = time.time()
    _negative_controls(chk, variants, sample_for_controls, cex, procs)
    timings["controls"] = round(time.time() - t_neg, 1)

    # ---- 2a. refinement with the aliasing case excluded
    never = {}
    for cfg in T["refine"]:
        r = get("refine", cfg)
        if not r.ok:
            rec = [x for x in r.records if isinstance(x, dict) and "cex" in x]
            raise MachineryError(
                f"refinement {cfg} fails with the alias case excluded: {r.violated}; "
                f"{json.dumps(rec[0])[:1500] if rec else r.stdout[-1500:]}"
            )
        chk.add_tlc(r)
        chk.count(f"refine[{cfg}]", r.distinct_states)
        chk.count("tlc_refinement_states", r.distinct_states)
        if T["coverage"]:
            never[cfg] = sorted(a for a, (d, t) in r.coverage.items() if t == 0)
    pool.shutdown()
    if T["coverage"]:
        chk.cov["actions_never_taken"] = {k: v for k, v in never.items() if v}
        if any(never.values()):
            raise MachineryError(f"TLC coverage: actions never taken: {never}")
    chk.cov["exhaustive"] = True
    chk.cov["timings_s"] = timings
    chk.cov["rule"] = (
        "TLC: all histories of the level schedules (small/medium/FULL command grids, FULL = every relation of a "
        "write to the chunk boundaries, data concrete/symbolic/mixed/slice-of-any-vector/whole-vector) checked for "
        "Flatten(ChunkVec)=ByteSeq, well-formedness, CopyIndependence, read agreement; conformance: one history per "
        "transition of the generator state graphs + random histories of length 40 replayed into ByteVec and "
        "sevm.State, all vectors read back after every command at 3 valuations; a history is non-trivial when it "
        "contains a copy/slice, an overlapping self-copy, a whole-vector argument, symbolic data or a word access"
    )
    chk.assumptions += [
        "a ByteVec is never passed to its own set_slice/append as the whole-vector argument (slices of itself are)",
        "symbolic content is compared at 3 random valuations per run (zeval), not for all valuations",
        "the ChunkVec model runs with 4-byte words when model checked and 32-byte words when generating histories",
    ]


def _judge(chk: Check, hists, res, source: str, last_only: bool = False):
    br = chk.cov.setdefault("branches_replayed", {})
    for h in hists:
        for st in h[-1:] if last_only else h:
            k = f"{st['c']['op']}:{st['br']}" if st["br"] != st["c"]["op"] else st["br"]
            br[k] = br.get(k, 0) + 1
    for idx, drv, o, key in res:
        chk.count("evaluations", o["steps_compared"])
        chk.count("reads_compared", o["reads"])
        chk.count("traces_validated_against_impl")
        h = hists[idx]
        if o["features"]:
            chk.nontrivial((drv, json.dumps([s["c"] for s in h], sort_keys=True)))
        if o["ok"]:
            continue
        if o["exc"] in ("ReplayTimeout", "MemoryError") and key != R.ALIAS_KEY:
            # resource exhaustion is only reported when it reproduces in isolation
            o2 = R.run_batch([h], [drv], seed=chk.seed + idx, procs=2, chunk=1)[0][2]
            if o2["ok"]:
                chk.count("resource_limits_not_reproduced")
                continue
            o = o2
        hh = h[: o["step"] + 1]
        chk.violation(
            key,
            f"{drv} disagrees with ByteSeq after {len(hh)} commands ({source}): {o['detail']}",
            {"driver": drv, "history": hh, "commands": R.describe(hh), "outcome": o, "source": source},
        )
    if hists:
        chk.sample({"source": source, "commands": R.describe(hists[len(hists) // 2])})


def _diverse(cex: list, per_class: int = 2, limit: int = 10) -> list:
    """a deterministic selection: shortest first, at most `per_class` per (invariant, last command, data kind)"""
    cex = sorted(cex, key=lambda x: (len(x["hist"]), x["cex"] != "Refines", json.dumps(x["hist"], sort_keys=True)))
    seen: dict = {}
    out = []
    for x in cex:
        c = x["hist"][-1]["c"]
        k = (x["cex"], c["op"], c.get("data", {}).get("k"))
        seen[k] = seen.get(k, 0) + 1
        if seen[k] <= per_class:
            out.append(x)
    return out[:limit]


def _replay_cex(chk: Check, cex: list):
    """Counterexamples of the faithful chunk model, replayed into the real code (in sandboxed workers:
    vectors that contain each other can make the real append() run for ever)."""
    if not cex:
        chk.cov["tlc_counterexamples_reproduced"] = 0
        return
    hs = [x["hist"] for x in cex]
    preds = [{"model": x["model"], "mlen": x["mlen"]} for x in cex]
    res = R.run_batch(hs, REAL, seed=chk.seed, procs=2, chunk=1, predicts=preds)
    reproduced = 0
    first = True
    for idx, drv, o, key in res:
        x, h = cex[idx], hs[idx]
        if o["ok"]:
            chk.notes.append(f"TLC counterexample {x['cex']} {R.describe(h)} does not reproduce on {drv}")
            continue
        reproduced += 1
        chk.count("model_prediction_confirmed" if o["predicted"] else "model_prediction_differs")
        hh = h[: o["step"] + 1]
        chk.violation(
            key,
            f"{drv}: an aligned set_slice whose value is a ByteVec stores it by reference "
            f"(TLC invariant {x['cex']}); history {R.describe(hh)}: {o['detail']}",
            {"driver": drv, "history": hh, "commands": R.describe(hh), "outcome": o,
             "tlc_invariant": x["cex"], "tlc_history": R.describe(h),
             "chunk_model_predicts": {"unwrap": x["model"], "len": x["mlen"]}, "flat_model": x["flat"],
             "prediction_confirmed": o["predicted"]},
        )
        if first:
            chk.sample({"source": "faithful-model counterexample", "commands": R.describe(hh), "detail": o["detail"]})
            first = False
    chk.cov["tlc_counterexamples_reproduced"] = reproduced


def _negative_controls(chk: Check, variants: dict, hists: list, cex: list, procs: int):
    if not hists:
        raise MachineryError("no histories for the negative controls")
    names = list(variants)
    res = R.run_batch(hists, names, seed=chk.seed + 2, last_only=False, procs=procs, chunk=40)
    rejected = {n: 0 for n in names}
    for _idx, drv, o, _key in res:
        if not o["ok"]:
            rejected[drv] += 1
    chk.cov["negative_controls"] = {}
    for n, (_cls, must) in variants.items():
        chk.cov["negative_controls"][n] = {"histories": len(hists), "rejected": rejected[n], "must_reject": must}
        if must and rejected[n] == 0:
            raise MachineryError(f"negative control: broken ByteVec variant {n} was accepted on {len(hists)} histories")
        if not must and rejected[n] != 0:
            bad = next((hists[i], o) for i, d, o, _k in res if d == n and not o["ok"])
            raise MachineryError(f"candidate fix {n} is rejected: {R.describe(bad[0])}: {bad[1]['detail']}")
    # the candidate fix must also repair the TLC counterexamples
    vals = R.Valuations(chk.seed)
    fixed = 0
    cx = [x["hist"] for x in cex[:8]]
    for idx, _d, o, _k in (R.run_batch(cx, ["fix-aligned-unpack"], seed=chk.seed, procs=2, chunk=1) if cx else []):
        if not o["ok"]:
            raise MachineryError(f"candidate fix does not repair {R.describe(cx[idx])}: {o['detail']}")
        fixed += 1
    chk.cov["negative_controls"]["fix-aligned-unpack"]["counterexamples_repaired"] = fixed
    # specification side: one corrupted expected byte must be noticed
    import random

    rnd = random.Random(chk.seed + 3)
    tried = caught = 0
    for h in hists[:: max(1, len(hists) // 60)]:
        steps = [i for i, st in enumerate(h) if st["post"]]
        if not steps:
            continue
        i = rnd.choice(steps)
        o = R.replay(h, R.DRIVERS["ByteVec"], vals, chk.seed, corrupt=(i, rnd.randrange(1 << 16)))
        tried += 1
        caught += 0 if o.ok else 1
    chk.cov["negative_controls"]["corrupted-expectation"] = {"histories": tried, "rejected": caught}
    if tried == 0 or caught != tried:
        raise MachineryError(f"negative control: corrupted expectations accepted ({caught}/{tried} rejected)")


def replay(chk: Check, path: str):
    """bin/check C07 --replay <file>: re-run one recorded disagreement"""
    d = json.loads(open(path).read())
    R.register_variants()
    vals = R.Valuations(chk.seed)
    h = d["history"]
    drv = d.get("driver", "ByteVec")
    o = R.replay(h, R.DRIVERS[drv], vals, chk.seed)
    print("\n".join(R.describe(h)))
    if o.ok:
        print("replay: the implementation now agrees with ByteSeq on this history")
        return
    chk.violation(o.key(h), f"{drv}: {o.detail}", {"driver": drv, "history": h, "commands": R.describe(h),
                                                   "outcome": o.as_dict()})
