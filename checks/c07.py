"""C07 - byte sequences (memory, calldata, returndata, code) behave as a flat zero-extended byte array.

Specification: spec/ByteSeq.tla (flat model) and spec/ChunkVec.tla (implementation-shaped refinement of
src/halmos/bytevec.py, run in lock step with the flat model on the same commands).

1. TLC checks the laws of the flat model on its own (MC_ByteSeq).
2. TLC checks Flatten(ChunkVec) = ByteSeq, chunk well-formedness, CopyIndependence and agreement of the
   implementation-shaped read paths over all histories of the level schedules MC_ChunkVec_{q,t}*.cfg; the
   alphabet contains every command, in particular the whole-vector argument written exactly over one
   existing chunk (the case of the former finding `bytevec-aligned-nested-alias`, repaired by halmos
   commit 1a97aee).
3. Conformance: TLC generates histories with the expected flat value after every command (one JSON
   record per transition of the state graph, plus long random histories under -simulate); each is replayed
   into real ByteVec objects and into halmos.sevm.State (set_mslice / mslice / __deepcopy__ /
   copy_returndata_to_memory) and read back through the public read API after every command
   (harness/bytevec_replay.py).  A disagreement after a command of the alias case is reported under the
   reserved key `bytevec-aligned-nested-alias`.
4. Regression model: the chunk model of the code BEFORE the repair (Mutant = "alignedref") must be refuted
   by TLC; every violating history it lists is replayed: the real ByteVec/State must agree with the flat
   model on it (otherwise: VIOLATION `bytevec-aligned-nested-alias`), and the deliberately re-broken
   variant `reintroduce-aligned-alias` must be rejected on it.
5. Negative controls: deliberately broken ByteVec variants (built from the current source text), wrong
   chunk models and a corrupted expectation must all be rejected.
"""

from __future__ import annotations

import concurrent.futures as cf
import itertools
import json
import time

from harness import bytevec_replay as R
from harness.common import NCPU, Check, MachineryError, cleanup, run_tlc, workdir

LEVEL = "model_checking"

TIERS = {
    "quick": {
        "flat": ["MC_ByteSeq_q.cfg"],
        "refine": ["MC_ChunkVec_q0.cfg"],
        "gen": ["MC_ChunkVec_g1.cfg", "MC_ChunkVec_g2.cfg", "MC_ChunkVec_g5.cfg"],
        "sim": [(60, 41)],  # (traces, seed offset) per single-worker TLC run
        "variant_stride": 25,
        "coverage": False,
    },
    "thorough": {
        "flat": ["MC_ByteSeq.cfg"],
        "refine": ["MC_ChunkVec_q0.cfg", "MC_ChunkVec_q1.cfg", "MC_ChunkVec_q2.cfg", "MC_ChunkVec_t1.cfg", "MC_ChunkVec_t2.cfg",
                   "MC_ChunkVec_t3.cfg", "MC_ChunkVec_t4.cfg", "MC_ChunkVec_t5.cfg"],
        "gen": ["MC_ChunkVec_g1.cfg", "MC_ChunkVec_g2.cfg", "MC_ChunkVec_g3.cfg", "MC_ChunkVec_g4.cfg",
                "MC_ChunkVec_g5.cfg", "MC_ChunkVec_g6.cfg"],
        "sim": [(400, 100 + i) for i in range(8)],
        "variant_stride": 10,
        "coverage": True,
    },
}

REAL = ["ByteVec", "State"]

# wrong variants of the chunk MODEL and the invariant that must reject each (negative controls of the invariants)
MODEL_MUTANTS = {"post": "InvRefines", "slicefill": "InvReadsAgree", "copyalias": "InvCopyIndependence"}
REGRESSION_CFG = "MC_ChunkVec_m_alignedref.cfg"  # the chunk model of the code before halmos commit 1a97aee
REGRESSION_VARIANT = "reintroduce-aligned-alias"

# branches of set_slice / set_byte (ChunkVec!Branch) that the replayed histories must reach
REQUIRED_BRANCHES = {
    "noop", "backfill", "backfill-gap", "aligned", "general+same+wholechunk",
    "general+pre+post+same", "general+pre+same", "general+post+same",
    "general+post+remove", "general+pre+post+remove", "general+pre+remove", "general+remove",
    "general+extend", "general+pre+extend", "general+extend+remove", "general+pre+extend+remove",
    "byte-backfill", "byte-backfill-gap", "byte-inside", "byte-inside+pre", "byte-inside+post",
    "byte-inside+pre+post", "Append", "Slice", "Copy",
}


_seq = itertools.count()


def _tlc(module, cfg, work, **kw):
    # one sub-directory per run: run_tlc names its output file by the millisecond
    d = work / f"run{next(_seq)}"
    d.mkdir()
    return run_tlc(module, cfg, work=d, **kw)


def run(chk: Check, tier: str):
    T = TIERS[tier]
    work = workdir("c07")
    try:
        _run(chk, tier, T, work)
    finally:
        cleanup(work)
    # the copies between the byte sequences of a frame as the instructions perform them (memory <- return data at an offset,
    # memory <- code past its end, the output area of a call with short return data, memory <- a window of calldata whose word
    # the path has pinned to a constant): Evm.tla's flat byte sequences are the reference
    from harness import probes
    from harness.e1corpus import run_items

    from .c01 import judge

    items = [it for it in probes.c01_probes() if it.key.startswith(("probe:returndatacopy-offset", "probe:codecopy-past-end", "probe:extcodecopy-no-code", "probe:short-re", "probe:calldatacopy-window"))]
    judge(chk, run_items(items, chk, witnesses=False))
    chk.cov["instruction_level_copy_probes"] = len(items)


def _run(chk: Check, tier: str, T: dict, work):
    variants = R.register_variants()
    procs = max(2, min(NCPU, 16))
    timings = {}

    # ---- all TLC runs are started together (they are independent); results are consumed in order
    pool = cf.ThreadPoolExecutor(max_workers=4)
    w_small = max(2, NCPU // 4)
    fut = {}
    for cfg in T["flat"]:
        fut[("flat", cfg)] = pool.submit(_tlc, "MC_ByteSeq", cfg, work, workers=w_small, coverage=T["coverage"])
    fut[("regression", REGRESSION_CFG)] = pool.submit(
        _tlc, "MC_ChunkVec", REGRESSION_CFG, work, workers=w_small, expect_violation=True,
        extra=["-continue"],  # list every violating history of the bounded graph, not only the first
    )
    for cfg in T["gen"]:
        fut[("gen", cfg)] = pool.submit(_tlc, "MC_ChunkVec", cfg, work, workers=w_small)
    for m in MODEL_MUTANTS:
        fut[("mutant", m)] = pool.submit(
            _tlc, "MC_ChunkVec", f"MC_ChunkVec_m_{m}.cfg", work, workers=w_small, expect_violation=True
        )
    for n, so in T["sim"]:
        fut[("sim", so)] = pool.submit(
            _tlc, "MC_ChunkVec", "MC_ChunkVec_sim.cfg", work, workers=1,
            extra=["-simulate", f"num={n}", "-depth", "41", "-seed", str(1000 * chk.seed + so)],
        )
    for cfg in T["refine"]:
        fut[("refine", cfg)] = pool.submit(
            _tlc, "MC_ChunkVec", cfg, work, workers="auto" if tier == "thorough" else w_small,
            coverage=T["coverage"], timeout=3000,
        )

    def get(kind, name):
        r = fut[(kind, name)].result()
        timings[f"{kind}:{name}"] = round(r.wall_s, 1)
        return r

    # ---- 1. flat model
    for cfg in T["flat"]:
        r = get("flat", cfg)
        if not r.ok:
            raise MachineryError(f"the flat model violates its own laws ({cfg}): {r.violated}")
        chk.add_tlc(r)
        chk.count("tlc_flat_states", r.distinct_states)

    # ---- 3. conformance: histories generated by TLC, replayed into the implementation
    t_replay = time.time()
    total_hist = 0
    sample_for_controls = []
    for cfg in T["gen"]:
        r = get("gen", cfg)
        if not r.ok:
            raise MachineryError(f"generator {cfg}: the chunk model violates {r.violated}")
        chk.add_tlc(r)
        hs = r.records
        if not hs:
            raise MachineryError(f"generator {cfg} printed no history")
        R.check_prefix_closed(hs)
        res = R.run_batch(hs, REAL, seed=chk.seed, last_only=True, procs=procs)
        _judge(chk, hs, res, source=cfg, last_only=True)
        total_hist += len(hs)
        chk.count(f"histories[{cfg}]", len(hs))
        sample_for_controls += hs[:: T["variant_stride"]]
        tainted = [h for h in hs if any(st["alias"] for st in h[:-1])]
        chk.count("histories_continuing_after_alias_case", len(tainted))
        sample_for_controls += tainted[:300]
    sim_hists = []
    for n, so in T["sim"]:
        r = get("sim", so)
        if r.violated:
            raise MachineryError(f"simulation seed {so}: {r.violated}")
        if len(r.records) != n:
            raise MachineryError(f"simulation seed {so}: {len(r.records)} histories printed, expected {n}")
        sim_hists += r.records
    if len({json.dumps(h, sort_keys=True) for h in sim_hists}) < 0.9 * len(sim_hists):
        raise MachineryError("simulation runs produced mostly identical histories")
    res = R.run_batch(sim_hists, REAL, seed=chk.seed + 1, last_only=False, procs=procs, chunk=4)
    _judge(chk, sim_hists, res, source="simulate")
    total_hist += len(sim_hists)
    chk.count("histories[simulate]", len(sim_hists))
    chk.cov["max_history_length"] = max(len(h) for h in sim_hists)
    sample_for_controls += sim_hists[:: max(1, len(sim_hists) // 40)]
    timings["replay_real"] = round(time.time() - t_replay, 1)
    chk.cov["histories_replayed"] = total_hist
    seen_br = {k.split(":", 1)[-1] for k in chk.cov["branches_replayed"]}
    if REQUIRED_BRANCHES - seen_br:
        raise MachineryError(f"replayed histories never reach: {sorted(REQUIRED_BRANCHES - seen_br)}")

    alias_steps = sum(1 for k in chk.cov["branches_replayed"] if k.endswith("+wholechunk"))
    chk.cov["alias_case_commands_replayed"] = sum(
        v for k, v in chk.cov["branches_replayed"].items() if k.endswith("+wholechunk")
    )
    if not alias_steps or not chk.cov.get("histories_continuing_after_alias_case"):
        raise MachineryError("no replayed history contains / continues after the alias case")

    # ---- 4. regression model (the code before 1a97aee): TLC must refute it; its counterexamples are
    #         replayed into the real code (must agree with the flat model) and into the re-broken variant
    r = get("regression", REGRESSION_CFG)
    chk.add_tlc(r)
    cex = [x for x in r.records if isinstance(x, dict) and "cex" in x]
    chk.cov["regression_model_violates"] = r.violated
    if r.violated is None or not str(r.violated).startswith("Inv"):
        raise MachineryError(f"negative control: the by-reference chunk model is not refuted by TLC ({r.violated})")
    if not cex:
        raise MachineryError("the by-reference chunk model violated an invariant but printed no counterexample")
    chk.cov["regression_model_counterexamples"] = len(cex)
    cex = _diverse(cex)
    _replay_cex(chk, cex)

    # ---- 5. negative controls
    t_neg = time.time()
    _negative_controls(chk, variants, sample_for_controls, procs)
    timings["controls"] = round(time.time() - t_neg, 1)

    # ---- 5b. negative controls of the invariants: wrong chunk models must be rejected by TLC
    chk.cov["model_mutants"] = {}
    for m, inv in MODEL_MUTANTS.items():
        r = get("mutant", m)
        chk.cov["model_mutants"][m] = r.violated
        if r.violated != inv:
            raise MachineryError(f"negative control: chunk model mutant {m!r} must violate {inv}, TLC says {r.violated}")

    # ---- 2. refinement over the whole alphabet
    never = {}
    for cfg in T["refine"]:
        r = get("refine", cfg)
        if not r.ok:
            rec = [x for x in r.records if isinstance(x, dict) and "cex" in x]
            raise MachineryError(
                f"refinement {cfg} fails: {r.violated}; "
                f"{json.dumps(rec[0])[:1500] if rec else r.stdout[-1500:]}"
            )
        chk.add_tlc(r)
        chk.count(f"refine[{cfg}]", r.distinct_states)
        chk.count("tlc_refinement_states", r.distinct_states)
        if T["coverage"]:
            never[cfg] = sorted(a for a, (d, t) in r.coverage.items() if t == 0)
    pool.shutdown()
    if T["coverage"]:
        chk.cov["actions_never_taken"] = {k: v for k, v in never.items() if v}
        if any(never.values()):
            raise MachineryError(f"TLC coverage: actions never taken: {never}")
    chk.cov["exhaustive"] = True
    chk.cov["timings_s"] = timings
    chk.cov["rule"] = (
        "TLC: all histories of the level schedules (small/medium/FULL command grids, FULL = every relation of a "
        "write to the chunk boundaries, data concrete/symbolic/mixed/slice-of-any-vector/whole-vector) checked for "
        "Flatten(ChunkVec)=ByteSeq, well-formedness, CopyIndependence, read agreement; conformance: one history per "
        "transition of the generator state graphs + random histories of length 40 replayed into ByteVec and "
        "sevm.State, all vectors read back after every command at 3 valuations; a history is non-trivial when it "
        "contains a copy/slice, an overlapping self-copy, a whole-vector argument, symbolic data or a word access"
    )
    chk.assumptions += [
        "a ByteVec is never passed to its own set_slice/append as the whole-vector argument (slices of itself are)",
        "symbolic content is compared at 3 random valuations per run (zeval), not for all valuations",
        "the ChunkVec model runs with 4-byte words when model checked and 32-byte words when generating histories",
    ]


def _judge(chk: Check, hists, res, source: str, last_only: bool = False):
    br = chk.cov.setdefault("branches_replayed", {})
    for h in hists:
        for st in h[-1:] if last_only else h:
            k = f"{st['c']['op']}:{st['br']}" if st["br"] != st["c"]["op"] else st["br"]
            br[k] = br.get(k, 0) + 1
    for idx, drv, o, key in res:
        chk.count("evaluations", o["steps_compared"])
        chk.count("reads_compared", o["reads"])
        chk.count("traces_validated_against_impl")
        h = hists[idx]
        if o["features"]:
            chk.nontrivial((drv, json.dumps([s["c"] for s in h], sort_keys=True)))
        if o["ok"]:
            continue
        if o["exc"] in ("ReplayTimeout", "MemoryError") and key != R.ALIAS_KEY:
            # resource exhaustion is only reported when it reproduces in isolation
            o2 = R.run_batch([h], [drv], seed=chk.seed + idx, procs=2, chunk=1)[0][2]
            if o2["ok"]:
                chk.count("resource_limits_not_reproduced")
                continue
            o = o2
        hh = h[: o["step"] + 1]
        chk.violation(
            key,
            f"{drv} disagrees with ByteSeq after {len(hh)} commands ({source}): {o['detail']}",
            {"driver": drv, "history": hh, "commands": R.describe(hh), "outcome": o, "source": source},
        )
    if hists:
        chk.sample({"source": source, "commands": R.describe(hists[len(hists) // 2])})


def _diverse(cex: list, per_class: int = 2, limit: int = 10) -> list:
    """a deterministic selection: shortest first, at most `per_class` per (invariant, last command, data kind)"""
    cex = sorted(cex, key=lambda x: (len(x["hist"]), x["cex"] != "Refines", json.dumps(x["hist"], sort_keys=True)))
    seen: dict = {}
    out = []
    for x in cex:
        c = x["hist"][-1]["c"]
        k = (x["cex"], c["op"], c.get("data", {}).get("k"))
        seen[k] = seen.get(k, 0) + 1
        if seen[k] <= per_class:
            out.append(x)
    return out[:limit]


def _replay_cex(chk: Check, cex: list):
    """Violating histories of the by-reference chunk model, replayed (in sandboxed workers: vectors that
    contain each other make append() run for ever) into the real code, which must agree with the flat
    model, and into the variant that re-introduces the defect, which must be rejected on every one."""
    hs = [x["hist"] for x in cex]
    preds = [{"model": x["model"], "mlen": x["mlen"]} for x in cex]
    res = R.run_batch(hs, REAL, seed=chk.seed, procs=2, chunk=1)
    for idx, drv, o, key in res:
        chk.count("traces_validated_against_impl")
        chk.count("evaluations", o["steps_compared"])
        if o["ok"]:
            chk.count("regression_histories_agree")
            continue
        x, h = cex[idx], hs[idx]
        hh = h[: o["step"] + 1]
        chk.violation(
            key,
            f"{drv} behaves like the by-reference chunk model (TLC invariant {x['cex']}): "
            f"history {R.describe(hh)}: {o['detail']}",
            {"driver": drv, "history": hh, "commands": R.describe(hh), "outcome": o,
             "tlc_invariant": x["cex"], "tlc_history": R.describe(h),
             "by_reference_model_predicts": {"unwrap": x["model"], "len": x["mlen"]}, "flat_model": x["flat"]},
        )
    res = R.run_batch(hs, [REGRESSION_VARIANT], seed=chk.seed, procs=2, chunk=1, predicts=preds)
    rej = pred = 0
    for idx, _d, o, key in res:
        if o["ok"]:
            raise MachineryError(
                f"negative control: variant {REGRESSION_VARIANT} is accepted on {R.describe(hs[idx])} "
                f"(TLC invariant {cex[idx]['cex']})"
            )
        if key != R.ALIAS_KEY:
            raise MachineryError(f"negative control: variant {REGRESSION_VARIANT} is rejected under key {key}")
        rej += 1
        pred += 1 if o["predicted"] else 0
    chk.cov["regression_variant"] = {"histories": len(hs), "rejected": rej, "behaves_as_model_predicts": pred}
    chk.sample({"source": "by-reference model counterexample (real code agrees with ByteSeq, re-broken variant rejected)",
                "commands": R.describe(hs[0])})


def _negative_controls(chk: Check, variants: dict, hists: list, procs: int):
    if not hists:
        raise MachineryError("no histories for the negative controls")
    names = list(variants)
    res = R.run_batch(hists, names, seed=chk.seed + 2, last_only=False, procs=procs, chunk=40)
    rejected = {n: 0 for n in names}
    for _idx, drv, o, _key in res:
        if not o["ok"]:
            rejected[drv] += 1
    chk.cov["negative_controls"] = {}
    for n, (_cls, must) in variants.items():
        chk.cov["negative_controls"][n] = {"histories": len(hists), "rejected": rejected[n], "must_reject": must}
        if must and rejected[n] == 0:
            raise MachineryError(f"negative control: broken ByteVec variant {n} was accepted on {len(hists)} histories")
    vals = R.Valuations(chk.seed)
    # specification side: one corrupted expected byte must be noticed
    import random

    rnd = random.Random(chk.seed + 3)
    tried = caught = 0
    for h in hists[:: max(1, len(hists) // 60)]:
        steps = [i for i, st in enumerate(h) if st["post"]]
        if not steps:
            continue
        i = rnd.choice(steps)
        o = R.replay(h, R.DRIVERS["ByteVec"], vals, chk.seed, corrupt=(i, rnd.randrange(1 << 16)))
        tried += 1
        caught += 0 if o.ok else 1
    chk.cov["negative_controls"]["corrupted-expectation"] = {"histories": tried, "rejected": caught}
    if tried == 0 or caught != tried:
        raise MachineryError(f"negative control: corrupted expectations accepted ({caught}/{tried} rejected)")


def replay(chk: Check, path: str):
    """bin/check C07 --replay <file>: re-run one recorded disagreement (the evidence file of the last
    full run is left alone: a replay explores no state space)"""
    d = json.loads(open(path).read())
    R.register_variants()
    h = d["history"]
    drv = d.get("driver", "ByteVec")
    o_d, key = R.run_batch([h], [drv], seed=chk.seed, procs=2, chunk=1)[0][2:]
    print("\n".join(R.describe(h)))

    def finish_without_evidence():
        print(f"[{chk.pid}/replay] {'VIOLATED' if chk.nviol else 'ok'}", flush=True)
        return 1 if chk.nviol else 0

    chk.finish = finish_without_evidence
    if o_d["ok"]:
        print(f"replay: {drv} agrees with ByteSeq on this history")
        return
    chk.violation(key, f"{drv}: {o_d['detail']}", {"driver": drv, "history": h, "commands": R.describe(h),
                                                  "outcome": o_d})
