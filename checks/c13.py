"""C13 - assume and assert cheatcodes have exactly their stated meaning.

spec/Cheats.tla holds the relation table of the vm.assert* family (written from StdAssertions.sol) and
vm.assume; TLC executes every generated caller program on Evm.tla in two modes - the failing
assertion stops the test ("stop") or only sets the failure flag ("continue") - because Foundry has had
both behaviours and halmos reports a path for each.  For an input that violates the assertion a
FailCheatcode path must cover it and every other covering path must equal the "continue" behaviour;
for an input that satisfies it every covering path must equal the normal behaviour.
"""

from __future__ import annotations

import random

from harness import e1, progs_cheats, zeval
from harness.cheats import ASSERT_SIGS, BY_SIG
from harness.common import Check, MachineryError, cleanup, workdir
from harness.e1corpus import normalize_input, prog_key
from harness.hrun import run as halmos_run

UNSUPPORTED = {s for s in ASSERT_SIGS if s.startswith(("assertEq(string[]", "assertEq(bytes[]", "assertNotEq(string[]", "assertNotEq(bytes[]"))}


def run(chk: Check, tier: str):
    rnd = random.Random(7477 * chk.seed + 13)
    # (the bytes[] / string[] overloads are not implemented by halmos: it refuses them with NotImplementedError, which is
    #  fine - but if it ever answers, the answer has to be the element-wise comparison of Cheats!ArgDynArr)
    sigs = list(ASSERT_SIGS)
    progs = []
    reps = 1 if tier == "quick" else 6
    for s in sigs:
        for r in range(reps):
            depth = 1 + (len(progs) % 3)
            progs.append(progs_cheats.fam_assert(rnd, s, depth=depth, ninputs=7 if tier == "quick" else 12))
    for _ in range(8 if tier == "quick" else 60):
        progs.append(progs_cheats.fam_assume(rnd, ninputs=8))
    work = workdir("c13")
    try:
        cases, index = [], {}
        hruns = []
        for pi, (prog, inputs) in enumerate(progs):
            # a third of the programs each: the branching solver answers normally / `unknown` always / `unknown`
            # for a seeded half of its queries (what an expired --solver-timeout-branching looks like)
            inject = [(), ("--verif-unknown", "all"), ("--verif-unknown", str(pi))][pi % 3]
            hr = halmos_run(prog, *inject)
            hruns.append(hr)
            seen = set()
            for inp in inputs:
                inp = normalize_input(prog, inp)
                k = tuple(sorted(inp.items()))
                if k in seen:
                    continue
                seen.add(k)
                for mode in ("stop", "continue"):
                    cid = len(cases)
                    cases.append(e1.to_case(cid, prog, inp, assert_mode=mode))
                    index[cid] = (pi, inp, mode)
        recs, tr = e1.run_spec(cases, work)
        chk.add_tlc(tr)
        by_input = {}
        for cid, (pi, inp, mode) in index.items():
            by_input.setdefault((pi, tuple(sorted(inp.items()))), {})[mode] = recs[cid]
        sig_seen = {}
        for (pi, key), modes in by_input.items():
            prog, _ = progs[pi]
            hr = hruns[pi]
            inp = dict(key)
            stop, cont = modes["stop"], modes["continue"]
            chk.count("evaluations")
            name = prog.name
            if hr.exception and "NotImplementedError" in hr.exception and prog.meta.get("sig") in UNSUPPORTED:
                chk.count("unsupported_overloads_refused")
                continue
            if hr.exception:
                chk.violation(f"{name}:exception", f"{name}: exception escaped SEVM.run: {hr.exception}", {"program": name, "code": {hex(a): c.hex() for a, c in prog.accounts.items()}})
                continue
            if stop["status"] == "unmodelled":
                raise MachineryError(f"{name}: cheatcode not modelled by Cheats.tla")
            m = e1.match_paths(prog, hr, inp)
            if m.unevaluable:
                chk.count("unevaluable_paths", len(m.unevaluable))
            info = {"program": name, "code": {hex(a): c.hex() for a, c in prog.accounts.items()}, "input": {k: hex(v) for k, v in inp.items()},
                    "meta": {k: str(v) for k, v in prog.meta.items()}, "paths": [(p.error, p.stuck_reason) for p in hr.paths]}
            live = [c for c in m.covering if not c.path.stuck]
            if stop["status"] == "discard":
                # vm.assume(false): the input is not admissible, no reported path may claim it
                if live:
                    chk.violation(f"{name}:assume-not-restricting", f"{name}: input {info['input']} violates the assumed condition but path {live[0].index} covers it", info)
                else:
                    chk.nontrivial((name, key, "discard"))
                    chk.count("traces_validated_against_impl")
                continue
            violated = stop["kind"] == "Fail"
            if not live and not m.unevaluable and not any(p.stuck for p in hr.paths):
                chk.violation(f"{name}:uncovered", f"{name}: no path covers {info['input']}", info)
                continue
            fails = [c for c in live if c.path.error == "FailCheatcode"]
            others = [c for c in live if c.path.error != "FailCheatcode"]
            if violated:
                if not fails and live:
                    chk.violation(f"{name}:failure-not-reported", f"{name}: the stated relation is false for {info['input']} but no FailCheatcode path covers the input", info)
                for c in others:
                    cl = e1.compare_end_state(c, cont, set(prog.accounts))
                    if cl:
                        chk.violation(f"{name}:continue-path:{cl.split(':')[0]}", f"{name}: path {c.index} continuing after the failed assertion: {cl}", info)
            else:
                if fails:
                    chk.violation(f"{name}:spurious-failure", f"{name}: the stated relation holds for {info['input']} but FailCheatcode path {fails[0].index} covers the input", info)
                for c in others:
                    cl = e1.compare_end_state(c, stop, set(prog.accounts))
                    if cl:
                        chk.violation(f"{name}:{cl.split(':')[0]}", f"{name}: path {c.index}: {cl}", info)
            if live:
                chk.count("traces_validated_against_impl")
                chk.nontrivial((name, key))
                sig = prog.meta.get("sig", name)
                st = sig_seen.setdefault(sig, set())
                st.add("violated" if violated else "holds")
            chk.sample({"program": name, "input": info["input"], "assertion_holds": not violated, "covering": [(c.index, c.path.error) for c in live]})
        chk.cov["selectors"] = len(sigs)
        chk.cov["selectors_seen_both_ways"] = sum(1 for s in sig_seen.values() if len(s) == 2)
        chk.cov["unsupported_signatures_skipped"] = sorted(UNSUPPORTED)
        negative_control(chk)
    finally:
        cleanup(work)
    chk.cov["programs"] = len(progs)
    chk.cov["rule"] = (
        "one caller program per forge-std vm.assert* signature (selectors computed by the harness with keccak) at call "
        "depth 1-3, operands from calldata (word types: sign/zero boundaries; arrays of length 0-3; bytes/strings of length "
        "0-33), plus vm.assume programs; each input is executed by TLC on Evm.tla + Cheats.tla in stop and continue mode "
        "and compared with the halmos paths covering it; two thirds of the programs run with the branching solver answering "
        "`unknown` (always / seeded half of the queries), which must not lose the failing branch; non-trivial = (program, input) pairs with a covering path"
    )


def negative_control(chk: Check):
    """Swapping the signed/unsigned reading of assertLt must be visible on the boundary grid."""
    from harness.cheats import BY_SIG

    a, b = (1 << 255), 1  # signed: a < b ; unsigned: a > b
    signed = a - (1 << 256) < b
    unsigned = a < b
    if signed == unsigned:
        raise MachineryError("negative control: the grid does not separate signed from unsigned comparison")
    chk.count("negative_controls_rejected")
