"""C20 - tests are isolated from each other and results are deterministic.

TestRun.tla specifies run_contract (every test starts from a private copy of the post-setUp state); TLC
checks EachTestStartsFromSetup / ResultIndependentOfHistory, refutes them in the "shared" negative
control, and enumerates every order with repetition of up to MaxLen tests.  Each history is replayed
through the real run_contract in ONE process on a contract whose tests write, resp. assert the initial
value of, storage, transient storage, a balance, created code, the block timestamp, and two invariant
tests sharing the cached frontier.  Each run is also repeated and the normalised results (verdict,
path counts, counterexamples with the uid suffix stripped) must coincide.
"""

from __future__ import annotations

import random
import re

from harness.artifacts import HEVM, Contract, Fn, arg, cheat_call, panic, run_contract, selector
from harness.asm import assemble
from harness.common import Check, MachineryError, cleanup, run_tlc, workdir

BOB = 0xB0B
NEXT_CREATED = 0xAAAA0005  # setUp creates the invariant target and the two callees C1, C2


def _assert(cond_code: list, tag: str) -> list:
    """Panic(1) unless cond_code leaves a non-zero word"""
    return cond_code + [("PUSHL", f"ok_{tag}"), "JUMPI"] + panic(1) + [("LABEL", f"ok_{tag}")]


def build_contract():
    tiny = assemble([("PUSH", 1), ("PUSH", 0), "RETURN"])  # init code deploying 1 byte of code
    target_rt = assemble([("PUSH", 1), ("PUSH", 5), "SSTORE", "STOP"])  # the invariant target: any call writes its own slot 5
    # (two state-changing paths: the frontier of an invariant test then has sibling states)
    target = Contract("Tgt", [Fn("poke(uint256)", arg(0) + [("PUSH", 1), "AND", ("PUSHL", "odd"), "JUMPI", ("PUSH", 1), ("PUSH", 5), "SSTORE", "STOP",
                                                           ("LABEL", "odd"), ("PUSH", 2), ("PUSH", 5), "SSTORE", "STOP"])], filename="src/Tgt.sol")
    tinit = target.creation()
    # setUpSymbolic(address a): a symbolic address is part of the post-setUp state (slot 3); C1 returns 1, C2 returns 2
    def ret_const(name, v):
        # no functions (nothing for invariant testing to call): every call returns the constant
        return Contract(name, [], fallback=[("PUSH", v), ("PUSH", 0), "MSTORE", ("PUSH", 32), ("PUSH", 0), "RETURN"], filename=f"src/{name}.sol")

    k1, k2 = ret_const("C1", 1), ret_const("C2", 2)
    c1, c2 = k1.creation(), k2.creation()
    setup = [("PUSH", 7), ("PUSH", 0), "SSTORE", ("PUSH", 1), ("PUSH", 1), "SSTORE", ("PUSH", 4), "CALLDATALOAD", ("PUSH", 3), "SSTORE",
             ("PUSHN", 2, len(tinit)), ("PUSHL", "tinit"), ("PUSH", 0x100), "CODECOPY", ("PUSHN", 2, len(tinit)), ("PUSH", 0x100), ("PUSH", 0), "CREATE", "POP",
             ("PUSHN", 2, len(c1)), ("PUSHL", "c1"), ("PUSH", 0x100), "CODECOPY", ("PUSHN", 2, len(c1)), ("PUSH", 0x100), ("PUSH", 0), "CREATE", "POP",
             ("PUSHN", 2, len(c2)), ("PUSHL", "c2"), ("PUSH", 0x100), "CODECOPY", ("PUSHN", 2, len(c2)), ("PUSH", 0x100), ("PUSH", 0), "CREATE", "POP", "STOP"]
    call_stored = [("PUSH", 0), ("PUSH", 0x40), "MSTORE", ("PUSH", 32), ("PUSH", 0x40), ("PUSH", 0), ("PUSH", 0), ("PUSH", 0), ("PUSH", 3), "SLOAD", ("PUSH", 0xFFFFFF), "CALL", "POP"]
    s0_is_7 = [("PUSH", 0), "SLOAD", ("PUSH", 7), "EQ"]
    s1_is_1 = [("PUSH", 1), "SLOAD", ("PUSH", 1), "EQ"]
    bal0 = [("PUSH", BOB), "BALANCE", "ISZERO"]
    code0 = [("PUSH", NEXT_CREATED), "EXTCODESIZE", "ISZERO"]
    time1 = ["TIMESTAMP", ("PUSH", 1), "EQ"]
    fns = {
        "write_storage": _assert(s0_is_7, "ws") + [("PUSH", 5), ("PUSH", 0), "SSTORE", "STOP"],
        "read_storage": _assert(s0_is_7, "rs0") + _assert(s1_is_1, "rs1") + ["STOP"],
        "write_transient": [("PUSH", 9), ("PUSH", 0), "TSTORE", "STOP"],
        "read_transient": _assert([("PUSH", 0), "TLOAD", "ISZERO"], "rt") + ["STOP"],
        "write_balance": _assert(bal0, "wb") + [("PUSH", 0), ("PUSH", 0), ("PUSH", 0), ("PUSH", 0), ("PUSH", 1), ("PUSH", BOB), ("PUSH", 0xFFFF), "CALL", "POP", "STOP"],
        "read_balance": _assert(bal0, "rb") + ["STOP"],
        "write_code": _assert(code0, "wc") + [("PUSHN", 2, len(tiny)), ("PUSHL", "tiny"), ("PUSH", 0x100), "CODECOPY", ("PUSHN", 2, len(tiny)), ("PUSH", 0x100), ("PUSH", 0), "CREATE", "POP", "STOP"],
        "read_code": _assert(code0, "rc") + ["STOP"],
        "write_time": _assert(time1, "wt") + cheat_call(HEVM, "warp(uint256)", [[("PUSH", 100)]]) + ["STOP"],
        "read_time": _assert(time1, "rti") + ["STOP"],
        "alias_a": call_stored + ["STOP"],
        "alias_b": call_stored + _assert([("PUSH", 0x40), "MLOAD", ("PUSH", 2), "EQ", "ISZERO"], "ab") + ["STOP"],
    }
    test_fns = [Fn("setUpSymbolic(address)", setup)] + [Fn(f"check_{k}()", v) for k, v in fns.items()]
    # configuration: check_annotated() carries a function annotation; check_loopy(n) counts to n and asserts the count is
    # below 3 - with the default --loop 2 only n <= 2 is explored (PASS with a bound warning), with --loop 4 it fails
    test_fns.append(Fn("check_annotated()", ["STOP"], devdoc="--loop 4"))
    loopy = [("PUSH", 0), ("LABEL", "lh"), ("PUSH", 4), "CALLDATALOAD", "DUP2", "LT", ("PUSHL", "lb"), "JUMPI",
             ("PUSH", 3), "SWAP1", "LT", ("PUSHL", "lok"), "JUMPI"] + panic(1) + [("LABEL", "lok"), "STOP", ("LABEL", "lb"), ("PUSH", 1), "ADD", ("PUSHL", "lh"), "JUMP"]
    test_fns.append(Fn("check_loopy(uint256)", loopy))
    # what a test learns about the symbol of the post-setUp state (slot 3) stays in that test
    test_fns.append(Fn("check_eq_a()", [("PUSH", 64), ("PUSH", 3), "SLOAD", "EQ", "ISZERO", ("PUSHL", "ne"), "JUMPI", "STOP", ("LABEL", "ne"), "STOP"]))
    test_fns.append(Fn("check_ret_b()", [("PUSH", 3), "SLOAD", ("PUSH", 0), "RETURN"]))
    test_fns.append(Fn("check_cond_b()", [("PUSH", 64), ("PUSH", 3), "SLOAD", "EQ", ("PUSHL", "cb_bad"), "JUMPI", "STOP", ("LABEL", "cb_bad")] + panic(1)))
    k5 = [("PUSH", 5), ("PUSH", 0x200), "MSTORE", ("PUSH", 32), ("PUSH", 0x200), "SHA3"]
    test_fns.append(Fn("check_hash_a()", k5 + ["POP", "STOP"]))
    # keccak(x) == keccak(5) && x != 5  =>  Panic(1)
    test_fns.append(Fn("check_hash_b(uint256)", arg(0) + [("PUSH", 0x240), "MSTORE", ("PUSH", 32), ("PUSH", 0x240), "SHA3"] + k5 + ["EQ", "ISZERO", ("PUSHL", "hb_ok"), "JUMPI"]
                       + arg(0) + [("PUSH", 5), "EQ", ("PUSHL", "hb_ok"), "JUMPI"] + panic(1) + [("LABEL", "hb_ok"), "STOP"]))
    # (time does not run backwards: the timestamp of every frontier state is at least setUp's)
    time_ok = [("PUSH", 1), "TIMESTAMP", "LT", "ISZERO"]
    test_fns.append(Fn("invariant_a()", _assert(s1_is_1, "ia") + _assert(time_ok, "iat") + ["STOP"]))
    test_fns.append(Fn("invariant_b()", _assert(s1_is_1, "ib1") + _assert(s0_is_7, "ib0") + _assert(time_ok, "ibt") + ["STOP"]))
    c = Contract("IsoT", test_fns, data=[("MARK", "tinit"), ("RAW", tinit), ("MARK", "tiny"), ("RAW", tiny), ("MARK", "c1"), ("RAW", c1), ("MARK", "c2"), ("RAW", c2)])
    return c, [target, k1, k2]


def sig_of(name: str) -> str:
    if name == "loopy":
        return "check_loopy(uint256)"
    if name == "hash_b":
        return "check_hash_b(uint256)"
    return f"invariant_{name[4:]}()" if name.startswith("inv_") else f"check_{name}()"


UID = re.compile(r"_[0-9a-f]{7}_")


def normalise(results) -> list:
    out = []
    for r in results:
        models = sorted(UID.sub("_UID_", str(m)) for m in (r.models or []))
        out.append((r.name, r.exitcode, r.num_models, tuple(models), r.num_paths, r.num_bounded_loops))
    return out


def sibling_continuations(chk: Check) -> None:
    """Sibling paths of one transaction: a creation whose constructor ends on two paths resumes its creator twice; each
    continuation then runs a loop of at most two iterations (n <= 2, --loop 3).  What one continuation counted (visits of the
    loop's JUMPI) is not the other's business: every input is covered and no bound is reported."""
    from harness.asm import assemble
    from harness.e1corpus import Item, describe, run_items
    from harness.hrun import TARGET, Prog, Sym

    # init code: if (calldata of the creator's x == 0) deploy 1 byte else deploy 2 bytes  (x is passed as the init code's trailing word)
    init = assemble([("PUSH", 0x20), "CODESIZE", "SUB", ("PUSH", 0x20), "SWAP1", ("PUSH", 0), "CODECOPY", ("PUSH", 0), "MLOAD", ("PUSHL", "two"), "JUMPI",
                     ("PUSH", 1), ("PUSH", 0), "RETURN", ("LABEL", "two"), ("PUSH", 2), ("PUSH", 0), "RETURN"])
    n_init = len(init)
    body = [("PUSHN", n_init, int.from_bytes(init, "big")), ("PUSH", 0x100), "MSTORE", ("PUSH", 0), "CALLDATALOAD", ("PUSH", 0x120), "MSTORE",
            ("PUSH", n_init + 32), ("PUSH", 0x120 - n_init), ("PUSH", 0), "CREATE", "EXTCODESIZE", ("PUSH", 0), "MSTORE",
            # require(n <= 2)
            ("PUSH", 2), ("PUSH", 32), "CALLDATALOAD", "GT", ("PUSHL", "rev"), "JUMPI",
            # i = 0; head: if (!(i < n)) goto done; i++; goto head   (the path that stays in the loop is the fall-through side)
            ("PUSH", 0), ("LABEL", "head"), ("PUSH", 32), "CALLDATALOAD", "DUP2", "LT", "ISZERO", ("PUSHL", "done"), "JUMPI",
            ("PUSH", 1), "ADD", ("PUSHL", "head"), "JUMP",
            ("LABEL", "done"), ("PUSH", 32), "MSTORE", ("PUSH", 64), ("PUSH", 0), "RETURN",
            ("LABEL", "rev"), ("PUSH", 0), ("PUSH", 0), "REVERT"]
    prog = Prog(accounts={TARGET: assemble(body)}, calldata=[Sym("cd0", 256), Sym("cd1", 256)], name="sibling-continuations")
    inputs = [{"cd0": x, "cd1": n} for x in (0, 1, 1 << 200) for n in (0, 1, 2, 3)]
    it = Item(prog, inputs, cli=("--loop", "3"), key="probe:sibling-continuations")
    outs = run_items([it], chk, witnesses=False)
    from checks.c01 import judge

    judge(chk, outs)
    chk.nontrivial(("sibling-continuations",))
    if it.hr.bounded:
        chk.violation("sibling-continuations:bound-reported", "creator resumed on two paths after a constructor with two endings, then a loop of at most 2 iterations under --loop 3: "
                      "a loop bound is reported although no input needs more than two iterations (the second continuation started with the visit counts of the first)",
                      {"bounded": it.hr.bounded, "paths": len(it.hr.paths)})
    for o in outs:
        if not o.covered and not o.skipped and not o.match.unevaluable:
            chk.violation("sibling-continuations:uncovered", f"no reported path covers input {o.inp} (a continuation of the creator lost its later loop iterations)", describe(o))


def run(chk: Check, tier: str):
    work = workdir("c20")
    try:
        n = 2 if tier == "quick" else 3
        r = run_tlc("TestRun", f"MC_TestRun_copy{n}.cfg", work=work, expect_violation=True, coverage=True)
        if not r.ok:
            raise MachineryError(f"TestRun.tla (copy) violates {r.violated}")
        chk.add_tlc(r)
        neg = run_tlc("TestRun", "MC_TestRun_shared2.cfg", work=work, expect_violation=True)
        if neg.violated is None:
            raise MachineryError("negative control: TestRun.tla in mode 'shared' satisfies the isolation invariants")
        chk.count("negative_controls_rejected")
        # --early-exit: the executor a failing test shuts down is its own
        ree = run_tlc("TestRun", f"MC_TestRun_copy{n}ee.cfg", work=work, expect_violation=True)
        if not ree.ok:
            raise MachineryError(f"TestRun.tla (copy, EarlyExit) violates {ree.violated}")
        chk.add_tlc(ree)
        negee = run_tlc("TestRun", "MC_TestRun_shared2ee.cfg", work=work, expect_violation=True)
        if negee.violated != "ExecutorPrivate":
            raise MachineryError(f"negative control: a shared executor under --early-exit should violate ExecutorPrivate, got {negee.violated}")
        chk.count("negative_controls_rejected")
        ee_hists = {tuple(e["test"] for e in h): h for h in ree.records}
        hists = []
        seen = set()
        for h in r.records:
            k = tuple(e["test"] for e in h)
            if k not in seen:
                seen.add(k)
                hists.append(h)
        rnd = random.Random(chk.seed * 17 + 20)
        # histories in which the second test reads what the first one writes are always replayed
        kinds = ["storage", "transient", "balance", "code", "time"]
        conflicts = {(f"write_{k}", f"read_{k}") for k in kinds} | {(f"write_{k}", f"write_{k}") for k in kinds} | \
                    {("eq_a", "ret_b"), ("ret_b", "eq_a"), ("ret_b", "ret_b"), ("annotated", "loopy"), ("loopy", "annotated"), ("loopy", "loopy"), ("alias_a", "alias_b"), ("alias_b", "alias_b"), ("alias_b", "alias_a"), ("inv_a", "inv_b"), ("inv_b", "inv_a"), ("write_storage", "inv_b"), ("hash_a", "hash_b"), ("hash_b", "hash_b"), ("hash_b", "hash_a"), ("eq_a", "cond_b"), ("cond_b", "cond_b"), ("cond_b", "eq_a")}
        must = [h for h in hists if len(h) == 2 and (h[0]["test"], h[1]["test"]) in conflicts]
        if len(must) != len(conflicts):
            raise MachineryError(f"TestRun.tla did not enumerate every conflicting pair: {len(must)} of {len(conflicts)}")
        if tier == "quick":
            rest = [h for h in hists if len(h) == 2 and h not in must]
            pick = [h for h in hists if len(h) <= 1] + must + rnd.sample(rest, 30)
        else:
            pick = [h for h in hists if len(h) <= 2] + rnd.sample([h for h in hists if len(h) == 3], 500)
        contract, others = build_contract()
        baseline = {}
        for h in pick:
            order = [e["test"] for e in h]
            sigs = [sig_of(t) for t in order]
            out = run_contract(contract, others=others, funsigs=sigs, cli=("--invariant-depth", "1"))
            if out.exception or len(out.results) != len(sigs):
                raise MachineryError(f"run_contract {sigs}: {out.exception} {out.stdout[-400:]}")
            chk.count("evaluations")
            chk.count("traces_validated_against_impl")
            chk.nontrivial(tuple(order))
            for e, res in zip(h, out.results):
                # (a test the model calls FAIL may also end as ERROR - e.g. a path halmos cannot execute symbolically)
                ok = res.exitcode == 0 if e["result"] == "PASS" else res.exitcode != 0
                if not ok:
                    chk.violation(f"order-dependent:{'>'.join(order)}:{e['test']}",
                                  f"tests run in the order {order}: {e['test']} ends with exit code {res.exitcode}, TestRun.tla says {e['result']} (every test starts from the post-setUp state)",
                                  {"order": order, "halmos_output": (out.stdout + out.logs)[-1500:]})
                norm = normalise([res])[0]
                b = baseline.setdefault(e["test"], norm)
                if b != norm:
                    chk.violation(f"result-varies:{e['test']}", f"{e['test']}: normalised result differs between histories: {b} vs {norm} (order {order})",
                                  {"order": order, "first": repr(b), "now": repr(norm)})
            chk.sample({"order": order, "exitcodes": [x.exitcode for x in out.results]})
        # the same histories under --early-exit (a test stops at its first counterexample: what it stops - solver
        # processes, executors - is its own); verdicts only, the number of models legitimately differs
        ee = [ee_hists[tuple(e["test"] for e in h)] for h in pick if len(h) >= 2 and any(e["result"] != "PASS" for e in h[:-1])]
        for h in (ee if tier != "quick" else ee[:: max(1, len(ee) // 25)]):
            order = [e["test"] for e in h]
            sigs = [sig_of(t) for t in order]
            out = run_contract(contract, others=others, funsigs=sigs, cli=("--invariant-depth", "1", "--early-exit"))
            if out.exception or len(out.results) != len(sigs):
                raise MachineryError(f"run_contract --early-exit {sigs}: {out.exception} {out.stdout[-400:]}")
            chk.count("evaluations")
            chk.count("traces_validated_against_impl")
            chk.nontrivial(("early-exit",) + tuple(order))
            for e, res in zip(h, out.results):
                ok = res.exitcode == 0 if e["result"] == "PASS" else res.exitcode != 0
                if not ok:
                    chk.violation(f"order-dependent:early-exit:{'>'.join(order)}:{e['test']}",
                                  f"tests run with --early-exit in the order {order}: {e['test']} ends with exit code {res.exitcode}, TestRun.tla says {e['result']}",
                                  {"order": order, "halmos_output": (out.stdout + out.logs)[-1500:]})
        # determinism: the same selection twice in one process
        sigs = [sig_of(t) for t in ["read_storage", "write_code", "inv_a", "inv_b", "read_time"]]
        a = normalise(run_contract(contract, others=others, funsigs=sigs, cli=("--invariant-depth", "1")).results)
        b = normalise(run_contract(contract, others=others, funsigs=sigs, cli=("--invariant-depth", "1")).results)
        chk.count("traces_validated_against_impl")
        if a != b:
            chk.violation("nondeterministic-repeat", f"two runs of the same tests in one process differ after normalising uid suffixes: {a} vs {b}", {"a": repr(a), "b": repr(b)})
        # negative control for the replay: a deliberately leaking run (write then read on a contract whose
        # setUp state is mutated by the harness between tests) must be noticed
        leaky_contract = Contract("IsoLeak", [Fn("setUp()", [("PUSH", 5), ("PUSH", 0), "SSTORE", ("PUSH", 1), ("PUSH", 1), "SSTORE", "STOP"])] +
                                  [f for f in contract.fns if f.sig == "check_read_storage()"])
        out = run_contract(leaky_contract, funsigs=["check_read_storage()"])
        if not out.results or out.results[0].exitcode == 0:
            raise MachineryError("negative control: a test starting from a state that differs from setUp's is not noticed")
        chk.count("negative_controls_rejected")
        chk.cov["histories_enumerated"] = len(hists)
        chk.cov["exhaustive"] = tier == "quick" and False
    finally:
        cleanup(work)
    # isolation between the contracts (and compilation units) of one process: MainRun.tla replayed through _main - a
    # contract's verdicts are a function of the contract alone
    from harness import mainrun_replay

    mainrun_replay.phase(chk, tier, {"verdicts", "selection", "order"}, "main-run")
    sibling_continuations(chk)
    chk.cov["rule"] = (
        "all orders with repetition of <= 2 (quick: all of length 1, every writer-then-reader pair, 30 sampled others of length 2) / <= 3 (thorough) of 21 tests "
        "(writers and readers of storage, transient storage, a balance, created code, block timestamp; two tests calling the symbolic address "
        "chosen by setUpSymbolic(address) (the per-path alias cache); a test with a function-level `@custom:halmos --loop 4` annotation and a test whose verdict depends on the loop bound; two invariant tests sharing the frontier cache), enumerated by TLC from TestRun.tla and replayed through one run_contract call each; "
        "per test the exit code must equal the model's and the normalised result must be the same in every history"
    )
