"""C16 - the unsat-core cache never changes a verdict.

1. TLC model-checks spec/UnsatCache.tla: `CacheSound` (a query answered from the cache is unsatisfiable) holds
   under the pinning discipline of the code (submitted_futures and the shared term_to_vars cache keep the
   condition objects - hence their z3 ids - alive), holds with either reference alone, and is REFUTED when both
   are removed (negative control of the design).
2. code -> spec: generated multi-path tests run through halmos' real `run_contract` with `--cache-solver`,
   `gc.collect()` forced between paths, branching answers `unknown` injected so that infeasible paths reach the
   assertion solver; the recorded logs (id lists, constraint texts, stored cores, hits) are validated in one
   batch by TLC against spec/Trace_UnsatCache.tla, with the query's own cache-off solver run as the oracle.
3. the observable: every contract is run cache off / cache on in the same process (and cache off in a fresh
   process); verdicts, per-path solver results and counterexample sets must agree.
4. `parse_unsat_core` on every output shape of yices-smt2 / z3 and of the documented grammar.
5. negative controls that bite: corrupted logs, a `check_unsat_cores` that ignores one id, an
   `append_unsat_core` that stores a strict subset, and an implementation run whose pins are released.
"""

from __future__ import annotations

import json
import os
import random
import subprocess
import sys
import threading
import time
from concurrent.futures import ThreadPoolExecutor
from pathlib import Path

from harness import unsatcache_replay as uc
from harness.common import VERIF, Check, MachineryError, cleanup, run_tlc, workdir

BUDGET = {"quick": 10, "thorough": 250}  # contracts; 3 tests each (+ the control runs)

MC = {
    "quick": [("MC_UnsatCache_pin_q.cfg", False), ("MC_UnsatCache_futures_q.cfg", False),
              ("MC_UnsatCache_termvars_q.cfg", False), ("MC_UnsatCache_nopin_q.cfg", True)],
    "thorough": [("MC_UnsatCache_pin.cfg", False), ("MC_UnsatCache_futures.cfg", False),
                 ("MC_UnsatCache_termvars.cfg", False), ("MC_UnsatCache_nopin.cfg", True),
                 ("MC_UnsatCache_pin4.cfg", False), ("MC_UnsatCache_futures4.cfg", False),
                 ("MC_UnsatCache_futures_f2.cfg", False)],
}

CLIS = [
    ("--solver-threads", "1"),
    ("--solver-threads", "1"),
    ("--solver-threads", "3"),
    ("--solver-threads", "1"),
    (),
]
INJECT = ["all", "all", "half", "all", "all", "half", "none"]

# clauses of Trace_UnsatCache that are verdicts about the cache / about the fidelity of the model
# ("malformed-query": a query whose named ids do not cover its constraints one to one - a core of such a query can leave out
#  a constraint its unsatisfiability needs, and then answers satisfiable queries)
VIOLATION_CLAUSES = {"malformed-query", "core-id-rebound", "hit-on-sat-query", "hit-truth-not-unsat", "hit-without-core", "core-not-subset",
                     "core-not-unsat", "core-empty", "cores-survive-test"}
PIN_CLAUSES = {"pinned-id-rebound", "pinned-object-duplicated"}


def mk_cases(seed: int, n: int, tier: str) -> list:
    """yices with one solver thread is the cheap default (and gives deterministic cache hits); z3 as the external
    solver (~1 s per query) and the multiplication atoms (refinement; seconds per query) are rationed."""
    cases = []
    for i in range(n):
        depth = (3, 4) if tier == "quick" else ((3, 5) if i % 4 else (4, 6))
        hard = 0.05 if (tier == "thorough" and i % 8 == 5) else 0.0
        cli = CLIS[i % len(CLIS)]
        if tier == "thorough" and i % 23 == 1:
            cli = ("--solver-threads", "1", "--solver", "z3")
        cases.append(uc.UcCase(seed=seed, index=i, ntests=3, depth=depth, hard=hard, cli=cli, inject=INJECT[i % len(INJECT)]))
    if tier == "quick":
        # one case whose atoms need refinement (symbolic products): the refined queries go through the named encoding too
        cases.append(uc.UcCase(seed=seed, index=n, ntests=2, depth=(2, 3), hard=0.6, cli=("--solver-threads", "1"), inject="none"))
    return cases


class Background:
    """TLC model checking and the fresh-process baseline run next to the halmos runs."""

    def __init__(self):
        self.threads = []
        self.results = {}
        self.errors = []

    def start(self, name, fn, *a, **k):
        def body():
            try:
                self.results[name] = fn(*a, **k)
            except BaseException as e:  # noqa: BLE001
                self.errors.append((name, e))

        t = threading.Thread(target=body, name=name, daemon=True)
        t.start()
        self.threads.append(t)

    def join(self):
        for t in self.threads:
            t.join()
        if self.errors:
            name, e = self.errors[0]
            if isinstance(e, MachineryError):
                raise e
            raise MachineryError(f"background job {name} failed: {type(e).__name__}: {e}")


def model_check(chk: Check, tier: str, work: Path, bg: Background):
    for cfg, expect in MC[tier]:
        bg.start(cfg, run_tlc, "UnsatCache", cfg, work=work, workers=3 if tier == "quick" else 4, coverage=(tier == "thorough"),
                 expect_violation=expect, heap="3g")


def model_check_verdicts(chk: Check, tier: str, bg: Background):
    uncovered = set()
    for cfg, expect in MC[tier]:
        r = bg.results[cfg]
        chk.add_tlc(r)
        chk.count("tlc_runs")
        if expect:
            if r.violated != "CacheSound":
                raise MachineryError(f"negative control {cfg}: TLC did not refute CacheSound without pins (got {r.violated})")
            chk.count("negative_controls_rejected")
            tail = r.stdout[r.stdout.find("Error: Invariant CacheSound"):][:6000]
            chk.cov["nopin_counterexample_states"] = tail.count("State ")
        else:
            if not r.ok:
                raise MachineryError(f"{cfg}: {r.violated} on the specification's own behaviours\n{r.stdout[-2000:]}")
            need = {"NewShared", "NewFresh", "Branch", "ReleasePath", "Submit", "EndTest", "DoCacheHit", "DoCacheMiss",
                    "DoSolverNoCore", "DoSolverUnsat"}
            if "futures" in cfg:
                need |= {"NewRecycled", "Reclaim"}
            for a in need if tier == "thorough" else ():
                if r.coverage.get(a, (0, 0))[1] == 0:
                    uncovered.add(f"{cfg}:{a}")
        chk.cov.setdefault("tlc", {})[cfg] = {"distinct": r.distinct_states, "generated": r.states_generated, "depth": r.depth,
                                               "violated": r.violated, "wall_s": round(r.wall_s, 1)}
        if r.coverage:
            # with PinTermVars nothing is ever reclaimed, so Reclaim / NewRecycled are expected to be dead there
            chk.cov["tlc"][cfg]["actions_with_zero_count"] = sorted(a for a, (_, tot) in r.coverage.items() if tot == 0)
    chk.cov["spec_actions_never_taken"] = sorted(uncovered) if tier == "thorough" else "coverage is collected in the thorough tier"
    if uncovered and tier == "thorough":
        raise MachineryError(f"actions never taken: {sorted(uncovered)}")


def _subprocess(kind: str, cases, work: Path, tag: str) -> list:
    fin, fout = work / f"{tag}-in.json", work / f"{tag}-out.json"
    fin.write_text(uc.unsatcache_cases_json(cases))
    env = dict(os.environ, PYTHONHASHSEED="0")
    p = subprocess.run([sys.executable, "-m", "harness.unsatcache_replay", kind, str(fin), str(fout), str(work / f"{tag}-work")],
                       cwd=str(VERIF), env=env, capture_output=True, text=True, timeout=3 * 3600)
    if p.returncode != 0 or not fout.exists():
        raise MachineryError(f"{kind} process {tag} failed rc={p.returncode}: {p.stderr[-2000:]}")
    return json.loads(fout.read_text())


def replay_of(case, sig=None, extra=None) -> dict:
    c, metas = case.contract()
    d = {"generator": "harness.unsatcache_replay.UcCase", "case": json.loads(uc.unsatcache_cases_json([case]))[0],
         "runtime": c.runtime().hex(), "creation": c.creation().hex(), "tests": {m.sig: m.tree for m in metas}}
    if sig:
        d["sig"] = sig
    if extra:
        d.update(extra)
    return d


def report_diffs(chk: Check, case, diffs, how: str, off, on) -> int:
    real = 0
    for sig, kind, what in diffs:
        if kind == "inconclusive":
            chk.count("tests_inconclusive_solver_gave_up")
            continue
        real += 1
        chk.violation(f"{case.key()}:{sig}:{kind}", f"cache off ({how}) vs --cache-solver: {sig}: {what}",
                      replay_of(case, sig, {"cache_off": (off or {}).get("tests", {}).get(sig), "cache_on": on["tests"].get(sig),
                                            "compared_with": how}))
    return real


def judge_differential(chk: Check, case, res: dict) -> None:
    """The observable of the property: same-process cache off vs cache on, and the counterexamples of the cache-on run."""
    report_diffs(chk, case, res["diffs"], "same process", res["s_off"], res["s_on"])
    for sig, pid, values in res["models"]["invalid"]:
        chk.violation(f"{case.key()}:{sig}:model-invalid",
                      f"{sig} path {pid}: the counterexample reported with --cache-solver does not satisfy the path's query",
                      replay_of(case, sig, {"path": pid, "model": values}))


def absorb(chk: Check, case, res: dict, batch) -> int:
    """Book one paired case (computed here or in a shard process); returns the trace id in the batch."""
    m = res["models"]
    chk.count("counterexamples_compared", m["compared"])
    chk.count("counterexamples_identical", m["identical"])
    chk.count("counterexamples_revalidated", m["revalidated"])
    st = res["stats"]
    chk.count("tests_run_pairs", case.ntests)
    chk.count("queries", st["queries"])
    chk.count("queries_unsat", st["unsat"])
    chk.count("oracle_unknown", st["oracle_unknown"])
    chk.count("cache_hits", st["hits"])
    chk.count("cores_stored", len(st["cores"]))
    chk.count("gc_collections_forced", st["gc"])
    chk.count("evaluations", st["queries"])
    for kind, tno in st["nontrivial"]:
        chk.nontrivial((kind, res["key"], tno))
    chk.cov.setdefault("_core_sizes", set()).update(st["cores"])
    chk.sample(res["sample"])
    return batch.add_built(res["trace"], {"case": case.index})


def parameterless_differential(chk: Check) -> None:
    """Failing tests whose counterexample binds no input (no parameters, or a violation that ignores them): with the cache
    on, the solver's reply to `(get-unsat-core)` on a satisfiable query is an error line next to `sat` - the verdict and the
    (empty) counterexample must be what they are with the cache off."""
    from harness.artifacts import Contract, Fn, arg, panic, run_contract

    c = Contract("NoInputs", [Fn("setUp()", ["STOP"]), Fn("check_const()", panic(1)), Fn("check_ignored(uint256)", panic(1)),
                              Fn("check_input(uint256)", arg(0) + [("PUSH", 7), "EQ", ("PUSHL", "b"), "JUMPI", "STOP", ("LABEL", "b")] + panic(1))])
    res = {}
    for tag, cli in (("off", ()), ("on", ("--cache-solver",))):
        out = run_contract(c, cli=cli + ("--solver-threads", "1"))
        if out.exception:
            raise MachineryError(f"run_contract raised {out.exception}")
        res[tag] = {r.name: (r.exitcode, r.num_models) for r in out.results}
    chk.count("traces_validated_against_impl")
    chk.nontrivial(("parameterless-differential",))
    if res["off"] != res["on"] or any(v[0] != 1 for v in res["off"].values()):
        chk.violation("differential:counterexample-without-inputs", f"failing tests without a counterexample variable: cache off {res['off']}, cache on {res['on']} (each must be FAIL with one counterexample in both)", res)


def coreless_solver_differential(chk: Check, cases, results, work: Path, limit: int) -> None:
    """The same generated contracts, solved through a front-end that answers like the real solver but whose reply to
    `(get-unsat-core)` is the empty list `()` (harness/coreless_solver.py).  An empty core names no constraint of the query it
    was computed for, so it proves nothing about the next query: cache off and cache on must report the same verdicts,
    results per path and counterexamples.  Contracts in which the real solver's cores answered later queries are used."""
    import dataclasses

    from halmos.solvers import get_solver_command

    picked = [c for c in cases if tuple(c.cli[:2]) == ("--solver-threads", "1")
              and results[c.index]["stats"]["cores"] and results[c.index]["stats"]["hits"]]
    if not picked:
        picked = [c for c in cases if tuple(c.cli[:2]) == ("--solver-threads", "1") and results[c.index]["stats"]["cores"]]
    if not picked:
        raise MachineryError("no single-threaded case stored an unsat core: the empty-core differential has nothing to run on")
    front = str(Path(uc.__file__).with_name("coreless_solver.py"))
    for case in picked[:limit]:
        solver = "z3" if "z3" in case.cli else "yices"
        cmd = " ".join(["/venv/bin/python", front] + get_solver_command(solver))
        cl = dataclasses.replace(case, cli=tuple(case.cli) + ("--solver-command", cmd))
        rec_off, out_off, _ = uc.unsatcache_run(cl, cache=False, dump=work / "dump")
        rec_on, out_on, _ = uc.unsatcache_run(cl, cache=True, dump=work / "dump")
        s_off, s_on = uc.unsatcache_summary(rec_off, out_off), uc.unsatcache_summary(rec_on, out_on)
        diffs = [list(d) for d in uc.unsatcache_compare(s_off, s_on)]
        # the front-end must not change what the real solver says (cache off): compare with the run without it
        plain = [list(d) for d in uc.unsatcache_compare(results[case.index]["s_off"], s_off) if d[1] not in ("inconclusive", "model-shape")]
        if plain:
            raise MachineryError(f"the coreless front-end changed answers with the cache off on case {case.index}: {plain[:3]}")
        nun = sum(1 for t in s_on["tests"].values() for y in t["paths"].values() if y["result"] == "unsat")
        chk.count("coreless_solver_pairs")
        chk.count("coreless_unsat_replies", nun)
        chk.count("traces_validated_against_impl")
        if nun:
            chk.nontrivial(("coreless", case.key()))
        report_diffs(chk, case, diffs, "solver that replies with an empty unsat core, same process", s_off, s_on)
    if not chk.cov.get("coreless_unsat_replies") and not chk.nviol:
        raise MachineryError("the coreless front-end never answered unsat: the empty-core differential exercised nothing")


def run(chk: Check, tier: str):
    work = workdir("c16")
    bg = Background()
    pool = ThreadPoolExecutor(6)
    uc.unsatcache_tune_allocator()
    try:
        model_check(chk, tier, work, bg)
        cases = mk_cases(chk.seed, BUDGET[tier], tier)
        nfresh = len(cases) if tier == "quick" else min(len(cases), 120)
        nb = 1 if tier == "quick" else 2
        for k in range(nb):
            bg.start(f"baseline{k}", _subprocess, "baseline", cases[:nfresh][k::nb], work, f"baseline{k}")
        nshards = 0 if tier == "quick" else 5
        for k in range(nshards):
            bg.start(f"shard{k}", _subprocess, "shard", cases[k::nshards], work, f"shard{k}")

        parameterless_differential(chk)
        # 4. parse_unsat_core
        shapes = uc.unsatcache_parse_shapes(work / "shapes")
        bad = uc.unsatcache_check_shapes(shapes)
        chk.count("parse_shapes", len(shapes))
        for b in bad:
            chk.violation(f"parse_unsat_core:{b['name']}",
                          f"parse_unsat_core returned {b['got']!r}, the solver named {b['expected']!r}; output: {b['output'][:300]!r}",
                          {"output": b["output"], "expected": b["expected"], "got": b["got"]})
        import halmos.solve as hsolve

        # 2./3. paired runs (quick: in this process; thorough: five processes, each runs its contracts in sequence)
        t_pairs = time.time()
        batch = uc.UnsatcacheBatch()
        results = {}
        if nshards == 0:
            for case in cases:
                results[case.index] = uc.unsatcache_case(case, work, pool, reserialize=(case.index % 7 == 3))
                chk.cov.setdefault("case_times_s", []).append([case.index] + results[case.index]["stats"]["times"])

        def run_mutants():
            """Runs of deliberately broken caches (wrappers installed by the harness only).  They are only *run* here;
            they are judged after the real logs and the real differential have been reported."""
            mres, part = {}, {}
            for mutant, limit in (("drop_one_id", 4), ("store_subset", 4), ("nopin", 2 if tier == "quick" else 12)):
                for case in cases[:limit]:
                    if mutant != "nopin" and case.cli[:2] != ("--solver-threads", "1"):
                        continue
                    r = uc.unsatcache_case(case, work, pool, mutant=mutant, s_off=(results.get(case.index) or {}).get("s_off"))
                    mres.setdefault(mutant, []).append(r)
                    chk.count("mutant_runs")
                    if mutant != "nopin" and any(d[1] != "inconclusive" for d in r["diffs"]):
                        break  # the on/off differential already shows the broken cache
            for mutant, cfg in (("nopin_futures", "MC_Trace_UnsatCache_termvars.cfg"), ("nopin_termvars", "MC_Trace_UnsatCache_futures.cfg")):
                pb = uc.UnsatcacheBatch()
                for case in cases[: (0 if tier == "quick" else 6)]:
                    r = uc.unsatcache_case(case, work, pool, mutant=mutant, with_off=False)
                    pb.add_built(r["trace"])
                    chk.count("mutant_runs")
                part[mutant] = (pb, cfg)
            return mres, part

        t_mut = time.time()
        mutants_done, mutants_error = None, None
        if nshards:  # thorough: use the time the shard processes need anyway
            try:
                mutants_done = run_mutants()
            except MachineryError as e:  # judged later: a really broken cache may also break a control run
                mutants_error = e

        # collect the background work
        t_join = time.time()
        bg.join()
        for k in range(nshards):
            for r in bg.results[f"shard{k}"]:
                results[r["index"]] = r
        if sorted(results) != [c.index for c in cases]:
            raise MachineryError("some cases were not run")

        # ---- verdicts about halmos: the on/off differential and the REAL logs, before any negative control is looked at
        tids = {}
        for case in cases:
            tids[case.index] = absorb(chk, case, results[case.index], batch)
        chk.cov["core_sizes_seen"] = sorted(chk.cov.pop("_core_sizes", set()))
        chk.cov["programs"] = len(cases) * 3
        t_val = time.time()
        res, r = batch.validate(work, workers=4 if tier == "quick" else 8)
        chk.add_tlc(r)
        fidelity = []  # rejections that are about the model / the recorder, not about the cache
        for case in cases:
            tid = tids[case.index]
            v = res[tid]
            if v["ok"]:
                chk.count("traces_validated_against_impl")
                continue
            detail = f"log of case {case.index} rejected at event {v['p'] + 1}/{v['n']} ({v['ev']}): {v['why']}"
            ev = batch.traces[tid - 1]["events"][max(0, v["p"] - 6): v["p"] + 1]
            chk.cov.setdefault("real_logs_rejected", {}).setdefault(v["why"], 0)
            chk.cov["real_logs_rejected"][v["why"]] += 1
            if v["why"] in VIOLATION_CLAUSES:
                chk.violation(f"{case.key()}:trace:{v['why']}", detail, replay_of(case, None, {"events_before_rejection": ev}))
            elif v["why"] in PIN_CLAUSES:
                fidelity.append("the pinning model (submitted_futures + shared term_to_vars) no longer describes the implementation: "
                                + detail + "; TLC refutes CacheSound when no pin is left (MC_UnsatCache_nopin.cfg)")
            else:
                fidelity.append(f"trace machinery: {detail}\n{json.dumps(ev)[:1500]}")
        for case in cases:
            judge_differential(chk, case, results[case.index])
        coreless_solver_differential(chk, cases, results, work, 2 if tier == "quick" else 8)
        base = {}  # fresh-process baseline (cache off; nothing else ever ran in those processes)
        for k in range(nb):
            for case, s in zip(cases[:nfresh][k::nb], bg.results[f"baseline{k}"]):
                base[case.index] = s
        for case in cases[:nfresh]:
            report_diffs(chk, case, uc.unsatcache_compare(base[case.index], results[case.index]["s_on"]), "fresh process",
                         base[case.index], results[case.index]["s_on"])
            chk.count("tests_compared_with_fresh_process", case.ntests)
        t_val_end = time.time()
        if fidelity and not chk.nviol:
            raise MachineryError(fidelity[0])
        if fidelity:
            chk.notes.append(f"{len(fidelity)} further logs were rejected by model-fidelity clauses (not judged: violations were found)")
        model_check_verdicts(chk, tier, bg)

        # ---- negative controls: evaluated only when the real logs conform (otherwise they cannot be evaluated: skipped)
        if chk.nviol:
            chk.cov["negative_controls_skipped"] = ("the real logs / the real differential already violate the model; controls on "
                                                    "corrupted copies and on mutants of this implementation were not evaluated")
        else:
            def broken_parse(out):  # a parser that drops the last name must be caught by the same comparison
                rr = hsolve.parse_unsat_core(out)
                return rr[:-1] if rr else rr

            if not uc.unsatcache_check_shapes(shapes, broken_parse):
                raise MachineryError("negative control: a parse_unsat_core that drops a name was not noticed")
            chk.count("negative_controls_rejected")
            if mutants_error:
                raise mutants_error
            mutant_res, partial = mutants_done if mutants_done else run_mutants()
            t_ctl = time.time()
            cb = uc.UnsatcacheBatch()
            controls = {}
            for how in ("rebind", "drop_core", "flip_hit", "truth_sat"):
                for t in range(1, len(cases) + 1):
                    tmp = uc.UnsatcacheBatch()
                    tmp.add_built(batch.traces[t - 1])
                    if tmp.corrupt_copy(1, how):
                        controls[cb.add_built(tmp.traces[1], {"control": how})] = how
                        break
                else:
                    raise MachineryError(f"no recorded log admits the control corruption {how!r} (no cache hit was recorded?)")
            mutant_tids = {m: [cb.add_built(r_["trace"], {"mutant": m}) for r_ in rs] for m, rs in mutant_res.items()}
            cres, cr = cb.validate(work, workers=4)
            chk.add_tlc(cr)
            for tid, how in controls.items():
                v = cres[tid]
                if v["ok"]:
                    raise MachineryError(f"negative control {how}: the corrupted log was accepted")
                chk.cov.setdefault("log_controls", {})[how] = v["why"]  # rejected by whichever clause fires first
                chk.count("negative_controls_rejected")
            for mutant, mt in mutant_tids.items():
                whys = [cres[t]["why"] for t in mt if not cres[t]["ok"]]
                nd = sum(1 for r_ in mutant_res[mutant] for d in r_["diffs"] if d[1] != "inconclusive")
                chk.cov.setdefault("mutants", {})[mutant] = {"runs": len(mt), "logs_rejected": whys, "differential_disagreements": nd}
                if not whys and not nd:
                    raise MachineryError(f"negative control: the broken cache {mutant!r} was not noticed by trace validation nor by the differential")
                if mutant == "nopin" and not whys:
                    raise MachineryError("negative control: releasing both pins did not lead to a rejected log")
                chk.count("negative_controls_rejected")
            if tier == "thorough":
                # how far do the runs without pins get?  (NoPin model: only clauses about stored cores and hits reject)
                nbatch = uc.UnsatcacheBatch()
                for t in mutant_tids.get("nopin", []):
                    nbatch.add_built(cb.traces[t - 1])
                nres, nr = nbatch.validate(work, cfg="MC_Trace_UnsatCache_nopin.cfg")
                chk.add_tlc(nr)
                chk.cov["mutants"]["nopin"]["clauses_under_nopin_model"] = sorted(v["why"] for v in nres.values() if not v["ok"])
            for mutant, (pb, cfg) in partial.items():
                if not pb.traces:
                    continue
                pres, pr = pb.validate(work, cfg=cfg)
                chk.add_tlc(pr)
                badp = {t: v for t, v in pres.items() if not v["ok"]}
                chk.cov.setdefault("mutants", {})[mutant] = {"runs": len(pres), "logs_rejected": [v["why"] for v in badp.values()], "validated_against": cfg}
                if badp:
                    raise MachineryError(f"model fidelity: with only one reference released ({mutant}) the log is rejected by {cfg}: {badp}")
                chk.count("single_pin_runs_accepted", len(pres))
            chk.cov.setdefault("timing_s", {})["controls"] = round(time.time() - t_ctl, 1)

        chk.cov.setdefault("timing_s", {}).update({"paired_runs_in_process": round(t_mut - t_pairs, 1),
                                                   "mutant_runs_while_shards_run": round(t_join - t_mut, 1),
                                                   "wait_for_background": round(t_val - t_join, 1),
                                                   "real_trace_validation": round(t_val_end - t_val, 1)})
        chk.cov["rule"] = (
            "contracts generated from correlated decision trees (atoms over small constants, mostly on one argument, contradictions "
            "seeded near the root; Panic / ok / revert leaves), run through the real run_contract with branching answers `unknown` "
            "injected (all / seeded half / none) so that infeasible assertion paths reach the solver; cache off vs --cache-solver in "
            "the same process (many contracts in sequence) and vs fresh processes; rotating --solver-threads 1/3/default, yices/z3, "
            "multiplication atoms (refinement) in the thorough tier; gc.collect() forced between paths and before every "
            "serialisation; every recorded log validated by TLC against Trace_UnsatCache (faithful pinning model) with the query's "
            "own cache-off solver run as oracle; non-trivial = tests in which a core was stored or a query was answered by the cache"
        )
        chk.assumptions += [
            "constraint identity in the logs is the S-expression text of the z3 term at serialisation time",
            "satisfiability oracle: yices-smt2 on the plain query, refined exactly as solve_end_to_end refines it",
            "counterexample values may differ between the two runs (the named query is a different text); they are re-validated "
            "against the path's query instead of being compared literally",
            "invariant tests (probe handler in _compute_frontier) are not generated",
        ]
    finally:
        pool.shutdown(wait=False, cancel_futures=True)
        cleanup(work)


def replay(chk: Check, path: str):
    d = json.loads(Path(path).read_text())
    if "case" not in d:
        import halmos.solve as hsolve

        got = hsolve.parse_unsat_core(d.get("output"))
        print("parse_unsat_core ->", got, "expected", d.get("expected"))
        if got != d.get("expected"):
            chk.violation(d.get("key", "parse_unsat_core:replay"), f"parse_unsat_core returned {got!r}", d)
        return
    c = d["case"]
    case = uc.UcCase(seed=c["seed"], index=c["index"], ntests=c["ntests"], depth=tuple(c["depth"]), hard=c["hard"],
                     cli=tuple(c["cli"]), inject=c["inject"])
    work = workdir("c16r")
    pool = ThreadPoolExecutor(4)
    uc.unsatcache_tune_allocator()
    try:
        res = uc.unsatcache_case(case, work, pool)
        batch = uc.UnsatcacheBatch()
        tid = absorb(chk, case, res, batch)
        judge_differential(chk, case, res)
        vres, r = batch.validate(work)
        chk.add_tlc(r)
        print("differences:", res["diffs"], "trace:", vres[tid])
        if vres[tid]["ok"]:
            chk.count("traces_validated_against_impl")
        elif vres[tid]["why"] in VIOLATION_CLAUSES:
            chk.violation(f"{case.key()}:trace:{vres[tid]['why']}", f"log rejected: {vres[tid]}", replay_of(case))
    finally:
        pool.shutdown(wait=False)
        cleanup(work)
