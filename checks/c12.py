"""C12 - symbolic calldata is a fully general, well-formed ABI encoding.

Specification: spec/Abi.tla (types, IsDynamic, HeadSize, Encode, strict Decode, Layout, generalised
encodings), model-checked by spec/MC_Abi.tla.  Binding to halmos: harness/abi_replay.py (mk_calldata
output decoded and judged by TLC through spec/AbiRun.tla; signatures and candidate lists enumerated by
spec/AbiGen.tla) and harness/abi_explore.py (SEVM explores exactly the product of the candidate lists).
"""

from __future__ import annotations

import os
import random
import time

from harness import abi_explore as ax
from harness import abi_replay as ar
from harness.common import Check, MachineryError, cleanup, run_tlc, workdir

TIERS = {
    # gen cfg, stride, combination cap, decoded values for all combos, generated tuples per signature (-1 all),
    # exploration cases, max paths per exploration, TLC batch size
    "quick": dict(gen="AbiGen_q.cfg", stride=80, cap=12, all_values=True, ngen=-1, nexp=40, maxpaths=36, batch=400,
                  mc=["MC_Abi_q.cfg"]),
    "thorough": dict(gen="AbiGen_t.cfg", stride=1, cap=24, all_values=False, ngen=2, nexp=600, maxpaths=64, batch=2500,
                     mc=["MC_Abi_d2.cfg", "MC_Abi_d3.cfg"]),
}

# ABI types halmos does not support, and strings that are not ABI types at all: mk_calldata must raise
MUST_RAISE = [
    "fixed128x18", "ufixed128x18", "fixed", "ufixed", "fixed8x1", "function", "function[]", "function[2]",
    "uint256[", "uint256]", "uint256[-1]", "uint256[a]", "uint256[2", "uint256[[1]]", "uint256[1.5]", "[]", "",
    "mapping(uint256=>uint256)", "uint 256", "Uint256", "UINT256", "struct S", "address payable", "enum E",
    "contract C", "bytes[][", "(uint256)", "uint256,uint256", "tuple()", "bool[] ", " bool", "string[x]", "int[",
]
# not ABI types either, but of the shape <elementary name><digits>: outside the quantifier of C12
# (solc never emits them); what halmos does with them is recorded, not judged
WIDTH_PROBES = ["uint7", "uint0", "uint264", "int512", "bytes0", "bytes33", "uint", "int", "uint08"]


def run(chk: Check, tier: str):
    P = TIERS[tier]
    rnd = random.Random(7919 * chk.seed + 12)
    work = workdir("c12")
    ph = chk.cov.setdefault("phase_s", {})

    def phase(name, t0):
        ph[name] = round(time.time() - t0, 1)
        return time.time()

    try:
        t = time.time()
        model_check(chk, P, work, tier)
        t = phase("model_check", t)
        recs = generate_signatures(chk, P, work)
        t = phase("generate", t)
        st = conformance(chk, P, work, rnd, tier, recs)
        t = phase("build+decode+judge", t)
        exploration(chk, st["exp_cases"], st["results"])
        t = phase("exploration", t)
        unsupported(chk)
        zero_length_arrays(chk, st["zero_cases"], st["results"])
        controls(chk, st["ctl_cases"], st["ctl_explore"], st["results"])
        t = phase("unsupported+controls", t)
    finally:
        cleanup(work)
    chk.cov["rule"] = (
        "signatures = parameter lists enumerated by AbiGen.tla (1 parameter of depth<=3 or 2..3 parameters of "
        "depth<=2; T[], T[1..3], tuples of arity<=3; static leaves rotated over 16 elementary types, dynamic over "
        "bytes/string) x candidate lists drawn from 10 array lists, 10 bytes lists and 3 per-name overrides; "
        "a case is non-trivial when it has a dynamic node (offset + size symbol) and was decoded by Abi!DecodeRaw "
        "for every (or the capped number of) candidate combination"
    )
    chk.assumptions += [
        "spec/Abi.tla is the reference: written from the Solidity ABI specification, model-checked by MC_Abi "
        "(round trip, layout, disjointness, strictness, generalised encodings)",
        "UTF-8 validity of string contents is not part of the encoding rules and is not checked",
        "narrow static types (uint8, bool, address, bytesN, intN): halmos uses an unconstrained 256-bit symbol per "
        "slot; accepted because every ABI-valid value is an instance (it also admits dirty padding)",
        "bytes/string: one symbol of ceil32(max candidate) bytes; the bytes after the announced length are "
        "unconstrained (zero padding is an instance)",
        "fixed arrays of size 0 (not expressible in Solidity) are probed and recorded, not judged",
    ]


# ---------------------------------------------------------------------------------------------


def model_check(chk: Check, P: dict, work, tier: str) -> None:
    for cfg in P["mc"]:
        r = run_tlc("MC_Abi", cfg, work=work, coverage=(tier == "thorough" and cfg == P["mc"][0]))
        if not r.ok:
            raise MachineryError(f"Abi.tla violates its own invariant {r.violated} under {cfg}\n{r.stdout[-3000:]}")
        if r.distinct_states < 500:
            raise MachineryError(f"MC_Abi {cfg}: only {r.distinct_states} states")
        chk.add_tlc(r)
        chk.count("spec_states_model_checked", r.distinct_states)
        if r.coverage:
            never = [a for a, (d, _t) in r.coverage.items() if d == 0]
            if never:
                chk.notes.append(f"{cfg}: actions never taken: {never}")
    # negative controls of the model check: a mutated encoder must violate an invariant
    for cfg in (("MC_Abi_mut1.cfg", "MC_Abi_mut2.cfg") if tier == "thorough" else ("MC_Abi_mut2.cfg",)):
        r = run_tlc("MC_Abi", cfg, work=work, expect_violation=True)
        if r.violated is None or not r.violated.startswith("Inv"):
            raise MachineryError(f"negative control {cfg}: the mutated encoder was accepted ({r.violated})")
        chk.count("negative_controls_rejected")


def _build_one(a):
    i, g, cap, seed, all_values, ngen = a
    c = ar.build_case(i, g, cap=cap, rnd=random.Random(seed * 1000003 + i), all_values=all_values, ngen=ngen)
    c.cd = c.halmos_dyn_params = c.args = None  # z3 objects do not cross process boundaries
    return c


def generate_signatures(chk: Check, P: dict, work) -> list:
    off = chk.seed % P["stride"]
    recs = ar.generate(P["gen"], work, salt=chk.seed, stride=P["stride"], off=off, chk=chk)
    if len(recs) < 100:
        raise MachineryError(f"AbiGen produced only {len(recs)} signatures")
    chk.cov["signatures"] = len(recs)
    chk.cov["exhaustive"] = P["stride"] == 1
    return recs


def default_config_gens() -> list:
    """No length flag at all: the candidates must be the documented defaults 0,1,2 / 0,65,1024."""
    u = {"k": "uint", "n": 256, "c": []}
    b = {"k": "bytes", "n": 0, "c": []}
    st = {"k": "string", "n": 0, "c": []}
    roots = [
        ("(bytes,uint256[],string)", [b, {"k": "darr", "n": 0, "c": [u]}, st]),
        ("(bytes[])", [{"k": "darr", "n": 0, "c": [b]}]),
    ]
    return [{"h": 0, "cc": 1, "sig": sig, "t": {"k": "tuple", "n": 0, "c": comps}, "dal": [0, 1, 2],
             "dbl": [0, 65, 1024], "ov": [], "noflags": True} for sig, comps in roots]


def mixed_dimension_gens() -> list:
    """Arrays whose dimensions differ: in `T[2][]` the LAST bracket is the outermost dimension."""
    u = {"k": "uint", "n": 256, "c": []}
    b = {"k": "bytes", "n": 0, "c": []}
    far = lambda t, n: {"k": "farr", "n": n, "c": [t]}  # noqa: E731
    dar = lambda t: {"k": "darr", "n": 0, "c": [t]}  # noqa: E731
    tup = {"k": "tuple", "n": 0, "c": [u, b]}
    roots = [
        ("(uint256[2][])", [dar(far(u, 2))]),
        ("(uint256[][2],uint256)", [far(dar(u), 2), u]),
        ("(uint256[2][],bytes)", [dar(far(u, 2)), b]),
        ("((uint256,bytes)[2][])", [dar(far(tup, 2))]),
        ("(uint256[3][2][])", [dar(far(far(u, 3), 2))]),
    ]
    return [{"h": 0, "cc": 1, "sig": sig, "t": {"k": "tuple", "n": 0, "c": comps}, "dal": [0, 1, 2],
             "dbl": [0, 65, 1024], "ov": [], "noflags": True} for sig, comps in roots]


def unnamed_gens() -> list:
    """Unnamed parameters (ABI "name": ""): siblings of one type get the same name prefix; they still have to be
    distinct, independent symbols."""
    u = {"k": "uint", "n": 256, "c": []}
    a = {"k": "address", "n": 0, "c": []}
    bo = {"k": "bool", "n": 0, "c": []}
    b = {"k": "bytes", "n": 0, "c": []}
    arr = {"k": "darr", "n": 0, "c": [u]}
    tup = {"k": "tuple", "n": 0, "c": [u, u]}
    roots = [
        ("(uint256,uint256)", [u, u]),
        ("(address,bool,address)", [a, bo, a]),
        ("(bytes,bytes)", [b, b]),
        ("(uint256[],uint256[])", [arr, arr]),
        ("((uint256,uint256),(uint256,uint256))", [tup, tup]),
        ("(uint256,bytes,uint256)", [u, b, u]),
    ]
    return [{"h": 0, "cc": 1, "sig": sig, "t": {"k": "tuple", "n": 0, "c": comps}, "dal": [0, 1, 2],
             "dbl": [0, 65, 1024], "ov": [], "noflags": True, "unnamed": True} for sig, comps in roots]


def conformance(chk: Check, P: dict, work, rnd, tier: str, recs) -> dict:
    """Streams the signatures through build (real mk_calldata) -> TLC (AbiRun) -> judge, one batch at a
    time; the extra cases (exploration, probes, negative controls) ride along with the last batch."""
    recs = list(recs) + default_config_gens() + unnamed_gens() + mixed_dimension_gens()
    jobs = [(i + 1, g, P["cap"], chk.seed, P["all_values"], P["ngen"]) for i, g in enumerate(recs)]
    batches = [jobs[i : i + P["batch"]] for i in range(0, len(jobs), P["batch"])]
    pool = None
    if len(jobs) > 2000:
        import multiprocessing as mp

        pool = mp.get_context("fork").Pool(min(12, os.cpu_count() or 4))
    ncomb = ntrunc = ndyn = 0
    kinds = set()
    ctl_ids = set()
    exp_pool, ctl_pool = [], []  # generator records of cases suitable for the exploration / controls
    st = {"results": {}}
    t_build = 0.0
    try:
        for n, batch in enumerate(batches):
            t0 = time.time()
            chunk = pool.map(_build_one, batch, chunksize=32) if pool else [_build_one(j) for j in batch]
            t_build += time.time() - t0
            for c in chunk:
                if c.desc is not None and c.dyn and not c.problems:
                    if 2 <= _npaths(c) <= P["maxpaths"]:
                        exp_pool.append(c.gen)
                    if len(ctl_pool) < 400:
                        ctl_pool.append(c)
                        ctl_ids.add(c.id)
            extras = []
            if n == len(batches) - 1:
                st["exp_cases"] = exploration_cases(P, rnd, exp_pool)
                st["zero_cases"] = zero_length_cases(rnd)
                st["ctl_cases"], st["ctl_explore"] = control_cases(ctl_pool)
                extras = st["exp_cases"] + st["zero_cases"] + [m for _, _, m in st["ctl_cases"]] + [st["ctl_explore"]]
            out, _r = ar.run_cases(chunk + extras, work, rnd, chk=chk, coverage=(tier == "thorough" and n == 0))
            if _r.coverage:
                never = [a for a, (d, _t) in _r.coverage.items() if d == 0]
                if never:
                    chk.notes.append(f"AbiRun: actions never taken: {never}")
            for c in extras:
                st["results"][c.id] = out.get(c.id)
            for c in chunk:
                res = out.get(c.id)
                bad = ar.judge_case(c, res) if (res or c.problems) else []
                report(chk, c, bad)
                chk.count("evaluations", len(c.combos))
                ncomb += len(c.combos)
                ntrunc += c.ncombos_total > len(c.combos)
                ndyn += bool(c.dyn)
                kinds.update(l.typ for l in c.leaves)
                if res and not bad:
                    chk.count("traces_validated_against_impl", len(c.combos))
                    if c.dyn:
                        chk.nontrivial(c.key())
                    chk.sample({"signature": c.fsig, "flags": c.flags, "combinations": len(c.combos),
                                "arg_bytes": len(c.tpl), "dyn": [f"{d.name}={d.cands}" for d in c.dyn][:6]})
                if c.id not in ctl_ids:
                    c.desc = c.tpl = c.symvals = None  # free the per-byte descriptions
            del chunk, out
    finally:
        if pool:
            pool.close()
            pool.join()
    chk.cov["build_s"] = round(t_build, 1)
    chk.cov["combinations"] = ncomb
    chk.cov["signatures_with_capped_combinations"] = int(ntrunc)
    chk.cov["leaf_types"] = sorted(kinds)
    chk.cov["signatures_with_dynamic_nodes"] = ndyn
    return st


def report(chk: Check, c, bad, prefix: str = "") -> None:
    seen = set()
    for key, text, extra in bad:
        if key in seen:
            continue
        seen.add(key)
        rp = c.replay()
        rp.update(extra)
        chk.violation(f"{prefix}{key}:{c.key()}", f"{c.fsig} {' '.join(c.flags)}: {text}", rp)


# ---------------------------------------------------------------------------------------------


def _npaths(c) -> int:
    n = 1
    for d in c.dyn:
        n *= len(set(d.cands))
    return n


def exploration_cases(P: dict, rnd, gens: list) -> list:
    gens = list(gens)
    rnd.shuffle(gens)
    gens = gens[: P["nexp"]]
    if len(gens) < min(20, P["nexp"]):
        raise MachineryError(f"only {len(gens)} signatures available for the exploration check")
    # built in this process: the z3 objects of the parallel build do not cross process boundaries
    return [ar.build_case(500000 + i, g, cap=1, rnd=random.Random(i), all_values=False, ngen=0) for i, g in enumerate(gens)]


def exploration(chk: Check, exp_cases, results) -> None:
    """SEVM must explore exactly the product of the candidate lists."""
    total = 0
    for c in exp_cases:
        lay = results[c.id]["layout"]
        offwords = offset_words(c, lay)
        szpos = [c.sympos[s][0] for s in c.szsyms]
        if lay["lenpos"] != szpos:  # a valid but non-canonical placement: read where the symbols are
            chk.notes.append(f"{c.fsig}: size symbols at {szpos}, canonical layout has them at {lay['lenpos']}")
            chk.count("non_canonical_layouts")
        bad = ax.check_exploration(c, szpos, offwords)
        report(chk, c, [(k, t, {}) for k, t in bad])
        chk.count("evaluations", _npaths(c))
        if not bad:
            chk.count("traces_validated_against_impl")
            chk.count("explorations")
            chk.nontrivial(("explore", c.key()))
        total += _npaths(c)
    chk.cov["explored_paths"] = total


def offset_words(c, lay) -> list:
    """(position, value) of the offset words of the canonical layout: the value is relative to the start
    of the enclosing tuple, which Abi!Layout reports as absolute target; take the relative value from the
    decoded template instead (it was validated by Abi!Decode)."""
    out = []
    for k, lo, _hi, _tg, _p in lay["lay"]:
        if k == "off" and lo + 32 <= len(c.tpl):
            out.append((lo, int.from_bytes(c.tpl[lo : lo + 32], "big")))
    return out


# ---------------------------------------------------------------------------------------------


def _call_with_type(typ: str, components=None):
    from halmos.calldata import FunctionInfo, mk_calldata

    from harness import hrun

    inp = {"name": "x", "type": typ}
    if components is not None:
        inp["components"] = components
    item = {"type": "function", "name": "f", "inputs": [inp, {"name": "y", "type": "uint256"}]}
    sig = f"f({typ},uint256)"
    return mk_calldata({sig: item}, FunctionInfo("C", "f", sig, "00000000"), hrun.mk_args())


def no_parameters(chk: Check) -> None:
    from halmos.calldata import FunctionInfo, mk_calldata

    from harness import hrun

    item = {"type": "function", "name": "setUp", "inputs": []}
    cd, dps = mk_calldata({"setUp()": item}, FunctionInfo("C", "setUp", "setUp()", "0a9254e4"), hrun.mk_args())
    chk.count("evaluations")
    got = cd.unwrap() if len(cd) else b""
    if got != bytes.fromhex("0a9254e4") or list(dps):
        chk.violation("no-parameters:setUp()", f"calldata of a parameterless function is {got!r} with dyn_params {dps}", {})


def unsupported(chk: Check) -> None:
    no_parameters(chk)
    probes = [(t, None) for t in MUST_RAISE]
    probes += [("tuple", None)]  # a tuple without components
    probes += [("tuple", [{"name": "a", "type": "fixed128x18"}]), ("tuple[]", [{"name": "a", "type": "function"}])]
    for typ, comps in probes:
        chk.count("evaluations")
        try:
            cd, _ = _call_with_type(typ, comps)
        except Exception:  # noqa: BLE001 - any error is a rejection
            chk.count("unsupported_rejected")
            chk.nontrivial(("unsupported", typ, str(comps)))
            continue
        chk.violation(f"unsupported-accepted:{typ}:{comps}",
                      f"mk_calldata builds {len(cd)} bytes of calldata for the unsupported/malformed type {typ!r}",
                      {"type": typ, "components": comps})
    acc = []
    for typ in WIDTH_PROBES:
        try:
            cd, _ = _call_with_type(typ)
            acc.append(f"{typ}->{len(cd) - 4 - 32}B")
        except Exception as e:  # noqa: BLE001
            acc.append(f"{typ}->{type(e).__name__}")
    chk.notes.append("non-ABI width strings (not judged): " + " ".join(acc))


def zero_length_cases(rnd) -> list:
    u = {"k": "uint", "n": 256, "c": []}
    b = {"k": "bytes", "n": 0, "c": []}
    gens = []
    for el, nm in ((u, "uint256"), (b, "bytes")):
        root = {"k": "tuple", "n": 0, "c": [{"k": "farr", "n": 0, "c": [el]}, u]}
        gens.append({"h": 0, "cc": 1, "sig": f"({nm}[0],uint256)", "t": root, "dal": [1], "dbl": [32], "ov": []})
    return [ar.build_case(900001 + i, g, cap=4, rnd=rnd, all_values=True, ngen=-1) for i, g in enumerate(gens)]


def zero_length_arrays(chk: Check, zero_cases, results) -> None:
    """T[0]: static T -> empty encoding; dynamic T -> the ABI text calls it dynamic (offset + empty tail).
    Solidity rejects zero-length arrays, so this is recorded in the evidence and not judged."""
    for c in zero_cases:
        res = results.get(c.id)
        bad = ar.judge_case(c, res) if res else [(k, t, {}) for k, t in c.problems]
        chk.notes.append(f"zero-length fixed array {c.fsig}: " + ("conforms" if not bad else f"differs from Abi.tla ({bad[0][0]}: {bad[0][1][:140]})"))


# ---------------------------------------------------------------------------------------------
# negative controls: deliberately wrong wrappers of mk_calldata must be rejected


def _words(cd):
    return [cd.get_word(o) for o in range(4, len(cd), 32)]


def _rebuild(cd, words):
    from halmos.bytevec import ByteVec
    from halmos.utils import con

    out = ByteVec()
    out.append(cd.slice(0, 4).unwrap())
    for w in words:
        out.append(con(w) if isinstance(w, int) else w)
    return out


def _is_sym(w):
    import z3

    if isinstance(w, int):
        return False
    w = w.as_z3() if hasattr(w, "as_z3") else w
    return z3.is_const(w) and w.decl().kind() == z3.Z3_OP_UNINTERPRETED


def _name(w):
    w = w.as_z3() if hasattr(w, "as_z3") else w
    return w.decl().name()


def mut_offset(c, cd, dps):
    ws = _words(cd)
    i = next(i for i, w in enumerate(ws) if isinstance(w, int) and w > 0)
    ws[i] += 32
    return _rebuild(cd, ws), dps


def mut_swap_leaves(c, cd, dps):
    sz = {_name(d.size_symbol) for d in dps}
    ws = _words(cd)
    idx = [i for i, w in enumerate(ws) if _is_sym(w) and _name(w) not in sz]
    ws[idx[0]], ws[idx[1]] = ws[idx[1]], ws[idx[0]]
    return _rebuild(cd, ws), dps


def mut_share_symbol(c, cd, dps):
    sz = {_name(d.size_symbol) for d in dps}
    ws = _words(cd)
    idx = [i for i, w in enumerate(ws) if _is_sym(w) and _name(w) not in sz]
    ws[idx[1]] = ws[idx[0]]
    return _rebuild(cd, ws), dps


def mut_const_leaf(c, cd, dps):
    sz = {_name(d.size_symbol) for d in dps}
    ws = _words(cd)
    i = next(i for i, w in enumerate(ws) if _is_sym(w) and _name(w) not in sz)
    ws[i] = 7
    return _rebuild(cd, ws), dps


def mut_fix_size(c, cd, dps):
    d = next(d for d in dps if len(set(d.size_choices)) > 1)
    ws = _words(cd)
    i = next(i for i, w in enumerate(ws) if _is_sym(w) and _name(w) == _name(d.size_symbol))
    ws[i] = max(d.size_choices)
    return _rebuild(cd, ws), dps


def mut_size_as_leaf(c, cd, dps):
    """the size symbol of one parameter reused as a static leaf: leaves would no longer be independent"""
    sz = {_name(d.size_symbol) for d in dps}
    ws = _words(cd)
    i = next(i for i, w in enumerate(ws) if _is_sym(w) and _name(w) not in sz)
    j = next(j for j, w in enumerate(ws) if _is_sym(w) and _name(w) in sz)
    ws[i] = ws[j]
    return _rebuild(cd, ws), dps


def mut_drop_candidate(c, cd, dps):
    return cd, ax.drop_candidate(dps)


def mut_truncate(c, cd, dps):
    ws = _words(cd)
    return _rebuild(cd, ws[:-1]), dps


def control_cases(cases):
    def nstatic(c):
        return sum(1 for l in c.leaves if l.kind in ar.STATIC_KINDS)

    def multi(c):
        return any(len(set(d.cands)) > 1 for d in c.dyn)

    good = [c for c in cases if c.desc is not None and not c.problems and c.dyn]
    good.sort(key=lambda c: len(c.tpl))  # small cases make the clearest controls
    muts = [
        ("offset+32", mut_offset, lambda c: True, None),
        ("swap-two-leaves", mut_swap_leaves, lambda c: nstatic(c) >= 2 and _two_static_words(c), {"leaf-name"}),
        ("one-symbol-two-leaves", mut_share_symbol, lambda c: nstatic(c) >= 2 and _two_static_words(c), {"symbol-shared"}),
        ("constant-leaf", mut_const_leaf, lambda c: nstatic(c) >= 1 and _two_static_words(c, 1), {"leaf-constrained", "not-general"}),
        ("size-fixed-to-max", mut_fix_size, multi, {"size-symbol"}),
        ("size-symbol-as-leaf", mut_size_as_leaf, lambda c: nstatic(c) >= 1 and _two_static_words(c, 1), {"symbol-shared"}),
        ("candidate-dropped", mut_drop_candidate, multi, {"dyn-params"}),
        ("last-word-dropped", mut_truncate, lambda c: True, None),
    ]
    built = []
    for name, fn, pred, expect in muts:
        src = next((c for c in good if pred(c)), None)
        if src is None:
            raise MachineryError(f"no case available for the negative control {name}")
        m = ar.build_case(800000 + len(built), src.gen, cap=8, rnd=random.Random(src.id), all_values=True, ngen=-1, mutate=fn)
        built.append((name, expect, m))
    src = next((c for c in good if multi(c) and len(c.dyn) <= 3 and _npaths(c) <= 27), None)
    if src is None:
        raise MachineryError("no case for the exploration control")
    ctl_explore = ar.build_case(810000, src.gen, cap=1, rnd=random.Random(1), all_values=False, ngen=0)
    return built, ctl_explore


def controls(chk: Check, built, ctl_explore, results) -> None:
    for name, expect, m in built:
        res = results.get(m.id)
        bad = ar.judge_case(m, res) if res else [(k, t, {}) for k, t in m.problems]
        keys = {k for k, _, _ in bad}
        if not keys or (expect and not (keys & expect)):
            raise MachineryError(f"negative control '{name}' on {m.fsig} was not rejected as expected (got {sorted(keys)})")
        chk.count("negative_controls_rejected")
    # exploration control: a candidate removed from dyn_params before process_dyn_params
    m = ctl_explore
    lay = results[m.id]["layout"]
    szpos = [m.sympos[s][0] for s in m.szsyms]
    if ax.check_exploration(m, szpos, offset_words(m, lay)):
        raise MachineryError("exploration control: the unmodified dyn_params are rejected")
    bad = ax.check_exploration(m, szpos, offset_words(m, lay), dyn_params=ax.drop_candidate(m.halmos_dyn_params))
    if not any(k == "explore-set" for k, _ in bad):
        raise MachineryError("exploration control: a dropped candidate was not noticed")
    chk.count("negative_controls_rejected")


def _two_static_words(c, need: int = 2) -> bool:
    """at least `need` aligned 32-byte leaf symbols in the calldata"""
    sz = set(c.szsyms)
    n = sum(1 for s, (p, w) in c.sympos.items() if w == 32 and s not in sz and p % 32 == 0)
    return n >= need


def replay(chk: Check, path: str) -> None:
    """bin/check C12 --replay <file>: re-run one recorded signature/configuration."""
    import json

    rp = json.load(open(path))
    if "gen" not in rp:
        raise MachineryError("replay file has no generator record")
    work = workdir("c12r")
    try:
        rnd = random.Random(1)
        c = ar.build_case(1, rp["gen"], cap=64, rnd=rnd, all_values=True, ngen=-1)
        out, _ = ar.run_cases([c], work, rnd, chk=chk)
        res = out.get(c.id)
        bad = ar.judge_case(c, res) if (res or c.problems) else []
        if not bad and c.desc is not None and c.dyn and _npaths(c) <= 256:
            lay = res["layout"]
            bad = [(k, t, {}) for k, t in ax.check_exploration(c, [c.sympos[s][0] for s in c.szsyms], offset_words(c, lay))]
        report(chk, c, bad)
        chk.count("traces_validated_against_impl", len(c.combos))
        chk.sample({"signature": c.fsig, "flags": c.flags, "disagreements": [b[:2] for b in bad]})
    finally:
        cleanup(work)
