"""C04 - counterexamples marked valid are reproducible (shares the exploration of checks/c03.py)."""

from harness.common import Check

from . import c03


def run(chk: Check, tier: str):
    c03.explore(chk, tier, "C04")
    chk.cov["rule"] = (
        "every counterexample halmos reports for the generated test contracts of the C03 grammar (incl. conditions that "
        "need refinement of the mul/div/mod abstractions) is mapped back to an argument tuple and executed by TLC on "
        "Evm.tla (deploy; setUp; test(args)); a model marked valid must end in the configured assertion failure; "
        "non-trivial = distinct valid models replayed"
    )
    chk.assumptions += ["only static uint256 parameters are decoded from the model; unmentioned arguments are free (0)"]
