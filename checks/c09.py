"""C09 - message calls are atomic and see the right context (E1 over call trees)."""

import random

from harness import probes, progs_alias, progs_calls
from harness.common import Check
from harness.e1corpus import Item, describe, run_items, release

from .c01 import judge

BUDGET = {"quick": 45, "thorough": 1500}


PROBES = ["NeverDepth3", "NeverStaticWriteAttempt", "NeverRollbackOfWrite", "NeverCallFailed", "NeverDelegateFrame", "NeverCallcodeFrame",
          "NeverCreated", "NeverValueMoved", "NeverLog", "NeverReentered", "NeverLooped"]


MUTANTS = [("delegate", "InvContext"), ("staticleak", "InvContext"), ("norollback", "InvFailure"), ("valuecreated", "InvBalance"), ("logskept", "InvFailure")]


def design_model_check(chk: Check, tier: str):
    """EvmSmall.tla: the reference machine at WB = 1 on every program of a gadget family, all frame invariants."""
    from concurrent.futures import ThreadPoolExecutor

    from harness.common import MachineryError, cleanup, run_tlc, workdir

    work = workdir("c09-small")
    try:
        for cfg in ["q"] if tier == "quick" else ["q", "t", "r"]:
            tr = run_tlc("EvmSmall", f"MC_EvmSmall_{cfg}.cfg", work=work, workers=16, timeout=4 * 3600)
            chk.add_tlc(tr)
            if tr.rc != 0 or tr.violated:
                # the specification contradicts its own invariants: nothing it says about halmos can be trusted
                raise MachineryError(f"EvmSmall ({cfg}): {tr.violated or tr.rc}\n{tr.stdout[-1500:]}")
            chk.cov[f"evmsmall_{cfg}_states"] = tr.distinct_states

        def probe(name):
            return name, run_tlc("EvmSmall", f"MC_EvmSmall_p_{name}.cfg", work=work, workers=4, timeout=1800, expect_violation=True)

        def mutant(nm_inv):
            return nm_inv, run_tlc("EvmSmall", f"MC_EvmSmall_m_{nm_inv[0]}.cfg", work=work, workers=4, timeout=1800, expect_violation=True)

        with ThreadPoolExecutor(4) as pool:
            for name, tr in pool.map(probe, PROBES):
                if tr.violated != name:
                    raise MachineryError(f"EvmSmall: the situation behind {name} is not reachable in the model (vacuous invariants): {tr.violated} rc={tr.rc}")
                chk.count("negative_controls_rejected")
            # wrong designs of the machine (Evm!Mutation): each must be refuted by the invariant that is about it
            for (name, inv), tr in pool.map(mutant, MUTANTS):
                if tr.violated != inv:
                    raise MachineryError(f"EvmSmall: the design mutation {name} is not refuted by {inv} ({tr.violated} rc={tr.rc})")
                chk.count("negative_controls_rejected")
    finally:
        cleanup(work)


def run(chk: Check, tier: str):
    design_model_check(chk, tier)
    rnd = random.Random(7919 * chk.seed + 9)
    n = BUDGET[tier]
    items = []
    for i in range(n):
        depth = [1, 2, 2, 3, 3][i % 5] if tier == "quick" else [1, 2, 2, 3, 3, 3, 4][i % 7]
        prog, inputs = progs_calls.fam_calls(rnd, ninputs=8 if tier == "quick" else 10, depth=depth)
        items.append(Item(prog, inputs))
    ntree = len(items)
    for i in range(max(6, n // 6)):
        # calls whose target address is symbolic: one frame per account the address may alias
        prog, inputs = progs_alias.fam_alias(rnd)
        items.append(Item(prog, inputs))
    items += [it for it in probes.c01_probes() if it.key in ("probe:static-call-with-value", "probe:static-tstore", "probe:codesize-in-initcode-and-delegatecall")]
    kinds = {}
    for i in range(0, len(items), 100):
        if i:
            release(items[i - 100 : i])
        outs = run_items(items[i : i + 100], chk)
        judge(chk, outs)
        for o in outs:
            if not o.covered and not o.flagged and not o.skipped and not o.match.unevaluable:
                chk.violation(f"{o.item.key}:uncovered", f"no reported path covers input {o.inp} of {o.item.key}", describe(o))
    for it in items[:ntree]:
        for line in it.prog.meta["tree"].splitlines():
            k = line.strip().split("@")[0]
            kinds[k] = kinds.get(k, 0) + 1
    chk.cov["programs"] = len(items)
    chk.cov["frames_by_kind"] = kinds
    chk.cov["rule"] = (
        "call trees from harness/progs_calls.py (depth 1-4, every call kind, CREATE/CREATE2, per-frame outcome return/"
        "revert/invalid/out-of-bounds/static write, symbolic values and balances); the root's output contains every "
        "frame's observed context, the copied return data and success flags, and the final storage/balances, and is "
        "compared with Evm.tla, whose frame invariants (ContextCorrect, StaticNoWrite, BalanceConserved, "
        "FailureRestores) TLC checks in every state of every behaviour; the same machine text is model-checked exhaustively "
        "at WB = 1 (EvmSmall.tla: every program of a 26-gadget family over three accounts, all call kinds, value, static flag, "
        "depth limit) with 11 invariants, 4 step properties, 11 reachability probes that must be violated and 5 design mutations "
        "(wrong DELEGATECALL caller, static flag not inherited, no rollback, value created, logs kept) that must be refuted"
    )
    chk.assumptions += ["created-account addresses compared up to renaming (A3)", "no gas"]
