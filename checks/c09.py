"""C09 - message calls are atomic and see the right context (E1 over call trees)."""

import random

from harness import probes, progs_alias, progs_calls
from harness.common import Check
from harness.e1corpus import Item, describe, run_items

from .c01 import judge

BUDGET = {"quick": 45, "thorough": 1500}


def run(chk: Check, tier: str):
    rnd = random.Random(7919 * chk.seed + 9)
    n = BUDGET[tier]
    items = []
    for i in range(n):
        depth = [1, 2, 2, 3, 3][i % 5] if tier == "quick" else [1, 2, 2, 3, 3, 3, 4][i % 7]
        prog, inputs = progs_calls.fam_calls(rnd, ninputs=8 if tier == "quick" else 10, depth=depth)
        items.append(Item(prog, inputs))
    ntree = len(items)
    for i in range(max(6, n // 6)):
        # calls whose target address is symbolic: one frame per account the address may alias
        prog, inputs = progs_alias.fam_alias(rnd)
        items.append(Item(prog, inputs))
    items += [it for it in probes.c01_probes() if it.key in ("probe:static-call-with-value",)]
    kinds = {}
    for i in range(0, len(items), 100):
        outs = run_items(items[i : i + 100], chk)
        judge(chk, outs)
        for o in outs:
            if not o.covered and not o.flagged and not o.skipped and not o.match.unevaluable:
                chk.violation(f"{o.item.key}:uncovered", f"no reported path covers input {o.inp} of {o.item.key}", describe(o))
    for it in items[:ntree]:
        for line in it.prog.meta["tree"].splitlines():
            k = line.strip().split("@")[0]
            kinds[k] = kinds.get(k, 0) + 1
    chk.cov["programs"] = len(items)
    chk.cov["frames_by_kind"] = kinds
    chk.cov["rule"] = (
        "call trees from harness/progs_calls.py (depth 1-4, every call kind, CREATE/CREATE2, per-frame outcome return/"
        "revert/invalid/out-of-bounds/static write, symbolic values and balances); the root's output contains every "
        "frame's observed context, the copied return data and success flags, and the final storage/balances, and is "
        "compared with Evm.tla, whose frame invariants (ContextCorrect, StaticNoWrite, BalanceConserved, "
        "FailureRestores) TLC checks in every state of every behaviour"
    )
    chk.assumptions += ["created-account addresses compared up to renaming (A3)", "no gas"]
