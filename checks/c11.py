"""C11 - the solver query equals the path's constraints; refinement is exact.

For every path of E1 programs (arithmetic with abstractions, storage chains, hashes, calls) and of
run_contract tests (regular tests after setUp, invariant tests extending a sliced state) the real
to_smt2 / dump / refine are invoked with and without --cache-solver; the written SMT-LIB text is
  (1) taken apart into an observation record validated by TLC against SolverQuery.tla
      (all constraints present, each guarded by its own id, every guard asserted, refinement turns
      exactly the refinable declarations into definitions and nothing else), and
  (2) re-parsed with z3 and evaluated pointwise at the inputs of the path's table: it must be true
      exactly where the in-memory conjunction of Path.conditions is true; the refined text is evaluated
      WITHOUT an interpretation for the refinable abstractions, so a definition refine() failed to
      produce (or produced wrongly) shows up as a stuck or different evaluation.
"""

from __future__ import annotations

import json
import random
from pathlib import Path as FsPath

import z3

from harness import e1, progs, progs_calls, progs_storage, query_obs as qo, zeval
from harness.common import Check, MachineryError, cleanup, run_tlc, workdir
from harness.e1corpus import normalize_input
from harness.hrun import mk_args, run as halmos_run

REFINABLE = {"f_evm_bvmul_256", "f_evm_bvmul_512", "f_evm_bvudiv_256", "f_evm_bvurem_256", "f_evm_bvurem_264", "f_evm_bvurem_512",
             "f_evm_bvsdiv_256", "f_evm_bvsrem_256"}


def mem_truth(conds, env):
    ev = zeval.Evaluator(dict(env))
    try:
        ok = True
        for c in conds:
            if not ev.add_condition(c):
                ok = False
        return ok
    except (zeval.Unbound, zeval.Unsupported) as ex:
        return f"{type(ex).__name__}: {ex}"


def check_path(chk: Check, name: str, path, inputs: list[dict], work, obs: list, info: dict):
    conds = list(path.conditions)
    for cache in (False, True):
        args = mk_args("--cache-solver") if cache else mk_args()
        text, query = qo.dump_query(path, args, work, name)
        o = qo.observe(path, text, query, cache, refined=False)
        obs.append(o)
        rtext, rquery = qo.dump_query(path, args, work, name, refined=True)
        ro = qo.observe(path, rtext, rquery, cache, refined=True, before=o["declared"])
        obs.append(ro)
        try:
            parsed = qo.parse(text)
            rparsed = qo.parse(rtext)
        except z3.Z3Exception as ex:
            chk.violation(f"{name}:unparsable:{'cache' if cache else 'plain'}", f"the dumped query of {name} is not valid SMT-LIB: {ex}", dict(info, text=text[:2000]))
            continue
        for inp in inputs:
            want = mem_truth(conds, inp)
            if isinstance(want, str):
                chk.count("unevaluable_paths")
                continue
            got = qo.truth(parsed, inp)
            chk.count("evaluations")
            tag = "cache" if cache else "plain"
            if got != want:
                chk.violation(f"{name}:query-differs:{tag}", f"{name}: the {tag} query evaluates to {got} at {inp} but the path's constraints to {want}",
                              dict(info, input={k: hex(v) for k, v in inp.items()}, text=text[:3000]))
            rgot = qo.truth(rparsed, inp, strict_abstractions=True)
            if isinstance(rgot, str) and "f_evm_exp" in rgot:
                chk.count("refined_with_exp_abstraction")  # exp is never refined: nothing to compare
            elif rgot != want:
                chk.violation(f"{name}:refined-differs:{tag}", f"{name}: the refined {tag} query evaluates to {rgot} at {inp} (abstractions read as the exact EVM operations give {want})",
                              dict(info, input={k: hex(v) for k, v in inp.items()}, refined_text=rtext[:3000]))
        chk.count("traces_validated_against_impl")
        chk.nontrivial((name, cache, tuple(sorted(o["declared"]))))
    if len(chk.cov["samples"]) < 4:
        chk.sample({"path": name, "constraints": len(conds), "declared_abstractions": o["declared"], "refined_defines": ro["defined"]})


def abstraction_programs(rnd: random.Random):
    """straight-line programs whose branch conditions go through each arithmetic abstraction"""
    from harness.asm import assemble
    from harness.hrun import TARGET, Prog, Sym
    from harness.progs import compile_expr

    out = []
    ops = [("MUL", 2), ("DIV", 2), ("MOD", 2), ("SDIV", 2), ("SMOD", 2), ("ADDMOD", 3), ("MULMOD", 3), ("EXP", 2)]
    for op, n in ops:
        for const in (0, 1, 7, 12345, 2**255):
            e = (op, ("in", 0), ("in", 1)) if n == 2 else (op, ("in", 0), ("in", 1), ("in", 2))
            body = compile_expr(("EQ", e, ("c", const))) + [("PUSHL", "t"), "JUMPI", ("PUSH", 1), ("PUSH", 0), "MSTORE", ("PUSH", 32), ("PUSH", 0), "RETURN",
                                                           ("LABEL", "t"), ("PUSH", 2), ("PUSH", 0), "MSTORE", ("PUSH", 32), ("PUSH", 0), "RETURN"]
            prog = Prog(accounts={TARGET: assemble(body)}, calldata=[Sym(f"cd{i}", 256) for i in range(3)], name=f"abs-{op}-{const}")
            pool = [0, 1, 2, 3, 7, const, (const * 3) % 2**256, 2**255, 2**256 - 1, 5, 12345 * 2, rnd.getrandbits(256)]
            inputs = [{f"cd{i}": rnd.choice(pool) for i in range(3)} for _ in range(10)]
            inputs += [{"cd0": const, "cd1": 1, "cd2": 0}, {"cd0": 0, "cd1": 0, "cd2": 0}, {"cd0": 2**256 - 1, "cd1": 2**256 - 1, "cd2": 2**256 - 1}]
            out.append((prog, inputs))
    return out


def run_contract_paths(chk: Check, tier: str, rnd, work, obs):
    """paths of regular tests (after setUp) and of invariant tests (extending a sliced state)"""
    from checks.c10 import arg_symbols, capture_paths
    from harness import invgen, testgen
    from harness.artifacts import run_contract
    from harness.hrun import hmain

    kept = []
    orig = hmain.run_message

    def keep(ctx, sevm, message, dyn_params):
        for ex in orig(ctx, sevm, message, dyn_params):
            kept.append((ctx.info.sig, ex))
            yield ex

    # a path that extends a (possibly sliced) setUp or frontier state carries ALL constraints of that state: the
    # sliced subset only decides what the branching solver sees (SolverQuery!QueryHasAllConditions)
    from halmos.sevm import Path

    orig_extend = Path.extend_path
    dropped = []

    lost_own = []

    def extend_path(self, parent):
        before = list(self.conditions)
        orig_extend(self, parent)
        have = {c.get_id() for c in self.conditions}
        # ... nor lose what the path had been given before it was attached to the state (the sender restriction of a target call)
        gone = [c for c in before if c.get_id() not in have]
        if gone:
            lost_own.append([str(c)[:200] for c in gone[:3]])
        missing = [c for c in parent.conditions if c.get_id() not in have]
        chk.count("path_extensions_checked")
        if missing:
            dropped.append((len(parent.conditions), parent.sliced is not None, [str(c)[:200] for c in missing[:3]]))

    Path.extend_path = extend_path
    hmain.run_message = keep
    try:
        for _ in range(2 if tier == "quick" else 20):
            c, metas = testgen.gen_test_contract(rnd, ntests=3)
            run_contract(c)
        # a setUp state with a constraint that is NOT about the state (on a symbolic setUp argument): sliced away for the
        # branching solver, but still part of every test path
        from harness.artifacts import Contract, Fn, arg, panic, revert_plain

        su = [("PUSH", 1000)] + arg(0) + ["GT", ("PUSHL", "ok"), "JUMPI"] + revert_plain() + [("LABEL", "ok"), ("PUSH", 1), ("PUSH", 0), "SSTORE", "STOP"]
        tb = arg(0) + [("PUSH", 7), "EQ", ("PUSHL", "bad"), "JUMPI", "STOP", ("LABEL", "bad")] + panic(1)
        run_contract(Contract("SliceT", [Fn("setUpSymbolic(uint256)", su), Fn("check_seven(uint256)", tb)]))
        for _ in range(2 if tier == "quick" else 20):
            m = invgen.gen_machine(rnd, depth=rnd.choice([1, 2]))
            run_contract(m.test, others=[m.target], cli=("--invariant-depth", str(m.depth)))
        # target calls restricted to configured senders (targetSender / excludeSender): the restriction is a constraint of the path
        for F in (invgen.Filters(t_senders=[invgen.OWNER]), invgen.Filters(x_senders=[invgen.OWNER]), invgen.Filters(t_senders=[invgen.OWNER, invgen.OTHER])):
            m = invgen.gen_machine(rnd, depth=1, fns=invgen.gen_functions(rnd, 2), filters=F)
            run_contract(m.test, others=[m.target] + ([m.dummy] if m.dummy else []), cli=("--invariant-depth", "1"))
    finally:
        hmain.run_message = orig
        Path.extend_path = orig_extend
    if lost_own:
        chk.violation("extend-loses-own-condition", f"{len(lost_own)} path(s) lost constraints they already carried when they were attached to their start state "
                      f"(e.g. the sender restriction of an invariant target call): {lost_own[0]}", {"examples": lost_own[:5]})
    if dropped:
        n, sliced, ex3 = dropped[0]
        chk.violation("extend-drops-condition", f"{len(dropped)} path(s) extending a {'sliced ' if sliced else ''}state of {n} constraints do not carry all of them "
                      f"(the query of such a path is weaker than the path's history), e.g. missing: {ex3}", {"examples": dropped[:5]})
    for idx, (sig, ex) in enumerate(kept):
        conds = list(ex.path.conditions)
        syms = set()
        for c in conds:
            _consts(c, syms)
        names = sorted(n for n, arr in syms if not arr)
        inputs = []
        for _ in range(6):
            inputs.append({n: rnd.choice([0, 1, 2, 3, 5, 42, 2**255, 2**256 - 1, 0x1001, rnd.getrandbits(64)]) for n in names})
        check_path(chk, f"rc:{sig}:{idx}", ex.path, inputs, work, obs, {"test": sig, "kind": "run_contract path"})
    chk.cov["run_contract_paths"] = len(kept)


def solver_input_files(chk: Check, work):
    """What the solver process reads is the query of the path being solved - also when the dump directory is not fresh.

    Two test contracts with a test of the same name share <--dump-smt-directory>/<test name>/ and its file names
    (<path id>.smt2, <path id>.refined.smt2).  The solver is started through harness/record_solver.py, which journals
    the text of the file it is started on; every solve_low_level call records the SMT-LIB text of its own PathContext.
    Each journalled text must contain the text of the corresponding call, and the verdicts must be those of the tests:
    A.check_mul (x, y < 4, x * y == 11: infeasible, after refinement) passes, B.check_mul (x * y == 6) fails."""
    import shutil
    import sys

    import halmos.solve as hsolve
    from harness.artifacts import HEVM, Contract, Fn, arg, cheat_call, panic, revert_plain, run_contract
    from harness.hrun import hmain

    z3bin = shutil.which("z3")
    if z3bin is None:
        raise MachineryError("no z3 binary for the end-to-end solver scenario")

    def body(product):
        return ([("PUSH", 4)] + arg(0) + ["LT", "ISZERO", ("PUSHL", "rev"), "JUMPI", ("PUSH", 4)] + arg(1) + ["LT", "ISZERO", ("PUSHL", "rev"), "JUMPI"]
                + arg(1) + arg(0) + ["MUL", ("PUSH", product), "EQ", ("PUSHL", "bad"), "JUMPI", "STOP", ("LABEL", "bad")] + panic(1) + [("LABEL", "rev")] + revert_plain())

    ddir = work / "smt-dump"
    journal = work / "solver-journal.ndjson"
    recorder = str((FsPath(__file__).resolve().parent.parent / "harness" / "record_solver.py"))
    calls = []
    orig_low = hsolve.solve_low_level

    def low(path_ctx):
        calls.append((str(path_ctx.dump_file), path_ctx.query.smtlib))
        return orig_low(path_ctx)

    for cache in ((), ("--cache-solver",)):
        if ddir.exists():
            shutil.rmtree(ddir)
        journal.unlink(missing_ok=True)
        calls.clear()
        hsolve.solve_low_level = low
        hmain.solve_low_level = low
        try:
            verdicts = {}
            # ... and a path on which halmos gets stuck behind two contradictory vm.assume calls: its confirmation query
            # (unsat: the test passes) goes through the same serialisation, also under --cache-solver
            stuck = (arg(0) + ["ISZERO", ("PUSHL", "z"), "JUMPI"]
                     + cheat_call(HEVM, "assume(bool)", [[("PUSH", 10)] + arg(0) + ["LT"]])
                     + cheat_call(HEVM, "assume(bool)", [[("PUSH", 20)] + arg(0) + ["GT"]])
                     + [("RAW", bytes([0x0C])), ("LABEL", "z"), "STOP"])
            for name, product in (("MulA", 11), ("MulB", 6), ("StuckC", None)):
                if product is None:
                    c = Contract(name, [Fn("setUp()", ["STOP"]), Fn("check_mul(uint256,uint256)", stuck)])
                else:
                    c = Contract(name, [Fn("setUp()", ["STOP"]), Fn("check_mul(uint256,uint256)", body(product))])
                out = run_contract(c, cli=("--dump-smt-directory", str(ddir), "--solver-command", f"{sys.executable} -S {recorder} {journal} {z3bin}", "--solver-threads", "1") + cache)
                r = out.by_sig().get("check_mul(uint256,uint256)")
                if r is None:
                    raise MachineryError(f"no result for {name}.check_mul: {out.stdout[-300:]} {out.exception}")
                verdicts[name] = r.exitcode
        finally:
            hsolve.solve_low_level = orig_low
            hmain.solve_low_level = orig_low
        recs = [json.loads(ln) for ln in journal.read_text().splitlines()] if journal.exists() else []
        tag = "cache" if cache else "plain"
        if len(recs) != len(calls) or not calls:
            raise MachineryError(f"solver journal has {len(recs)} entries for {len(calls)} solve_low_level calls")
        per_file: dict = {}
        for f, smt in calls:
            per_file.setdefault(f, []).append(smt)
        seen: dict = {}
        reused = 0
        for rec in recs:
            k = seen.get(rec["file"], 0)
            seen[rec["file"]] = k + 1
            want = per_file.get(rec["file"], [])
            chk.count("evaluations")
            chk.count("traces_validated_against_impl")
            reused += k > 0
            try:
                qo.parse(rec["text"])
            except z3.Z3Exception as ex:
                chk.violation(f"solver-input-file:{tag}:ill-formed", f"the file the solver was started on ({rec['file']}) is not well-formed SMT-LIB: {str(ex)[:200]}",
                              {"file": rec["file"], "solver_read": rec["text"][:2500]})
                continue
            if k >= len(want) or want[k].strip() not in rec["text"]:
                chk.violation(f"solver-input-file:{tag}:{'refined' if '.refined' in rec['file'] else 'query'}",
                              f"the file the solver was started on ({rec['file']}, use #{k + 1} of that name) does not contain the query of the path being solved",
                              {"file": rec["file"], "solver_read": rec["text"][:1500], "query_of_the_path": (want[k] if k < len(want) else "")[:1500]})
        chk.nontrivial(("solver-input", tag, reused > 0))
        if not reused:
            raise MachineryError("the two contracts did not share a dump file name: the scenario does not exercise a non-fresh directory")
        if verdicts != {"MulA": 0, "MulB": 1, "StuckC": 0}:
            chk.violation(f"solver-input-file:{tag}:verdict", f"A.check_mul (infeasible) / B.check_mul (x = 2, y = 3) sharing one --dump-smt-directory: exit codes {verdicts}, expected PASS / FAIL (and PASS for the test whose stuck path is infeasible)",
                          {"verdicts": verdicts})
    chk.cov["solver_input_files"] = "two contracts, same test name, one --dump-smt-directory, plain and --cache-solver; journalled solver input vs PathContext.query"


def setup_queries(chk: Check, work):
    """setUp() with two surviving paths: each is handed to the solver (<dump dir>/setUp/<k>.smt2) and the k-th file must be
    the query of the k-th surviving path - checked by logical equivalence with that path's own constraints."""
    import shutil

    from halmos.sevm import SEVM
    from harness.artifacts import SVM, Contract, Fn, cheat_call, run_contract

    # n = svm.createUint256(""); if (n < 100) { x = 1; stop } if (n < 200) { x = 2; stop } revert
    setup = cheat_call(SVM, "createUint256(string)", [[("PUSH", 0x20)], [("PUSH", 0)]], ret_words=1, mem=0x200)
    setup += [("PUSH", 100), ("PUSH", 0x300), "MLOAD", "LT", ("PUSHL", "a"), "JUMPI", ("PUSH", 200), ("PUSH", 0x300), "MLOAD", "LT", ("PUSHL", "b"), "JUMPI",
              ("PUSH", 0), ("PUSH", 0), "REVERT", ("LABEL", "a"), ("PUSH", 1), ("PUSH", 0), "SSTORE", "STOP", ("LABEL", "b"), ("PUSH", 2), ("PUSH", 0), "SSTORE", "STOP"]
    c = Contract("SetupTwoPaths", [Fn("setUp()", setup), Fn("check_nothing()", ["STOP"])])
    for cache in ((), ("--cache-solver",)):
        ddir = work / "smt-setup"
        if ddir.exists():
            shutil.rmtree(ddir)
        seen = []
        orig_run = SEVM.run

        def run(self, ex):
            for out in orig_run(self, ex):
                seen.append(out)
                yield out

        SEVM.run = run
        try:
            run_contract(c, cli=("--dump-smt-directory", str(ddir)) + cache)
        finally:
            SEVM.run = orig_run
        # the paths of the setUp() transaction are the ones yielded last (the constructor runs first, on one path)
        alive = [e for e in seen if e.context.output.error is None and not e.context.is_stuck() and e.context.message.data is not None]
        alive = [e for e in alive if len(e.path.conditions) > 0][-2:]
        files = sorted((ddir / "setUp").glob("[0-9]*.smt2")) if (ddir / "setUp").exists() else []
        files = [f for f in files if ".refined" not in f.name]
        tag = "cache" if cache else "plain"
        if len(alive) != 2 or len(files) != 2:
            raise MachineryError(f"setUp scenario ({tag}): {len(alive)} surviving paths, {len(files)} query files")
        for k, (e, f) in enumerate(zip(alive, files)):
            want = z3.And(*list(e.path.conditions))
            body = []
            for a in qo.parse(f.read_text()):
                if z3.is_const(a) and z3.is_bool(a) and a.decl().name().isdigit():
                    continue  # (assert (! |id| :named <id>)): the tracking literal, asserted
                if z3.is_implies(a) and z3.is_const(a.arg(0)) and a.arg(0).decl().name().isdigit():
                    a = a.arg(1)  # (assert (=> |id| c)) with |id| asserted: c
                body.append(a)
            got = z3.And(*body) if body else z3.BoolVal(True)
            chk.count("traces_validated_against_impl")
            chk.nontrivial(("setup-query", tag, k))
            sol = z3.Solver()
            sol.set(timeout=20000)
            # the file declares its own symbols: compare through the names (both sides are over the same symbol names)
            sol.add(z3.Xor(want, got))
            if sol.check() != z3.unsat:
                chk.violation(f"setup-query:{tag}", f"setUp() path {k} of 2: the query handed to the solver ({f.name}) is not equivalent to the constraints of that path",
                              {"file": f.name, "query": f.read_text()[:1500], "path_conditions": [str(x)[:200] for x in e.path.conditions][:12]})


def _consts(e, out, seen=None):
    seen = set() if seen is None else seen
    if e.get_id() in seen:
        return
    seen.add(e.get_id())
    if z3.is_const(e) and e.decl().kind() == z3.Z3_OP_UNINTERPRETED and not z3.is_bool(e):
        out.add((e.decl().name(), z3.is_array(e)))
    for c in e.children():
        _consts(c, out, seen)


def run(chk: Check, tier: str):
    rnd = random.Random(15485863 * chk.seed + 11)
    work = workdir("c11")
    obs: list = []
    try:
        items = abstraction_programs(rnd)
        fams = [progs.fam_arith, progs.fam_control, progs.fam_state, progs_storage.fam_storage, progs_calls.fam_calls]
        for i in range(15 if tier == "quick" else 300):
            items.append(fams[i % len(fams)](rnd))
        if tier == "quick":
            items = [it for j, it in enumerate(items) if j % 2 == 0 or j >= 40]
        npaths = 0
        for prog, inputs in items:
            hr = halmos_run(prog)
            if hr.exception:
                continue
            ins = [normalize_input(prog, i) for i in inputs][:8]
            for pi, p in enumerate(hr.paths):
                if p.stuck:
                    continue
                check_path(chk, f"{prog.name}:{pi}", p.ex.path, ins, work, obs, {"program": prog.name, "code": {hex(a): c.hex() for a, c in prog.accounts.items()}})
                npaths += 1
        run_contract_paths(chk, tier, rnd, work, obs)
        solver_input_files(chk, work)
        setup_queries(chk, work)
        chk.cov["paths"] = npaths
        # --- SolverQuery.tla: design model, then the recorded observations
        r = run_tlc("SolverQuery", "MC_SolverQuery.cfg", work=work, expect_violation=True)
        if not r.ok:
            raise MachineryError(f"SolverQuery.tla violates {r.violated}")
        chk.add_tlc(r)
        f = work / "obs.json"
        f.write_text(json.dumps(obs))
        r2 = run_tlc("SolverQuery", "MC_SolverQuery_obs.cfg", work=work, env={"OBS": str(f)}, expect_violation=True)
        chk.add_tlc(r2)
        if not r2.ok:
            bad = [rec["bad"] for rec in r2.records if isinstance(rec, dict) and "bad" in rec]
            idxs = bad[0] if bad else []
            for i in idxs[:5]:
                o = obs[i - 1]
                chk.violation(f"observation:{'refined' if o['refined'] else 'query'}:{'cache' if o['cache'] else 'plain'}",
                              "a dumped query does not satisfy SolverQuery.tla (all constraints present / guards asserted / refinement touches only abstractions)", {"observation": o})
            if not idxs:
                raise MachineryError(f"SolverQuery.tla observation run failed: {r2.violated}\n{r2.stdout[-1500:]}")
        chk.cov["observations"] = len(obs)
        # negative control: an observation with one constraint missing must be rejected
        if obs:
            import copy

            badobs = copy.deepcopy(obs[0])
            if badobs["ids"]:
                badobs["ids"] = badobs["ids"][:-1]
                f.write_text(json.dumps([badobs]))
                r3 = run_tlc("SolverQuery", "MC_SolverQuery_obs.cfg", work=work, env={"OBS": str(f)}, expect_violation=True)
                if r3.ok:
                    raise MachineryError("negative control accepted: a query with a dropped constraint satisfies SolverQuery.tla")
                chk.count("negative_controls_rejected")
    finally:
        cleanup(work)
    chk.cov["rule"] = (
        "every non-stuck path of: programs branching on each arithmetic abstraction (mul/div/mod/sdiv/smod/addmod/mulmod/exp "
        "x constants), the E1 families (arith, control, state, storage, calls), regular tests and invariant tests through "
        "run_contract; per path 4 dumped files (plain/named x unrefined/refined) -> SolverQuery.tla observation + pointwise "
        "evaluation at the path's inputs; non-trivial = distinct (path, encoding, set of abstractions)"
    )
