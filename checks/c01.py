"""C01 - every reported execution path is a real EVM behaviour (E1 soundness)."""

import random

from harness import progs, progs_alias, progs_calls
from harness.common import Check
from harness.e1corpus import Item, describe, run_items, release

BUDGET = {
    "quick": {"shortcut": 30, "arith": 14, "control": 18, "memory": 14, "state": 12, "calls": 16, "alias": 6},
    "thorough": {"shortcut": 400, "arith": 400, "control": 400, "memory": 300, "state": 300, "calls": 250, "alias": 150},
}


FAMS = dict(progs.FAMILIES, calls=progs_calls.fam_calls, alias=progs_alias.fam_alias)


def build_items(tier: str, seed: int, budget=None):
    rnd = random.Random(1000003 * seed + 17)
    items = []
    for fam, n in (budget or BUDGET[tier]).items():
        for _ in range(n):
            prog, inputs = FAMS[fam](rnd)
            items.append(Item(prog, inputs))
    return items


def run(chk: Check, tier: str):
    from harness import probes

    items = probes.c01_probes() + build_items(tier, chk.seed)
    batch = 120
    nprog = 0
    for i in range(0, len(items), batch):
        if i:
            release(items[i - batch : i])
        outs = run_items(items[i : i + batch], chk)
        nprog += len(items[i : i + batch])
        judge(chk, outs)
    chk.cov["programs"] = nprog
    chk.cov["rule"] = (
        "programs from the gadget grammars of harness/progs.py (seeded), inputs = boundary/random words + models "
        "of every reported path; a case is non-trivial when some non-stuck halmos path covers the input and its "
        "end state was compared with the terminal state of Evm.tla"
    )
    chk.assumptions += [
        "standard interpretation of keccak and of the f_evm_* abstractions (harness/zeval.py)",
        "Evm.tla (limb arithmetic model-checked against EvmWordNat) is the reference",
    ]


def judge(chk: Check, outs):
    for o in outs:
        chk.count("evaluations")
        if o.skipped:
            chk.count("skipped_unmodelled")
            continue
        if o.match.covering:
            chk.count("traces_validated_against_impl")
            chk.nontrivial((o.item.key, tuple(sorted(o.inp.items()))))
        if o.match.unevaluable:
            chk.count("unevaluable_paths", len(o.match.unevaluable))
        for idx, clause in o.clauses:
            d = describe(o)
            d["failing_path"] = idx
            chk.violation(f"{o.item.key}:{clause.split(':')[0]}", f"path {idx} of {o.item.key}: {clause}", d)
        chk.sample({"program": o.item.key, "input": {k: hex(v) for k, v in o.inp.items()},
                    "reference": o.rec["kind"], "covering_paths": [c.index for c in o.match.covering]})
