"""C05 - verdict aggregation is fail-safe and independent of solver timing.

Specification: spec/Verdict.tla.  What `run_test` / `_main` DO is modelled as one action per code site
(LoopCheck, Classify*, Submit, StuckSubmit/StuckFinish, WorkerBegin, SolverFinish, ReSolve, SolverFinish2,
Callback, EarlyExit, Join, Aggregate, Raised, ExitCode); what the property REQUIRES is `Required(arms)`, a
function of the assignment (path outcomes + solver replies) only, and the invariants PassOnlyIfClean,
VerdictIsPrecedence, OrderIndependence, ExitNonZeroIffNotAllPass, ValidNeverAbstract, OneOutputPerQuery.

1. TLC checks the invariants over all assignments (<= 3 paths quick, 4 paths thorough), all solver replies, all
   interleavings, with/without --early-exit / --cache-solver.  The model follows the code after /repo a19e257 and
   78a52f5: VerdictIsPrecedence, OrderIndependence and NoLostCounterexampleStrict hold.  The two behaviours repaired
   by those commits are mutants of the model (MutPrecedence, MutNoCatch) that TLC must refute (MC_Verdict_m_*.cfg);
   a third one (a confirmation query cancelled in flight by the early-exit shutdown raising OSError out of run_test,
   repaired in e7511fd) is the mutant MutKilledEscapes; whether the cancelled query ends with an err output or with an
   exception cannot be forced by the harness (both are in the model, both end in FAIL).
2. Conformance (spec -> code): behaviours enumerated (exhaustively, RecordHist) or sampled (-simulate) by TLC are
   replayed through halmos' real run_test / run_contract / _main (harness/verdict_replay.py): hand-assembled
   test contract with one arm per path, scripted stub solver (harness/stub_solver.py), the schedule forced by
   gates at the code sites.  Observed exit code, callback outputs, gate events, solver invocations, shutdown
   calls must equal the model's; the observed verdict must be the REQUIRED one.
3. Trace validation (code -> spec): the per-thread event sequences, the final order of solver_outputs and the exit
   code of every real run (forced schedules, and unforced runs with free-running stubs) must be reproduced by some
   interleaving of Verdict's actions (spec/Trace_Verdict.tla); the invariants OneOutputPerQuery / Aggregate table /
   ValidNeverAbstract / ShutdownOnlyAfterValid are also evaluated directly on every run.
4. Process exit code: every third batch goes through halmos._main (forge build stubbed out); plus an all-pass
   contract (exit 0) and a contract whose deployment reverts (selected tests without result -> exit 1).
5. Negative controls: mutated expectation tables, corrupted model records, corrupted traces and a deliberately
   wrong wrapper of SolverOutput.from_result (unknown -> unsat) must all be rejected.
"""

from __future__ import annotations

import json
import multiprocessing
import os
import random
import threading
import time
from concurrent.futures import ThreadPoolExecutor, as_completed

from harness import verdict_replay as vr
from harness.common import NCPU, Check, MachineryError, cleanup, run_tlc, workdir

LEVEL = "model_checking"

# stable keys of the two disagreements between halmos and the property found by this check (minimal scenarios).  Both
# were repaired in /repo (a19e257, 78a52f5); Verdict.tla follows the repaired code and keeps the old behaviours as
# mutants.  If either behaviour returns it is reported under its key again (controls "run_test:*" prove that on every run).
KEY_ORDER = "early-exit-order-dependent:panic-sat_valid,stuck:early-exit"
KEY_PRECEDENCE = "precedence-timeout-over-stuck:panic-unknown,stuck-unknown"

BATCH = 6
JOB_TIMEOUT_S = 600.0  # one batch of 6 scenarios normally takes 5..60 s


def c05_plain(key: str) -> str:
    """Violation keys are matched with re.fullmatch against KNOWN_FINDINGS.json: no regex metacharacters."""
    return key.replace("(", "-").replace(")", "").replace("|", ":").replace(">", "~").replace("+", "&")

QUICK = {
    "verify": ["q3", "exit"],
    "find": ["m_precedence", "m_nocatch", "m_killedescapes"],
    "gen": {"genq": 52, "gencanonq": 20, "gencache": 6, "gencachesat": 2, "sim4": 18},
    "sim_num": {"sim4": 120},
    "canon_gen": "gencanonq",
    "free": {"genq": 8, "sim4": 6},
    "tlc_workers": 4,
    "tlc_parallel": 4,
    "budget_s": 170,  # on an overloaded machine the sampled (not the mandatory) batches still queued then are dropped
}
THOROUGH = {
    "verify": ["q2", "q3", "exit", "canon2", "canon3", "t1thr", "t3", "t3c", "t4"],
    "find": ["m_precedence", "m_nocatch", "m_nocatch_lost", "m_killedescapes", "strictlabel"],
    "gen": {"genq": 800, "gencanon2": 800, "gencache": 200, "gencachesat": 200, "gencache3": 150, "sim4": 1500, "gen2": 1000, "gencanon3": 500},
    "sim_num": {"sim4": 1500},
    "canon_gen": "gencanon2",
    "free": {"genq": 150, "sim4": 150},
    "tlc_workers": 6,
    "tlc_parallel": 3,
    "budget_s": 17 * 60,
}


def c05_tlc(name: str, work, workers: int, expect_violation=False, sim_num: int | None = None, seed: int = 0, coverage=False):
    extra = ["-simulate", f"num={sim_num}", "-seed", str(1000 + seed), "-depth", "120"] if sim_num else None
    return run_tlc("Verdict", f"MC_Verdict_{name}.cfg", work=work, workers=workers, expect_violation=expect_violation,
                   extra=extra, coverage=coverage and not sim_num, timeout=3000)


def c05_sorted_records(recs: list) -> list:
    """TLC's workers print in a nondeterministic order: canonical order before any seeded sampling."""
    return sorted(recs, key=lambda r: json.dumps(r, sort_keys=True))


def c05_replayable(r: dict) -> bool:
    """A test with a single path has no path condition on its input, so its query cannot mention an
    abstraction: `refinable` single-path assignments with an abstract model are not realisable as a contract."""
    return not (r["fl"]["refinable"] and len(r["arms"]) == 1 and any(a["r"] == "sat_abstract" for a in r["arms"]))


def c05_pick(recs: list, n: int, rnd: random.Random, tag: str) -> list:
    recs = [r for r in c05_sorted_records(recs) if c05_replayable(r)]
    if len(recs) > n:
        # stratify by (model exit code, early exit taken, raised) so that rare classes are present
        strata: dict = {}
        for r in recs:
            strata.setdefault((r["code"], r["shutdown"], r["raised"], len(r["arms"])), []).append(r)
        keys = sorted(strata)
        out = []
        while len(out) < n and keys:
            for k in list(keys):
                if not strata[k]:
                    keys.remove(k)
                    continue
                out.append(strata[k].pop(rnd.randrange(len(strata[k]))))
                if len(out) >= n:
                    break
        recs = out
    for r in recs:
        r["tag"] = tag
    return recs


def c05_find(recs: list, arms_key: str, flags_key: str, code: int | None = None, sched: str | None = None):
    best = None
    for r in c05_sorted_records(recs):
        s = vr.verdict_from_record(r)
        if vr.verdict_arms_key(s.arms) == arms_key and vr.verdict_flags_key(s) == flags_key and (code is None or s.code == code):
            if sched is not None and "<" in sched:  # "C1<B2": event C1 before event B2
                a, b = sched.split("<")
                evs = s.sched_key().split(",")
                if a not in evs or b not in evs or evs.index(a) > evs.index(b):
                    continue
            elif sched is not None and sched not in s.sched_key():
                continue
            if best is None or len(r["hist"]) < len(best["hist"]):
                best = r
    return best


_POOL = None


def c05_pool(n: int):
    global _POOL
    if _POOL is None:
        _POOL = multiprocessing.get_context("fork").Pool(n)
    return _POOL


def c05_pool_close():
    global _POOL
    if _POOL is not None:
        _POOL.terminate()
        _POOL.join()
        _POOL = None


class C05Feeder(threading.Thread):
    """Hands batches to the pool keeping only a few in flight, so that nothing is left queued inside the pool when the
    time budget of the replay ends (thorough tier); mandatory batches (prio) are handed out first and always."""

    def __init__(self, pool, cap: int, budget_end: float):
        super().__init__(name="c05-feeder", daemon=True)
        self.pool, self.cap, self.budget_end = pool, cap, budget_end
        self.lock = threading.Lock()
        self.todo: list = []
        self.inflight: dict = {}
        self.results: dict = {}
        self.dropped: list = []
        self.started: dict = {}  # job id -> (time handed to the pool, job)
        self.retried: set = set()
        self.lost: list = []
        self.seen_pids: set = set()
        self.closed = False
        self.error: str | None = None

    def add(self, job: dict, prio: bool = False) -> None:
        with self.lock:
            if prio:
                self.todo.insert(0, job)
            else:
                self.todo.append(job)

    def run(self) -> None:
        try:
            while True:
                with self.lock:
                    for jid in [j for j, a in self.inflight.items() if a.ready()]:
                        out = self.inflight.pop(jid).get()
                        t0job = self.started.pop(jid, None)
                        self.results[t0job[1].get("orig", jid) if t0job else jid] = out
                    # a pool worker that crashes (z3 aborts natively now and then; workers were also seen killed from
                    # outside) takes its batch with it: the pool replaces the worker, the result never arrives.  Each
                    # batch leaves a claim file with its worker's pid: the batch of a vanished pid is handed out again
                    alive = {w.pid for w in list(getattr(self.pool, "_pool", [])) if w.is_alive()}
                    self.seen_pids |= alive
                    dead = self.seen_pids - alive
                    if dead:
                        for jid, (t0, job) in list(self.started.items()):
                            try:
                                pid = int(open(os.path.join(job["work"], f"claim-{jid}.pid")).read())
                            except (OSError, ValueError):
                                continue
                            if pid in dead and jid in self.inflight and not self.inflight[jid].ready():
                                self.inflight.pop(jid)
                                self.started.pop(jid)
                                orig = job.get("orig", jid)
                                if orig in self.retried:
                                    self.lost.append(orig)
                                else:
                                    self.retried.add(orig)
                                    self.todo.insert(0, dict(job, id=orig + 500000, orig=orig, prio=True))
                    # a pool worker that dies (killed from outside) takes its batch with it: the pool replaces the
                    # worker but the result never arrives - hand the batch out once more, then give up on it
                    for jid, (t0, job) in list(self.started.items()):
                        if time.time() - t0 > JOB_TIMEOUT_S and jid in self.inflight:
                            self.inflight.pop(jid)
                            self.started.pop(jid)
                            orig = job.get("orig", jid)
                            if orig in self.retried:
                                self.lost.append(orig)
                            else:
                                self.retried.add(orig)
                                self.todo.insert(0, dict(job, id=orig + 500000, orig=orig, prio=True))
                    over = time.time() > self.budget_end
                    while self.todo and len(self.inflight) < self.cap:
                        if over and not self.todo[0].get("prio"):
                            self.dropped += [j["id"] for j in self.todo if not j.get("prio")]
                            self.todo = [j for j in self.todo if j.get("prio")]
                            continue
                        job = self.todo.pop(0)
                        self.inflight[job["id"]] = self.pool.apply_async(c05_job, (job,))
                        self.started[job["id"]] = (time.time(), job)
                    if self.closed and not self.todo and not self.inflight:
                        return
                time.sleep(0.05)
        except BaseException as e:  # noqa: BLE001
            self.error = f"{type(e).__name__}: {e}"

    def finish(self, timeout: float) -> None:
        with self.lock:
            self.closed = True
        self.join(timeout)
        if self.is_alive():
            raise MachineryError("replay batches did not finish in time")
        if self.error:
            raise MachineryError(f"feeder failed: {self.error}")


def c05_job(job: dict) -> dict:
    try:
        with open(os.path.join(job["work"], f"claim-{job['id']}.pid"), "w") as f:
            f.write(str(os.getpid()))
        if os.environ.get("VERIF_C05_FAKE_CRASH") == str(job["id"]):
            os._exit(134)  # self-test of the crashed-worker recovery
        return vr.verdict_run_batch(job)
    except BaseException as e:  # noqa: BLE001
        import traceback

        return {"id": job["id"], "obs": None, "main_exit": None, "exception": f"{type(e).__name__}: {e}\n{traceback.format_exc()[-1500:]}", "stdout": "", "logs": "", "wall": 0}


def c05_required_class_key(s: vr.VScn, code: int) -> str:
    k = vr.verdict_finding_key(s, code)
    return {"precedence:timeout-over-stuck": KEY_PRECEDENCE,
            "early-exit-order-dependent:stuck-confirm-raises": KEY_ORDER}.get(k, c05_plain(k))


def run(chk: Check, tier: str):
    P = QUICK if tier == "quick" else THOROUGH
    t_start = time.time()
    rnd = random.Random(7919 * chk.seed + 5)
    work = workdir("c05")
    nproc = max(4, min(12, NCPU - 4))
    pool = c05_pool(nproc)  # forked before any thread exists in this process
    try:
        _run(chk, tier, P, rnd, work, pool, t_start)
    finally:
        c05_pool_close()
        cleanup(work)
    # the level above run_test: several contracts and selections in one _main process (MainRun.tla) - exit code, selection,
    # order and verdicts (the warnings clause of the same replay belongs to C10)
    from harness import mainrun_replay

    mainrun_replay.phase(chk, tier, {"exit", "selection", "order", "verdicts"}, "main-run")


def _run(chk: Check, tier: str, P: dict, rnd, work, pool, t_start):
    wk = P["tlc_workers"]
    tex = ThreadPoolExecutor(max_workers=P["tlc_parallel"])
    # ---- 1. TLC: scenario generation first (the replay starts as soon as a generator ends), verification behind it
    gen_f = {tex.submit(c05_tlc, n, work, wk, False, P["sim_num"].get(n), chk.seed): n for n in P["gen"]}
    find_f = {n: tex.submit(c05_tlc, n, work, wk, True) for n in P["find"]}
    ver_f = {n: tex.submit(c05_tlc, n, work, wk, False, None, 0, tier == "thorough") for n in P["verify"]}

    phases = chk.cov.setdefault("phase_wall_s", {})
    budget_end = t_start + P["budget_s"]
    canon = P["canon_gen"]
    # the minimal scenarios of the known deviation classes are always replayed, in both orders where the order matters
    musts = {
        "genq": [
            ("panic(sat_valid),stuck(unsat)", "early-exit+refinable", 1, "X0,E1"),  # callback + shutdown before the loop reaches the stuck path
            ("panic(sat_valid),stuck(unsat)", "early-exit+refinable", 1, "X0,K1"),  # shutdown between the loop head and executor.submit
            ("panic(sat_valid),stuck(unsat)", "refinable", 1, None),
            ("panic(unknown),stuck(unknown)", "refinable", 3, None),  # ERROR (stuck) over TIMEOUT
            ("stuck(unknown),panic(unknown)", "refinable", 3, None),
            ("revert,panic(unknown)", "refinable", None, None),
            ("panic(garbage),panic(unknown)", "refinable", None, None),  # ERROR over TIMEOUT (control: swapped precedence)
            ("success,panic(unknown)", "refinable", None, None),
            ("success,panic(garbage)", "refinable", None, None),  # an unusable reply is an ERROR, whatever its later lines say
        ],
        "gencache": [
            # --cache-solver: the core of an unsat query must not answer a satisfiable one, in either completion order
            ("panic(unsat),panic(sat_valid)", "cache-solver", None, "C0<B1"),
            ("panic(sat_valid),panic(unsat)", "cache-solver", None, "C1<B0"),
            # an empty core `()` names no constraint: it must not answer the next (satisfiable) query either
            ("panic(unsat_nocore),panic(sat_valid)", "cache-solver", None, "C0<B1"),
            ("panic(unsat_nocore),failflag(sat_valid)", "cache-solver", None, "C0<B1"),
        ],
        "gencachesat": [
            ("success,panic(unsat),panic(sat_valid)", "cache-solver", None, "C1<B2"),
            ("success,panic(unsat),panic(sat_valid)", "cache-solver", None, "B2<C1"),
            ("success,panic(sat_valid),panic(unsat)", "cache-solver", None, "C2<B1"),
        ],
        canon: [
            ("success,panic(timeout)", "refinable", None, None),
            ("success,panic(unsat_rc1)", "refinable", None, None),
            ("success,stuck(timeout)", "refinable", None, None),
            ("success,panic(sat_abstract>timeout)", "refinable", None, None),
            # the solver cannot even be started (the solving thread ends in an exception): ERROR, never PASS
            ("success,panic(spawnfail)", "refinable", None, None),
            ("success,panic(nonzero)", "refinable", None, None),
        ],
    }
    all_recs: dict = {}
    ctrl: dict = {}
    jobs: list = []
    seen: set = set()
    feeder = C05Feeder(pool, cap=2 * pool._processes, budget_end=budget_end)
    feeder.start()

    def submit(recs: list, allpass: bool = False, enforce: bool = True):
        # timeouts cost wall time: keep them together so that the other batches stay fast
        recs = sorted(recs, key=lambda r: any(a["r"] == "timeout" or a["r2"] == "timeout" for a in r["arms"]))
        for b in range(0, len(recs), BATCH):
            bid = len(jobs)
            chunk = recs[b:b + BATCH]
            prio = allpass or any(r.get("tag") == "must" for r in chunk)
            job = {"id": bid, "work": str(work), "scns": chunk, "mode": "main" if (bid % 3 == 0 or allpass) else "run_contract",
                   "allpass": allpass, "enforce": enforce, "prio": prio}
            jobs.append(job)
            feeder.add(job, prio)

    for f in as_completed(gen_f):
        n = gen_f[f]
        r = f.result()
        if not r.ok:
            raise MachineryError(f"TLC: MC_Verdict_{n}.cfg: {r.violated} (an invariant that must hold on the model of the code)\n{r.stdout[-2500:]}")
        if not r.records:
            raise MachineryError(f"TLC: MC_Verdict_{n}.cfg printed no behaviour")
        chk.add_tlc(r)
        chk.count(f"behaviours_enumerated_{n}", len(r.records))
        all_recs[n] = r.records
        picked = c05_pick(r.records, P["gen"][n], rnd, n)
        for ak, fk, code, sched in musts.get(n, []):
            m = c05_find(r.records, ak, fk, code, sched)
            if m is None:
                raise MachineryError(f"scenario {ak}|{fk} code={code} schedule {sched} not among the behaviours of MC_Verdict_{n}.cfg")
            m = dict(m)
            m["tag"] = "must"
            picked.insert(0, m)
        uniq = []
        for x in picked:  # de-duplicate (same assignment, same schedule)
            k = json.dumps({y: x[y] for y in ("arms", "fl", "hist")}, sort_keys=True)
            if k not in seen:
                seen.add(k)
                uniq.append(x)
        submit(uniq)
        if n == "genq":
            # process exit code: a batch of passing tests only (exit 0) - the others mix verdicts
            passing = [dict(x) for x in c05_sorted_records(r.records) if x["code"] == 0 and c05_replayable(x)][:BATCH]
            for x in passing:
                x["tag"] = "allpass"
            if len(passing) < 2:
                raise MachineryError("no passing scenarios for the exit-code-0 batch")
            submit(passing, allpass=True)
            # negative control (c): a deliberately wrong wrapper of the halmos function mapping solver replies (unknown
            # treated as unsat) - queued now, judged with the other controls
            crecs = [dict(x) for x in c05_sorted_records(r.records)
                     if x["code"] == 2 and not x["fl"]["early"] and c05_replayable(x)
                     and any(a["r"] == "unknown" and a["o"] in vr.VIOL for a in x["arms"])][:BATCH]
            if not crecs:
                raise MachineryError("no TIMEOUT scenario for the wrapper control")
            ctrl["recs"] = crecs
            for kind, cid, specs in (
                ("old-precedence", 900001, [("panic(unknown),stuck(unknown)", "refinable", 3, None), ("stuck(unknown),panic(unknown)", "refinable", 3, None)]),
                ("no-catch", 900002, [("panic(sat_valid),stuck(unsat)", "early-exit+refinable", 1, "X0,K1"), ("panic(sat_valid),stuck(unsat)", "early-exit+refinable", 1, "X0,E1")]),
            ):
                mrecs = [c05_find(r.records, *sp) for sp in specs]
                if any(m is None for m in mrecs):
                    raise MachineryError(f"scenarios for the run_test control {kind} not among the behaviours of MC_Verdict_{n}.cfg")
                mrecs = [dict(m) for m in mrecs]
                ctrl.setdefault("run_test", {})[kind] = (cid, mrecs)
                feeder.add({"id": cid, "work": str(work), "scns": mrecs, "mode": "run_contract", "wrapper_mutation": kind, "prio": True}, True)
            cjob = {"id": 900000, "work": str(work), "scns": crecs, "mode": "run_contract", "wrapper_mutation": "unknown-as-unsat", "prio": True}
            ctrl["id"] = cjob["id"]
            feeder.add(cjob, True)
            # the same passing tests in a contract whose deployment reverts: selected, but no result -> exit 1
            bid = len(jobs)
            job = {"id": bid, "work": str(work), "scns": passing[:2], "mode": "main", "ctor_revert": True, "enforce": True, "prio": True}
            jobs.append(job)
            feeder.add(job, True)
        if n in P["free"]:
            # unforced runs (no gates, free-running stubs with small random delays): distinct assignments
            cand, have = [], set()
            for x in c05_sorted_records(r.records):
                k = json.dumps({y: x[y] for y in ("arms", "fl")}, sort_keys=True)
                if k not in have and c05_replayable(x) and not any("timeout" in (a["r"], a["r2"]) for a in x["arms"]) \
                        and sum(1 for a in x["arms"] if a["r"] != "none") >= 2:
                    have.add(k)
                    cand.append(dict(x))
            free = rnd.sample(cand, min(P["free"][n], len(cand)))
            for x in free:
                x["tag"] = "free"
            submit(free, enforce=False)
        print(f"[C05] MC_Verdict_{n}: {len(r.records)} behaviours, {len(uniq)} queued for replay at {time.time() - t_start:.0f}s", flush=True)
    phases["generation"] = round(time.time() - t_start, 1)
    if tier == "quick":
        # at least a minute of replay after the (load dependent) end of the generation
        feeder.budget_end = budget_end = max(budget_end, time.time() + 80)

    # ---- 2. replay (workers started as the generators finished)
    feeder.finish(timeout=max(1800.0, budget_end - time.time() + 1800))
    results = feeder.results
    ctrl["out"] = results.pop(ctrl["id"], None)
    for kind, (cid, mrecs) in ctrl.get("run_test", {}).items():
        ctrl["run_test"][kind] = (results.pop(cid, None), mrecs)
    if feeder.retried:
        chk.cov["replay_batches_retried_after_worker_loss"] = len(feeder.retried)
    if feeder.lost:
        raise MachineryError(f"replay batches {feeder.lost} were lost twice (pool workers killed?)")
    if feeder.dropped:
        chk.cov["replay_batches_dropped_at_time_budget"] = len(feeder.dropped)
    jobs = [j for j in jobs if j["id"] in results]
    phases["replay"] = round(time.time() - t_start, 1)
    print(f"[C05] {sum(len(j['scns']) for j in jobs)} scenarios replayed at {phases['replay']}s", flush=True)
    chk.cov["batch_wall_s_max"] = round(max(o["wall"] for o in results.values()), 1)
    if os.environ.get("VERIF_C05_DEBUG"):
        for j in jobs:
            o = results[j["id"]]
            print(f"[C05] batch {j['id']} {j['mode']} wall {o['wall']:.1f}s tags {sorted({r.get('tag') for r in j['scns']})} "
                  f"slowest {sorted(((ob['wall'], vr.verdict_from_record(r).key(), vr.verdict_from_record(r).sched_key()) for r, ob in zip(j['scns'], o['obs'] or [])), reverse=True)[:2]} "
                  f"timeouts {sum(1 for r in j['scns'] for a in r['arms'] if 'timeout' in (a['r'], a['r2']))} "
                  f"broken {[(ob['broken'], vr.verdict_from_record(r).key(), vr.verdict_from_record(r).sched_key(), ob['events']) for r, ob in zip(j['scns'], o['obs'] or []) if ob['broken']]}", flush=True)
    # ---- 3. compare
    nscn = 0
    inconclusive = []
    conformance = []
    by_assignment: dict = {}
    clean_obs = []  # (scenario, observation) pairs without any issue: material for the negative controls
    prop_viol = []
    trace_obs = []  # (scenario, observation) of every conclusive run, forced or not
    for job in sorted(jobs, key=lambda j: (min((0 if r.get("tag") == "must" else 1) for r in j["scns"]), j["id"])):
        out = results[job["id"]]
        if out["obs"] is None or (out["exception"] and job["mode"] != "main"):
            raise MachineryError(f"replay batch {job['id']} failed: {out['exception']}\n{out['stdout'][-800:]}")
        if out["exception"]:
            raise MachineryError(f"halmos._main raised in batch {job['id']}: {out['exception']}\n{out['stdout'][-800:]}")
        if job.get("ctor_revert"):
            chk.count("process_exit_codes_checked")
            if any(o["exitcode"] is not None for o in out["obs"]):
                raise MachineryError(f"tests of a contract whose constructor reverts produced results: {out['obs']}")
            if out["main_exit"] == 0:
                chk.violation("exit-code:selected-tests-not-run-but-0", "halmos._main exit code 0 although the selected tests of a contract "
                              "were not run (deployment reverted)", {"main_exit": out["main_exit"], "stdout": out["stdout"]})
            continue
        codes = []
        for rec, o in zip(job["scns"], out["obs"]):
            s = vr.verdict_from_record(rec, rec.get("tag", ""))
            nscn += 1
            forced = job.get("enforce", True)
            issues = vr.verdict_compare(s, o) if forced else vr.verdict_compare_free(s, o)
            if not forced:
                chk.count("unforced_runs")
                if s.early and o["exitcode"] != s.seqcode:
                    chk.count("unforced_runs_early_exit_order_dependent_verdict")  # counted, not reported: not forced
            kinds = {k for k, _ in issues}
            codes.append(o["exitcode"])
            if "machinery" in kinds:
                inconclusive.append((s.key(), s.sched_key(), [t for k, t in issues if k == "machinery"]))
                continue
            chk.count("traces_validated_against_impl")
            if "property" not in kinds:
                trace_obs.append((s, o))  # (a run that violates the property is reported; it need not be a behaviour of the model)
            chk.count("evaluations", 1 + len(o["events"]))
            if len([a for a in s.arms if a["o"] in vr.VIOL + ("stuck",)]) >= 1:
                chk.nontrivial((s.key(), s.sched_key()))
            chk.count(f"replayed_{rec.get('tag', '?')}")
            chk.count(f"observed_exitcode_{o['exitcode']}")
            if s.shutdown:
                chk.count("replayed_with_early_exit_taken")
            if any(e == "B" and x == "cachehit" for e, _, x in s.hist):
                chk.count("replayed_with_cache_hit")
            if any(e in ("F", "F2") and x == "killed" for e, _, x in s.hist):
                chk.count("replayed_with_solver_killed_by_shutdown")
            chk.sample({"scenario": s.key(), "schedule": s.sched_key(), "exitcode": o["exitcode"], "required": s.required,
                        "outputs": o["outputs"]})
            unforced_order = forced and s.killed_stuck()
            if unforced_order:
                # the confirmation query of a stuck path was in flight when the early-exit shutdown cancelled it: it
                # surfaces as an err output or as an OSError out of run_test; which one is not forced -> counted only
                chk.count(f"stuck_confirm_killed_by_shutdown_exitcode_{o['exitcode']}")
            if forced and not unforced_order:
                by_assignment.setdefault(s.key(), []).append((s, o, rec))
            if "conformance" in kinds and "property" not in kinds:
                conformance.append((s.key(), s.sched_key(), [t for k, t in issues if k == "conformance"], rec, job.get("enforce", True)))
            # (since fix e7511fd an exception out of a confirmation query killed by the early exit no longer escapes run_test:
            # the property's verdict is required in these runs too)
            if "property" in kinds:
                key = c05_required_class_key(s, o["exitcode"])
                what = (f"{s.key()} [schedule {s.sched_key()}]: halmos reports {vr.CLASS_OF[o['exitcode']]} (TestResult.exitcode "
                        f"{o['exitcode']}); the property requires {s.required}"
                        + (f"; run_test was left by {o['run_test_exc']}" if o["run_test_exc"] else ""))
                prop_viol.append((0 if rec.get("tag") == "must" else 1, len(s.arms), key, what, {"scenario": rec, "observation": o, "required": s.required}))
            elif not kinds and forced:
                clean_obs.append((s, o, rec))
        # process exit code (property: non-zero iff some selected test did not pass)
        if job["mode"] == "main":
            if out["main_exit"] is None or any(c is None for c in codes):
                raise MachineryError(f"halmos._main gave no exit code / results in batch {job['id']}: {out['stdout'][-800:]}")
            want = 0 if all(c == 0 for c in codes) else 1
            chk.count("process_exit_codes_checked")
            if job.get("allpass") and want != 0:
                raise MachineryError(f"the all-pass batch did not pass: {codes}")
            if (out["main_exit"] != 0) != (want != 0):
                chk.violation(f"exit-code:{'all-pass' if want == 0 else 'some-fail'}-but-{out['main_exit']}",
                              f"halmos._main exit code {out['main_exit']} with test exit codes {codes}",
                              {"codes": codes, "main_exit": out["main_exit"], "scenarios": job["scns"]})
    # order (in)dependence on the real runs: all replays of one assignment must give the same verdict
    for key, lst in sorted(by_assignment.items(), key=lambda kv: (0 if any(r.get("tag") == "must" for _, _, r in kv[1]) else 1, len(kv[1][0][0].arms), kv[0])):
        classes = sorted({vr.CLASS_OF[o["exitcode"]] for _, o, _ in lst})
        if len(lst) > 1:
            chk.count("assignments_replayed_in_several_orders")
        if len(classes) > 1:
            s0 = lst[0][0]
            pairs = [(s.sched_key(), vr.CLASS_OF[o["exitcode"]], o["exitcode"]) for s, o, _ in lst]
            k = KEY_ORDER if (s0.early and any(a["o"] == "stuck" for a in s0.arms)) else c05_plain(f"order-dependent:{key}")
            chk.violation(k, f"{key}: the verdict depends on the order in which threads run: {pairs}; required {s0.required}",
                          {"assignment": key, "runs": pairs, "scenarios_raw": [r for _, _, r in lst]})
    for _, _, key, what, rep in sorted(prop_viol, key=lambda t: t[:4]):
        chk.violation(key, what, rep)
    # once halmos is seen to violate the property, further differences from the model of the (unviolated) code are
    # consequences of the same defect: they are recorded, the verdict of the check is the VIOLATION
    violated = chk.nviol + sum(chk.known_hits.values()) > 0
    if conformance and violated:
        chk.cov["replays_differing_from_model_besides_violations"] = [f"{k} [{sk}]: {ts}"[:400] for k, sk, ts, _, _ in conformance[:10]]
        conformance = []
    if os.environ.get("VERIF_C05_FAKE_MISMATCH") and clean_obs and not conformance:
        s0, _, rec0 = clean_obs[0]  # self-test of the re-run path below
        conformance = [(s0.key(), s0.sched_key(), ["(injected by VERIF_C05_FAKE_MISMATCH)"], rec0, True)]
    if conformance and len(conformance) <= 6:
        # a difference from the model must be reproducible to count: the scenarios are run once more (the runs are real
        # multi-threaded executions on a shared machine; a one-off glitch is recorded with its details, not hidden)
        again = []
        for forced_flag in (True, False):
            recs2 = [r for _, _, _, r, f in conformance if f == forced_flag]
            if not recs2:
                continue
            out2 = pool.apply_async(c05_job, ({"id": 950000 + int(forced_flag), "work": str(work), "scns": recs2, "mode": "run_contract",
                                               "enforce": forced_flag},)).get(timeout=900)
            if out2["obs"] is None:
                raise MachineryError(f"re-run of differing replays failed: {out2['exception']}")
            for rec2, o2 in zip(recs2, out2["obs"]):
                s2 = vr.verdict_from_record(rec2)
                iss2 = vr.verdict_compare(s2, o2) if forced_flag else vr.verdict_compare_free(s2, o2)
                if any(k in ("conformance", "property") for k, _ in iss2):
                    again.append((s2.key(), s2.sched_key(), [t for k, t in iss2 if k != "machinery"], rec2, forced_flag))
        chk.cov["replays_differing_from_model_once"] = [f"{k} [{sk}]: {ts}"[:600] for k, sk, ts, _, _ in conformance]
        conformance = again
    if conformance:
        txt = "\n".join(f"  {k} [{sk}]: {ts}" for k, sk, ts, _, _ in conformance[:6])
        raise MachineryError(f"{len(conformance)} replays differ from Verdict.tla's model of the code (update the model):\n{txt}")
    if len(inconclusive) > max(4, nscn // 12):
        raise MachineryError(f"{len(inconclusive)} of {nscn} replays were not conclusive: {inconclusive[:4]}")
    chk.count("replays_inconclusive", len(inconclusive))
    if nscn < (40 if tier == "quick" else 400):  # (anti-vacuity floor; an overloaded machine drops sampled batches at the time budget, never the mandatory ones)
        raise MachineryError(f"only {nscn} scenarios were replayed")

    # ---- 4. trace validation (code -> spec): every real run must be a behaviour of Verdict.tla
    phases["compare"] = round(time.time() - t_start, 1)
    c05_validate_traces(chk, trace_obs, work, P["tlc_workers"], 4000 if tier == "thorough" else 400, tolerant=violated)
    phases["trace_validation"] = round(time.time() - t_start, 1)

    # ---- 5. negative controls: the binding binds
    c05_controls(chk, clean_obs, ctrl)

    phases["controls"] = round(time.time() - t_start, 1)
    # ---- 6. TLC verification results
    # mutants of the model (the three repaired behaviours) must be refuted by the strict invariants;
    # strictlabel exhibit the residual (not forced) behaviour and the unlabelled case
    mutant_traces = ""
    for n, f in find_f.items():
        r = f.result()
        chk.add_tlc(r)
        mutant_traces += r.stdout
        if r.violated is None:
            raise MachineryError(f"TLC found no counterexample for MC_Verdict_{n}.cfg: "
                                 + ("negative control accepted: the invariant does not refute the mutant" if n.startswith("m_") else "the model no longer shows this behaviour"))
        chk.cov.setdefault("model_mutants_refuted" if n.startswith("m_") else "model_expected_counterexamples", {})[n] = dict(c05_trace_summary(r.stdout), invariant=r.violated)
    never = {}
    taken: dict = {}
    for n, f in ver_f.items():
        r = f.result()
        if not r.ok:
            raise MachineryError(f"TLC: MC_Verdict_{n}.cfg: {r.violated}\n{r.stdout[-3000:]}")
        chk.add_tlc(r)
        chk.cov.setdefault("tlc_runs", {})[n] = {"distinct": r.distinct_states, "generated": r.states_generated, "depth": r.depth, "wall_s": round(r.wall_s, 1)}
        for act, (d, t) in r.coverage.items():
            taken[act] = taken.get(act, 0) + t
            if t == 0:
                never.setdefault(n, []).append(act)
    if never:
        chk.cov["actions_never_taken_per_config"] = never  # restricted configurations (e.g. no --early-exit, not refinable)
    if tier == "thorough":
        import re

        chk.cov["action_transition_counts"] = taken
        if len(taken) < 18:
            raise MachineryError(f"TLC coverage not parsed: only the actions {sorted(taken)} were found")
        dead = sorted(a for a, t in taken.items() if t == 0)
        # `Raised` (run_tests' `except Exception` after an exception out of run_test) is unreachable on the faithful model
        # since a19e257 / e7511fd (and a spawn failure of a confirmation query is never scripted): it must be taken in
        # the counterexamples of the mutant configurations
        only_mutants = sorted(a for a in dead if re.search(rf"<{a} line \d+", mutant_traces))
        if only_mutants:
            chk.cov["actions_taken_only_in_mutant_configs"] = only_mutants
        dead = [a for a in dead if a not in only_mutants]
        if dead:
            raise MachineryError(f"actions of Verdict.tla never taken in any configuration, faithful or mutant: {dead}")
    phases["verification"] = round(time.time() - t_start, 1)
    chk.cov["exhaustive"] = True
    chk.cov["rule"] = ("Verdict.tla: every assignment of outcomes x solver replies x flags, every interleaving (TLC); "
                       "enumerated/sampled behaviours replayed through run_test/_main with a scripted solver and forced schedules")
    chk.assumptions += [
        "the scripted solver hands out an unsat core contained in every query only if every query of the test is unsat (Honest)",
        "a reply 'non-zero exit' means no verdict line on stdout; 'unsat' followed by an error and exit 1 (what z3 does on halmos' get-model) counts as unsat",
        "'no path succeeded' has no label in the property text: ERROR and TIMEOUT are both accepted when a timeout is the only other defect",
        "real solver timeouts (--solver-timeout-assertion) are replayed only in sequential schedules; in the other schedules every stub is held and released by the harness (no timeout configured)",
        "a confirmation query of a stuck path IN FLIGHT when the early-exit shutdown cancels it ends with an err output (path kept) or with an OSError (loop left, since e7511fd): which one is not forced by the harness; both are in the model and give the same verdict, which IS checked",
        "UNCONSTRAINED: a solver spawn failure is not among the property's replies; it is never scripted for a confirmation query and any non-PASS verdict would be accepted for it",
        "--solver-threads >= number of queries in the replays (the FIFO single-thread pool is model-checked only)",
    ]


def c05_trace_summary(stdout: str) -> dict:
    """arms / flags / final code of the counterexample TLC printed."""
    import re

    arms = re.findall(r"/\\ arms = (<<.*?>>)\n/\\", stdout, re.S)
    fl = re.findall(r"/\\ fl = (\[.*?\])", stdout)
    code = re.findall(r"/\\ code = (-?\d+)", stdout)
    steps = len(re.findall(r"^State \d+:", stdout, re.M))
    return {"arms": " ".join(arms[-1].split()) if arms else None, "fl": fl[-1] if fl else None, "code": int(code[-1]) if code else None,
            "trace_length": steps}


def c05_validate_traces(chk: Check, trace_obs: list, work, workers: int, limit: int, tolerant: bool = False):
    """Trace_Verdict.tla: per-thread event sequences, order of solver_outputs and exit code of each real run must be
    reproduced by some interleaving of Verdict's actions.  Three corrupted traces must be rejected."""
    import copy

    traces, keys = [], []
    for s, o in trace_obs[:limit]:
        t = vr.verdict_trace_record(s, o)
        if t is not None:
            traces.append(t)
            keys.append((s.key(), s.sched_key(), o["events"]))
    if not traces:
        raise MachineryError("no trace to validate")
    n = len(traces)
    controls = {}
    donor = next((t for t in traces if len(t["main"]) >= 3 and not t["raised"] and t["outputs"]), None)
    if donor is None:
        raise MachineryError("no trace suitable for the trace-spec controls")
    bad = copy.deepcopy(donor)
    bad["code"] = (bad["code"] + 1) % 6
    controls["trace:exit-code"] = len(traces) + 1
    traces.append(bad)
    bad = copy.deepcopy(donor)
    bad["main"] = bad["main"][:-1]
    controls["trace:dropped-event"] = len(traces) + 1
    traces.append(bad)
    bad = copy.deepcopy(donor)
    bad["outputs"][0]["r"] = "unsat" if bad["outputs"][0]["r"] != "unsat" else "unknown"
    controls["trace:output-field"] = len(traces) + 1
    traces.append(bad)
    accepted = set()
    CH = 1200
    for b in range(0, len(traces), CH):
        f = work / f"traces-{b}.json"
        f.write_text(json.dumps(traces[b:b + CH]))
        r = run_tlc("Trace_Verdict", "MC_Trace_Verdict.cfg", work=work, env={"C05_TRACES": str(f)}, workers=workers, timeout=3000)
        if not r.ok:
            raise MachineryError(f"TLC: Trace_Verdict: {r.violated}\n{r.stdout[-2500:]}")
        chk.add_tlc(r)
        accepted |= {b + x["tid"] for x in r.records if isinstance(x, dict) and set(x) == {"tid"}}
    rejected = [keys[k] for k in range(n) if (k + 1) not in accepted]
    chk.count("traces_accepted_by_Trace_Verdict", n - len(rejected))
    if rejected and tolerant:
        chk.cov["traces_rejected_besides_violations"] = [str(r)[:400] for r in rejected[:10]]
    elif rejected:
        raise MachineryError(f"{len(rejected)} recorded runs are not behaviours of Verdict.tla (update the model): {rejected[:3]}")
    for name, tid in controls.items():
        if tid in accepted:
            raise MachineryError(f"negative control {name} was accepted by Trace_Verdict.tla")
    chk.cov.setdefault("negative_controls_rejected", {}).update({k: 1 for k in controls})


def c05_controls(chk: Check, clean_obs: list, ctrl: dict):
    rejected = {}
    # (a) mutated expectation tables must be rejected by observations the true table accepts
    for mut in ("unknown-as-unsat", "swap-error-timeout", "stuck-ignored"):
        n = 0
        for s, o, _ in clean_obs:
            if any(k == "property" for k, _ in vr.verdict_compare(s, o, mutate=mut)):
                n += 1
        rejected[f"table:{mut}"] = n
    # (b) a corrupted model record (one field) must be rejected
    n_code = n_out = n_ev = 0
    for s, o, rec in clean_obs[:60]:
        bad = vr.verdict_from_record(rec)
        bad.code = {0: 4, 1: 0, 2: 5, 3: 2, 4: 0, 5: 2}[bad.code]
        if any(k == "conformance" for k, _ in vr.verdict_compare(bad, o)):
            n_code += 1
        if len(s.outputs) >= 2 and s.outputs[0] != s.outputs[1]:
            bad = vr.verdict_from_record(rec)
            bad.outputs = [bad.outputs[1], bad.outputs[0]] + bad.outputs[2:]
            if any(k == "conformance" for k, _ in vr.verdict_compare(bad, o)):
                n_out += 1
        if len(s.hist) >= 3:
            bad = vr.verdict_from_record(rec)
            bad.hist = bad.hist[:-1]  # dropped event
            if any(k == "conformance" for k, _ in vr.verdict_compare(bad, o)):
                n_ev += 1
    rejected["record:code"] = n_code
    rejected["record:outputs-order"] = n_out
    rejected["record:dropped-event"] = n_ev
    # (c) a deliberately wrong wrapper of the halmos function mapping solver replies: unknown treated as unsat
    recs = ctrl["recs"]
    out = ctrl.get("out")
    if out is None:
        raise MachineryError("the wrapper control did not run")
    if out["obs"] is None:
        raise MachineryError(f"wrapper control failed to run: {out['exception']}")
    n = 0
    for rec, o in zip(recs, out["obs"]):
        s = vr.verdict_from_record(rec)
        if any(k in ("conformance", "property") for k, _ in vr.verdict_compare(s, o)):
            n += 1
    rejected["wrapper:unknown-as-unsat"] = n
    if n != len(recs):
        raise MachineryError(f"negative control accepted: from_result mapping unknown to unsat was noticed in {n} of {len(recs)} TIMEOUT scenarios")
    # (d) halmos' run_test with one of the two repaired behaviours put back: the check must report it under the old key
    want = {"old-precedence": (KEY_PRECEDENCE, 2), "no-catch": (KEY_ORDER, 5)}
    for kind, (out, mrecs) in ctrl.get("run_test", {}).items():
        if out is None or out["obs"] is None:
            raise MachineryError(f"run_test control {kind} did not run: {out and out['exception']}")
        key, code = want[kind]
        hits = 0
        for rec, o in zip(mrecs, out["obs"]):
            s = vr.verdict_from_record(rec)
            if any(k == "property" for k, _ in vr.verdict_compare(s, o)) and o["exitcode"] == code \
                    and c05_required_class_key(s, o["exitcode"]) == key:
                hits += 1
        rejected[f"run_test:{kind}->{key}"] = hits
        if hits == 0:
            raise MachineryError(f"negative control accepted: run_test with the behaviour '{kind}' put back was not reported under {key}: "
                                 f"{[(o['exitcode'], o['run_test_exc'], o['broken']) for o in out['obs']]}")
    chk.cov.setdefault("negative_controls_rejected", {}).update(rejected)
    for name, n in rejected.items():
        if n == 0:
            raise MachineryError(f"negative control {name} was accepted (no replay rejected it)")


def replay(chk: Check, path: str):
    """bin/check C05 --replay <file>: re-run the recorded scenario(s)."""
    # a replay is not a run of the check: its bookkeeping must not replace evidence/C05.json (Check.finish honours this)
    os.environ.setdefault("VERIF_EVIDENCE_DIR", str(vr.VERIF / ".work" / "replay-evidence"))
    d = json.loads(open(path).read())
    recs = [d["scenario"]] if "scenario" in d else d.get("scenarios_raw", [])
    if not recs:
        raise MachineryError("nothing to replay in this file")
    work = workdir("c05r")
    try:
        out = vr.verdict_run_batch({"id": 0, "work": str(work), "scns": recs, "mode": "run_contract"})
        for rec, o in zip(recs, out["obs"]):
            s = vr.verdict_from_record(rec)
            chk.count("traces_validated_against_impl")
            issues = vr.verdict_compare(s, o)
            for k, t in issues:
                if k == "property" and s.killed_stuck():
                    print(f"(not forced: confirmation query killed by the early-exit shutdown) {s.key()}: {t}")
                elif k == "property":
                    chk.violation(c05_required_class_key(s, o["exitcode"]), f"{s.key()} [schedule {s.sched_key()}]: {t}", {"scenario": rec, "observation": o})
                elif k == "machinery":
                    raise MachineryError(t)
                else:
                    # the record in the file was printed by the model of the tree it was recorded on
                    print(f"note: differs from the recorded model behaviour ({t})")
            if not any(k == "property" for k, _ in issues):
                print(f"{s.key()} [schedule {s.sched_key()}]: halmos reports {vr.CLASS_OF[o['exitcode']]} (exit code {o['exitcode']}), "
                      f"required {vr.verdict_required(s.arms)}: the property holds on this scenario")
    finally:
        cleanup(work)
