"""Single source of truth for MANIFEST.json: which properties are claimed, by which engine.

`python -m checks.registry` rewrites /verif/MANIFEST.json.
"""

from __future__ import annotations

import json
from pathlib import Path

VERIF = Path(__file__).resolve().parent.parent

TB = "TLC 1.8; spec/*.tla as written; harness/zeval.py (SMT-LIB semantics, self-tested against z3 simplify); z3/eth_hash"

ENGINES = [
    {
        "name": "E1-reference-machine",
        "path": "spec/Evm.tla spec/EvmRun.tla spec/EvmSmall.tla spec/MC_EvmSmall_*.cfg spec/EvmWord.tla spec/Bytecode.tla spec/Keccak.tla harness/e1.py harness/symstore.py harness/e1corpus.py harness/hrun.py harness/zeval.py harness/progs*.py",
        "serves_properties": ["C01", "C02", "C08", "C09", "C13", "C14"],
        "kind_free_text": "TLC executes the TLA+ reference EVM (256-bit words as byte limbs, all frame invariants checked in every state) on generated programs x inputs; halmos' symbolic paths are evaluated pointwise at the same inputs and every covering path's end state is compared with the TLC terminal state",
    },
    {
        "name": "E1-run-contract",
        "path": "spec/Evm.tla spec/EvmRun.tla harness/artifacts.py harness/testgen.py harness/reftest.py checks/c03.py checks/c04.py",
        "serves_properties": ["C03", "C04"],
        "kind_free_text": "hand-assembled Foundry artifacts are run through halmos' run_contract; TLC executes deploy/setUp/test message sequences on the reference EVM and classifies the outcomes",
    },
    {
        "name": "query-model",
        "path": "spec/SolverQuery.tla spec/MC_SolverQuery*.cfg harness/query_obs.py checks/c11.py",
        "serves_properties": ["C11"],
        "kind_free_text": "TLC checks the serialisation model and validates observations of the dumped SMT-LIB files; the files are re-parsed and evaluated pointwise against the in-memory constraints",
    },
    {
        "name": "E3-schedule-engine",
        "path": "spec/Executor.tla spec/ExecSched.tla spec/ExecMut.tla spec/Trace_Executor.tla spec/MC_Exec*.cfg harness/sched.py harness/exec_*.py checks/c17.py",
        "serves_properties": ["C17"],
        "kind_free_text": "exhaustive TLC exploration of the thread/process lifecycle model; deterministic replay of TLC schedules into the real executor classes; trace validation of real-subprocess runs",
    },
    {
        "name": "testrun-model",
        "path": "spec/TestRun.tla spec/MC_TestRun_*.cfg checks/c20.py harness/artifacts.py",
        "serves_properties": ["C20"],
        "kind_free_text": "TLC checks the isolation invariants on the run_contract model, refutes them on the shared-state variant, and enumerates test orders that are replayed through the real run_contract",
    },
    {
        "name": "frontier-model",
        "path": "spec/Frontier.tla spec/Frontier.cfg spec/PathSlice.tla spec/MC_PathSlice_*.cfg spec/Evm.tla harness/invgen.py harness/pathslice_replay.py checks/c15.py",
        "serves_properties": ["C15"],
        "kind_free_text": "TLC explores all bounded call sequences of generated stateful targets with one reference-EVM transaction per action; halmos' invariant-test verdicts and counterexample sequences are compared / replayed",
    },
    {
        "name": "E2-exploration-model",
        "path": "spec/SymExec.tla spec/MC_SymExec*.cfg harness/symexec_replay.py checks/c10.py",
        "serves_properties": ["C10"],
        "kind_free_text": "TLC explores the exploration algorithm itself (loop unrolling under solver faults); terminal states are replayed into SEVM.run with injected `unknown` answers",
    },
    {
        "name": "abi-model",
        "path": "spec/Abi.tla spec/AbiTypes.tla spec/MC_Abi.tla spec/AbiGen.tla spec/AbiRun.tla harness/abi_replay.py harness/abi_explore.py checks/c12.py",
        "serves_properties": ["C12"],
        "kind_free_text": "TLC model-checks the ABI encoder/decoder specification, enumerates signatures and candidate lists, and decodes / unifies the calldata produced by halmos",
    },
    {
        "name": "config-model",
        "path": "spec/Config.tla spec/MC_Config*.cfg harness/config_replay.py checks/c18.py",
        "serves_properties": ["C18"],
        "kind_free_text": "TLC checks the precedence/grammar model and enumerates layer stacks and option strings with expected outcomes; all are replayed into halmos' configuration code",
    },
    {
        "name": "bytevec-model",
        "path": "spec/ByteSeq.tla spec/ChunkVec.tla spec/MC_ByteSeq.tla spec/MC_ChunkVec.tla spec/MC_ChunkVec_*.cfg harness/bytevec_replay.py checks/c07.py",
        "serves_properties": ["C07"],
        "kind_free_text": "TLC checks that the chunked model refines the flat byte-array model and enumerates operation histories; the histories are replayed into halmos' ByteVec and SEVM memory, every read compared with the flat model",
    },
    {
        "name": "bytecode-model",
        "path": "spec/Bytecode.tla spec/BytecodeRun.tla spec/MC_Bytecode_*.cfg harness/bytecode_replay.py checks/c19.py",
        "serves_properties": ["C19"],
        "kind_free_text": "TLC enumerates codes (concrete and with symbolic bytes), checks the decoding invariants and prints the expected decoding; the records are replayed into halmos' Contract class and jump programs into SEVM.run",
    },
    {
        "name": "unsat-cache-model",
        "path": "spec/UnsatCache.tla spec/Trace_UnsatCache.tla spec/MC_UnsatCache*.cfg spec/MC_Trace_UnsatCache*.cfg harness/unsatcache_replay.py checks/c16.py harness/coreless_solver.py",
        "serves_properties": ["C16"],
        "kind_free_text": "TLC model-checks the unsat-core cache (condition ids, their recycling, the references that pin them) and validates logs recorded from real run_contract executions against the model; cache-on and cache-off runs are compared",
    },
    {
        "name": "verdict-model",
        "path": "spec/Verdict.tla spec/Trace_Verdict.tla spec/MC_Verdict_*.cfg spec/MC_Trace_Verdict.cfg harness/verdict_replay.py harness/stub_solver.py checks/c05.py",
        "serves_properties": ["C05"],
        "kind_free_text": "TLC explores run_test's aggregation with one action per code site (main thread and solver pool threads) for every assignment of path outcomes and solver replies; behaviours are replayed through the real run_contract/_main with a scripted stub solver and gated schedules, and recorded runs are validated against the model",
    },
    {
        "name": "hash-registry-model",
        "path": "spec/HashRegistry.tla spec/MC_HashRegistry_*.cfg harness/hashreg_replay.py checks/c08.py",
        "serves_properties": ["C08"],
        "kind_free_text": "TLC model-checks the registry of hash expressions behind the storage-slot decoding (ids, block-aligned reverse lookup, copies), refutes three design mutations and enumerates operation histories that are replayed into halmos' KeccakRegistry / OffsetMap with all lookup tables compared",
    },
    {
        "name": "main-run-model",
        "path": "spec/MainRun.tla spec/MC_MainRun_*.cfg harness/mainrun_replay.py checks/c05.py checks/c10.py checks/c20.py",
        "serves_properties": ["C05", "C10", "C20"],
        "kind_free_text": "TLC model-checks halmos._main (contract and function selection, one process over several contracts and compilation units, setUp failures, the once-only logger, the process exit code), refutes three design mutations and prints all 1280 terminal states (projects x selections x --depth), which are replayed through the real _main on hand-assembled artifacts (quick tier: the histories in which process-wide state matters plus a sample)",
    },
    {
        "name": "word-tables",
        "path": "spec/EvmWord.tla spec/EvmWordNat.tla spec/WordRefine.tla spec/WordTable.tla harness/wordops.py harness/progs_ops.py checks/c06.py",
        "serves_properties": ["C06"],
        "kind_free_text": "TLC model-checks the limb arithmetic against natural-number definitions and tabulates expected results; the tables are replayed into halmos' bit-vector classes at 8 and 256 bits in every operand representation",
    },
]

CHECKS: dict[str, dict] = {
    "C01": {
        "engine": "E1-reference-machine",
        "technique": "TLA+ reference EVM (Evm.tla) executed by TLC on generated programs x inputs; halmos paths replayed pointwise against the TLC terminal states",
        "text": "Model checking of a reference specification bound to the code by spec->code conformance: every end state halmos reports for a generated program is compared, at boundary/random inputs and at models of its own path constraints, with the terminal state TLC computes on Evm.tla (whose machine invariants are checked in every state). Exploration-strength evidence for the universally quantified statement: a semantic change in any interpreted opcode, memory/calldata/returndata rule, call/creation rule or error kind is detected when a generated program reaches it.",
        "note": "Trusted: Evm.tla/EvmWord.tla (limb arithmetic refined against EvmWordNat by TLC), the Keccak Java override (checked against eth_hash), zeval's interpretation of abstractions, the assembler. Gas, BLOCKHASH, crypto precompiles, SELFDESTRUCT are not modelled (generated programs avoid them).",
        "design_ref": "5 C01, 2.1 E1",
    },
    "C02": {
        "engine": "E1-reference-machine",
        "technique": "E1 coverage: pointwise evaluation of all path constraints at every input, under rotating --solver-timeout-branching / --loop",
        "text": "For every generated program and every input (incl. models of each reported path) at least one reported path must have constraints that hold at the input unless the run was flagged (bounded loop, stuck path, escaped exception); runs rotate the branching timeout over 0/1ms/10s so that solver `unknown`s occur. Detects pruning on non-unsat answers, dropped branches/aliases/candidates and invalid auxiliary axioms at boundary points.",
        "note": "Same trusted base as C01; inputs outside the documented assumptions (balances > 2^128) are not generated.",
        "design_ref": "5 C02",
    },
    "C03": {
        "engine": "E1-run-contract",
        "technique": "TLC brute-forces deploy; setUp(); test(args) on the TLA+ reference EVM over designed and boundary argument tuples; verdicts of the real run_contract compared",
        "text": "Test contracts generated from a grammar of guarded assertion failures are run through halmos' real run_contract (hand-assembled artifacts; yices and z3; both storage layouts; several --panic-error-codes settings). TLC executes deploy; setUp(); test(args) on Evm.tla for one designed tuple per leaf of the decision tree plus a boundary grid and classifies each outcome; a test for which some tuple ends in a configured Panic must not be reported as a clean PASS.",
        "note": "Checked in the direction the property states (failure reachable => not PASS). Static uint256 parameters; failures are Panic(k) raised directly or bubbled from a nested call (the DSTest fail flag is covered by C13's cheatcode model). Same trusted base as C01.",
        "design_ref": "5 C03",
    },
    "C04": {
        "engine": "E1-run-contract",
        "technique": "every counterexample reported by run_contract is replayed by TLC on the TLA+ reference EVM (deploy; setUp; test(model args))",
        "text": "Each model halmos reports for the generated tests (incl. tests whose conditions go through the mul/div/mod abstractions and need refinement) is decoded to an argument tuple and executed on Evm.tla; a model marked valid must end in the configured assertion failure.",
        "note": "Static uint256 parameters only; arguments the model does not mention are free (set to 0). Same trusted base as C01.",
        "design_ref": "5 C04",
    },
    "C05": {
        "engine": "verdict-model",
        "technique": "Verdict.tla (one action per code site of run_test / _main on the main thread and on the solver pool threads; path outcomes and solver replies chosen inside the model) model-checked by TLC; behaviours replayed through the real run_contract/_main with a scripted stub solver under gated schedules; every recorded run validated by Trace_Verdict.tla",
        "text": "Verdict.tla chooses, inside the model, an assignment of outcomes {success, revert, panic, fail flag, stuck} to up to 3 (thorough 4) paths and of replies {sat+valid model, sat+abstract model, unsat, unknown, timeout, garbage, non-zero exit} to the queries, with and without --early-exit / --cache-solver, and interleaves the main thread (LoopCheck, ClassifyPlain, Submit, StuckSubmit, Join, Aggregate, ExitCode) with the pool threads (WorkerBegin, SolverFinish, ReSolve, Callback, EarlyExit). TLC checks PassOnlyIfClean, CleanPasses, VerdictIsPrecedence, OrderIndependence, NoLostCounterexampleStrict, ExitNonZeroIffNotAllPass, ValidNeverAbstract, OneOutputPerQuery, ShutdownOnlyAfterValid; the two behaviours repaired by a19e257 / 78a52f5 are kept as model mutants that TLC must refute. TLC behaviours (exhaustive with a history variable, and -simulate) are replayed through the real run_contract and _main: one arm of a generated test per path, the solver a scripted stub, the model's schedule forced by in-process gates at the code sites the actions stand for; exit codes, callback outputs in order, which queries reached a solver, shutdown calls and path counts are compared. Every run (also unforced ones with free-running stubs) is recorded and validated against Trace_Verdict.tla. Negative controls: mutated expectation tables, corrupted records and traces, a from_result wrapper mapping unknown to unsat, and run_test recompiled with either repair undone must all be rejected.",
        "note": "A solver that cannot be spawned is outside the property's reply list (unconstrained). 'No path succeeded' together with a timeout accepts ERROR or TIMEOUT (the property gives that case no label). --solver-threads 1 FIFO is model-checked only.",
        "design_ref": "5 C05, A.3",
    },
    "C06": {
        "engine": "word-tables",
        "technique": "TLC tabulates every word-level instruction from EvmWord.tla (limb algorithms model-checked against EvmWordNat.tla); tables replayed into HalmosBitVec/HalmosBool and SEVM.run",
        "text": "TLC first checks that the limb algorithms of EvmWord refine the natural-number definitions (all 8-bit operands on a grid / exhaustively in the thorough tier, 16- and 24-bit grids), then tabulates every operation for all 65 536 8-bit operand pairs and for 256-bit boundary/random vectors; the tables are replayed into the width-generic HalmosBitVec/HalmosBool methods in int-, term- and mixed representations (symbolic results are evaluated pointwise under the exact reading of the abstractions) and, through one-instruction programs, into the real SEVM.run dispatch with concrete, term-backed and boolean-typed operands. Every call is watched for exceptions and latency.",
        "note": "Exhaustive only at 8 bits; at 256 bits boundary x boundary and random vectors. Universal validity over 2^256 operands is not proved (DESIGN section 9). The mirror of SEVM's dispatch in harness/wordops.py is itself validated by the one-instruction programs.",
        "design_ref": "5 C06",
    },
    "C07": {
        "engine": "bytevec-model",
        "technique": "ByteSeq.tla (flat zero-extended byte array) refined by ChunkVec.tla (the chunked representation of bytevec.py, one action per public operation and per code branch); TLC checks the refinement and enumerates operation histories that are replayed into the real ByteVec and the SEVM memory driver",
        "text": "ByteSeq.tla states what a byte sequence is (a flat array read as zero beyond its end); ChunkVec.tla models ByteVec's chunk list with the same case analysis as the code (aligned fast paths, chunk splitting, nested vectors, symbolic chunks) and TLC checks Refines / WellFormed / CopyIndependence / ReadsAgree over all histories of append / set_byte / set_word / set_slice / slice / copy / concretize commands within the bounds, incl. the alias case (a live vector written over exactly one chunk). Model mutants (by-reference aligned store - the behaviour before fix 1a97aee -, wrong fill on slice, aliasing copy, wrong post-state) must be refuted by the matching invariant. Every transition of the state graphs plus random histories of length 40 are replayed into the real ByteVec and into SEVM's memory operations, comparing every read (bytes, words, slices, symbolic terms evaluated pointwise) with ByteSeq; eight source-level broken variants of bytevec.py and corrupted expectation records must all be rejected.",
        "note": "Bounds: <= 3 vectors, depth <= 7 in the exhaustive configurations; lengths and offsets from small profiles. The re-broken variants are source patches applied in memory to the current bytevec.py (a pattern that no longer matches is a machinery error, not a pass).",
        "design_ref": "5 C07, 12",
    },
    "C08": {
        "engine": "E1-reference-machine",
        "technique": "generated store/load programs over Solidity-layout location expressions executed by TLC on the flat slot map of the TLA+ reference EVM; halmos paths compared pointwise under both storage layouts",
        "text": "Programs perform 2-6 stores/loads over location expressions (scalars, mappings with 32-byte and short keys, dynamic arrays, struct offsets, nested to depth 3) written in several syntactic forms (run-time SHA3, PUSH32 of the precomputed hash, additions in either order and re-associated) with symbolic keys and indices, then re-read every location in another form; TLC executes them on Evm.tla (storage is a flat map slot -> word) for inputs from small colliding domains and large values, and every halmos path covering an input must return exactly the reference words, under --storage-layout solidity and generic, for SSTORE/SLOAD and TSTORE/TLOAD; half of the programs fork on a symbolic bit before the final reads. Programs over accounts with symbolic storage (enabled initially or by cheatcode) mix persistent and transient accesses of the same locations. A two-transaction run_contract scenario checks that transient storage written by setUp() is empty in the test. HashRegistry.tla models KeccakRegistry/OffsetMap (ids, block-aligned reverse lookup, copies made at forks and transactions); TLC checks soundness and in-block completeness of every lookup, id stability, completeness of copies and privacy of later registrations, refutes three design mutations, and every enumerated history (operations x hash-value assignments) is replayed into the real classes with the full lookup and id tables compared after each step.",
        "note": "Array indices are kept below 2^64 (halmos' documented hash-range assumption); symbolic base slots end stuck in the solidity layout and are not judged. Two limits of the hash reverse lookup are recorded findings (KNOWN_FINDINGS.json) exercised by fixed probes; the random corpus uses constant forms only within the reach of that mechanism.",
        "design_ref": "5 C08",
    },
    "C09": {
        "engine": "E1-reference-machine",
        "technique": "TLA+ reference EVM with frame invariants (ContextCorrect, StaticNoWrite, BalanceConserved, FailureRestores) checked by TLC; generated call trees replayed into halmos",
        "text": "Call trees (depth 1-4, all call kinds, CREATE/CREATE2, every per-frame outcome, symbolic values and balances) are executed by TLC on Evm.tla with the frame invariants checked in every state; the root's output exposes every frame's context, flags, return data and the final storage/balances, and every halmos path covering an input must reproduce it exactly.",
        "note": "Same trusted base as C01; created-account addresses compared up to renaming; depth-1024 and gas effects not exercised.",
        "design_ref": "5 C09, 3.3",
    },
    "C10": {
        "engine": "E2-exploration-model",
        "technique": "SymExec.tla (SEVM.jumpi unroll accounting with injected solver `unknown`s) model-checked by TLC; every terminal state replayed into SEVM.run with the same fault schedule; run_contract scenarios with captured paths",
        "text": "SymExec.tla models the exploration of a symbolic loop exactly as SEVM.jumpi does it (potential/must answers, per-path visit counts, DFS order, concretised inputs) with the solver allowed to answer `unknown` at chosen queries; TLC checks that an input is dropped only when the bounded flag is raised, that determined loops are never cut and that yielded paths are sound, and prints every terminal state; each is replayed into SEVM.run on the assembled loop with the `unknown`s injected at the same check() calls, and the yielded paths (covered inputs, return value), the flag and the number of solver queries must coincide. At the run_contract level the explored paths of regular tests, setUp() and invariant target calls are captured and evaluated on an argument grid: inputs covered by no path require a loop-bound / --width / --depth warning or a non-PASS status; a concrete loop above the bound must be explored to its end; an unsupported opcode must not end in PASS - in the test itself, one or two frames below it, inside setUp() (also in a nested call of setUp), inside an invariant target, and also when the solver asked to confirm the stopped path answers unknown / garbage / an error / nothing; two contracts of one run with a test of the same signature cut by --depth must both be reported.",
        "note": "The model covers the loop-shaped use of JUMPI (the shape the unrolling bound is about); replay uses a wrapper around Exec.check for fault injection, all other queries reach z3.",
        "design_ref": "5 C10, A.2",
    },
    "C11": {
        "engine": "query-model",
        "technique": "SolverQuery.tla (design model + validation of observations recorded from to_smt2/dump/refine) checked by TLC; dumped SMT-LIB text re-parsed and evaluated pointwise against the in-memory path constraints",
        "text": "SolverQuery.tla models what is serialised for a path (all constraints whatever the in-memory solver holds, plain or guarded-and-named, refinement turning exactly the refinable abstraction declarations into definitions) with invariants QueryHasAllConditions / NamedEncodingEquisat checked by TLC, and validates one observation record per dumped file. For every non-stuck path of programs branching on each arithmetic abstraction, of the E1 families and of run_contract tests (regular tests after setUp, invariant tests extending a sliced state) the real to_smt2/dump/refine are invoked with and without --cache-solver; each of the 4 files is taken apart into an observation (TLC) and re-parsed with z3 and evaluated at the path's inputs: it must be true exactly where the conjunction of Path.conditions is true; refined files are evaluated without any interpretation for the refinable abstractions, so a missing or wrong definition shows up. End to end, the solver is started through a wrapper that journals the text of the file it is started on (two contracts with a test of the same name sharing one --dump-smt-directory, plain and --cache-solver): every journalled text must contain the query of the PathContext being solved, and the verdicts must be those of the tests.",
        "note": "Pointwise agreement on the inputs of the path's table, not a proof of logical equivalence. f_evm_exp is never refined by halmos; queries containing it are compared unrefined only.",
        "design_ref": "5 C11",
    },
    "C12": {
        "engine": "abi-model",
        "technique": "Abi.tla (encoder, strict decoder, layout; 14 invariants model-checked) enumerates type trees and candidate lists; halmos' mk_calldata output is instantiated and decoded/unified by TLC; candidate exploration through SEVM",
        "text": "Abi.tla specifies ABI type trees, head/tail encoding, a strict decoder and the layout function from the Solidity ABI specification; TLC checks Decode(Encode(v)) = v, disjoint leaf ranges and offset validity on the model (with mutated-encoder negative controls), and enumerates signatures (sampled in quick, all 28 922 signatures up to depth 3 / arity 3 in thorough) and candidate-length lists. For each, the calldata built by halmos' real mk_calldata is instantiated for every combination of candidate sizes with recognisable leaf values and handed back to TLC, which decodes it, checks bounds/disjointness/leaf uniqueness/element counts and unifies it with the encoding of an arbitrary tuple of those lengths; a CALLDATALOAD reader program run through SEVM must explore exactly the product of the candidate lists; unsupported types must raise.",
        "note": "Full-width symbols for narrow types and symbolic padding are accepted (every ABI-valid value is an instance). Zero-length static arrays of dynamic element type and non-standard width strings are recorded as notes, outside the property's quantifier.",
        "design_ref": "5 C12",
    },
    "C13": {
        "engine": "E1-reference-machine",
        "technique": "Cheats.tla relation table of the vm.assert* family + vm.assume executed by TLC inside the TLA+ reference EVM; caller programs for every forge-std signature replayed into halmos",
        "text": "Cheats.tla states, from StdAssertions.sol, what each vm.assert* signature asserts (signedness by type, element-wise arrays, length-sensitive bytes/strings) and what vm.assume does; the harness keeps its own list of the 76 signatures and computes the selectors with keccak. For each supported signature a caller program (call depth 1-3, operands from calldata) is executed by TLC on Evm.tla in 'stop' and 'continue' mode and by halmos: inputs violating the relation must be covered by a FailCheatcode path and any other covering path must equal the continue behaviour; inputs satisfying it must not be covered by a failure path; inputs violating an assumption must not be covered at all.",
        "note": "Pointwise on designed boundary points (equal / less / greater / signed-vs-unsigned separating pairs) and small colliding domains, not a universal SMT proof. assertEq/NotEq on string[] and bytes[] raise NotImplementedError in halmos and are skipped (8 signatures). Both Foundry behaviours for a failing assertion are accepted.",
        "design_ref": "5 C13",
    },
    "C14": {
        "engine": "E1-reference-machine",
        "technique": "per-frame prank state machine, state cheatcodes and fresh-value oracle specified in Evm.tla/Cheats.tla and executed by TLC; generated cheatcode histories replayed into halmos",
        "text": "Evm.tla carries a per-frame prank record (single-use / start-stop, optional origin) consumed by CALL/STATICCALL/CREATE/CREATE2 made by that frame only, never by cheatcode calls, nested frames or later messages; deal/store/load/etch/warp/roll/fee/chainId/coinbase/difficulty update the world or the block; the k-th svm.create*/vm.random* call returns the k-th oracle entry shaped by type and width. Prank histories of length 2-6, each state cheatcode followed by reads on the targeted and an untargeted account, and programs with 1-3 fresh values (widths 1..256, byte sizes 0..64, oracle entries random/all-ones/zero, so range, encoding and independence are all visible) are executed by TLC and compared with every covering halmos path.",
        "note": "Where Foundry's behaviour is version dependent (prank over an active prank, pranked DELEGATECALL/CALLCODE, console) the specification says 'unmodelled' and the case is skipped. Dynamic fresh values are compared up to trailing padding. Balances above 2^128 are outside halmos' documented model.",
        "design_ref": "5 C14",
    },
    "C15": {
        "engine": "frontier-model",
        "technique": "Frontier.tla: TLC's breadth-first search over whole-transaction actions (Evm!Run) brute-forces every bounded call sequence; verdicts of run_contract compared and reported sequences replayed on Evm.tla",
        "text": "Frontier.tla specifies bounded invariant testing (any sequence of <= d calls target x function x arguments x sender x value x non-decreasing timestamp from the post-setUp world, targets and senders resolved from the declared filters by Foundry's rules, reverted calls dropped, the invariant and target assertions checked after each call; states merged only when their worlds are equal, by a VIEW). For generated two-word state machines whose functions make the finite domains complete (arguments masked to 0..3, senders compared with one owner, values with 1) TLC decides breakability within depth d and prints a shortest breaking sequence. halmos' run_contract with --invariant-depth d must FAIL iff an invariant break exists; every valid counterexample (call sequence and model captured at the solver callback) is concretised and replayed on Evm.tla and must break the invariant.",
        "note": "Timestamps: the generated targets compare block.timestamp only with the timestamp of an earlier call, so TLC's domain of depth+1 non-decreasing timestamps is complete. A third of the machines declare target/exclude filters (contracts, selectors, senders) through forge-std's getters; Frontier!TargetAddrs/TargetFns/Senders resolve them and the calls / admitted senders halmos sets up are compared with the resolved sets. Recorded findings: an assertion failing inside a target is printed but not part of the verdict; the first call of every sequence runs at setUp's timestamp.",
        "design_ref": "5 C15, A.4",
    },
    "C16": {
        "engine": "unsat-cache-model",
        "technique": "UnsatCache.tla (condition ids, recycling of ids after garbage collection, the two references that pin them, core storage and subset lookup) model-checked by TLC; logs recorded from real run_contract executions validated against Trace_UnsatCache.tla; cache-on vs cache-off differential (also through a solver front-end whose unsat cores are empty)",
        "text": "UnsatCache.tla models what --cache-solver relies on: z3 ast ids name constraints only while the objects live; a stored core is a set of ids; a later query hits when a core is a subset of its ids. TLC checks CacheSound (a hit only on a query that contains a jointly unsatisfiable set of constraints), CoresDenoteUnsat and PinnedStable with both references that keep the ids alive (the futures' callbacks; the shared term_to_vars dict), with either alone, and REFUTES CacheSound when neither is present (id recycled for another constraint). Generated test contracts are run through the real run_contract with and without --cache-solver (and again in a fresh process): every id list, stored core, hit/miss and test boundary is recorded (texts only, gc forced between paths) and the logs are validated by Trace_UnsatCache.tla in one TLC run against the query's own cache-off solver verdict; exit codes, path counts, per-path results and counterexample validity must coincide between cache on and off; parse_unsat_core is driven with 31 solver output shapes. Nine negative controls (corrupted logs, a lookup ignoring an id, a core stored as strict subset, both pins released ...) must be rejected.",
        "note": "Invariant-test probes are not generated. The recorder serialises check_unsat_cores / append_unsat_core, so a data race between them would not be seen. Model-fidelity clauses (the model no longer describes the code) are machinery errors, not violations.",
        "design_ref": "5 C16, 3.4",
    },
    "C17": {
        "engine": "E3-schedule-engine",
        "technique": "Executor.tla (one action per synchronisation point of processes.py) model-checked exhaustively incl. liveness under fairness; TLC schedules replayed into the real PopenExecutor under a deterministic scheduler; real-subprocess traces validated by Trace_Executor.tla",
        "text": "Executor.tla has one action per synchronisation point of submit / worker / cancel / shutdown and is checked exhaustively by TLC for 1-2 jobs (quick) and 3 jobs (thorough): ResultExactlyOnce, NoAcceptAfterShutdown, QuiescentAfterReturnedWait, SnapshotCoversRegistered, TimeoutIsUnknown as invariants, WaitReturns etc. as liveness under fairness; mutated models (and the pre-fix check-outside-the-lock order) are refuted as negative controls. Schedules generated by TLC (all <= 2-preemption schedules of one job, thousands of random 2-3 job schedules) are replayed into the REAL PopenExecutor/PopenFuture with threading, Popen, psutil and the cancel pool substituted by controlled equivalents in the halmos.processes namespace, comparing the projected state and the enabled set after every step; randomized runs with real subprocesses are recorded and validated against Trace_Executor.tla; solve_low_level is driven with stub solvers that answer late (timeout must give `unknown`).",
        "note": "Two remaining genuine behaviours are recorded findings (cancel-before-popen, join-raises-job-exception). Up to two shutdown() calls per executor (any pair of modes). The replay is tied to the current synchronisation points of processes.py.",
        "design_ref": "5 C17, A.1",
    },
    "C18": {
        "engine": "config-model",
        "technique": "TLC enumerates layer stacks / option-value strings from Config.tla (11 design invariants checked); every enumerated case is replayed into halmos' Config, Parse* actions, TOML parser and annotation plumbing",
        "text": "Config.tla specifies precedence resolution (two equivalent forms), solver-command resolution, the grammars of the structured options with strict/tolerant recognisers, Parse/Unparse and annotation scoping; TLC checks 11 invariants (ResolveIsHighest, LayeringMonotone, RecentWinsAmongEquals, SolverCommandPrecedence, RoundTrip, ScopeLocal ...) and enumerates all stacks of <= 4 (quick) / 5 (thorough) layers over 5 sources and all strings up to length 5 / 6 over the option alphabets with their expected classification; each case is replayed through with_overrides / value_with_source / attribute reads / resolved_solver_command / argparse / TOML / with_devdoc / with_natspec / halmos._main and compared. Eight negative controls (wrong comparison in the resolver, silently defaulting parser, leaking annotation, lossy unparse ...) must be rejected in every run.",
        "note": "Inputs the documentation does not settle (blanks, empty items, signs, digit groups, nan/inf, exponents ...) are classified lenient and accept either outcome. A bare timeout number is read as milliseconds (code comment + in-repo annotations).",
        "design_ref": "5 C18, A.5",
    },
    "C19": {
        "engine": "bytecode-model",
        "technique": "Bytecode.tla / BytecodeRun.tla: TLC enumerates every code over a class-preserving alphabet (with symbolic bytes) and checks 11 decoding invariants; the tabulated decoding is replayed into halmos' Contract in every representation and jump programs are executed against Evm.tla",
        "text": "TLC enumerates all byte strings up to length 4 (quick) / 6 (thorough) over an 8-byte alphabet that preserves every decoding class plus a symbolic byte, every concrete-prefix/symbolic-suffix split and every placement of symbolic bytes up to length 4/5, and checks on each code that boundaries form one NextPc chain from 0, jump destinations are exactly the 5b bytes at boundaries, operands are zero-padded slices, STOP lies beyond the end, slices read zero past the end and symbolic codes abstract all their instances. Each record (boundaries, next_pc, operands, jumpdests, slices) is replayed into the real Contract built from bytes, hex, per-byte symbols, wide symbols and a single z3 Concat term; random codes up to 4 KiB are decoded by both; jump programs (JUMP/JUMPI with concrete and symbolic condition into PUSH data, genuine JUMPDESTs, truncated PUSH32, far targets) are judged against TLC's ValidJumpdests and their whole execution against Evm.tla. Negative controls (forgetting PUSH data, no zero padding, 11 mutated expectation records) must be rejected.",
        "note": "Above the first symbolic opcode the instruction length is unknown: halmos' jump destinations are only bounded there (5b or symbolic bytes inside the code). decode_instruction of a symbolic opcode may raise NotConcreteError.",
        "design_ref": "5 C19",
    },
    "C20": {
        "engine": "testrun-model",
        "technique": "TestRun.tla (every test starts from a private copy of the post-setUp state; 'shared' mode as refuted negative control) enumerates all test orders with repetition; each history replayed through one run_contract call",
        "text": "TestRun.tla states EachTestStartsFromSetup and ResultIndependentOfHistory over an abstract world (storage, transient storage, balance, created code, timestamp, frontier cache); TLC proves them for the specified 'copy' mode, refutes them for the 'shared' mode and enumerates every order with repetition of up to 2 (quick) / 3 (thorough) of 18 tests. Each history is replayed in one process through the real run_contract on a contract whose tests write, respectively assert the initial value of, each kind of state (plus two invariant tests sharing the cached frontier): the exit code of every test must equal the model's and its normalised result (verdict, path counts, counterexamples with uid suffixes stripped) must be identical in every history and across repeated runs. The model also carries the configuration in force, the alias cache, learnt substitutions and the solver executor (constant EarlyExit: a test that finds a counterexample shuts its own executor down; a shared executor is the refuted negative control); the histories in which an earlier test fails are replayed again under --early-exit.",
        "note": "Sibling-path isolation is covered by the E1 soundness checks of C01/C09 on branching programs. The abstract world has one key per kind of state.",
        "design_ref": "5 C20",
    },
}

PENDING_REASON ="check not built yet (work in progress; see DESIGN.md section 5)"


def build() -> dict:
    props = [json.loads(l)["id"] for l in (VERIF / "properties.jsonl").read_text().splitlines() if l.strip()]
    checks = []
    for pid in props:
        c = CHECKS.get(pid)
        if not c:
            continue
        checks.append(
            {
                "property_id": pid,
                "quick_cmd": f"bin/check {pid} --tier quick",
                "thorough_cmd": f"bin/check {pid} --tier thorough",
                "evidence_file": f"evidence/{pid}.json",
                "replay_cmd_template": f"bin/check {pid} --replay {{path}}",
                "engine": c["engine"],
                "level_claimed": {"category": c.get("category", "model_checking"), "text": c["text"], "design_ref": c["design_ref"]},
                "level_note": c["note"],
                "technique": c["technique"],
            }
        )
    na = [{"property_id": p, "reason": NOT_APPLICABLE.get(p, PENDING_REASON)} for p in props if p not in CHECKS]
    return {
        "version": 1,
        "setup_cmd": "bin/setup",
        "hooks": {
            "guard": "A16Z_HALMOS_VERIF",
            "enable": "no source hooks: the harness wraps public methods and substitutes module-level names from its own process",
            "baseline_off_cmd": "cd /repo && /venv/bin/python -m pytest -ra -q -p no:cacheprovider --timeout=900 --continue-on-collection-errors",
            "source_commits": [],
            "add_only": True,
        },
        "engines": ENGINES,
        "checks": checks,
        "notes": "Model-based verification with explicit TLA+ specifications (spec/), TLC, and conformance harnesses (harness/). See DESIGN.md. `fix:` commits in /repo are listed in KNOWN_FINDINGS.json under `fixed`.",
        "not_applicable": na,
    }


NOT_APPLICABLE: dict[str, str] = {}

if __name__ == "__main__":
    (VERIF / "MANIFEST.json").write_text(json.dumps(build(), indent=1) + "\n")
    print("MANIFEST.json written:", [c["property_id"] for c in build()["checks"]])
