"""C06 - word-level instruction semantics are exact and total.

1. TLC checks the limb algorithms of EvmWord against the natural-number definitions (WordRefine).
2. TLC tabulates every operation on all 8-bit operand pairs (WordTable, WB = 1); the table is replayed
   into HalmosBitVec / HalmosBool at size 8 in every operand representation.
3. TLC computes the operations on 256-bit boundary/random vectors (WB = 32); replayed into
   HalmosBitVec at size 256 in every representation.
4. One-instruction programs through the real SEVM.run dispatch (E1), incl. boolean-typed operands.
Every implementation call is timed ("promptly") and any exception other than the documented
unsupported shapes is a disagreement ("without an internal exception").
"""

from __future__ import annotations

import json
import random
import signal
import time

import z3

from harness import progs_ops, zeval
from harness.asm import assemble
from harness.common import Check, MachineryError, cleanup, run_tlc, workdir
from harness.e1corpus import Item, describe, run_items
from harness.hrun import TARGET, Prog, Sym
from harness.progs import BOUNDARY, M256
from harness.wordops import OPS1, OPS2, OPS3, Abstractions, BV, HBool, Unsupported, apply_op, result_value

PROMPT_S = 2.0


class Hang(Exception):
    pass


def _alarm(signum, frame):
    raise Hang()


def timed(chk: Check, key: str, fn, prompt: bool = True, limit: float = 20.0):
    """Run fn() under a watchdog; returns (ok, value).  prompt=False for batches of many calls."""
    signal.signal(signal.SIGALRM, _alarm)
    signal.setitimer(signal.ITIMER_REAL, limit)
    t0 = time.time()
    try:
        v = fn()
    except Hang:
        chk.violation(f"{key}:hang", f"{key}: no result within {limit} s", {"case": key})
        return False, None
    except Unsupported:
        return False, None
    except Exception as e:  # noqa: BLE001
        chk.violation(f"{key}:exception:{type(e).__name__}", f"{key}: internal exception {type(e).__name__}: {e}", {"case": key})
        return False, None
    finally:
        signal.setitimer(signal.ITIMER_REAL, 0)
    dt = time.time() - t0
    if prompt and dt > PROMPT_S:
        chk.violation(f"{key}:slow", f"{key}: took {dt:.1f} s", {"case": key})
    return True, v


def mk_operand(rep: str, val: int, size: int, name: str):
    """An operand with concrete meaning `val` in the given representation; returns (object, env)."""
    if rep == "int":
        return BV(val, size=size), {}
    if rep == "term":
        return BV(z3.BitVec(name, size), size=size), {name: val}
    raise ValueError(rep)


# ---------------------------------------------------------------------------------------------


def refine_spec(chk: Check, tier: str, work):
    cfgs = ["MC_WordRefine_W1g.cfg", "MC_WordRefine_W2.cfg", "MC_WordRefine_W3.cfg"]
    if tier == "thorough":
        cfgs[0] = "MC_WordRefine_W1.cfg"
    from concurrent.futures import ThreadPoolExecutor

    with ThreadPoolExecutor(3) as ex:
        results = list(ex.map(lambda cfg: run_tlc("WordRefine", cfg, work=work, expect_violation=True, workers=6), cfgs))
    for cfg, r in zip(cfgs, results):
        if not r.ok:
            raise MachineryError(f"EvmWord does not refine EvmWordNat under {cfg}: {r.violated}\n{r.stdout[-2000:]}")
        chk.add_tlc(r)
        chk.count("spec_refinement_configs")


def table8(chk: Check, tier: str, work):
    r = run_tlc("WordTable", "MC_WordTable_W1.cfg", work=work)
    chk.add_tlc(r)
    rows2 = {}
    rows1 = {}
    rows3 = {}
    for rec in r.records:
        if rec["op"] in OPS2:
            rows2[(rec["op"], rec["a"])] = rec["r"]
        elif rec["op"] in OPS1:
            rows1[rec["op"]] = rec["r"]
        else:
            rows3[(rec["op"], rec["a"], rec["b"])] = rec["r"]
    if len(rows2) != len(OPS2) * 256 or len(rows1) != len(OPS1):
        raise MachineryError(f"incomplete 8-bit table: {len(rows2)} rows")
    g3 = [0, 1, 2, 3, 5, 7, 15, 16, 17, 31, 32, 63, 64, 100, 127, 128, 129, 200, 250, 253, 254, 255]
    abs8 = Abstractions(8)
    sub = list(range(256)) if tier == "thorough" else sorted(set(list(range(0, 20)) + list(range(120, 136)) + list(range(240, 256)) + [31, 32, 33, 63, 64, 65, 100, 200]))
    n = 0
    for op in OPS2:
        if op == "SIGNEXTEND":
            continue  # HalmosBitVec.signextend is defined for 256-bit operands only
        key = f"w8:{op}"
        # int x int: exhaustive
        def all_concrete(op=op):
            bad = None
            for a in range(256):
                A = BV(a, size=8)
                row = rows2[(op, a)]
                for b in range(256):
                    got = result_value(apply_op(op, A, BV(b, size=8), abs_=abs8))
                    if got != row[b] and bad is None:
                        bad = (a, b, row[b], got)
            return bad
        ok, bad = timed(chk, key + ":int-int", all_concrete, prompt=False, limit=600)
        if ok and bad:
            chk.violation(f"{key}:int-int", f"{op}({bad[0]}, {bad[1]}) at 8 bits: specification {bad[2]}, halmos {bad[3]}", {"op": op, "a": bad[0], "b": bad[1], "want": bad[2], "got": bad[3], "rep": "int-int", "size": 8})
        n += 65536
        chk.nontrivial((op, 8, "int-int"))
        # term x term: one symbolic result, evaluated pointwise
        p, q = z3.BitVec("p", 8), z3.BitVec("q", 8)
        ok, res = timed(chk, key + ":term-term", lambda op=op: apply_op(op, BV(p, size=8), BV(q, size=8), abs_=abs8))
        if ok:
            for a in sub:
                for b in sub:
                    got = result_value(res, zeval.Evaluator({"p": a, "q": b}))
                    n += 1
                    if got != rows2[(op, a)][b]:
                        chk.violation(f"{key}:term-term", f"{op}(p, q) at p={a}, q={b} (8 bits): specification {rows2[(op, a)][b]}, halmos term {res} evaluates to {got}", {"op": op, "a": a, "b": b, "rep": "term-term", "size": 8, "term": str(res)})
                        break
                else:
                    continue
                break
            chk.nontrivial((op, 8, "term-term"))
        # int x term and term x int: every concrete first/second operand (fast paths for 0, 1, powers of two ...)
        for rep in ("int-term", "term-int"):
            def mixed(op=op, rep=rep):
                bad = None
                for a in (range(256) if tier == "thorough" else sub):
                    if rep == "int-term":
                        res = apply_op(op, BV(a, size=8), BV(q, size=8), abs_=abs8)
                    else:
                        res = apply_op(op, BV(p, size=8), BV(a, size=8), abs_=abs8)
                    for b in sub:
                        if rep == "int-term":
                            want = rows2[(op, a)][b]
                            got = result_value(res, zeval.Evaluator({"q": b}))
                        else:
                            want = rows2[(op, b)][a]
                            got = result_value(res, zeval.Evaluator({"p": b}))
                        if got != want and bad is None:
                            bad = (a, b, want, got, str(res))
                return bad
            try:
                ok, bad = timed(chk, f"{key}:{rep}", mixed, prompt=False, limit=600)
            except Unsupported:
                ok, bad = False, None
            if ok and bad:
                chk.violation(f"{key}:{rep}", f"{op} {rep} concrete={bad[0]} symbolic={bad[1]} (8 bits): specification {bad[2]}, halmos {bad[3]} ({bad[4]})", {"op": op, "concrete": bad[0], "symbolic": bad[1], "rep": rep, "size": 8})
            n += 256 * len(sub)
        if op == "EXP":
            # --smt-exp-by-const N: a symbolic base raised to a concrete exponent <= N is unrolled into multiplications
            for N in (0, 1, 2, 3, 4, 6, 9):
                for e in range(0, 10):
                    res = apply_op(op, BV(p, size=8), BV(e, size=8), abs_=abs8, smt_exp_by_const=N)
                    for b in sub:
                        got = result_value(res, zeval.Evaluator({"p": b}))
                        n += 1
                        if got != rows2[(op, b)][e]:
                            chk.violation(f"{key}:term-int:smt-exp-by-const-{N}", f"EXP(p, {e}) with --smt-exp-by-const {N} at p={b} (8 bits): specification {rows2[(op, b)][e]}, halmos term {res} evaluates to {got}",
                                          {"op": op, "exponent": e, "base": b, "smt_exp_by_const": N, "size": 8, "term": str(res)})
                            break
            chk.nontrivial((op, 8, "smt-exp-by-const"))
            chk.nontrivial((op, 8, rep))
    for op in OPS1:
        for a in range(256):
            got = result_value(apply_op(op, BV(a, size=8), abs_=abs8))
            n += 1
            if got != rows1[op][a]:
                chk.violation(f"w8:{op}:int", f"{op}({a}) at 8 bits: specification {rows1[op][a]}, halmos {got}", {"op": op, "a": a})
                break
        p = z3.BitVec("p", 8)
        res = apply_op(op, BV(p, size=8), abs_=abs8)
        for a in range(256):
            got = result_value(res, zeval.Evaluator({"p": a}))
            if got != rows1[op][a]:
                chk.violation(f"w8:{op}:term", f"{op}(p) at p={a} (8 bits): specification {rows1[op][a]}, halmos {got}", {"op": op, "a": a})
                break
        chk.nontrivial((op, 8))
    for op in OPS3:
        def tern(op=op):
            bad = None
            for a in g3:
                for b in g3:
                    row = rows3[(op, a, b)]
                    for k, c in enumerate(g3):
                        got = result_value(apply_op(op, BV(a, size=8), BV(b, size=8), BV(c, size=8), abs_=abs8))
                        if got != row[k] and bad is None:
                            bad = (a, b, c, row[k], got)
            return bad
        ok, bad = timed(chk, f"w8:{op}:int", tern, prompt=False, limit=600)
        if ok and bad:
            chk.violation(f"w8:{op}:int", f"{op}{bad[:3]} at 8 bits: specification {bad[3]}, halmos {bad[4]}", {"op": op, "args": bad[:3]})
        n += len(g3) ** 3
        chk.nontrivial((op, 8, "int"))
    chk.count("evaluations", n)
    chk.count("table8_rows", len(r.records))


def vectors256(chk: Check, tier: str, work, rnd: random.Random):
    npairs = 30 if tier == "quick" else 600
    pool = BOUNDARY + [5, 6, 30, 100, 2**32, 2**200 + 5, 2**255 - 2, M256 - 255, M256 - 256]
    small = [0, 1, 2, 7, 8, 30, 31, 32, 33, 64, 255, 256, 257]
    vecs = []

    def word(n):
        return list(n.to_bytes(32, "big"))

    def pick():
        k = rnd.random()
        return rnd.choice(pool) if k < 0.6 else (rnd.getrandbits(256) if k < 0.85 else rnd.getrandbits(rnd.choice([8, 64, 128, 160])))

    for op in OPS2:
        m = npairs if op not in ("EXP",) else max(12, npairs // 5)
        for _ in range(m):
            a, b = pick(), pick()
            if op in ("SHL", "SHR", "SAR", "BYTE", "SIGNEXTEND") and rnd.random() < 0.7:
                a = rnd.choice(small)
            if op == "EXP":
                b = rnd.choice(small + [2**32, 2**64 + 3]) if rnd.random() < 0.8 else pick()
            vecs.append({"op": op, "a": word(a), "b": word(b), "c": word(0)})
    for op in OPS1:
        for _ in range(npairs // 2):
            vecs.append({"op": op, "a": word(pick()), "b": word(0), "c": word(0)})
    for op in OPS3:
        for _ in range(npairs // 2):
            vecs.append({"op": op, "a": word(pick()), "b": word(pick()), "c": word(pick() if rnd.random() < 0.85 else 0)})
        vecs.append({"op": op, "a": word(1), "b": word(2), "c": word(0)})
        vecs.append({"op": op, "a": word(M256 - 1), "b": word(M256 - 1), "c": word(M256 - 1)})
    f = work / "vectors.json"
    f.write_text(json.dumps(vecs))
    r = run_tlc("WordTable", "MC_WordTable_Vec.cfg", work=work, env={"VECTORS": str(f)})
    chk.add_tlc(r)
    want = {}
    for rec in r.records:
        want[rec["i"]] = int.from_bytes(bytes(rec["r"]), "big")
    if len(want) != len(vecs):
        raise MachineryError(f"vectors: {len(want)} results for {len(vecs)} vectors")
    abs256 = Abstractions(256)
    un = lambda bs: int.from_bytes(bytes(bs), "big")  # noqa: E731
    reps2 = [("int", "int"), ("term", "term"), ("int", "term"), ("term", "int")]
    for i, v in enumerate(vecs, start=1):
        op = v["op"]
        a, b, c = un(v["a"]), un(v["b"]), un(v["c"])
        nargs = 1 if op in OPS1 else (3 if op in OPS3 else 2)
        reps = [("int",), ("term",)] if nargs == 1 else (reps2 if nargs == 2 else [("int", "int", "int"), ("term", "term", "term"), ("int", "term", "int"), ("term", "int", "term")])
        for rep in reps:
            env = {}
            args = []
            for nm, val, rp in zip(("p", "q", "r"), (a, b, c), rep):
                o, e = mk_operand(rp, val, 256, nm)
                env.update(e)
                args.append(o)
            key = f"w256:{op}:{'-'.join(rep)}"
            ok, res = timed(chk, key, lambda: apply_op(op, *args, abs_=abs256))
            chk.count("evaluations")
            if not ok:
                continue
            try:
                got = result_value(res, zeval.Evaluator(env))
            except (zeval.Unbound, zeval.Unsupported) as e:
                raise MachineryError(f"cannot evaluate {res}: {e}") from e
            chk.nontrivial((op, 256, rep))
            if got != want[i]:
                chk.violation(key, f"{op}({hex(a)}, {hex(b)}, {hex(c)})[{rep}]: specification {hex(want[i])}, halmos {hex(got)}",
                              {"op": op, "a": hex(a), "b": hex(b), "c": hex(c), "rep": rep, "want": hex(want[i]), "got": hex(got), "term": str(res)[:500]})
    chk.sample({"op": vecs[0]["op"], "a": hex(un(vecs[0]["a"])), "b": hex(un(vecs[0]["b"])), "expected": hex(want[1])})
    chk.count("vectors256", len(vecs))


def sevm_dispatch(chk: Check, tier: str, rnd: random.Random):
    progs = progs_ops.all_oneop(rnd, per_combo=1 if tier == "quick" else 6, ninputs=5 if tier == "quick" else 8)
    if tier == "quick":
        # every operation keeps its all-concrete and all-symbolic programs plus a seeded half of the mixed ones
        progs = [pi for pi in progs if set(pi[0].name.split("-")[2:]) <= {"c"} or set(pi[0].name.split("-")[2:]) <= {"s"} or rnd.random() < 0.45]
    # fixed probes for the zero-modulus and huge-exponent corners
    def one(name, items):
        code = assemble(items + [("PUSH", 0), "MSTORE", ("PUSH", 32), ("PUSH", 0), "RETURN"])
        return Prog(accounts={TARGET: code}, calldata=[Sym("cd0", 256)], name=name), [{"cd0": 0}, {"cd0": 7}]
    progs += [
        one("op-probe-addmod-zero", [("PUSH", 0), ("PUSH", 2), ("PUSH", 1), "ADDMOD"]),
        one("op-probe-mulmod-zero", [("PUSH", 0), ("PUSH", 2), ("PUSH", 1), "MULMOD"]),
        one("op-probe-exp-huge", [("PUSH", 2**32), ("PUSH", 3), "EXP"]),
        one("op-probe-not-of-bool", [("PUSH", 1), ("PUSH", 1), "EQ", "NOT"]),
        one("op-probe-not-of-symbool", [("PUSH", 5), ("PUSH", 0), "CALLDATALOAD", "LT", "NOT"]),
    ]
    items = [Item(p, i, key=p.name) for p, i in progs]
    for i in range(0, len(items), 150):
        batch = items[i : i + 150]
        signal.signal(signal.SIGALRM, _alarm)
        signal.setitimer(signal.ITIMER_REAL, 600.0)
        try:
            outs = run_items(batch, chk, witnesses=False)
        except Hang:
            chk.violation("sevm-dispatch:hang", "a one-instruction program did not finish within 600 s", {})
            continue
        finally:
            signal.setitimer(signal.ITIMER_REAL, 0)
        for o in outs:
            chk.count("evaluations")
            if o.item.hr.exception:
                chk.violation(f"{o.item.key}:exception", f"{o.item.key}: exception escaped SEVM.run: {o.item.hr.exception}", describe(o))
                continue
            stuck = [p for p in o.item.hr.paths if p.stuck]
            if stuck and all("NotConcreteError" in (p.stuck_reason or "") for p in stuck) and not o.match.covering:
                chk.count("unsupported_symbolic_shape")
                continue
            for idx, clause in o.clauses:
                chk.violation(f"{o.item.key}:{clause.split(':')[0]}", f"{o.item.key} {o.item.prog.meta.get('expr', '')}: {clause}", describe(o))
            if o.match.covering:
                chk.count("traces_validated_against_impl")
                chk.nontrivial((o.item.key, tuple(sorted(o.inp.items()))))
            elif not stuck and not o.match.unevaluable:
                chk.violation(f"{o.item.key}:uncovered", f"{o.item.key}: no path covers {o.inp}", describe(o))
    chk.count("oneop_programs", len(items))


def negative_control(chk: Check):
    """The replay must reject a wrong implementation: SAR computed as SHR on a negative operand."""
    abs8 = Abstractions(8)
    got = result_value(apply_op("SHR", BV(1, size=8), BV(0x80, size=8), abs_=abs8))
    want_sar = 0xC0
    if got == want_sar:
        raise MachineryError("negative control: SHR is indistinguishable from SAR")
    chk.count("negative_controls_rejected")


def run(chk: Check, tier: str):
    rnd = random.Random(2654435761 * (chk.seed + 1) % (1 << 32))
    work = workdir("c06")
    try:
        refine_spec(chk, tier, work)
        table8(chk, tier, work)
        vectors256(chk, tier, work, rnd)
        sevm_dispatch(chk, tier, rnd)
        negative_control(chk)
    finally:
        cleanup(work)
    chk.cov["exhaustive"] = False
    chk.cov["rule"] = (
        "8-bit: every operation on all 65 536 concrete operand pairs (ternary on a 22^3 grid), term-backed and mixed "
        "representations on a sub-grid (all 256 values in the thorough tier), expected values tabulated by TLC from "
        "EvmWord at WB = 1; 256-bit: boundary x boundary and random vectors computed by TLC at WB = 32 in int/term/mixed "
        "representations; one-instruction programs through SEVM.run with concrete, term-backed and boolean-typed "
        "operands compared with Evm.tla; distinct non-trivial = distinct (operation, width, representation) classes "
        "plus distinct (program, input) pairs"
    )
    chk.assumptions += [
        "EvmWord limb algorithms refine EvmWordNat (checked by TLC in this run: WB=1 grid/exhaustive, WB=2,3 grids)",
        "universality over all 2^256 operands is not proved (DESIGN section 9)",
    ]
