\* EXPECTED TO BE VIOLATED: the verdict is a function of the assignment (early-exit race with a stuck path)
SPECIFICATION Spec
CONSTANTS
  MinPaths = 1
  MaxPaths = 2
  Outcomes = {"success", "panic", "stuck"}
  Replies = {"sat_valid", "unsat", "unknown", "garbage"}
  Replies2 = {"unsat"}
  StuckReplies = {"unsat", "unknown"}
  EarlySet = {TRUE, FALSE}
  CacheSet = {FALSE}
  RefinableSet = {FALSE}
  Threads = 4
  MaxPrev = 0
  PrevCodes = {0}
  RecordHist = FALSE
  Canon = FALSE
  Coarse = FALSE
INVARIANTS OrderIndependence
