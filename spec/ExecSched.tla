------------------------------ MODULE ExecSched ------------------------------
(***************************************************************************)
(* Schedule generator for the replay engine (harness/sched.py): Executor   *)
(* plus the history of <<action label, state projection>> pairs.           *)
(*  - TLC -simulate: random maximal behaviours                             *)
(*  - TLC BFS with the history in the state: EVERY behaviour with at most  *)
(*    MaxPreempt preemptions (a switch away from a thread that could have  *)
(*    continued; steps of the environment are free)                        *)
(* A behaviour is printed (one JSON record) when it has terminated.        *)
(***************************************************************************)
EXTENDS Executor, Json

CONSTANTS MaxPreempt      \* bound on preemptions (BFS mode); simulation uses a large value

VARIABLES hist, cur, npre

hvars == <<vars, hist, cur, npre>>

Proj == [mode |-> mode, flag |-> flag, lock |-> lock, futures |-> futures, spc |-> spc, wpc |-> wpc,
         proc |-> proc, exc |-> exc, delivered |-> delivered, seen |-> seen, hpc |-> hpc,
         snap |-> snap, hidx |-> hidx,
         cw |-> [j \in Jobs |-> cpc[<<"w", j>>]],
         ch |-> [s \in Shuts |-> [j \in Jobs |-> cpc[<<s, j>>]]],
         late |-> late, postret |-> postret, early |-> early, sclosed |-> sclosed]

NoThread == <<"-", "-">>
ThreadOf(a) == <<a.k, a.j>>

ThreadEnabled(t) ==
    CASE t[1] = "sub" -> ENABLED SubNext(t[2])
      [] t[1] = "wrk" -> ENABLED WrkNext(t[2])
      [] t[1] = "can" -> ENABLED CanNext(t[2][1], t[2][2])
      [] t[1] = "shut" -> ENABLED ShutNext(t[2])
      [] OTHER -> FALSE

AllThreads == ({"sub", "wrk"} \X Jobs) \cup ({"can"} \X (Shuts \X Jobs)) \cup ({"shut"} \X Shuts)
EnabledThreads == {t \in AllThreads : ThreadEnabled(t)}

InitH == Init /\ hist = <<>> /\ cur = NoThread /\ npre = 0

NextH ==
    /\ Next
    /\ hist' = Append(hist, [a |-> act', s |-> Proj', en |-> EnabledThreads])
    /\ IF act'.k = "env"
         THEN UNCHANGED <<cur, npre>>
         ELSE /\ cur' = ThreadOf(act')
              /\ npre' = IF cur # NoThread /\ cur # ThreadOf(act') /\ ThreadEnabled(cur)
                           THEN npre + 1 ELSE npre

SpecH == InitH /\ [][NextH]_hvars

Bounded == npre <= MaxPreempt

\* printing hook (configured as an invariant; always TRUE)
Emit == Terminated => PrintT("JREC" \o ToJson([init |-> [mode |-> mode], npre |-> npre, hist |-> hist]))
=============================================================================
