SPECIFICATION Spec
CONSTANTS
  WB = 32
  MEMCAP = 1048576
  MaxSteps = 20000
INVARIANT InvStack
INVARIANT InvMem
INVARIANT InvDepth
INVARIANT InvWords
INVARIANT InvStatic
INVARIANT InvContext
INVARIANT InvBalance
INVARIANT InvFailure
PROPERTY TransientFresh
