\* random schedules, 3 jobs (use with -simulate)
SPECIFICATION SpecH
CONSTANTS
  Jobs = {j1, j2, j3}
  HasTimeout = {j1, j3}
  IgnoresTerm = {j1}
  PopenMayFail = {j2}
  PreFix = FALSE
  CoarseCancel = FALSE
  Modes = {"nowait", "wait"}
  Modes2 = {"none"}
  NeverExits = {}
  MaxPreempt = 1000
INVARIANTS Emit
