\* EXPECTED TO FAIL (reachability witness): shutdown(wait=True) blocked in _join() on a process that never exits,
\* then shutdown(wait=False) from a second caller kills it and both calls return
SPECIFICATION Spec
CONSTANTS
  Jobs = {j1}
  HasTimeout = {}
  IgnoresTerm = {}
  PopenMayFail = {}
  PreFix = FALSE
  CoarseCancel = FALSE
  Modes = {"wait"}
  Modes2 = {"nowait"}
  NeverExits = {j1}
INVARIANTS NoWaitThenNoWaitWitness
