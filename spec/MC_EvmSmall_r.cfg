SPECIFICATION Spec
CONSTANTS
  WB = 1
  MEMCAP = 64
  NR = 2
  NC = 1
  NT = 0
INVARIANT InvStack
INVARIANT InvMem
INVARIANT InvDepth
INVARIANT InvWords
INVARIANT InvStatic
INVARIANT InvContext
INVARIANT InvBalance
INVARIANT InvFailure
INVARIANT InvResult
INVARIANT InvModelled
PROPERTY FrameStep
PROPERTY CreateCounterMonotone
PROPERTY LowerFramesFrozen
PROPERTY OnlyOwnStorage
CHECK_DEADLOCK FALSE
