------------------------------ MODULE Executor ------------------------------
(***************************************************************************)
(* Schedule model of src/halmos/processes.py (PopenExecutor / PopenFuture) *)
(* exactly as the code is written: one action per synchronisation point.   *)
(*                                                                         *)
(* Logical threads                                                         *)
(*   sub j  : the caller of solve_low_level for job j:                     *)
(*            executor.submit(future) ; future.result()                    *)
(*   wrk j  : the thread created by PopenFuture.start (function run())     *)
(*   shut s : a caller of executor.shutdown(wait = mode[s]); s in {s1, s2}: *)
(*            halmos requests shutdown from early-exit callbacks AND from  *)
(*            ExecutorRegistry.shutdown_all() at exit, possibly while a    *)
(*            shutdown(wait=True) is still joining                         *)
(*   can s j: the ThreadPoolExecutor task f.cancel of shut s (wait=False)  *)
(*   env j  : the operating system: the child process of job j exits       *)
(*                                                                         *)
(* Synchronisation point = operation at which the replay scheduler         *)
(* (harness/sched.py) parks the thread: Event.is_set/set, Lock acquire /   *)
(* release, Popen(), communicate(), poll(), psutil.Process()/terminate/    *)
(* wait/kill, stream close, Future.set_result, Future.result,              *)
(* concurrent.futures.wait.  An action = that operation plus the purely    *)
(* thread-local code up to the next synchronisation point.                 *)
(*                                                                         *)
(* The model follows the code as repaired by commit 929919f: submit()      *)
(* tests the shutdown flag UNDER the executor lock (S_Lock, S_Check, then   *)
(* S_AppendStart or S_Reject) and _join() takes its snapshot under the     *)
(* lock (H_Lock, H_Snapshot, H_Unlock).  PreFix = TRUE re-introduces the   *)
(* order of the code before the repair (flag tested outside the lock,      *)
(* snapshot without the lock); it is used only as a negative control:      *)
(* TLC must find the submit-shutdown-toctou counterexample there and the   *)
(* real code must refuse to follow that schedule.                          *)
(* The model is deliberately faithful to the remaining deviations:         *)
(*  - cancel() is a no-op while self.process is still None (C_Begin)       *)
(*  - _join() lets a job's exception escape from shutdown(wait=True)       *)
(*    (H_Join -> "raised")                                                 *)
(*  - cancel() of shutdown closes the pipes while the worker may still be  *)
(*    inside communicate(): the killed job surfaces as a tuple, as an      *)
(*    OSError (W_CommBroken) or as TimeoutExpired (W_Timeout) -- all three *)
(*    observed with real processes (harness/exec_real.py)                  *)
(* The invariants that these deviations break are kept (they are expected  *)
(* to FAIL, MC_Executor_race_*.cfg) and split into the part that holds on  *)
(* every interleaving (QuiescentUnlessCbp, ...) and the race witnesses.    *)
(***************************************************************************)
EXTENDS Naturals, Sequences, FiniteSets, TLC

CONSTANTS
    Jobs,          \* set of jobs (model values)
    HasTimeout,    \* jobs submitted with timeout # None
    IgnoresTerm,   \* jobs whose process survives SIGTERM (needs kill())
    PopenMayFail,  \* jobs whose Popen() may raise OSError
    PreFix,        \* TRUE: the order of the code BEFORE commit 929919f (negative control only)
    CoarseCancel,  \* TRUE: the psutil part of cancel() (Process .. stream close) is ONE step (3-job configuration)
    Modes,         \* subset of {"none", "nowait", "wait"}: shutdown call made by thread shut s1
    Modes2,        \* the same for the second caller, thread shut s2
    NeverExits     \* jobs whose process never exits on its own (only a signal ends it)

ASSUME /\ HasTimeout \subseteq Jobs /\ IgnoresTerm \subseteq Jobs /\ PopenMayFail \subseteq Jobs
       /\ Modes \subseteq {"none", "nowait", "wait"} /\ Modes # {} /\ CoarseCancel \in BOOLEAN /\ PreFix \in BOOLEAN
       /\ Modes2 \subseteq {"none", "nowait", "wait"} /\ Modes2 # {} /\ NeverExits \subseteq Jobs

VARIABLES
    mode,       \* mode[s]: which shutdown call thread shut s makes (fixed in Init)
    flag,       \* PopenExecutor._shutdown (threading.Event)
    lock,       \* PopenExecutor._lock: <<"free">>, <<"sub", j>>, <<"shut", s>>
    futures,    \* PopenExecutor._futures (sequence of jobs)
    spc,        \* pc of sub j
    wpc,        \* pc of wrk j
    proc,       \* child process of j: "none" (self.process is None), "running", "exited", "killed"
    exc,        \* PopenFuture._exception: "none", "timeout", "oserror"
    delivered,  \* number of completed Future.set_result calls
    seen,       \* what future.result() gave to sub j: "none" (not yet), "tuple", "timeout", "oserror"
    hpc,        \* hpc[s]: pc of shut s
    snap, hidx, \* snap[s], hidx[s]: _join() of shut s: list(self._futures) and loop index
    cpc,        \* pc of a cancel() invocation: cpc[<<"w", j>>] inline in wrk j, cpc[<<s, j>>] = thread can s j
    late,       \* history: flag was already set when j was appended      (submit-shutdown-toctou)
    postret,    \* history: shutdown had already returned when j was appended
    sclosed,    \* the pipes of j's Popen object were closed by can j (cancel() of shutdown) -- possibly
                \* under the feet of the worker's communicate()
    early,      \* history: can j found self.process = None while wrk j had not reached Popen (cancel-before-popen)
    act         \* label of the last action [k |-> thread kind, j |-> job | shut | <<shut, job>>, a |-> action name]

vars == <<mode, flag, lock, futures, spc, wpc, proc, exc, delivered, seen, hpc, snap, hidx, cpc,
          late, postret, early, sclosed, act>>
\* everything except the label: VIEW of the safety configurations
View == <<mode, flag, lock, futures, spc, wpc, proc, exc, delivered, seen, hpc, snap, hidx, cpc,
          late, postret, early, sclosed>>

\* jobs are interchangeable when the constant subsets are symmetric (MC_Executor_3.cfg)
JobSymmetry == Permutations(Jobs)

Free == <<"free">>
Shuts == {"s1", "s2"}
ModesOf(s) == IF s = "s1" THEN Modes ELSE Modes2
Sites == {"w"} \cup Shuts
L(k, j, a) == [k |-> k, j |-> j, a |-> a]
SiteLabel(s, j, a) == IF s = "w" THEN L("wrk", j, a) ELSE L("can", <<s, j>>, a)
Range(f) == {f[i] : i \in DOMAIN f}

SubPcs == {"idle", "locked", "checked", "rejecting", "rejected", "started", "waiting", "got"}
WrkPcs == {"idle", "spawned", "communicating", "finally", "cancelling", "setresult", "done"}
CanPcs == {"none", "begin", "poll", "ps", "term", "wait", "kill", "close", "done"}
ShutPcs == {"idle", "flagged", "locked", "waitcancels", "unlock", "snapshot", "joining", "returned", "raised"}

TypeOK ==
    /\ mode \in [Shuts -> {"none", "nowait", "wait"}] /\ \A s \in Shuts : mode[s] \in ModesOf(s)
    /\ flag \in BOOLEAN
    /\ lock \in {Free} \cup {<<"shut", s>> : s \in Shuts} \cup {<<"sub", j>> : j \in Jobs}
    /\ futures \in Seq(Jobs) /\ Len(futures) <= Cardinality(Jobs)
    /\ spc \in [Jobs -> SubPcs] /\ wpc \in [Jobs -> WrkPcs]
    /\ proc \in [Jobs -> {"none", "running", "exited", "killed"}]
    /\ exc \in [Jobs -> {"none", "timeout", "oserror"}]
    /\ delivered \in [Jobs -> 0..2]
    /\ seen \in [Jobs -> {"none", "tuple", "timeout", "oserror"}]
    /\ hpc \in [Shuts -> ShutPcs] /\ snap \in [Shuts -> Seq(Jobs)]
    /\ hidx \in [Shuts -> 0..(Cardinality(Jobs) + 1)]
    /\ cpc \in [Sites \X Jobs -> CanPcs]
    /\ late \in [Jobs -> BOOLEAN] /\ postret \in [Jobs -> BOOLEAN] /\ early \in [Jobs -> BOOLEAN]
    /\ sclosed \in [Jobs -> BOOLEAN]

Init ==
    /\ mode \in {m \in [Shuts -> {"none", "nowait", "wait"}] : \A s \in Shuts : m[s] \in ModesOf(s)}
    /\ flag = FALSE /\ lock = Free /\ futures = <<>>
    /\ spc = [j \in Jobs |-> "idle"] /\ wpc = [j \in Jobs |-> "idle"]
    /\ proc = [j \in Jobs |-> "none"] /\ exc = [j \in Jobs |-> "none"]
    /\ delivered = [j \in Jobs |-> 0] /\ seen = [j \in Jobs |-> "none"]
    /\ hpc = [s \in Shuts |-> "idle"] /\ snap = [s \in Shuts |-> <<>>] /\ hidx = [s \in Shuts |-> 0]
    /\ cpc = [x \in Sites \X Jobs |-> "none"]
    /\ late = [j \in Jobs |-> FALSE] /\ postret = [j \in Jobs |-> FALSE] /\ early = [j \in Jobs |-> FALSE]
    /\ sclosed = [j \in Jobs |-> FALSE]
    /\ act = L("-", "-", "Init")

-----------------------------------------------------------------------------
(* sub j :  submit(future) ; future.result()                               *)

\* `with self._lock:`  (acquire) -- the first thing submit() does
\* (PreFix: acquired after the flag test)
S_Lock(j) ==
    /\ spc[j] = (IF PreFix THEN "checked" ELSE "idle") /\ lock = Free
    /\ lock' = <<"sub", j>>
    /\ spc' = [spc EXCEPT ![j] = "locked"]
    /\ act' = L("sub", j, "S_Lock")
    /\ UNCHANGED <<mode, flag, futures, wpc, proc, exc, delivered, seen, hpc, snap, hidx, cpc, late, postret, early, sclosed>>

\* `if self._shutdown.is_set(): raise ShutdownError()`   -- under the lock
\* (PreFix: outside the lock, first thing submit() does; a refusal then needs no unlock)
S_Check(j) ==
    /\ spc[j] = (IF PreFix THEN "idle" ELSE "locked")
    /\ spc' = [spc EXCEPT ![j] = IF flag THEN (IF PreFix THEN "rejected" ELSE "rejecting") ELSE "checked"]
    /\ act' = L("sub", j, "S_Check")
    /\ UNCHANGED <<mode, flag, lock, futures, wpc, proc, exc, delivered, seen, hpc, snap, hidx, cpc, late, postret, early, sclosed>>

\* the raise leaves `with self._lock:` (release); submit raises ShutdownError
S_Reject(j) ==
    /\ spc[j] = "rejecting"
    /\ lock' = Free
    /\ spc' = [spc EXCEPT ![j] = "rejected"]
    /\ act' = L("sub", j, "S_Reject")
    /\ UNCHANGED <<mode, flag, futures, wpc, proc, exc, delivered, seen, hpc, snap, hidx, cpc, late, postret, early, sclosed>>

\* `self._futures.append(future); future.start()`  (Thread(...).start(): wrk j exists from now on)
S_AppendStart(j) ==
    /\ spc[j] = (IF PreFix THEN "locked" ELSE "checked")
    /\ futures' = Append(futures, j)
    /\ wpc' = [wpc EXCEPT ![j] = "spawned"]
    /\ spc' = [spc EXCEPT ![j] = "started"]
    /\ late' = [late EXCEPT ![j] = flag]
    /\ postret' = [postret EXCEPT ![j] = \E s \in Shuts : hpc[s] \in {"returned", "raised"}]
    /\ act' = L("sub", j, "S_AppendStart")
    /\ UNCHANGED <<mode, flag, lock, proc, exc, delivered, seen, hpc, snap, hidx, cpc, early, sclosed>>

\* leaving `with self._lock:`; submit returns the future
S_Unlock(j) ==
    /\ spc[j] = "started"
    /\ lock' = Free
    /\ spc' = [spc EXCEPT ![j] = "waiting"]
    /\ act' = L("sub", j, "S_Unlock")
    /\ UNCHANGED <<mode, flag, futures, wpc, proc, exc, delivered, seen, hpc, snap, hidx, cpc, late, postret, early, sclosed>>

\* `future.result()`: blocks until set_result; Future.__get_result raises self._exception if it is set,
\* and PopenFuture stores the worker's exception in exactly that attribute.
R_Result(j) ==
    /\ spc[j] = "waiting" /\ delivered[j] >= 1
    /\ seen' = [seen EXCEPT ![j] = IF exc[j] # "none" THEN exc[j] ELSE "tuple"]
    /\ spc' = [spc EXCEPT ![j] = "got"]
    /\ act' = L("sub", j, "R_Result")
    /\ UNCHANGED <<mode, flag, lock, futures, wpc, proc, exc, delivered, hpc, snap, hidx, cpc, late, postret, early, sclosed>>

SubNext(j) == S_Lock(j) \/ S_Check(j) \/ S_Reject(j) \/ S_AppendStart(j) \/ S_Unlock(j) \/ R_Result(j)

-----------------------------------------------------------------------------
(* cancel(): shared by wrk j (site "w", inline in `finally`) and can s j (site s = the shutdown caller) *)

Goto(s, j, p) == cpc' = [cpc EXCEPT ![<<s, j>>] = p] /\ UNCHANGED wpc
Finish(s, j) ==
    /\ cpc' = [cpc EXCEPT ![<<s, j>>] = "done"]
    /\ wpc' = IF s = "w" THEN [wpc EXCEPT ![j] = "setresult"] ELSE wpc

\* start of the pool task: `self.process and ...` -- no process object yet => is_running() is falsy => return
C_Begin(s, j) ==
    /\ cpc[<<s, j>>] = "begin"
    /\ IF proc[j] = "none"
         THEN /\ Finish(s, j)
              /\ early' = [early EXCEPT ![j] = @ \/ (wpc[j] = "spawned")]
         ELSE /\ Goto(s, j, "poll")
              /\ UNCHANGED early
    /\ act' = SiteLabel(s, j, "C_Begin")
    /\ UNCHANGED <<mode, flag, lock, futures, spc, proc, exc, delivered, seen, hpc, snap, hidx, late, postret, sclosed>>

\* `self.process.poll() is None` of the pool task
\* (CoarseCancel: the steps ps .. close, which touch only proc[j] and the pipes of j, are taken at once; their
\*  interleavings with the other threads of the same job are explored by the 1- and 2-job configurations)
C_IsRunning(s, j) ==
    /\ cpc[<<s, j>>] = "poll"
    /\ IF proc[j] = "running"
         THEN IF CoarseCancel
                THEN /\ Finish(s, j)
                     /\ proc' = [proc EXCEPT ![j] = "killed"]
                     /\ sclosed' = [sclosed EXCEPT ![j] = TRUE]
                ELSE Goto(s, j, "ps") /\ UNCHANGED <<proc, sclosed>>
         ELSE Finish(s, j) /\ UNCHANGED <<proc, sclosed>>
    /\ act' = SiteLabel(s, j, "C_IsRunning")
    /\ UNCHANGED <<mode, flag, lock, futures, spc, exc, delivered, seen, hpc, snap, hidx, late, postret, early>>

\* `psutil.Process(pid)` + `children(recursive=True)`
C_PsProcess(s, j) ==
    /\ cpc[<<s, j>>] = "ps"
    /\ Goto(s, j, "term")
    /\ act' = SiteLabel(s, j, "C_PsProcess")
    /\ UNCHANGED <<mode, flag, lock, futures, spc, proc, exc, delivered, seen, hpc, snap, hidx, late, postret, early, sclosed>>

\* psutil.NoSuchProcess (process died and was reaped meanwhile): skip to the stream clean-up
C_PsGone(s, j) ==
    /\ cpc[<<s, j>>] = "ps" /\ proc[j] # "running"
    /\ Goto(s, j, "close")
    /\ act' = SiteLabel(s, j, "C_PsGone")
    /\ UNCHANGED <<mode, flag, lock, futures, spc, proc, exc, delivered, seen, hpc, snap, hidx, late, postret, early, sclosed>>

\* `for process in processes: process.terminate()`
C_Terminate(s, j) ==
    /\ cpc[<<s, j>>] = "term"
    /\ proc' = IF proc[j] = "running" /\ j \notin IgnoresTerm THEN [proc EXCEPT ![j] = "killed"] ELSE proc
    /\ Goto(s, j, "wait")
    /\ act' = SiteLabel(s, j, "C_Terminate")
    /\ UNCHANGED <<mode, flag, lock, futures, spc, exc, delivered, seen, hpc, snap, hidx, late, postret, early, sclosed>>

\* `parent_process.wait(timeout=0.5)`: returns when the process is gone or after the grace period
C_Wait(s, j) ==
    /\ cpc[<<s, j>>] = "wait"
    /\ Goto(s, j, "kill")
    /\ act' = SiteLabel(s, j, "C_Wait")
    /\ UNCHANGED <<mode, flag, lock, futures, spc, proc, exc, delivered, seen, hpc, snap, hidx, late, postret, early, sclosed>>

\* `if process.is_running(): process.kill()`
C_Kill(s, j) ==
    /\ cpc[<<s, j>>] = "kill"
    /\ proc' = IF proc[j] = "running" THEN [proc EXCEPT ![j] = "killed"] ELSE proc
    /\ Goto(s, j, "close")
    /\ act' = SiteLabel(s, j, "C_Kill")
    /\ UNCHANGED <<mode, flag, lock, futures, spc, exc, delivered, seen, hpc, snap, hidx, late, postret, early, sclosed>>

\* closing stdout/stderr/stdin of the Popen object; cancel() returns
C_Close(s, j) ==
    /\ cpc[<<s, j>>] = "close"
    /\ Finish(s, j)
    /\ sclosed' = IF s # "w" THEN [sclosed EXCEPT ![j] = TRUE] ELSE sclosed
    /\ act' = SiteLabel(s, j, "C_Close")
    /\ UNCHANGED <<mode, flag, lock, futures, spc, proc, exc, delivered, seen, hpc, snap, hidx, late, postret, early>>

CancelSteps(s, j) ==
    C_PsProcess(s, j) \/ C_PsGone(s, j) \/ C_Terminate(s, j) \/ C_Wait(s, j) \/ C_Kill(s, j) \/ C_Close(s, j)

CanNext(s, j) == C_Begin(s, j) \/ C_IsRunning(s, j) \/ CancelSteps(s, j)

-----------------------------------------------------------------------------
(* wrk j : run() of PopenFuture.start                                                                *)

\* `self.process = Popen(...)`
W_Popen(j) ==
    /\ wpc[j] = "spawned"
    /\ proc' = [proc EXCEPT ![j] = "running"]
    /\ wpc' = [wpc EXCEPT ![j] = "communicating"]
    /\ act' = L("wrk", j, "W_Popen")
    /\ UNCHANGED <<mode, flag, lock, futures, spc, exc, delivered, seen, hpc, snap, hidx, cpc, late, postret, early, sclosed>>

\* Popen raises (command not found, EMFILE, ...): self.process stays None, `finally` skips cancel()
W_PopenFail(j) ==
    /\ j \in PopenMayFail /\ wpc[j] = "spawned"
    /\ exc' = [exc EXCEPT ![j] = "oserror"]
    /\ wpc' = [wpc EXCEPT ![j] = "setresult"]
    /\ act' = L("wrk", j, "W_PopenFail")
    /\ UNCHANGED <<mode, flag, lock, futures, spc, proc, delivered, seen, hpc, snap, hidx, cpc, late, postret, early, sclosed>>

\* communicate() returns: the process has terminated (by itself or by a signal)
W_Return(j) ==
    /\ wpc[j] = "communicating" /\ proc[j] \in {"exited", "killed"}
    /\ wpc' = [wpc EXCEPT ![j] = "finally"]
    /\ act' = L("wrk", j, "W_Return")
    /\ UNCHANGED <<mode, flag, lock, futures, spc, proc, exc, delivered, seen, hpc, snap, hidx, cpc, late, postret, early, sclosed>>

\* communicate(timeout) raises TimeoutExpired: the limit expired while the process ran -- or cancel() of
\* shutdown closed the pipes under communicate(), which then does not see the end of the output any more
\* (observed with real processes: the killed job is reported as TimeoutExpired when its limit expires)
W_Timeout(j) ==
    /\ j \in HasTimeout /\ wpc[j] = "communicating" /\ (proc[j] = "running" \/ sclosed[j])
    /\ exc' = [exc EXCEPT ![j] = "timeout"]
    /\ wpc' = [wpc EXCEPT ![j] = "finally"]
    /\ act' = L("wrk", j, "W_Timeout")
    /\ UNCHANGED <<mode, flag, lock, futures, spc, proc, delivered, seen, hpc, snap, hidx, cpc, late, postret, early, sclosed>>

\* communicate() raises OSError(EBADF) / ValueError because cancel() of shutdown closed the pipes meanwhile
\* (observed with real processes); stored like any other exception
W_CommBroken(j) ==
    /\ wpc[j] = "communicating" /\ sclosed[j]
    /\ exc' = [exc EXCEPT ![j] = "oserror"]
    /\ wpc' = [wpc EXCEPT ![j] = "finally"]
    /\ act' = L("wrk", j, "W_CommBroken")
    /\ UNCHANGED <<mode, flag, lock, futures, spc, proc, delivered, seen, hpc, snap, hidx, cpc, late, postret, early, sclosed>>

\* `finally: if self.process: self.cancel()` -- the synchronisation point is the poll() of is_running()
W_FinallyCancel(j) ==
    /\ wpc[j] = "finally"
    /\ IF proc[j] = "running"
         THEN IF CoarseCancel
                THEN /\ wpc' = [wpc EXCEPT ![j] = "setresult"]
                     /\ cpc' = [cpc EXCEPT ![<<"w", j>>] = "done"]
                     /\ proc' = [proc EXCEPT ![j] = "killed"]
                ELSE /\ wpc' = [wpc EXCEPT ![j] = "cancelling"]
                     /\ cpc' = [cpc EXCEPT ![<<"w", j>>] = "ps"]
                     /\ UNCHANGED proc
         ELSE /\ wpc' = [wpc EXCEPT ![j] = "setresult"]
              /\ UNCHANGED <<cpc, proc>>
    /\ act' = L("wrk", j, "W_FinallyCancel")
    /\ UNCHANGED <<mode, flag, lock, futures, spc, exc, delivered, seen, hpc, snap, hidx, late, postret, early, sclosed>>

\* `self.set_result((stdout, stderr, returncode))`
W_SetResult(j) ==
    /\ wpc[j] = "setresult"
    /\ delivered' = [delivered EXCEPT ![j] = @ + 1]
    /\ wpc' = [wpc EXCEPT ![j] = "done"]
    /\ act' = L("wrk", j, "W_SetResult")
    /\ UNCHANGED <<mode, flag, lock, futures, spc, proc, exc, seen, hpc, snap, hidx, cpc, late, postret, early, sclosed>>

WrkNext(j) ==
    \/ W_Popen(j) \/ W_PopenFail(j) \/ W_Return(j) \/ W_Timeout(j) \/ W_CommBroken(j)
    \/ W_FinallyCancel(j) \/ W_SetResult(j)
    \/ (wpc[j] = "cancelling" /\ CancelSteps("w", j))

-----------------------------------------------------------------------------
(* shut s : shutdown(wait = (mode[s] = "wait"))                                                       *)

HGo(s, p) == hpc' = [hpc EXCEPT ![s] = p]

\* `self._shutdown.set()`  (idempotent: a later caller sets it again and goes on with its own work)
H_SetFlag(s) ==
    /\ hpc[s] = "idle" /\ mode[s] # "none"
    /\ flag' = TRUE
    /\ HGo(s, IF PreFix /\ mode[s] = "wait" THEN "snapshot" ELSE "flagged")
    /\ act' = L("shut", s, "H_SetFlag")
    /\ UNCHANGED <<mode, lock, futures, spc, wpc, proc, exc, delivered, seen, snap, hidx, cpc, late, postret, early, sclosed>>

\* wait=False: `with self._lock, ThreadPoolExecutor() as executor:` (acquire)
\* wait=True : `with self._lock:` of _join() (acquire)
H_Lock(s) ==
    /\ hpc[s] = "flagged" /\ lock = Free
    /\ lock' = <<"shut", s>>
    /\ HGo(s, "locked")
    /\ act' = L("shut", s, "H_Lock")
    /\ UNCHANGED <<mode, flag, futures, spc, wpc, proc, exc, delivered, seen, snap, hidx, cpc, late, postret, early, sclosed>>

\* `cancel_tasks = [executor.submit(f.cancel) for f in self._futures]`: one thread can s j per registered job
H_CancelAll(s) ==
    /\ hpc[s] = "locked" /\ mode[s] = "nowait"
    /\ cpc' = [x \in Sites \X Jobs |-> IF x[1] = s /\ x[2] \in Range(futures) THEN "begin" ELSE cpc[x]]
    /\ HGo(s, "waitcancels")
    /\ act' = L("shut", s, "H_CancelAll")
    /\ UNCHANGED <<mode, flag, lock, futures, spc, wpc, proc, exc, delivered, seen, snap, hidx, late, postret, early, sclosed>>

\* `concurrent.futures.wait(cancel_tasks)` (and the pool's own shutdown(wait=True))
H_WaitCancels(s) ==
    /\ hpc[s] = "waitcancels"
    /\ \A j \in Jobs : cpc[<<s, j>>] \in {"none", "done"}
    /\ HGo(s, "unlock")
    /\ act' = L("shut", s, "H_WaitCancels")
    /\ UNCHANGED <<mode, flag, lock, futures, spc, wpc, proc, exc, delivered, seen, snap, hidx, cpc, late, postret, early, sclosed>>

\* wait=True: `futures = list(self._futures)` in _join(), under the lock
\* (PreFix: read WITHOUT the lock, directly after the flag was set)
H_Snapshot(s) ==
    /\ hpc[s] = (IF PreFix THEN "snapshot" ELSE "locked") /\ mode[s] = "wait"
    /\ snap' = [snap EXCEPT ![s] = futures] /\ hidx' = [hidx EXCEPT ![s] = 1]
    /\ HGo(s, IF PreFix THEN (IF futures = <<>> THEN "returned" ELSE "joining") ELSE "unlock")
    /\ act' = L("shut", s, "H_Snapshot")
    /\ UNCHANGED <<mode, flag, lock, futures, spc, wpc, proc, exc, delivered, seen, cpc, late, postret, early, sclosed>>

\* release of the lock; wait=False: shutdown returns; wait=True: _join() starts waiting (or returns at once)
H_Unlock(s) ==
    /\ hpc[s] = "unlock"
    /\ lock' = Free
    /\ HGo(s, IF mode[s] = "nowait" \/ snap[s] = <<>> THEN "returned" ELSE "joining")
    /\ act' = L("shut", s, "H_Unlock")
    /\ UNCHANGED <<mode, flag, futures, spc, wpc, proc, exc, delivered, seen, snap, hidx, cpc, late, postret, early, sclosed>>

\* `future.result()` of the hidx-th snapshot entry; a stored exception is re-raised and leaves shutdown()
\* (only CancelledError is suppressed), the remaining futures are then NOT waited for.
H_Join(s) ==
    /\ hpc[s] = "joining" /\ delivered[snap[s][hidx[s]]] >= 1
    /\ IF exc[snap[s][hidx[s]]] # "none"
         THEN HGo(s, "raised") /\ UNCHANGED hidx
         ELSE IF hidx[s] = Len(snap[s])
                THEN HGo(s, "returned") /\ UNCHANGED hidx
                ELSE UNCHANGED hpc /\ hidx' = [hidx EXCEPT ![s] = @ + 1]
    /\ act' = L("shut", s, "H_Join")
    /\ UNCHANGED <<mode, flag, lock, futures, spc, wpc, proc, exc, delivered, seen, snap, cpc, late, postret, early, sclosed>>

ShutNext(s) ==
    H_SetFlag(s) \/ H_Lock(s) \/ H_CancelAll(s) \/ H_WaitCancels(s) \/ H_Unlock(s) \/ H_Snapshot(s) \/ H_Join(s)

-----------------------------------------------------------------------------
(* env j                                                                                              *)

Env_Exit(j) ==
    /\ proc[j] = "running" /\ j \notin NeverExits
    /\ proc' = [proc EXCEPT ![j] = "exited"]
    /\ act' = L("env", j, "Env_Exit")
    /\ UNCHANGED <<mode, flag, lock, futures, spc, wpc, exc, delivered, seen, hpc, snap, hidx, cpc, late, postret, early, sclosed>>

-----------------------------------------------------------------------------
Next ==
    \/ \E j \in Jobs : SubNext(j)
    \/ \E j \in Jobs : WrkNext(j)
    \/ \E s \in Shuts, j \in Jobs : CanNext(s, j)
    \/ \E j \in Jobs : Env_Exit(j)
    \/ \E s \in Shuts : ShutNext(s)

Spec == Init /\ [][Next]_vars

\* Fairness: every thread keeps running; a process without time limit is assumed to terminate
\* (with timeout=None nothing in the code bounds the wait, that is the caller's choice).
FairSpec ==
    /\ Spec
    /\ \A j \in Jobs : WF_vars(SubNext(j)) /\ WF_vars(WrkNext(j))
    /\ \A s \in Shuts, j \in Jobs : WF_vars(CanNext(s, j))
    /\ \A j \in Jobs \ (HasTimeout \cup NeverExits) : WF_vars(Env_Exit(j))
    /\ \A s \in Shuts : WF_vars(ShutNext(s))

ShutDone(s) == hpc[s] \in {"returned", "raised"}
Terminated ==
    /\ \A j \in Jobs : spc[j] \in {"rejected", "got"} /\ wpc[j] \in {"idle", "done"}
    /\ \A x \in Sites \X Jobs : cpc[x] \in {"none", "done"}
    /\ \A s \in Shuts : (mode[s] = "none" /\ hpc[s] = "idle") \/ ShutDone(s)

-----------------------------------------------------------------------------
(* Properties that hold on every interleaving                                                         *)

\* a result is delivered at most once ...
ResultAtMostOnce == \A j \in Jobs : delivered[j] <= 1
\* ... only by the worker, after the process is gone, and a finished worker has delivered
ResultConsistent ==
    \A j \in Jobs :
        /\ (delivered[j] = 1) <=> (wpc[j] = "done")
        /\ wpc[j] \in {"setresult", "done"} => proc[j] # "running"
        /\ seen[j] # "none" => delivered[j] = 1
\* ... and exactly once eventually, for every accepted job (liveness, FairSpec)
ResultEventually == \A j \in Jobs : (wpc[j] = "spawned") ~> (delivered[j] = 1)
\* waiting on an accepted job always returns (liveness, FairSpec)
WaitReturns == \A j \in Jobs : (spc[j] = "waiting") ~> (spc[j] = "got")
ShutdownReturns == \A s \in Shuts : (hpc[s] # "idle") ~> ShutDone(s)
Termination == <>[]Terminated

\* a job that ran into its time limit is seen as the TimeoutExpired exception, never as a result tuple;
\* a result tuple is only seen when no exception was stored
TimeoutIsUnknown ==
    \A j \in Jobs :
        /\ (exc[j] = "timeout" /\ seen[j] # "none") => seen[j] = "timeout"
        /\ seen[j] = "tuple" => exc[j] = "none"
        /\ exc[j] = "timeout" => j \in HasTimeout
\* the stored exception is never overwritten or cleared
ExcStable == [][\A j \in Jobs : exc[j] # "none" => exc'[j] = exc[j]]_vars

\* a submit whose flag test sees the flag set is refused (with FlagStable: every submit that starts after
\* shutdown() set the flag is refused -- the sequential part of NoAcceptAfterShutdown)
RejectAfterFlag ==
    [][\A j \in Jobs : (flag /\ spc[j] = (IF PreFix THEN "idle" ELSE "locked") /\ spc'[j] # spc[j])
                          => spc'[j] \in {"rejecting", "rejected"}]_vars
FlagStable == [][flag => flag']_vars

\* every job that is ever registered is covered by every shutdown call: it has a cancel task (wait=False) or is
\* in the snapshot of _join() (wait=True) -- nothing is registered behind shutdown's back
CancelCoversRegistered ==
    \A s \in Shuts :
        (mode[s] = "nowait" /\ hpc[s] \in {"waitcancels", "unlock", "returned"})
            => \A j \in Range(futures) : cpc[<<s, j>>] # "none"
SnapshotCoversRegistered ==
    \A s \in Shuts :
        (mode[s] = "wait" /\ hpc[s] \in {"unlock", "joining", "returned", "raised"}) => snap[s] = futures

\* cancel() of shutdown closes the pipes only when the process is gone
ClosedMeansDead == \A j \in Jobs : sclosed[j] => proc[j] \in {"exited", "killed"}

Running(j) == proc[j] = "running"
ReturnedNoWait(s) == mode[s] = "nowait" /\ hpc[s] = "returned"
AnyReturnedNoWait == \E s \in Shuts : ReturnedNoWait(s)
AnyEarly == \E j \in Jobs : early[j]

\* QuiescentAfterShutdown restricted to what the code achieves: once ANY shutdown(wait=False) call has returned
\* (its cancel tasks have finished), a process can only be (or become) running through the cancel-before-popen
\* race -- whatever other shutdown call came before, runs concurrently or is still blocked in _join()
QuiescentUnlessCbp ==
    AnyReturnedNoWait => \A j \in Jobs : (Running(j) \/ wpc[j] = "spawned") => early[j]
\* ... and only for a job that was registered before shutdown took the lock (it did get its cancel task)
CbpOnlyRegistered == \A j \in Jobs : early[j] => \E s \in Shuts : cpc[<<s, j>>] = "done"
\* shutdown(wait=True) that returns normally has seen every snapshot job delivered
JoinCoversSnapshot ==
    \A s \in Shuts :
        (mode[s] = "wait" /\ hpc[s] = "returned")
            => \A i \in 1..Len(snap[s]) : delivered[snap[s][i]] = 1 /\ ~Running(snap[s][i])

\* Liveness with processes that never exit on their own (NeverExits): a shutdown(wait=False) from any caller
\* releases everybody -- a shutdown(wait=True) blocked in _join() returns, every waiter gets its result --
\* unless the cancel-before-popen race let a process slip through (FairSpec; configurations in which some
\* caller does request shutdown(wait=False))
ShutdownReturnsUnlessCbp == \A s \in Shuts : (hpc[s] # "idle") ~> (ShutDone(s) \/ AnyEarly)
WaitReturnsUnlessCbp == \A j \in Jobs : (spc[j] = "waiting") ~> (spc[j] = "got" \/ AnyEarly)
TerminationUnlessCbp == <>[](Terminated \/ AnyEarly)

-----------------------------------------------------------------------------
(* The property as stated.  After commit 929919f:                                                      *)
(*   NoAcceptAfterShutdown, QuiescentAfterReturnedWait       HOLD (main configurations)                *)
(*   QuiescentAfterShutdown      FAILS, only through cancel-before-popen (QuiescentUnlessCbp holds)    *)
(*   QuiescentAfterShutdownWait  FAILS, only when _join() raised (join-raises-job-exception)           *)
(* With PreFix = TRUE all of them fail through submit-shutdown-toctou (negative control).             *)

\* once a shutdown(wait=False) has returned no process is or becomes running
QuiescentAfterShutdown == AnyReturnedNoWait => \A j \in Jobs : ~Running(j)
\* after a shutdown returned no further job is accepted
NoAcceptAfterShutdown == \A j \in Jobs : ~postret[j]
\* shutdown(wait=True) ends only when nothing is running any more ...
QuiescentAfterShutdownWait == \A s \in Shuts : (mode[s] = "wait" /\ ShutDone(s)) => \A j \in Jobs : ~Running(j)
\* ... which the code achieves when it returns normally
QuiescentAfterReturnedWait ==
    \A s \in Shuts : (mode[s] = "wait" /\ hpc[s] = "returned") => \A j \in Jobs : ~Running(j) /\ wpc[j] # "spawned"
ShutdownWaitDoesNotRaise == \A s \in Shuts : hpc[s] # "raised"

\* race witnesses (each must be reachable: checked as expected invariant violations)
NoToctouWitness == ~(AnyReturnedNoWait /\ \E j \in Jobs : Running(j) /\ postret[j])
NoToctouWaitWitness ==
    ~(\E s \in Shuts : mode[s] = "wait" /\ hpc[s] = "returned" /\ \E j \in Jobs : Running(j) /\ postret[j])
NoCancelBeforePopenWitness == ~(AnyReturnedNoWait /\ \E j \in Jobs : Running(j) /\ early[j])
NoJoinRaiseWitness == ~(\E s \in Shuts : hpc[s] = "raised" /\ \E j \in Jobs : Running(j))
\* two shutdown calls: the pattern halmos produces (early-exit callback / shutdown_all during a join) is reachable
NoWaitThenNoWaitWitness ==
    ~(mode["s1"] = "wait" /\ mode["s2"] = "nowait" /\ hpc["s1"] = "returned" /\ hpc["s2"] = "returned"
      /\ \E j \in Jobs : proc[j] = "killed" /\ j \in NeverExits)
=============================================================================
