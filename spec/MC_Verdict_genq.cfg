\* quick scenario generation: <= 2 paths, reply classes, coarse interleavings (the fail flag outcome comes from gencanonq, gencache, sim4)
SPECIFICATION Spec
CONSTANTS
  MinPaths = 1
  MaxPaths = 2
  Outcomes = {"success", "revert", "panic", "stuck"}
  Replies = {"sat_valid", "sat_abstract", "unsat", "unknown", "garbage"}
  Replies2 = {"sat_valid", "unsat"}
  StuckReplies = {"unsat", "unknown"}
  EarlySet = {TRUE, FALSE}
  CacheSet = {FALSE}
  RefinableSet = {TRUE}
  Threads = 4
  MaxPrev = 0
  PrevCodes = {0}
  RecordHist = TRUE
  Canon = FALSE
  Coarse = TRUE
  MutPrecedence = FALSE
  MutNoCatch = FALSE
  MutKilledEscapes = FALSE
  KilledMayRaise = TRUE
INVARIANTS TypeOK PassOnlyIfClean VerdictModuloKnown OrderIndependenceModuloKnown ExitNonZeroIffNotAllPass ValidNeverAbstract OneOutputPerQuery
