\* refinement: tiny, medium, medium, small
SPECIFICATION Spec
VIEW View
CONSTANTS
  NV = 2
  W = 4
  Depth = 4
  Emit = "none"
  Pick = "all"
  FullLevels = {}
  MedLevels = {2,3}
  TinyLevels = {1}
  AliasLevels = {}
  XOffs = {}
  XLens = {}
  MaxLen = 9
  Mutant = "none"
  Prof <- ProfByLevel
INVARIANT InvFlatTypeOK
INVARIANT InvWellFormed
INVARIANT InvRefines
INVARIANT InvCopyIndependence
INVARIANT InvReadsAgree
