\* validation of recorded event logs (file named by environment variable C16_TRACES)
\* against the faithful pinning model (both references present)
SPECIFICATION TSpec
CONSTANTS
  Ids <- TraceIds
  Cons <- TraceCons
  UnsatFamily = {}
  Unsat <- TraceUnsat
  PinFutures = TRUE
  PinTermVars = TRUE
  MaxTests = 1000000
  MaxInflight = 1000000
  MaxCores = 1000000
INVARIANTS Report TraceCacheSound TraceCoresDenote HashConsed
