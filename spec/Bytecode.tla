------------------------------ MODULE Bytecode ------------------------------
(***************************************************************************)
(* Decoding of EVM code (Yellow Paper 9.4.3 and the definition of the      *)
(* valid jump destinations D(c)).  A code is a sequence of byte values;    *)
(* a byte value is either 0..255 or SYM (-1), an opaque byte whose value   *)
(* is unknown - halmos allows code with symbolic regions.  Program         *)
(* counters are 0-based as in the EVM, sequence indices 1-based.           *)
(***************************************************************************)
EXTENDS Integers, Sequences

SYM == -1                                  \* an opaque (symbolic) byte
IsConcrete(b) == b # SYM

OP_STOP == 0
OP_JUMPDEST == 91
OP_PUSH0 == 95
OP_PUSH1 == 96
OP_PUSH32 == 127

\* number of immediate operand bytes
PushLen(op) == IF op >= OP_PUSH1 /\ op <= OP_PUSH32 THEN op - OP_PUSH0 ELSE 0
InsnLen(op) == 1 + PushLen(op)

\* the opcode at pc; beyond the end of the code the machine sees STOP
OpAt(code, pc) == IF pc >= 0 /\ pc < Len(code) THEN code[pc + 1] ELSE OP_STOP

\* the operand bytes of the PUSHk at pc, right-padded with zeros when the code ends early
PushArg(code, pc) ==
    LET k == PushLen(OpAt(code, pc))
    IN [i \in 1..k |-> IF pc + i < Len(code) THEN code[pc + 1 + i] ELSE 0]

NextPc(code, pc) == pc + InsnLen(OpAt(code, pc))

RECURSIVE BoundariesFrom(_, _, _)
\* instruction boundaries reachable by sequential decoding from pc; decoding cannot continue
\* past an opcode whose value is unknown (its length is unknown)
BoundariesFrom(code, pc, acc) ==
    IF pc >= Len(code) THEN acc
    ELSE IF ~IsConcrete(code[pc + 1]) THEN acc \cup {pc}
    ELSE BoundariesFrom(code, pc + InsnLen(code[pc + 1]), acc \cup {pc})
Boundaries(code) == BoundariesFrom(code, 0, {})

\* D(c): positions of JUMPDEST bytes that are instructions, not PUSH data
ValidJumpdests(code) == {pc \in Boundaries(code) : code[pc + 1] = OP_JUMPDEST}

\* code[off .. off+size) read as zero beyond the end
CodeSlice(code, off, size) ==
    [i \in 1..size |-> IF off + i <= Len(code) THEN code[off + i] ELSE 0]
=============================================================================
