SPECIFICATION Spec
CONSTANTS
  NV = 2
  W = 4
  Depth = 3
  MaxLen = 8
INVARIANT TypeOK
INVARIANT Laws
INVARIANT LenBound
INVARIANT LegalAgrees
