\* negative control: the mutated model must violate QuiescentUnlessRace
SPECIFICATION SpecMut
CONSTANTS
  Jobs = {j1}
  HasTimeout = {j1}
  IgnoresTerm = {}
  PopenMayFail = {j1}
  CoarseCancel = FALSE
  Modes = {"none", "nowait", "wait"}
  Mutation = "cancel_skips"
INVARIANTS QuiescentUnlessRace
