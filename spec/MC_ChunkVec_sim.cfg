\* generator (W=32) for -simulate: three vectors, one random command of the full grid per level, 40 levels
SPECIFICATION Spec
VIEW View
CONSTANTS
  NV = 3
  W = 32
  Depth = 40
  Emit = "leaf"
  Pick = "random"
  FullLevels = {1,2,3,4,5,6,7,8,9,10,11,12,13,14,15,16,17,18,19,20,21,22,23,24,25,26,27,28,29,30,31,32,33,34,35,36,37,38,39,40}
  MedLevels = {}
  TinyLevels = {}
  AliasLevels = {}
  XOffs = {8,31,32,33,40,64,67}
  XLens = {5,32,33}
  MaxLen = 110
  Mutant = "none"
  Prof <- ProfByLevel
INVARIANT InvFlatTypeOK
INVARIANT InvWellFormed
INVARIANT InvRefines
INVARIANT InvCopyIndependence
