SPECIFICATION Spec
CONSTANTS
  WB = 1
  Mode = "table"
