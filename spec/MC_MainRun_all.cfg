SPECIFICATION Spec
CONSTANTS
  Mutation = "none"
INVARIANT ExitCodeMeaning
INVARIANT SelectionExact
INVARIANT EveryCutReported
INVARIANT SetupFailureFails
