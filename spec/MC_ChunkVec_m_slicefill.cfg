\* NEGATIVE CONTROL of the invariants: slice() pads one zero too few - ReadsAgree must fail
SPECIFICATION Spec
VIEW View
CONSTANTS
  NV = 2
  W = 4
  Depth = 4
  Emit = "none"
  Pick = "all"
  FullLevels = {3}
  MedLevels = {}
  TinyLevels = {}
  AliasLevels = {}
  XOffs = {}
  XLens = {}
  MaxLen = 9
  Mutant = "slicefill"
  Prof <- ProfByLevel
INVARIANT InvReadsAgree
