\* NEGATIVE CONTROL of the invariants: copy() aliases the original - CopyIndependence must fail
SPECIFICATION Spec
VIEW View
CONSTANTS
  NV = 2
  W = 4
  Depth = 4
  Emit = "none"
  Pick = "all"
  FullLevels = {3}
  MedLevels = {}
  TinyLevels = {}
  AliasLevels = {}
  XOffs = {}
  XLens = {}
  MaxLen = 9
  Mutant = "copyalias"
  Prof <- ProfByLevel
INVARIANT InvCopyIndependence
