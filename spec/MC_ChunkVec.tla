---------------------------- MODULE MC_ChunkVec ----------------------------
(* Command profiles and level schedules for model checking ChunkVec against ByteSeq and for    *)
(* generating the histories that are replayed into halmos' ByteVec (harness/bytevec_replay.py).*)
EXTENDS ChunkVec

CONSTANTS FullLevels,   \* levels (1 = first command) at which the full grid is used
          MedLevels,    \* levels at which the medium grid is used
          TinyLevels,   \* levels at which the tiny grid is used; all other levels: small grid
          AliasLevels,  \* levels at which only whole-vector set_slice commands are issued
          XOffs,        \* extra write offsets of the full grid (around the word size when W = 32)
          XLens,        \* extra write lengths of the full grid
          MaxLen        \* cap on offset+length of any write

AllKinds == {"conc", "sym", "mixed", "slice", "vec"}
Pairs == {p \in Vecs \X Vecs : p[1] # p[2]}

\* the least that builds multi-chunk vectors with a copy, and writes to both sides afterwards
TinyP ==
    [wv |-> Vecs, offs |-> {}, lens |-> {}, kinds |-> {}, srcs |-> {},
     boffs |-> {1}, bkinds |-> {"conc"}, woffs |-> {}, wkinds |-> {},
     alens |-> {2}, akinds |-> {"conc"},
     slices |-> {}, copies |-> {<<2, 1>>}, maxlen |-> MaxLen]

\* setup / aftermath: builds multi-chunk vectors, rewrites one byte, copies, slices, whole-vector append
SmallP ==
    [wv |-> Vecs, offs |-> {}, lens |-> {}, kinds |-> {}, srcs |-> {},
     boffs |-> {1}, bkinds |-> {"conc"}, woffs |-> {}, wkinds |-> {},
     alens |-> {2}, akinds |-> {"conc", "sym", "vec"},
     slices |-> {<<2, 1, 1, 4>>}, copies |-> {<<2, 1>>}, maxlen |-> MaxLen]

\* every relation between a write and the existing chunk boundaries (chunks of the setup are 1..3
\* bytes long, so offsets 0..6 and lengths 0..4 give: before / at the start of / inside / at the end
\* of / after a chunk, spanning several chunks, exactly one chunk, past the end with and without gap)
FullP ==
    [wv |-> Vecs, offs |-> (0..6) \cup XOffs, lens |-> (0..4) \cup XLens, kinds |-> AllKinds,
     srcs |-> {<<w, a>> : w \in Vecs, a \in {0, 1}},
     boffs |-> (0..7) \cup XOffs, bkinds |-> {"conc", "sym"},
     woffs |-> {0, 1, 2, W} \cup XOffs, wkinds |-> {"conc", "sym", "mixed"},
     alens |-> {1, 2, 3} \cup XLens, akinds |-> AllKinds,
     slices |-> {<<p[1], p[2], a, b>> : p \in Vecs \X Vecs, a \in {0, 1, 3}, b \in {2, 4, 6} \cup XLens},
     copies |-> Pairs, maxlen |-> MaxLen]

MedP ==
    [wv |-> Vecs, offs |-> {0, 1, 2, 3}, lens |-> {1, 2, 3}, kinds |-> {"conc", "slice", "vec"},
     srcs |-> {<<1, 1>>, <<2, 0>>},
     boffs |-> {0, 2}, bkinds |-> {"sym"}, woffs |-> {1}, wkinds |-> {"mixed"},
     alens |-> {2}, akinds |-> {"conc", "sym"},
     slices |-> {<<2, 1, 1, 4>>, <<1, 1, 0, 3>>}, copies |-> {<<2, 1>>}, maxlen |-> MaxLen]

\* only set_slice(off, off+len(w), w) with a whole live vector w: where it lands exactly on one existing
\* chunk this is the case of the former finding bytevec-aligned-nested-alias
AliasP ==
    [wv |-> Vecs, offs |-> 0..4, lens |-> {}, kinds |-> {"vec"}, srcs |-> {},
     boffs |-> {}, bkinds |-> {}, woffs |-> {}, wkinds |-> {},
     alens |-> {}, akinds |-> {}, slices |-> {}, copies |-> {}, maxlen |-> MaxLen]

ProfByLevel(l) ==
    IF l \in AliasLevels THEN AliasP
    ELSE IF l \in FullLevels THEN FullP
    ELSE IF l \in MedLevels THEN MedP
    ELSE IF l \in TinyLevels THEN TinyP
    ELSE SmallP
=============================================================================
