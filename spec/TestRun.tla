------------------------------ MODULE TestRun ------------------------------
(***************************************************************************)
(* run_contract: setUp() is executed once; every selected test then starts *)
(* from a private copy of the post-setUp state, in the order given.        *)
(*                                                                         *)
(* The world is abstracted to a finite map Key -> Value (storage slot,     *)
(* transient slot, a balance, the code size of the next created account,   *)
(* the block timestamp, the cached invariant frontier).  A test is a       *)
(* record [writes, expects]: the keys it changes and the values it asserts *)
(* to find when it starts.  Mode "copy" is the specified behaviour; mode    *)
(* "shared" (tests run on the one mutable state) is the negative control   *)
(* that must violate ResultIndependentOfHistory.                           *)
(*                                                                         *)
(* TLC enumerates every order with repetition of at most MaxLen tests; the  *)
(* terminal histories are printed and replayed through the real            *)
(* run_contract in one process (checks/c20.py).                            *)
(***************************************************************************)
EXTENDS Integers, Sequences, FiniteSets, TLC, Json

CONSTANTS Mode, MaxLen,
          EarlyExit      \* --early-exit: a test that finds a counterexample shuts its solver executor down

\* ("alias": the per-path cache of the deployed account a symbolic address was resolved to)
\*  "cfg": the configuration in force (the --loop bound): per test, from the layers below the function annotation)
\*  "subst": what a path has learnt about a post-setUp symbol (symbol == constant), used to concretise it later on
\*  "exec": the solver executor of the test's solving context has been shut down (1) - no query can be submitted any more
\*  "sha3": the hash expressions the registry of a path has given an id to (a hash registered anew gets its injectivity axioms)
Keys == {"s0", "t0", "bal", "code", "time", "s1", "alias", "cfg", "subst", "exec", "sha3"}
Setup == [k \in Keys |-> CASE k = "s0" -> 7 [] k = "s1" -> 1 [] k = "time" -> 1 [] k = "cfg" -> 2 [] OTHER -> 0]

\* the concrete test functions of harness: checks/c20.py builds one bytecode body per entry
Tests == [
    write_storage  |-> [writes |-> [s0 |-> 5],    expects |-> [s0 |-> 7]],
    read_storage   |-> [writes |-> << >>,          expects |-> [s0 |-> 7, s1 |-> 1]],
    write_transient |-> [writes |-> [t0 |-> 9],   expects |-> << >>],
    read_transient |-> [writes |-> << >>,          expects |-> [t0 |-> 0]],
    write_balance  |-> [writes |-> [bal |-> 1],   expects |-> [bal |-> 0]],
    read_balance   |-> [writes |-> << >>,          expects |-> [bal |-> 0]],
    write_code     |-> [writes |-> [code |-> 1],  expects |-> [code |-> 0]],
    read_code      |-> [writes |-> << >>,          expects |-> [code |-> 0]],
    write_time     |-> [writes |-> [time |-> 100], expects |-> [time |-> 1]],
    read_time      |-> [writes |-> << >>,          expects |-> [time |-> 1]],
    \* both call the symbolic address chosen by setUpSymbolic(address); alias_b fails for one of the accounts it may denote:
    \* it could only pass if some earlier test had already pinned the address to another account
    alias_a        |-> [writes |-> [alias |-> 1], expects |-> << >>],
    alias_b        |-> [writes |-> [alias |-> 1], expects |-> [alias |-> 1]],
    \* annotated carries `@custom:halmos --loop 4`; loopy passes only under the contract's own bound (--loop 2)
    annotated      |-> [writes |-> [cfg |-> 4],   expects |-> << >>],
    loopy          |-> [writes |-> << >>,          expects |-> [cfg |-> 2]],
    \* eq_a branches on `sym == 64`; ret_b returns `sym` bytes of memory: not executable symbolically (ERROR) unless the
    \* symbol had been pinned to a constant - by ret_b itself never
    eq_a           |-> [writes |-> [subst |-> 1], expects |-> << >>],
    ret_b          |-> [writes |-> << >>,          expects |-> [subst |-> 1]],
    \* cond_b fails for sym = 64, whatever ran before: what eq_a's paths assumed about sym (sym # 64 on its fall-through
    \* path) is not a fact about the post-setUp state
    cond_b         |-> [writes |-> << >>,          expects |-> [subst |-> 2]],
    \* hash_a computes keccak(5); hash_b asserts keccak(x) = keccak(5) => x = 5, provable only with the injectivity axioms
    \* that come with the registration of both hashes on its own paths
    hash_a         |-> [writes |-> [sha3 |-> 1],  expects |-> << >>],
    hash_b         |-> [writes |-> [sha3 |-> 1],  expects |-> [sha3 |-> 0]],
    inv_a          |-> [writes |-> << >>,          expects |-> [s1 |-> 1]],
    inv_b          |-> [writes |-> << >>,          expects |-> [s1 |-> 1, s0 |-> 7]]
]
Names == DOMAIN Tests

VARIABLES state,     \* the (supposedly never modified) post-setUp state, or the shared state in mode "shared"
          hist,      \* <<[test, result]>>
          reported
vars == <<state, hist, reported>>

Apply(s, w) == [k \in Keys |-> IF k \in DOMAIN w THEN w[k] ELSE s[k]]
Holds(s, e) == \A k \in DOMAIN e : s[k] = e[k]
\* a test whose executor is already shut down cannot solve anything: it ends without a verdict of its own
Result(start, t) == IF start["exec"] = 1 THEN "ERROR" ELSE IF Holds(start, Tests[t].expects) THEN "PASS" ELSE "FAIL"
\* what a test leaves behind: its writes, and under --early-exit a shut-down executor once it has found a counterexample
Effects(start, t) ==
    LET s1 == Apply(start, Tests[t].writes)
    IN IF EarlyExit /\ Result(start, t) = "FAIL" THEN [s1 EXCEPT !["exec"] = 1] ELSE s1

Init == state = Setup /\ hist = <<>> /\ reported = FALSE

RunTest(t) ==
    /\ Len(hist) < MaxLen /\ ~reported
    /\ LET start == state                      \* "copy": a private copy of `state`; "shared": `state` itself
       IN /\ hist' = Append(hist, [test |-> t, result |-> Result(start, t)])
          /\ state' = IF Mode = "shared" THEN Effects(start, t) ELSE state
    /\ UNCHANGED reported

Report == /\ ~reported /\ Len(hist) > 0
          /\ reported' = TRUE
          /\ PrintT("JREC" \o ToJson(hist))
          /\ UNCHANGED <<state, hist>>

Next == (\E t \in Names : RunTest(t)) \/ Report
Spec == Init /\ [][Next]_vars

\* each test starts from exactly the post-setUp state
EachTestStartsFromSetup == state = Setup
\* the result of a test is a function of the test alone
ResultIndependentOfHistory == \A i \in 1..Len(hist) : hist[i].result = Result(Setup, hist[i].test)
\* every test has a live executor of its own (negative control: mode "shared" with EarlyExit)
ExecutorPrivate == \A i \in 1..Len(hist) : hist[i].result # "ERROR"
=============================================================================
