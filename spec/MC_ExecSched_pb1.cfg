\* every schedule of 1 job with at most MaxPreempt preemptions (BFS, history in the state)
SPECIFICATION SpecH
CONSTANTS
  Jobs = {j1}
  HasTimeout = {j1}
  IgnoresTerm = {j1}
  PopenMayFail = {j1}
  PreFix = FALSE
  CoarseCancel = FALSE
  Modes = {"nowait", "wait"}
  Modes2 = {"none"}
  NeverExits = {}
  MaxPreempt = 1
CONSTRAINT Bounded
INVARIANTS Emit
