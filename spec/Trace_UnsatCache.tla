-------------------------- MODULE Trace_UnsatCache --------------------------
(***************************************************************************)
(* Trace validation (code -> spec) for property C16.                       *)
(*                                                                         *)
(* harness/unsatcache_replay.py records, from wrappers around the          *)
(* UNMODIFIED halmos functions, one event log per `run_contract` call made *)
(* with `--cache-solver`:                                                  *)
(*   test ncores               run_test starts (a new FunctionContext);    *)
(*                             ncores = len(SolvingContext.unsat_cores)    *)
(*   query q ids cons          Path.to_smt2 inside                         *)
(*                             handle_assertion_violation: the id list and,*)
(*                             per id, the (interned) S-expression text of *)
(*                             the condition at serialisation time         *)
(*   check q hit truth nc      check_unsat_cores returned `hit`; `truth`   *)
(*                             is the query's own solver run, made by the  *)
(*                             harness with the cache off; `nc` is the     *)
(*                             number of distinct cores in the list the    *)
(*                             function was given                          *)
(*   core q ids truth          FunctionContext.append_unsat_core; `truth` = *)
(*                             solver run by the harness on the assertions *)
(*                             the core names, alone                       *)
(*   done q                    _solve_end_to_end_callback returned         *)
(*   endtest                   run_test returned                           *)
(* `check` and `core` are linearised by a lock of the recorder.            *)
(*                                                                         *)
(* Each observable event must be the corresponding action of UnsatCache.   *)
(* The exploration steps between two submissions (NewShared / NewFresh /   *)
(* NewRecycled / Branch / ReleasePath / Reclaim) are not observed; their   *)
(* composition is the step `Jump`: the id map may change arbitrarily       *)
(* EXCEPT that a pinned id keeps its constraint (UnsatCache!PinnedStable,  *)
(* model-checked) and that a live object is not duplicated (HashConsed).   *)
(* The satisfiability relation comes from the harness: the family holds    *)
(* the constraint sets of the queries whose own solver run is unsat and    *)
(* the constraint sets of the stored cores that a solver run confirmed.    *)
(*                                                                         *)
(* A log is rejected - with the failing clause named - when                *)
(*   core-id-rebound      an id held in a stored core denotes a different  *)
(*                        constraint in a later query of the same test     *)
(*   pinned-id-rebound    the same for an id the model says is pinned      *)
(*   hit-without-core     a hit although no stored core is a subset        *)
(*   miss-despite-core    a miss although some stored core is a subset     *)
(*   hit-on-sat-query     CacheSound: the constraints of the query contain *)
(*                        no jointly unsatisfiable set                     *)
(*   hit-truth-not-unsat  the query's own solver run is sat                *)
(*   core-not-subset / core-not-unsat   the stored core is not a jointly   *)
(*                        unsatisfiable subset of its query's assertions   *)
(*   cores-survive-test   a new test starts with a non-empty core list     *)
(*   core-list-mismatch   the core list seen by check_unsat_cores has not   *)
(*                        the size of the model's `cores`                  *)
(***************************************************************************)
EXTENDS UnsatCache, Sequences, Json, IOUtils

Data == JsonDeserialize(IOEnv.C16_TRACES)
Traces == Data.traces
SeqSet(s) == {s[k] : k \in 1..Len(s)}
TraceIds == Nat
TraceCons == Nat

VARIABLES tid, evs, fam, i, phase, qmap

tvars == <<vars, tid, evs, fam, i, phase, qmap>>

\* the satisfiability relation of the picked log (the configuration replaces UnsatCache!Unsat by it)
TraceUnsat(S) == \E U \in fam : U \subseteq S

Ev == evs   \* the picked log and its family travel in the state: TLC re-reads `Data` from the file at every mention
Done == i = Len(Ev)
E == Ev[i + 1]

\* one initial state; the first step picks the log (initial states are enumerated by a single thread)
TInit ==
    /\ tid = 0 /\ evs = <<>> /\ fam = {}
    /\ Init
    /\ i = 0 /\ phase = 0 /\ qmap = <<>>

TStart ==
    /\ tid = 0
    /\ LET tr == Traces IN \E t \in 1..Len(tr) :
          /\ tid' = t /\ evs' = tr[t].events
          /\ fam' = {SeqSet(tr[t].family[k]) : k \in 1..Len(tr[t].family)}
    /\ UNCHANGED <<vars, i, phase, qmap>>

MapOf(e) == [k \in SeqSet(e.ids) |-> e.cons[CHOOSE n \in 1..Len(e.ids) : e.ids[n] = k]]
Q(n, st) == [ids |-> qmap[n], st |-> st]
Known(n) == n \in DOMAIN qmap
AllPinned == pinned \cup tvpinned

Rebound(m) == {k \in DOMAIN m \cap DOMAIN alive : alive[k] # m[k]}
Moved(m) == {j \in DOMAIN alive \ DOMAIN m : alive[j] \in Range(m)}

WhyQuery(e) ==
    LET m == MapOf(e) IN
    IF Len(e.ids) # Len(e.cons) \/ Cardinality(SeqSet(e.ids)) # Len(e.ids) THEN "malformed-query"
    ELSE IF Cardinality(Range(m)) # Len(e.ids) THEN "query-not-hashconsed"
    ELSE IF Rebound(m) \cap UNION cores # {} THEN "core-id-rebound"
    ELSE IF Rebound(m) \cap AllPinned # {} THEN "pinned-id-rebound"
    ELSE IF Moved(m) \cap AllPinned # {} THEN "pinned-object-duplicated"
    ELSE "ok"

WhyCheck(e) ==
    IF ~ Known(e.q) \/ Q(e.q, "submitted") \notin queries THEN "query-not-submitted"
    ELSE LET q == Q(e.q, "submitted") IN
         IF e.nc # Cardinality(cores) THEN "core-list-mismatch"
         ELSE IF e.hit THEN
              IF ~ HitEnabled(q) THEN "hit-without-core"
              ELSE IF ~ Unsat(Range(q.ids)) THEN "hit-on-sat-query"
              ELSE IF e.truth = "sat" THEN "hit-truth-not-unsat"
              ELSE "ok"
         ELSE IF HitEnabled(q) THEN "miss-despite-core" ELSE "ok"

WhyCore(e) ==
    IF ~ Known(e.q) \/ Q(e.q, "solving") \notin queries THEN "query-not-solving"
    ELSE LET q == Q(e.q, "solving") IN
         IF SeqSet(e.ids) = {} THEN "core-empty"
         ELSE IF ~ (SeqSet(e.ids) \subseteq DOMAIN q.ids) THEN "core-not-subset"
         ELSE IF e.truth = "sat" THEN "core-not-unsat"
         ELSE IF ~ Unsat(ConsOf(q, SeqSet(e.ids))) THEN "core-not-in-family"
         ELSE "ok"

WhyNext ==
    IF Done THEN "done"
    ELSE CASE E.e = "query" -> IF phase = 0 THEN WhyQuery(E) ELSE "ok"
           [] E.e = "check" -> WhyCheck(E)
           [] E.e = "core" -> WhyCore(E)
           [] E.e = "done" -> "ok"
           [] E.e = "test" -> IF cores # {} \/ E.ncores # 0 THEN "cores-survive-test" ELSE "ok"
           [] E.e = "endtest" -> IF Inflight # {} THEN "inflight-at-endtest" ELSE "ok"
           [] OTHER -> "unknown-event"

Consume == i' = i + 1 /\ phase' = 0 /\ UNCHANGED <<tid, evs, fam>>

(* hidden exploration steps between two submissions, in closed form *)
Jump(e) ==
    LET m == MapOf(e)
        keep == (DOMAIN alive \ Moved(m)) \cup DOMAIN m
    IN  /\ alive' = [x \in keep |-> IF x \in DOMAIN m THEN m[x] ELSE alive[x]]
        /\ freeIds' = (freeIds \cup Moved(m)) \ DOMAIN m
        /\ cur' = DOMAIN m /\ held' = {}
        /\ tvpinned' = IF PinTermVars THEN tvpinned \cup DOMAIN m ELSE tvpinned
        /\ UNCHANGED <<pinned, cores, queries, test>>

TQuery ==
    /\ E.e = "query"
    /\ \/ /\ phase = 0 /\ Jump(E)
          /\ phase' = 1 /\ UNCHANGED <<tid, evs, fam, i, qmap>>
       \/ /\ phase = 1 /\ Submit
          /\ qmap' = [n \in DOMAIN qmap \cup {E.q} |-> IF n = E.q THEN Restrict(alive, cur) ELSE qmap[n]]
          /\ Consume

TCheck ==
    /\ E.e = "check"
    /\ IF E.hit THEN CacheHit(Q(E.q, "submitted")) ELSE CacheMiss(Q(E.q, "submitted"))
    /\ Consume /\ UNCHANGED qmap

TCore ==
    /\ E.e = "core"
    /\ SolverUnsat(Q(E.q, "solving"), SeqSet(E.ids))
    /\ Consume /\ UNCHANGED qmap

TDone ==
    /\ E.e = "done"
    /\ IF Known(E.q) /\ Q(E.q, "solving") \in queries
          THEN SolverNoCore(Q(E.q, "solving"))
          ELSE UNCHANGED vars
    /\ Consume /\ UNCHANGED qmap

TTest ==
    /\ E.e = "test"
    /\ UNCHANGED vars
    /\ Consume /\ UNCHANGED qmap

TEndTest ==
    /\ E.e = "endtest"
    /\ EndTest
    /\ Consume /\ qmap' = <<>>

TNext ==
    \/ TStart
    \/ /\ tid # 0
       /\ ~ Done
       /\ WhyNext = "ok"
       /\ (TQuery \/ TCheck \/ TCore \/ TDone \/ TTest \/ TEndTest)

TSpec == TInit /\ [][TNext]_tvars

(* printing hook (configured as an invariant, always TRUE): one record per log at the   *)
(* state where it is completely consumed or where its next event is rejected.           *)
Report ==
    (tid # 0 /\ WhyNext # "ok") =>
        PrintT("JREC" \o ToJson([tid |-> tid, p |-> i, n |-> Len(Ev), why |-> WhyNext,
                                 ev |-> IF Done THEN "" ELSE ToString(E.e)]))

(* the design invariants of UnsatCache must hold along every accepted prefix *)
TraceCacheSound == CacheSound
TraceCoresDenote == CoresDenoteUnsat
=============================================================================
