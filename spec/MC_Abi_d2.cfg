SPECIFICATION Spec
CONSTANTS
  MaxDepth = 2
  Arity = 3
  FK = {0, 1, 2}
  AL = {0, 1, 2}
  BL = {0, 1, 32, 33}
  NG = 1
  Exhaustive = TRUE
  Mutant = 0
  Leaves <- LeavesFull
INVARIANT InvTypes
INVARIANT InvRoundTrip
INVARIANT InvRaw
INVARIANT InvLayout
INVARIANT InvSpans
INVARIANT InvCovered
INVARIANT InvStaticSize
INVARIANT InvGen
INVARIANT InvGenStrict
INVARIANT InvFill
INVARIANT InvStrictOffsets
INVARIANT InvStrictLengths
INVARIANT InvStrictPadding
INVARIANT InvStrictLeaf
