SPECIFICATION Spec
CONSTANTS
  Mutation = "no-tests-ok"
INVARIANT ExitCodeMeaning
