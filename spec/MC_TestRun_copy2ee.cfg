SPECIFICATION Spec
CONSTANTS
  Mode = "copy"
  EarlyExit = TRUE
  MaxLen = 2
INVARIANT EachTestStartsFromSetup
INVARIANT ResultIndependentOfHistory
INVARIANT ExecutorPrivate
