SPECIFICATION Spec
CONSTANTS
  WB = 32
  Mode = "vectors"
