SPECIFICATION Spec
CONSTANTS
  Mode = "shared"
  EarlyExit = FALSE
  MaxLen = 2
INVARIANT EachTestStartsFromSetup
INVARIANT ResultIndependentOfHistory
