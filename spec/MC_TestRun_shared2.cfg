SPECIFICATION Spec
CONSTANTS
  Mode = "shared"
  MaxLen = 2
INVARIANT EachTestStartsFromSetup
INVARIANT ResultIndependentOfHistory
