SPECIFICATION Spec
CONSTANTS
  OffsetBits = 2
  KeyBits = 4
  Exprs = {"e1", "e2", "e3"}
  HashValues = {1, 4, 7, 8, 14}
  MaxOps = 4
  MaxRegs = 3
  Mutation = "none"
INVARIANT LookupSound
INVARIANT LookupCompleteInBlock
INVARIANT NothingOutsideTheBlock
INVARIANT IdsDense
PROPERTY IdsStable
PROPERTY CopyComplete
PROPERTY RegistrationPrivate
