SPECIFICATION Spec
CONSTANTS
  WB = 2
  Grid <- G2
  Grid3 <- G2T
  MaxExp = 300
INVARIANT BinOK
INVARIANT UnaOK
INVARIANT TerOK
