------------------------------ MODULE SymExec ------------------------------
(***************************************************************************)
(* halmos' exploration of a symbolic conditional jump inside a loop        *)
(* (SEVM.jumpi, Path.branch / activate, the DFS worklist), modelled for    *)
(* the counted loop                                                        *)
(*        i := 0;  while (i < n) i := i + 1;  return i                     *)
(* whose trip count n is a symbolic input known to lie in lo0..hi0.        *)
(*                                                                         *)
(* A path is a record [live, lo, hi, i, vt, vf, exiting]: the values of n  *)
(* it still admits (an interval; lo > hi = its constraints are             *)
(* unsatisfiable, which can happen after an `unknown` answer), the loop    *)
(* counter, how often the jump at the loop head was followed in each       *)
(* direction on this path (Exec.jumpis), and whether it has left the loop. *)
(* The solver answers a feasibility query exactly or - while the fault     *)
(* budget lasts - with `unknown`.                                          *)
(*                                                                         *)
(* TLC checks: a value of n is dropped only when the exploration is        *)
(* flagged (NeverDropFeasible = CutImpliesFlag), whatever answers are      *)
(* `unknown`; a loop whose condition is decided by the path constraints is *)
(* never cut; every yielded path is sound.  Every terminal state is        *)
(* printed and replayed into SEVM.run with the same fault schedule         *)
(* (harness/symexec_replay.py).                                            *)
(***************************************************************************)
EXTENDS Integers, Sequences, FiniteSets, TLC, Json

CONSTANTS N,          \* n ranges over 0..N
          MaxLoop,    \* --loop is chosen in 1..MaxLoop
          MaxFaults   \* at most this many solver answers are `unknown`

VARIABLES lo0, hi0,   \* what is known about n initially
          loop,       \* the unrolling bound
          stack,      \* DFS worklist (last element is popped first)
          cur,        \* the path being executed
          yielded,    \* finished paths, in order: <<[lo, hi, ret]>>
          bounded,    \* SEVM.logs.bounded_loops is non-empty
          faults,     \* remaining `unknown` answers
          sched,      \* history: indices of the check() calls answered `unknown`
          nchecks,    \* number of check() calls so far
          reported
vars == <<lo0, hi0, loop, stack, cur, yielded, bounded, faults, sched, nchecks, reported>>

Dead == [live |-> FALSE, lo |-> 0, hi |-> 0, i |-> 0, vt |-> 0, vf |-> 0, exiting |-> FALSE]
Max(a, b) == IF a > b THEN a ELSE b
Min(a, b) == IF a < b THEN a ELSE b

Init == /\ lo0 \in 0..N /\ hi0 \in lo0..N
        /\ loop \in 1..MaxLoop
        /\ faults \in 0..MaxFaults
        /\ stack = <<>>
        /\ cur = [live |-> TRUE, lo |-> lo0, hi |-> hi0, i |-> 0, vt |-> 0, vf |-> 0, exiting |-> FALSE]
        /\ yielded = <<>> /\ bounded = FALSE /\ sched = <<>> /\ nchecks = 0 /\ reported = FALSE

\* exact answers for "path /\ (i < n)" and "path /\ ~(i < n)"
ExactT(p) == IF Max(p.lo, p.i + 1) <= p.hi THEN "sat" ELSE "unsat"
ExactF(p) == IF p.lo <= Min(p.hi, p.i) THEN "sat" ELSE "unsat"
Answers(exact, f) == IF f > 0 THEN {exact, "unknown"} ELSE {exact}

\* SEVM.jumpi on the current path; ct / cf are the two solver answers (true side first)
Jumpi(ct, cf) ==
    LET p == cur
        potT == ct # "unsat"
        potF == cf # "unsat"
        mustT == ct = "sat" /\ cf = "unsat"
        mustF == ct = "unsat" /\ cf = "sat"
        sym == ~(mustT \/ mustF)
        folT == IF sym THEN potT /\ p.vt < loop ELSE potT
        folF == IF sym THEN potF /\ p.vf < loop ELSE potF
        cut == sym /\ ((potT /\ ~folT) \/ (potF /\ ~folF))
        pT == [p EXCEPT !.lo = Max(p.lo, p.i + 1), !.i = p.i + 1, !.vt = IF sym THEN p.vt + 1 ELSE p.vt]
        pF == [p EXCEPT !.hi = Min(p.hi, p.i), !.vf = IF sym THEN p.vf + 1 ELSE p.vf, !.exiting = TRUE]
        nf == (IF ct = "unknown" THEN 1 ELSE 0) + (IF cf = "unknown" THEN 1 ELSE 0)
    IN /\ nf <= faults
       /\ faults' = faults - nf
       /\ sched' = sched \o (IF ct = "unknown" THEN <<nchecks + 1>> ELSE <<>>)
                         \o (IF cf = "unknown" THEN <<nchecks + 2>> ELSE <<>>)
       /\ nchecks' = nchecks + 2
       /\ bounded' = (bounded \/ cut)
       \* both sides: the true side is pushed first, the false side second and therefore popped next
       /\ IF folT /\ folF THEN stack' = Append(stack, pT) /\ cur' = pF
          ELSE IF folT THEN cur' = pT /\ stack' = stack
          ELSE IF folF THEN cur' = pF /\ stack' = stack
          ELSE cur' = Dead /\ stack' = stack
       /\ UNCHANGED <<lo0, hi0, loop, yielded, reported>>

Branch == /\ cur.live /\ ~cur.exiting
          /\ lo0 # hi0
          /\ \E ct \in Answers(ExactT(cur), faults) : \E cf \in Answers(ExactF(cur), faults) : Jumpi(ct, cf)

\* n == c is substituted into the calldata (Concretization): the jump condition is concrete, the run
\* loop follows it directly and SEVM.jumpi - hence the unrolling bound and the solver - is never involved
BranchConcrete ==
    /\ cur.live /\ ~cur.exiting
    /\ lo0 = hi0
    /\ cur' = IF cur.i < lo0 THEN [cur EXCEPT !.i = cur.i + 1] ELSE [cur EXCEPT !.exiting = TRUE]
    /\ UNCHANGED <<lo0, hi0, loop, stack, yielded, bounded, faults, sched, nchecks, reported>>

\* a path that has left the loop runs to the end of the program and is yielded
Yield == /\ cur.live /\ cur.exiting
         /\ yielded' = Append(yielded, [lo |-> cur.lo, hi |-> cur.hi, ret |-> cur.i])
         /\ cur' = Dead
         /\ UNCHANGED <<lo0, hi0, loop, stack, bounded, faults, sched, nchecks, reported>>

Pop == /\ ~cur.live /\ Len(stack) > 0
       /\ cur' = stack[Len(stack)]
       /\ stack' = SubSeq(stack, 1, Len(stack) - 1)
       /\ UNCHANGED <<lo0, hi0, loop, yielded, bounded, faults, sched, nchecks, reported>>

Done == ~cur.live /\ stack = <<>>
Report == /\ Done /\ ~reported
          /\ reported' = TRUE
          /\ PrintT("JREC" \o ToJson([lo0 |-> lo0, hi0 |-> hi0, loop |-> loop, sched |-> sched,
                                      yielded |-> yielded, bounded |-> bounded, nchecks |-> nchecks]))
          /\ UNCHANGED <<lo0, hi0, loop, stack, cur, yielded, bounded, faults, sched, nchecks>>

Next == Branch \/ BranchConcrete \/ Yield \/ Pop \/ Report
Spec == Init /\ [][Next]_vars

-----------------------------------------------------------------------------
Covered(n) == \E k \in 1..Len(yielded) : yielded[k].lo <= n /\ n <= yielded[k].hi

\* a feasible input is lost only if the exploration says so (also under `unknown` answers)
NeverDropFeasible == Done => \A n \in lo0..hi0 : Covered(n) \/ bounded
\* every input a yielded path admits really makes the program return what the path reports
SoundPaths == \A k \in 1..Len(yielded) : \A n \in yielded[k].lo..yielded[k].hi : yielded[k].ret = n
\* when the solver decides every query, a loop whose trip count is fixed by the constraints is never cut
DeterminedLoopsNeverCut == (Done /\ lo0 = hi0 /\ sched = <<>>) => (~bounded /\ Covered(lo0))
\* without solver faults the flag is raised only if there really are more symbolic iterations than the bound
FlagIsMeaningful == (Done /\ sched = <<>> /\ bounded) => hi0 > lo0 + loop
\* the worklist never holds more than one pending path per loop iteration
StackSmall == Len(stack) <= 1
=============================================================================
