SPECIFICATION Spec
CONSTANTS
  WB = 1
  Grid <- G1
  Grid3 <- G1T
  MaxExp = 12
INVARIANT BinOK
INVARIANT UnaOK
INVARIANT TerOK
