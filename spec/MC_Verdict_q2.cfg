\* quick: <= 2 paths, every reply kind, every flag, every interleaving; invariants that hold on the faithful model
SPECIFICATION Spec
CONSTANTS
  MinPaths = 1
  MaxPaths = 2
  Outcomes = {"success", "revert", "panic", "failflag", "stuck"}
  Replies = {"sat_valid", "sat_abstract", "unsat", "unsat_rc1", "unsat_shared", "unknown", "timeout", "garbage", "empty", "nonzero", "crash", "spawnfail"}
  Replies2 = {"sat_valid", "sat_abstract", "unsat", "unsat_rc1", "unknown", "timeout", "garbage", "empty", "nonzero", "crash", "spawnfail"}
  StuckReplies = {"sat_valid", "sat_abstract", "unsat", "unsat_rc1", "unknown", "timeout", "garbage", "empty", "nonzero", "crash"}
  EarlySet = {TRUE, FALSE}
  CacheSet = {TRUE, FALSE}
  RefinableSet = {TRUE, FALSE}
  Threads = 4
  MaxPrev = 0
  PrevCodes = {0}
  RecordHist = FALSE
  Canon = FALSE
  Coarse = FALSE
  MutPrecedence = FALSE
  MutNoCatch = FALSE
  MutKilledEscapes = FALSE
  KilledMayRaise = TRUE
INVARIANTS TypeOK PassOnlyIfClean CleanPasses VerdictIsPrecedence OrderIndependence NoLostCounterexampleStrict OrderIndependenceNoEarly ExitNonZeroIffNotAllPass ValidNeverAbstract OneOutputPerQuery ShutdownOnlyAfterValid
