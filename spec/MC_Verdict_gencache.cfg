\* scenario generation for --cache-solver: 2 paths, unsat cores contained in every query
SPECIFICATION Spec
CONSTANTS
  MinPaths = 2
  MaxPaths = 2
  Outcomes = {"success", "panic", "failflag"}
  Replies = {"sat_valid", "unsat", "unsat_rc1", "unsat_shared", "unsat_nocore", "unknown"}
  Replies2 = {"unsat"}
  StuckReplies = {"unsat"}
  EarlySet = {FALSE}
  CacheSet = {TRUE}
  RefinableSet = {FALSE}
  Threads = 4
  MaxPrev = 0
  PrevCodes = {0}
  RecordHist = TRUE
  Canon = FALSE
  Coarse = TRUE
  MutPrecedence = FALSE
  MutNoCatch = FALSE
  MutKilledEscapes = FALSE
  KilledMayRaise = TRUE
INVARIANTS TypeOK PassOnlyIfClean VerdictModuloKnown OrderIndependenceModuloKnown ExitNonZeroIffNotAllPass ValidNeverAbstract OneOutputPerQuery
