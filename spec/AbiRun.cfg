SPECIFICATION Spec
INVARIANT InvIds
