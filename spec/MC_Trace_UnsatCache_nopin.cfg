\* validation of recorded event logs (file named by environment variable C16_TRACES)
\* against the NoPin model: only the clauses about stored cores and hits can reject (used to see how far
\* an implementation run whose pins were removed gets: core-id-rebound / hit-on-sat-query)
SPECIFICATION TSpec
CONSTANTS
  Ids <- TraceIds
  Cons <- TraceCons
  UnsatFamily = {}
  Unsat <- TraceUnsat
  PinFutures = FALSE
  PinTermVars = FALSE
  MaxTests = 1000000
  MaxInflight = 1000000
  MaxCores = 1000000
INVARIANTS Report TraceCacheSound HashConsed
