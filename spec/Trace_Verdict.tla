--------------------------- MODULE Trace_Verdict ---------------------------
(***************************************************************************)
(* Trace validation (code -> spec) for property C05.                       *)
(*                                                                         *)
(* A trace is what the wrappers of harness/verdict_replay.py recorded in   *)
(* one real run of halmos' run_test (gates enforced or not):               *)
(*   arms, fl      the assignment the test contract / stub were built from *)
(*   main          the events of the main thread in program order          *)
(*                 (E loop head, S submit, K / SF confirmation query)      *)
(*   workers[q+1]  the events of the pool thread of path q in program      *)
(*                 order (B begin, R re-solve, C callback, X shutdown)     *)
(*   outputs       FunctionContext.solver_outputs at the end, in order     *)
(*   code, raised  TestResult.exitcode / run_test left by an exception     *)
(* Only per-thread order is taken from the log (cross-thread order of log  *)
(* lines is not reliable): the trace is accepted iff SOME interleaving of  *)
(* Verdict's actions reproduces every thread's sequence, the order of the  *)
(* outputs and the exit code.  SolverFinish/SolverFinish2 are hidden.      *)
(* Accepted traces are printed (JREC); checks/c05.py requires all of them. *)
(***************************************************************************)
EXTENDS Verdict, IOUtils

Traces == JsonDeserialize(IOEnv.C05_TRACES)

VARIABLES tid, acc

NoEmit == FALSE   \* MC_Trace_Verdict.cfg: EmitRecords <- NoEmit

tvars == <<vars, tid, acc>>

T == Traces[tid]

MainEvs == {"E", "S", "K", "SF"}
HiddenEvs == {"F", "F2"}

Norm(ev) == IF ev.e = "SF" THEN [e |-> ev.e, p |-> ev.p, x |-> "-"] ELSE [e |-> ev.e, p |-> ev.p, x |-> ev.x]
IsMain(ev) == ev.e \in MainEvs
ProjMain(h) == SelectSeq(h, IsMain)
ProjW(h, q) == LET IsW(ev) == ev.e \notin MainEvs /\ ev.e \notin HiddenEvs /\ ev.p = q IN SelectSeq(h, IsW)
IsPrefix(s, t) == Len(s) <= Len(t) /\ \A k \in 1..Len(s) : Norm(s[k]) = Norm(t[k])
ArmEq(a, b) == a.o = b.o /\ a.r = b.r /\ a.r2 = b.r2

Consistent ==
    /\ Len(arms) <= Len(T.arms) /\ \A k \in 1..Len(arms) : ArmEq(arms[k], T.arms[k])
    /\ IsPrefix(ProjMain(hist), T.main)
    /\ \A q \in 0..(Len(T.arms) - 1) : IsPrefix(ProjW(hist, q), T.workers[q + 1])

TInit ==
    /\ tid \in 1..Len(Traces)
    /\ Init
    /\ fl = [early |-> T.fl.early, cache |-> T.fl.cache, refinable |-> T.fl.refinable]
    /\ acc = FALSE

OutEq(a, b) == a.p = b.p /\ a.r = b.r /\ a.v = b.v

AcceptCond ==
    /\ mpc = "done" /\ code = T.code /\ raised = T.raised
    /\ Len(arms) = Len(T.arms)
    /\ Len(ProjMain(hist)) = Len(T.main)
    /\ ~raised =>
        /\ \A q \in 0..(Len(T.arms) - 1) : Len(ProjW(hist, q)) = Len(T.workers[q + 1])
        /\ Len(outputs) = Len(T.outputs) /\ \A k \in 1..Len(outputs) : OutEq(outputs[k], T.outputs[k])

Step == Next /\ UNCHANGED <<tid, acc>> /\ Consistent'

Accept ==
    /\ ~acc /\ AcceptCond
    /\ acc' = TRUE
    /\ PrintT("JREC" \o ToJson([tid |-> tid]))
    /\ UNCHANGED <<vars, tid>>

TNext == Step \/ Accept

\* the history matters only through the per-thread prefixes it has consumed (they are prefixes of fixed sequences)
TView == <<arms, fl, prev, mpc, i, qs, shutdown, sharedcore, outputs, normal, stuck, raised, code, pexit, lock, tid, acc,
           Len(ProjMain(hist)), [q \in 0..(Len(T.arms) - 1) |-> Len(ProjW(hist, q))]>>

TSpec == TInit /\ [][TNext]_tvars
=============================================================================
