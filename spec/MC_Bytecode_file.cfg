SPECIFICATION Spec
CONSTANTS
  Mode = "file"
  MaxLen = 0
  HoleMaxLen = 0
INVARIANT InvFactsAreFacts
INVARIANT InvStartsAtZero
INVARIANT InvChain
INVARIANT InvChainBack
INVARIANT InvJumpdestNotInPush
INVARIANT InvPartition
INVARIANT InvGenuineJumpdest
INVARIANT InvPushArgIsSlice
INVARIANT InvBeyondEnd
INVARIANT InvSliceZeroPadded
INVARIANT InvSymSound
