\* NEGATIVE CONTROL / regression model: the code before 1a97aee (aligned set_slice stores a ByteVec value by reference, finding bytevec-aligned-nested-alias); tiny,tiny,FULL,small; TLC must refute it; run with -continue to list every violating history
SPECIFICATION Spec
VIEW View
CONSTANTS
  NV = 2
  W = 4
  Depth = 4
  Emit = "none"
  Pick = "all"
  FullLevels = {3}
  MedLevels = {}
  TinyLevels = {1,2}
  AliasLevels = {}
  XOffs = {}
  XLens = {}
  MaxLen = 9
  Mutant = "alignedref"
  Prof <- ProfByLevel
INVARIANT InvFlatTypeOK
INVARIANT InvWellFormed
INVARIANT InvRefines
INVARIANT InvCopyIndependence
