\* refinement (quick): tiny,tiny,FULL,tiny
SPECIFICATION Spec
VIEW View
CONSTANTS
  NV = 2
  W = 4
  Depth = 4
  Emit = "none"
  Pick = "all"
  FullLevels = {3}
  MedLevels = {}
  TinyLevels = {1,2,4}
  AliasLevels = {}
  XOffs = {}
  XLens = {}
  MaxLen = 9
  Mutant = "none"
  Prof <- ProfByLevel
INVARIANT InvFlatTypeOK
INVARIANT InvWellFormed
INVARIANT InvRefines
INVARIANT InvCopyIndependence
INVARIANT InvReadsAgree
