SPECIFICATION Spec
CONSTANTS
  Mutation = "setup-failure-ignored"
INVARIANT SetupFailureFails
