SPECIFICATION Spec
CONSTANTS
  Vars = {"x", "y", "z"}
  MaxConds = 3
  Algo = "backward"
  Emit = FALSE
INVARIANT SliceIsComponent
INVARIANT RelatedIsSymmetric
INVARIANT Report
CHECK_DEADLOCK FALSE
