\* random schedules, 2 jobs (use with -simulate)
SPECIFICATION SpecH
CONSTANTS
  Jobs = {j1, j2}
  HasTimeout = {j1}
  IgnoresTerm = {j1}
  PopenMayFail = {j2}
  PreFix = FALSE
  CoarseCancel = FALSE
  Modes = {"none", "nowait", "wait"}
  Modes2 = {"none"}
  NeverExits = {}
  MaxPreempt = 1000
INVARIANTS Emit
