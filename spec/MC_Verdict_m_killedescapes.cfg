\* MUTANT (code before e7511fd: the OSError of a confirmation query cancelled in flight escapes run_test) - TLC MUST find a violation of OrderIndependence
SPECIFICATION Spec
CONSTANTS
  MinPaths = 1
  MaxPaths = 2
  Outcomes = {"success", "panic", "stuck"}
  Replies = {"sat_valid", "unsat", "unknown", "garbage"}
  Replies2 = {"unsat"}
  StuckReplies = {"unsat", "unknown"}
  EarlySet = {TRUE, FALSE}
  CacheSet = {FALSE}
  RefinableSet = {FALSE}
  Threads = 4
  MaxPrev = 0
  PrevCodes = {0}
  RecordHist = FALSE
  Canon = FALSE
  Coarse = FALSE
  MutPrecedence = FALSE
  MutNoCatch = FALSE
  MutKilledEscapes = TRUE
  KilledMayRaise = TRUE
INVARIANTS OrderIndependence
