SPECIFICATION Spec
CONSTANTS
  MaxDepth = 3
  Arity = 3
  FK = {0, 2}
  AL = {0, 1, 3}
  BL = {0, 5, 32, 65}
  NG = 1
  Exhaustive = FALSE
  Mutant = 0
  Leaves <- LeavesSmall
INVARIANT InvTypes
INVARIANT InvRoundTrip
INVARIANT InvRaw
INVARIANT InvLayout
INVARIANT InvSpans
INVARIANT InvCovered
INVARIANT InvStaticSize
INVARIANT InvGen
INVARIANT InvGenStrict
INVARIANT InvFill
INVARIANT InvStrictOffsets
INVARIANT InvStrictLengths
INVARIANT InvStrictPadding
INVARIANT InvStrictLeaf
