\* the sequential schedule is a behaviour and yields SeqCode (the reference of OrderIndependence)
SPECIFICATION Spec
CONSTANTS
  MinPaths = 1
  MaxPaths = 3
  Outcomes = {"success", "revert", "panic", "failflag", "stuck"}
  Replies = {"sat_valid", "sat_abstract", "unsat", "unsat_shared", "unknown", "garbage", "spawnfail"}
  Replies2 = {"sat_valid", "sat_abstract", "unsat", "unknown", "garbage", "spawnfail"}
  StuckReplies = {"sat_valid", "unsat", "unknown", "garbage"}
  EarlySet = {TRUE, FALSE}
  CacheSet = {TRUE, FALSE}
  RefinableSet = {TRUE, FALSE}
  Threads = 4
  MaxPrev = 0
  PrevCodes = {0}
  RecordHist = FALSE
  Canon = TRUE
  Coarse = FALSE
  MutPrecedence = FALSE
  MutNoCatch = FALSE
  MutKilledEscapes = FALSE
  KilledMayRaise = FALSE
INVARIANTS TypeOK CanonIsSeq OneOutputPerQuery
