\* 1 job, every shutdown mode, every fault: exhaustive safety
SPECIFICATION Spec
CONSTANTS
  Jobs = {j1}
  HasTimeout = {j1}
  IgnoresTerm = {j1}
  PopenMayFail = {j1}
  CoarseCancel = FALSE
  Modes = {"none", "nowait", "wait"}
VIEW View
INVARIANTS TypeOK ResultAtMostOnce ResultConsistent TimeoutIsUnknown CancelCoversRegistered ClosedMeansDead
  QuiescentUnlessRace AcceptOnlyByToctou JoinCoversSnapshot
PROPERTIES ExcStable RejectAfterFlag
