\* 1 job, every shutdown mode, every fault: exhaustive safety
SPECIFICATION Spec
CONSTANTS
  Jobs = {j1}
  HasTimeout = {j1}
  IgnoresTerm = {j1}
  PopenMayFail = {j1}
  PreFix = FALSE
  CoarseCancel = FALSE
  Modes = {"none", "nowait", "wait"}
  Modes2 = {"none"}
  NeverExits = {}
VIEW View
INVARIANTS TypeOK ResultAtMostOnce ResultConsistent TimeoutIsUnknown CancelCoversRegistered ClosedMeansDead
  QuiescentUnlessCbp CbpOnlyRegistered NoAcceptAfterShutdown QuiescentAfterReturnedWait
  SnapshotCoversRegistered JoinCoversSnapshot
PROPERTIES ExcStable RejectAfterFlag FlagStable
