\* EXPECTED TO BE VIOLATED: strict precedence FAIL > ERROR > TIMEOUT (TIMEOUT reported although a path is stuck)
SPECIFICATION Spec
CONSTANTS
  MinPaths = 1
  MaxPaths = 2
  Outcomes = {"success", "panic", "stuck"}
  Replies = {"sat_valid", "unsat", "unknown", "garbage"}
  Replies2 = {"unsat"}
  StuckReplies = {"unsat", "unknown"}
  EarlySet = {FALSE}
  CacheSet = {FALSE}
  RefinableSet = {FALSE}
  Threads = 4
  MaxPrev = 0
  PrevCodes = {0}
  RecordHist = FALSE
  Canon = FALSE
  Coarse = FALSE
INVARIANTS VerdictIsPrecedenceLenient
