------------------------------- MODULE Keccak -------------------------------
(***************************************************************************)
(* Keccak-256 of a byte sequence, as a 32-element byte sequence.           *)
(* The operator is evaluated by the Java module override Keccak.class      *)
(* (compiled by bin/setup from Keccak.java): it is the standard            *)
(* interpretation of the hash function the properties refer to, not part   *)
(* of what is being verified.  It is cross-checked against eth_hash.       *)
(***************************************************************************)
EXTENDS Integers, Sequences

Keccak256(bytes) == CHOOSE h \in [1..32 -> 0..255] : TRUE   \* overridden
=============================================================================
