\* 2 jobs (j1: timeout, survives SIGTERM; j2: no timeout, Popen may fail): exhaustive safety
SPECIFICATION Spec
CONSTANTS
  Jobs = {j1, j2}
  HasTimeout = {j1}
  IgnoresTerm = {j1}
  PopenMayFail = {j2}
  PreFix = FALSE
  CoarseCancel = FALSE
  Modes = {"none", "nowait", "wait"}
VIEW View
INVARIANTS TypeOK ResultAtMostOnce ResultConsistent TimeoutIsUnknown CancelCoversRegistered ClosedMeansDead
  QuiescentUnlessCbp CbpOnlyRegistered NoAcceptAfterShutdown QuiescentAfterReturnedWait
  SnapshotCoversRegistered JoinCoversSnapshot
PROPERTIES ExcStable RejectAfterFlag FlagStable
