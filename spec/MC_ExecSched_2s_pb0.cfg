\* two shutdown callers: every schedule of 1 job with NO preemption (MaxPreempt = 0; quick tier) (BFS, history in the state)
SPECIFICATION SpecH
CONSTANTS
  Jobs = {j1}
  HasTimeout = {}
  IgnoresTerm = {}
  PopenMayFail = {}
  PreFix = FALSE
  CoarseCancel = FALSE
  Modes = {"nowait", "wait"}
  Modes2 = {"nowait", "wait"}
  NeverExits = {j1}
  MaxPreempt = 0
CONSTRAINT Bounded
INVARIANTS Emit
