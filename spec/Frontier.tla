------------------------------ MODULE Frontier ------------------------------
(***************************************************************************)
(* Invariant testing, the way Foundry defines it and halmos implements it  *)
(* with a breadth-first frontier of states (_compute_frontier): starting   *)
(* from the post-setUp world, any sequence of at most Depth calls          *)
(*   target contract x selected function x arguments x sender x value      *)
(* may be executed; reverted calls leave no trace; after every successful  *)
(* call (and initially) the invariant function of the test contract must   *)
(* hold; an assertion failure (Panic(1)) inside a target function is       *)
(* itself a reported violation (a "probe").                                *)
(*                                                                         *)
(* A transaction is one atomic action here: Evm!Run iterates the small-step *)
(* machine to the end of the message.  TLC's own breadth-first search over *)
(* TargetCall is the brute force over all bounded call sequences; a VIEW   *)
(* identifies states with equal worlds (MergeOnlyIdentical by definition). *)
(* For every case TLC prints whether the invariant can break and, if so, a *)
(* shortest breaking sequence.                                             *)
(***************************************************************************)
EXTENDS Evm, Json, IOUtils, SequencesExt

Cases == JsonDeserialize(IOEnv.CASES)
CheatTable == JsonDeserialize(IOEnv.CHEATS)

VARIABLES cid,      \* the case
          world,    \* current world state
          depth,    \* number of calls made
          seq,      \* the calls made (witness)
          broken,   \* "" | "invariant" | "probe"
          ncr       \* CREATE counter carried across messages
vars == <<cid, world, depth, seq, broken, ncr>>
view == <<cid, world, depth, broken>>

SeqToMap(s, K(_), V(_)) ==
    [k \in {K(s[i]) : i \in 1..Len(s)} |-> V(s[CHOOSE i \in 1..Len(s) : K(s[i]) = k])]
KA(e) == e.a
KAK(e) == <<e.a, e.k>>
VC(e) == e.c
VV(e) == e.v
World0(c) == [code |-> SeqToMap(c.code, KA, VC), storage |-> SeqToMap(c.storage, KAK, VV),
              tstorage |-> EmptyMap, balance |-> SeqToMap(c.balance, KA, VV)]
Env0(c) == [coinbase |-> c.env.coinbase, timestamp |-> c.env.timestamp, number |-> c.env.number,
            prevrandao |-> c.env.prevrandao, gaslimit |-> c.env.gaslimit, chainid |-> c.env.chainid,
            basefee |-> c.env.basefee, createBase |-> c.env.createBase,
            opaque |-> {c.env.opaque[i] : i \in 1..Len(c.env.opaque)},
            cheatAddrs |-> {c.env.cheatAddrs[i] : i \in 1..Len(c.env.cheatAddrs)},
            cheats |-> CheatTable, oracle |-> c.env.oracle, assertMode |-> c.env.assertMode]

\* run one message to completion from world w
Exec1(c, w, n, tx) == Run([InitMachine(w, Env0(c), tx) EXCEPT !.ncreated = n])

RECURSIVE RunPre(_, _, _, _)
\* the deployment and setUp messages, in order; result: <<world, ncreated, allOk>>
RunPre(c, w, n, i) ==
    IF i > Len(c.pre) THEN <<w, n, TRUE>>
    ELSE LET r == Exec1(c, w, n, c.pre[i])
         IN IF r.status = "done" /\ r.result.ok THEN RunPre(c, r.world, r.ncreated, i + 1) ELSE <<w, n, FALSE>>

PANIC1 == <<78, 72, 123, 113>> \o WFromNat(1)          \* Panic(uint256) selector ++ 1
IsPanic1(r) == r.status = "done" /\ ~r.result.ok /\ r.result.kind = "Revert" /\ r.result.data = PANIC1
IsFail(r) == r.status = "done" /\ r.result.kind = "Fail"

\* does the invariant function fail in world w ?
InvBroken(c, w, n) ==
    LET r == Exec1(c, w, n, c.inv)
    IN IsPanic1(r) \/ IsFail(r)

Init ==
    /\ cid \in 1..Len(Cases)
    /\ LET c == Cases[cid]
           p == RunPre(c, World0(c), 0, 1)
       IN /\ Assert(p[3], <<"deployment or setUp failed on the reference machine", c.id>>)
          /\ world = p[1]
          /\ ncr = p[2]
          /\ broken = IF InvBroken(c, p[1], p[2]) THEN "invariant" ELSE ""
    /\ depth = 0
    /\ seq = <<>>

\* all argument tuples of length n over the argument domain of the case
RECURSIVE Tuples(_, _)
Tuples(dom, n) == IF n = 0 THEN {<<>>} ELSE {<<x>> \o t : x \in dom, t \in Tuples(dom, n - 1)}
RECURSIVE Flat(_)
Flat(ws) == IF ws = <<>> THEN <<>> ELSE ws[1] \o Flat(Tail(ws))

TargetCall ==
    LET c == Cases[cid]
    IN /\ broken = ""
       /\ depth < c.depth
       /\ \E ti \in 1..Len(c.targets) :
            LET t == c.targets[ti]
            IN \E fi \in 1..Len(t.fns) :
                 LET f == t.fns[fi]
                 IN \E args \in Tuples({c.argdom[i] : i \in 1..Len(c.argdom)}, f.nargs) :
                    \E si \in 1..Len(c.senders) : \E vi \in 1..Len(f.values) :
                      LET tx == [to |-> t.addr, caller |-> c.senders[si], origin |-> c.senders[si], value |-> f.values[vi],
                                 data |-> f.sel \o Flat(args), static |-> FALSE, create |-> FALSE, transfer |-> TRUE]
                          r == Exec1(c, world, ncr, tx)
                          call == [to |-> t.addr, sel |-> f.sel, args |-> args, sender |-> c.senders[si], value |-> f.values[vi]]
                      IN /\ r.status = "done"
                         /\ \/ /\ r.result.ok
                               /\ world' = r.world
                               /\ ncr' = r.ncreated
                               /\ broken' = IF InvBroken(c, r.world, r.ncreated) THEN "invariant" ELSE ""
                            \/ /\ IsPanic1(r) \/ IsFail(r)
                               /\ world' = world
                               /\ ncr' = ncr
                               /\ broken' = "probe"
                         /\ seq' = Append(seq, call)
                         /\ depth' = depth + 1
                         /\ cid' = cid
                         /\ (broken' # "" => PrintT("JREC" \o ToJson([id |-> c.id, broken |-> broken', seq |-> seq'])))

Next == TargetCall
Spec == Init /\ [][Next]_vars

\* the initial verdicts are printed through this (always true) invariant on initial states
InitReport == (depth = 0 /\ broken # "") => PrintT("JREC" \o ToJson([id |-> Cases[cid].id, broken |-> broken, seq |-> <<>>]))
=============================================================================
