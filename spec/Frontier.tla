------------------------------ MODULE Frontier ------------------------------
(***************************************************************************)
(* Invariant testing, the way Foundry defines it and halmos implements it  *)
(* with a breadth-first frontier of states (_compute_frontier): starting   *)
(* from the post-setUp world, any sequence of at most Depth calls          *)
(*   target contract x selected function x arguments x sender x value      *)
(* may be executed; reverted calls leave no trace; after every successful  *)
(* call (and initially) the invariant function of the test contract must   *)
(* hold; an assertion failure (Panic(1)) inside a target function is       *)
(* itself a reported violation (a "probe").  Time: every call happens at a *)
(* block timestamp that is not smaller than that of the previous call      *)
(* (case field tsdom = the timestamps to choose from; the targets only     *)
(* compare timestamps with each other, so a domain of depth+1 values is    *)
(* complete); with firstAtSetup the first call happens at setUp's own      *)
(* timestamp, which is what halmos explores (recorded finding).            *)
(*                                                                         *)
(* A transaction is one atomic action here: Evm!Run iterates the small-step *)
(* machine to the end of the message.  TLC's own breadth-first search over *)
(* TargetCall is the brute force over all bounded call sequences; a VIEW   *)
(* identifies states with equal worlds (MergeOnlyIdentical by definition). *)
(* For every case TLC prints whether the invariant can break and, if so, a *)
(* shortest breaking sequence.                                             *)
(***************************************************************************)
EXTENDS Evm, Json, IOUtils, SequencesExt

Cases == JsonDeserialize(IOEnv.CASES)
CheatTable == JsonDeserialize(IOEnv.CHEATS)

VARIABLES cid,      \* the case
          world,    \* current world state
          depth,    \* number of calls made
          seq,      \* the calls made (witness)
          broken,   \* "" | "invariant" | "probe"
          ncr,      \* CREATE counter carried across messages
          now       \* block timestamp of the latest call (setUp's at the beginning)
vars == <<cid, world, depth, seq, broken, ncr, now>>
view == <<cid, world, depth, broken, now>>

SeqToMap(s, K(_), V(_)) ==
    [k \in {K(s[i]) : i \in 1..Len(s)} |-> V(s[CHOOSE i \in 1..Len(s) : K(s[i]) = k])]
KA(e) == e.a
KAK(e) == <<e.a, e.k>>
VC(e) == e.c
VV(e) == e.v
World0(c) == [code |-> SeqToMap(c.code, KA, VC), storage |-> SeqToMap(c.storage, KAK, VV),
              tstorage |-> EmptyMap, balance |-> SeqToMap(c.balance, KA, VV)]
Env0(c) == [coinbase |-> c.env.coinbase, timestamp |-> c.env.timestamp, number |-> c.env.number,
            prevrandao |-> c.env.prevrandao, gaslimit |-> c.env.gaslimit, chainid |-> c.env.chainid,
            basefee |-> c.env.basefee, createBase |-> c.env.createBase,
            opaque |-> {c.env.opaque[i] : i \in 1..Len(c.env.opaque)},
            cheatAddrs |-> {c.env.cheatAddrs[i] : i \in 1..Len(c.env.cheatAddrs)},
            cheats |-> CheatTable, oracle |-> c.env.oracle, assertMode |-> c.env.assertMode,
            symstore |-> {c.env.symstore[i] : i \in 1..Len(c.env.symstore)}, symmask |-> c.env.symmask]

\* run one message to completion from world w
ExecAt(c, w, n, tx, t) == Run([InitMachine(w, [Env0(c) EXCEPT !.timestamp = t], tx) EXCEPT !.ncreated = n])
Exec1(c, w, n, tx) == ExecAt(c, w, n, tx, c.env.timestamp)

RECURSIVE RunPre(_, _, _, _)
\* the deployment and setUp messages, in order; result: <<world, ncreated, allOk>>
RunPre(c, w, n, i) ==
    IF i > Len(c.pre) THEN <<w, n, TRUE>>
    ELSE LET r == Exec1(c, w, n, c.pre[i])
         IN IF r.status = "done" /\ r.result.ok THEN RunPre(c, r.world, r.ncreated, i + 1) ELSE <<w, n, FALSE>>

PANIC1 == <<78, 72, 123, 113>> \o WFromNat(1)          \* Panic(uint256) selector ++ 1
IsPanic1(r) == r.status = "done" /\ ~r.result.ok /\ r.result.kind = "Revert" /\ r.result.data = PANIC1
IsFail(r) == r.status = "done" /\ r.result.kind = "Fail"

\* does the invariant function fail in world w ?
InvBroken(c, w, n, t) ==
    LET r == ExecAt(c, w, n, c.inv, t)
    IN IsPanic1(r) \/ IsFail(r)

Init ==
    /\ cid \in 1..Len(Cases)
    /\ LET c == Cases[cid]
           p == RunPre(c, World0(c), 0, 1)
       IN /\ Assert(p[3], <<"deployment or setUp failed on the reference machine", c.id>>)
          /\ world = p[1]
          /\ ncr = p[2]
          /\ broken = IF InvBroken(c, p[1], p[2], c.env.timestamp) THEN "invariant" ELSE ""
          /\ now = c.env.timestamp
    /\ depth = 0
    /\ seq = <<>>

-----------------------------------------------------------------------------
(* Which calls an invariant run makes: Foundry's target/exclude rules over the values returned by  *)
(* the test contract's getters (case field filters) and the deployed contracts with their ABIs.     *)
SetOf(s) == {s[i] : i \in 1..Len(s)}
\* selectors listed for address a (several entries for one address accumulate)
SelsFor(l, a) == UNION {SetOf(l[i].sels) : i \in {j \in 1..Len(l) : l[j].addr = a}}
\* target contracts: targetContracts() if given, else every deployed contract; minus excludeContracts();
\* plus every contract named by targetSelectors(); the test contract itself only when it is targeted explicitly
TargetAddrs(c) ==
    LET tc == SetOf(c.filters.tContracts)
        base == IF tc = {} THEN {c.deployed[i].addr : i \in 1..Len(c.deployed)} \cup {c.test} ELSE tc
        named == {c.filters.tSelectors[i].addr : i \in 1..Len(c.filters.tSelectors)}
        all == (base \ SetOf(c.filters.xContracts)) \cup named
    IN IF c.test \in tc \/ SelsFor(c.filters.tSelectors, c.test) # {} THEN all ELSE all \ {c.test}
\* functions called on a target: the targeted selectors if any (excludeSelectors is then ignored), else all but
\* the excluded ones, else every function that may change the state (not view / pure)
TargetFns(c, d) ==
    LET ts == SelsFor(c.filters.tSelectors, d.addr)
        xs == SelsFor(c.filters.xSelectors, d.addr)
        all == {d.fns[i] : i \in 1..Len(d.fns)}
    IN IF ts # {} THEN {f \in all : f.sel \in ts}
       ELSE IF xs # {} THEN {f \in all : f.sel \notin xs /\ ~f.view}
       ELSE {f \in all : ~f.view}
\* senders: targetSenders() minus excludeSenders() if that is not empty; else anyone not excluded
Senders(c) ==
    LET eff == SetOf(c.filters.tSenders) \ SetOf(c.filters.xSenders)
    IN IF eff # {} THEN eff ELSE SetOf(c.senders) \ SetOf(c.filters.xSenders)
\* the calls of the case: records [addr, f]
Calls(c) == UNION {{[addr |-> c.deployed[i].addr, f |-> f] : f \in TargetFns(c, c.deployed[i])} :
                    i \in {j \in 1..Len(c.deployed) : c.deployed[j].addr \in TargetAddrs(c)}}

\* all argument tuples of length n over the argument domain of the case
RECURSIVE Tuples(_, _)
Tuples(dom, n) == IF n = 0 THEN {<<>>} ELSE {<<x>> \o t : x \in dom, t \in Tuples(dom, n - 1)}
RECURSIVE Flat(_)
Flat(ws) == IF ws = <<>> THEN <<>> ELSE ws[1] \o Flat(Tail(ws))

TargetCall ==
    LET c == Cases[cid]
    IN /\ broken = ""
       /\ depth < c.depth
       /\ \E cl \in Calls(c) :
            LET tg == cl  f == cl.f
            IN \E args \in Tuples({c.argdom[i] : i \in 1..Len(c.argdom)}, f.nargs) :
                    \E snd \in Senders(c) : \E vi \in 1..Len(f.values) : \E tsi \in 1..Len(c.tsdom) :
                      LET t == c.tsdom[tsi]
                          tx == [to |-> tg.addr, caller |-> snd, origin |-> snd, value |-> f.values[vi],
                                 data |-> f.sel \o Flat(args), static |-> FALSE, create |-> FALSE, transfer |-> TRUE]
                          r == ExecAt(c, world, ncr, tx, t)
                          call == [to |-> tg.addr, sel |-> f.sel, args |-> args, sender |-> snd, value |-> f.values[vi], ts |-> t]
                      IN /\ ~WLt(t, now)                                   \* non-decreasing timestamps
                         /\ (c.firstAtSetup /\ depth = 0) => t = now
                         /\ now' = t
                         /\ r.status = "done"
                         /\ \/ /\ r.result.ok
                               /\ world' = r.world
                               /\ ncr' = r.ncreated
                               /\ broken' = IF InvBroken(c, r.world, r.ncreated, t) THEN "invariant" ELSE ""
                            \/ /\ IsPanic1(r) \/ IsFail(r)
                               /\ world' = world
                               /\ ncr' = ncr
                               /\ broken' = "probe"
                         /\ seq' = Append(seq, call)
                         /\ depth' = depth + 1
                         /\ cid' = cid
                         /\ (broken' # "" => PrintT("JREC" \o ToJson([id |-> c.id, broken |-> broken', seq |-> seq'])))

Next == TargetCall
Spec == Init /\ [][Next]_vars

\* the initial verdicts are printed through this (always true) invariant on initial states
\* ... and the resolved set of calls of every case (compared with the calls halmos reports)
CallsReport == depth = 0 => PrintT("JREC" \o ToJson([id |-> Cases[cid].id, calls |-> {[addr |-> cl.addr, sel |-> cl.f.sel] : cl \in Calls(Cases[cid])},
                                                     senders |-> Senders(Cases[cid])]))
InitReport == (depth = 0 /\ broken # "") => PrintT("JREC" \o ToJson([id |-> Cases[cid].id, broken |-> broken, seq |-> <<>>]))
=============================================================================
