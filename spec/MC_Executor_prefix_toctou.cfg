\* NEGATIVE CONTROL: order of the code before commit 929919f (PreFix); the submit-shutdown-toctou
\* counterexample must be found here, and the repaired code must refuse to follow it
SPECIFICATION Spec
CONSTANTS
  Jobs = {j1}
  HasTimeout = {j1}
  IgnoresTerm = {}
  PopenMayFail = {}
  PreFix = TRUE
  CoarseCancel = FALSE
  Modes = {"nowait"}
  Modes2 = {"none"}
  NeverExits = {}
INVARIANTS NoToctouWitness
