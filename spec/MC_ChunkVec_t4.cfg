\* refinement: depth 7 = tiny x4, FULL, tiny x2
SPECIFICATION Spec
VIEW View
CONSTANTS
  NV = 2
  W = 4
  Depth = 7
  Emit = "none"
  Pick = "all"
  FullLevels = {5}
  MedLevels = {}
  TinyLevels = {1,2,3,4,6,7}
  AliasLevels = {}
  XOffs = {}
  XLens = {}
  MaxLen = 13
  Mutant = "none"
  Prof <- ProfByLevel
INVARIANT InvFlatTypeOK
INVARIANT InvWellFormed
INVARIANT InvRefines
INVARIANT InvCopyIndependence
INVARIANT InvReadsAgree
