--------------------------------- MODULE Evm ---------------------------------
(***************************************************************************)
(* Reference EVM: a small-step machine for message calls, written from the *)
(* Yellow Paper / EIPs (Cancun instruction set) and independent of halmos. *)
(* There is no gas: the only resource limits are the 1024 stack items, the *)
(* 1024 call depth and a memory cap MEMCAP standing for "out of gas".      *)
(*                                                                         *)
(* A machine state m is a record                                           *)
(*   status  "run" | "done" | "unmodelled"                                 *)
(*   frames  sequence of call frames, the last one is executing            *)
(*   world   [code, storage, tstorage, balance]  (finite maps)             *)
(*   logs    sequence of [addr, topics, data]                              *)
(*   ncreated  number of CREATE addresses handed out (never rolled back)   *)
(*   env     block/tx constants and the address oracle for CREATE          *)
(*   result  [ok, kind, data] of the outermost frame once status = "done"  *)
(* Step(m) is a total function on running states.  The same text is        *)
(* executed at WB = 32 for conformance with halmos and model-checked       *)
(* exhaustively at WB = 1 (MC_EvmSmall).                                   *)
(***************************************************************************)
EXTENDS Cheats, Bytecode, Keccak, FiniteSets

CONSTANT MEMCAP      \* memory accesses ending above MEMCAP bytes are "out of gas"

\* Design mutations: "none" is the specification.  EvmSmall's negative-control configurations replace this
\* definition (cfg: Mutation <- ...) to show that each machine invariant refutes the corresponding wrong design.
Mutation == "none"

STACK_LIMIT == 1024
\* (the one-byte instance used for exhaustive model checking, EvmSmall, gets a call-depth limit it can reach)
DEPTH_LIMIT == IF WB = 1 THEN 6 ELSE 1024

-----------------------------------------------------------------------------
(* finite maps with a default *)
Get(f, k, d) == IF k \in DOMAIN f THEN f[k] ELSE d
Put(f, k, v) == [x \in (DOMAIN f) \cup {k} |-> IF x = k THEN v ELSE f[x]]
EmptyMap == [x \in {} |-> 0]

\* an address is a word whose bytes above the low 20 are zero
AddrOf(w) == IF WB > 20 THEN TLCEval([i \in 1..WB |-> IF i <= WB - 20 THEN 0 ELSE w[i]]) ELSE w

Balance(world, a) == Get(world.balance, a, Zero)
CodeOf(world, a) == Get(world.code, a, <<>>)
Exists(world, a) == a \in DOMAIN world.code

-----------------------------------------------------------------------------
(* memory: a byte sequence whose length is a multiple of the word size *)
CeilW(n) == ((n + WB - 1) \div WB) * WB
MemExtend(mem, off, size) ==
    IF size = 0 THEN mem
    ELSE LET need == CeilW(off + size)
         IN IF need > Len(mem) THEN mem \o BZero(need - Len(mem)) ELSE mem
\* read size bytes at off (zero beyond the end)
ReadBytes(s, off, size) == TLCEval([i \in 1..size |-> IF off + i <= Len(s) THEN s[off + i] ELSE 0])
MemWrite(mem, off, bytes) ==
    IF Len(bytes) = 0 THEN mem
    ELSE LET m2 == MemExtend(mem, off, Len(bytes))
         IN TLCEval([i \in 1..Len(m2) |-> IF i > off /\ i <= off + Len(bytes) THEN bytes[i - off] ELSE m2[i]])
\* a word argument used as an offset or a size; BIG when it cannot possibly be in range
BIG == MEMCAP + 1
Nat_(w) == BCap(w, BIG)
\* does the access [off, off+size) exceed the memory cap?  (size 0 never does)
TooBig(off, size) == size > 0 /\ (off >= BIG \/ size >= BIG \/ off + size > MEMCAP)

-----------------------------------------------------------------------------
(* stack effect of every opcode: <<pops, pushes>>; <<-1, 0>> = not an instruction *)
Arity(op) ==
    CASE op = 0 -> <<0, 0>>                                   \* STOP
      [] op \in 1..7 -> <<2, 1>>                              \* ADD MUL SUB DIV SDIV MOD SMOD
      [] op \in {8, 9} -> <<3, 1>>                            \* ADDMOD MULMOD
      [] op \in {10, 11} -> <<2, 1>>                          \* EXP SIGNEXTEND
      [] op \in 16..20 -> <<2, 1>>                            \* LT GT SLT SGT EQ
      [] op = 21 -> <<1, 1>>                                  \* ISZERO
      [] op \in 22..24 -> <<2, 1>>                            \* AND OR XOR
      [] op = 25 -> <<1, 1>>                                  \* NOT
      [] op \in 26..29 -> <<2, 1>>                            \* BYTE SHL SHR SAR
      [] op = 32 -> <<2, 1>>                                  \* SHA3
      [] op = 48 -> <<0, 1>>                                  \* ADDRESS
      [] op = 49 -> <<1, 1>>                                  \* BALANCE
      [] op \in {50, 51, 52} -> <<0, 1>>                      \* ORIGIN CALLER CALLVALUE
      [] op = 53 -> <<1, 1>>                                  \* CALLDATALOAD
      [] op = 54 -> <<0, 1>>                                  \* CALLDATASIZE
      [] op = 55 -> <<3, 0>>                                  \* CALLDATACOPY
      [] op = 56 -> <<0, 1>>                                  \* CODESIZE
      [] op = 57 -> <<3, 0>>                                  \* CODECOPY
      [] op = 58 -> <<0, 1>>                                  \* GASPRICE
      [] op = 59 -> <<1, 1>>                                  \* EXTCODESIZE
      [] op = 60 -> <<4, 0>>                                  \* EXTCODECOPY
      [] op = 61 -> <<0, 1>>                                  \* RETURNDATASIZE
      [] op = 62 -> <<3, 0>>                                  \* RETURNDATACOPY
      [] op = 63 -> <<1, 1>>                                  \* EXTCODEHASH
      [] op = 64 -> <<1, 1>>                                  \* BLOCKHASH
      [] op \in 65..72 -> <<0, 1>>                            \* COINBASE .. BASEFEE
      [] op = 80 -> <<1, 0>>                                  \* POP
      [] op = 81 -> <<1, 1>>                                  \* MLOAD
      [] op \in {82, 83} -> <<2, 0>>                          \* MSTORE MSTORE8
      [] op = 84 -> <<1, 1>>                                  \* SLOAD
      [] op = 85 -> <<2, 0>>                                  \* SSTORE
      [] op = 86 -> <<1, 0>>                                  \* JUMP
      [] op = 87 -> <<2, 0>>                                  \* JUMPI
      [] op \in {88, 89, 90} -> <<0, 1>>                      \* PC MSIZE GAS
      [] op = 91 -> <<0, 0>>                                  \* JUMPDEST
      [] op = 92 -> <<1, 1>>                                  \* TLOAD
      [] op = 93 -> <<2, 0>>                                  \* TSTORE
      [] op = 94 -> <<3, 0>>                                  \* MCOPY
      [] op \in 95..127 -> <<0, 1>>                           \* PUSH0..PUSH32
      [] op \in 128..143 -> <<op - 127, op - 126>>            \* DUP1..DUP16
      [] op \in 144..159 -> <<op - 142, op - 142>>            \* SWAP1..SWAP16
      [] op \in 160..164 -> <<op - 158, 0>>                   \* LOG0..LOG4
      [] op = 240 -> <<3, 1>>                                 \* CREATE
      [] op \in {241, 242} -> <<7, 1>>                        \* CALL CALLCODE
      [] op = 243 -> <<2, 0>>                                 \* RETURN
      [] op = 244 -> <<6, 1>>                                 \* DELEGATECALL
      [] op = 245 -> <<4, 1>>                                 \* CREATE2
      [] op = 250 -> <<6, 1>>                                 \* STATICCALL
      [] op = 253 -> <<2, 0>>                                 \* REVERT
      [] op = 254 -> <<0, 0>>                                 \* INVALID
      [] OTHER -> <<-1, 0>>

\* opcodes this specification deliberately leaves uninterpreted (see DESIGN 3.2)
Unmodelled(op) == op \in {58, 64, 90, 255}     \* GASPRICE BLOCKHASH GAS SELFDESTRUCT

Bin2(op, a, b) ==
    CASE op = 1 -> WAdd(a, b)   [] op = 2 -> WMul(a, b)    [] op = 3 -> WSub(a, b)
      [] op = 4 -> WDiv(a, b)   [] op = 5 -> WSDiv(a, b)   [] op = 6 -> WMod(a, b)
      [] op = 7 -> WSMod(a, b)  [] op = 10 -> WExp(a, b)   [] op = 11 -> WSignExtend(a, b)
      [] op = 16 -> Bool2W(WLt(a, b))   [] op = 17 -> Bool2W(WGt(a, b))
      [] op = 18 -> Bool2W(WSLt(a, b))  [] op = 19 -> Bool2W(WSGt(a, b))
      [] op = 20 -> Bool2W(a = b)
      [] op = 22 -> WAnd(a, b)  [] op = 23 -> WOr(a, b)    [] op = 24 -> WXor(a, b)
      [] op = 26 -> WByte(a, b) [] op = 27 -> WShl(a, b)   [] op = 28 -> WShr(a, b)
      [] op = 29 -> WSar(a, b)
BinOps == (1..7) \cup {10, 11} \cup (16..20) \cup (22..24) \cup (26..29)

-----------------------------------------------------------------------------
(* frames *)
Cur(m) == m.frames[Len(m.frames)]
SetCur(m, f) == [m EXCEPT !.frames[Len(m.frames)] = f]

\* per-frame prank state (vm.prank / vm.startPrank): applies to calls and creations made by this frame only
NoPrank == [active |-> FALSE, sender |-> Zero, hasOrigin |-> FALSE, origin |-> Zero, keep |-> FALSE]

NewFrame(kind, this, codeaddr, code, caller, origin, value, data, static, depth, world, nlogs, retOff, retSize) ==
    [kind |-> kind, this |-> this, codeaddr |-> codeaddr, code |-> code, jd |-> ValidJumpdests(code),
     caller |-> caller, origin |-> origin, value |-> value, data |-> data,
     pc |-> 0, stack |-> <<>>, mem |-> <<>>, ret |-> <<>>, static |-> static, depth |-> depth,
     snapWorld |-> world, snapLogs |-> nlogs, retOff |-> retOff, retSize |-> retSize,
     prank |-> NoPrank, viaPrank |-> FALSE]

\* the current frame ends: ok/kind/data is what its parent (or the transaction) sees
EndFrame(m, ok, kind, data) ==
    LET f == Cur(m)
        n == Len(m.frames)
        w1 == IF ok \/ Mutation = "no-rollback" THEN m.world ELSE f.snapWorld
        l1 == IF ok \/ Mutation = "logs-kept" THEN m.logs ELSE SubSeq(m.logs, 1, f.snapLogs)
    IN IF n = 1
       THEN IF ok /\ f.kind = "CREATE"
            THEN [m EXCEPT !.status = "done", !.world = [w1 EXCEPT !.code = Put(w1.code, f.this, data)],
                           !.logs = l1, !.result = [ok |-> TRUE, kind |-> kind, data |-> data]]
            ELSE [m EXCEPT !.status = "done", !.world = w1, !.logs = l1,
                           !.result = [ok |-> ok, kind |-> kind, data |-> data]]
       ELSE LET p == m.frames[n - 1]
                created == f.kind \in {"CREATE", "CREATE2"}
                w2 == IF ok /\ created THEN [w1 EXCEPT !.code = Put(w1.code, f.this, data)] ELSE w1
                flag == IF ~ok THEN Zero ELSE IF created THEN f.this ELSE One
                rd == IF created THEN (IF ok THEN <<>> ELSE data) ELSE data
                nw == IF created THEN 0 ELSE (IF Len(data) < f.retSize THEN Len(data) ELSE f.retSize)
                p1 == [p EXCEPT !.stack = Append(p.stack, flag), !.ret = rd,
                                !.mem = MemWrite(p.mem, f.retOff, SubSeq(data, 1, nw))]
            IN [m EXCEPT !.frames = Append(SubSeq(m.frames, 1, n - 2), p1), !.world = w2, !.logs = l1]

\* exceptional halt of the current frame: all its effects are undone, no data
Exc(m, kind) == EndFrame(m, FALSE, kind, <<>>)

-----------------------------------------------------------------------------
(* calls and creations *)

Transfer(world, from, to, v) ==
    IF BIsZero(v) THEN world
    ELSE LET b1 == IF Mutation = "value-created" THEN world.balance ELSE Put(world.balance, from, WSub(Balance(world, from), v))
             b2 == Put(b1, to, WAdd(Get(b1, to, Zero), v))
         IN [world EXCEPT !.balance = b2]

IDENTITY == WFromNat(4)
IsCheatAddr(m, a) == a \in m.env.cheatAddrs

\* Initial contents of storage.  A slot that was never written reads zero, except in accounts with
\* symbolic ("arbitrary") storage, where it reads the arbitrary-but-fixed word the environment chose
\* for that slot: slot xor env.symmask (the harness interprets halmos' initial storage terms alike).
StorageDefault(m, a, slot) == IF a \in m.env.symstore THEN WXor(slot, m.env.symmask) ELSE Zero
SLoad(m, a, slot) == Get(m.world.storage, <<a, slot>>, StorageDefault(m, a, slot))
IsPrecompileOrOpaque(m, a) ==
    \/ (~BIsZero(a) /\ BCmp(a, WFromNat(10)) <= 0 /\ a # IDENTITY)
    \/ a \in m.env.opaque

Unmodelled_(m) == [m EXCEPT !.status = "unmodelled"]

\* a cheatcode call returns `ret` to the calling frame f (already advanced) and always succeeds
CheatRet(m, f, ret, retOff, retSize) ==
    LET nw == IF Len(ret) < retSize THEN Len(ret) ELSE retSize
    IN SetCur(m, [f EXCEPT !.stack = Append(f.stack, One), !.ret = ret,
                           !.mem = MemWrite(f.mem, retOff, SubSeq(ret, 1, nw))])

\* the test is marked as failed; halmos (like a reverting vm.assert*) stops the path here
FailNow(m) == [m EXCEPT !.status = "done", !.failed = TRUE,
                        !.result = [ok |-> FALSE, kind |-> "Fail", data |-> <<>>]]

FAILED_SLOT == <<102, 97, 105, 108, 101, 100>> \o BZero(WB - 6)          \* bytes32("failed")

CheatDesc(m, sel) ==
    LET ix == {i \in 1..Len(m.env.cheats) : m.env.cheats[i].sel = sel}
    IN IF ix = {} THEN [kind |-> "none"] ELSE m.env.cheats[CHOOSE i \in ix : TRUE]

SetPrank(m, f, sender, hasOrigin, origin, keep, retOff, retSize) ==
    IF f.prank.active THEN Unmodelled_(m)       \* Foundry rejects the call; halmos stops the path: no verdict
    ELSE CheatRet(m, [f EXCEPT !.prank = [active |-> TRUE, sender |-> sender, hasOrigin |-> hasOrigin,
                                          origin |-> origin, keep |-> keep]], <<>>, retOff, retSize)

CheatCall(m, f, to, args, retOff, retSize) ==
    LET d == CheatDesc(m, Sl(args, 0, 4))
        a0 == ArgWord(args, 0)
        a1 == ArgWord(args, 1)
        a2 == ArgWord(args, 2)
        ok(mm) == CheatRet(mm, f, <<>>, retOff, retSize)
    IN CASE d.kind = "assume" ->
              IF BIsZero(a0) THEN [m EXCEPT !.status = "discard"] ELSE ok(m)
         [] d.kind = "assert" ->
              IF AssertHolds(d, args) THEN ok(m)
              ELSE IF m.env.assertMode = "stop" THEN FailNow(m)
              ELSE [ok(m) EXCEPT !.failed = TRUE]
         [] d.kind = "store" ->
              IF IsCheatAddr(m, AddrOf(a0)) /\ a1 = FAILED_SLOT /\ ~BIsZero(a2) THEN FailNow(m)   \* DSTest.fail()
              ELSE IF ~Exists(m.world, AddrOf(a0)) THEN Unmodelled_(m)
              ELSE [ok(m) EXCEPT !.world.storage = Put(m.world.storage, <<AddrOf(a0), a1>>, a2), !.cheated = TRUE]
         [] d.kind = "load" ->
              CheatRet(m, f, SLoad(m, AddrOf(a0), a1), retOff, retSize)
         [] d.kind = "symstore" ->                                   \* svm.enableSymbolicStorage / vm.setArbitraryStorage
              IF ~Exists(m.world, AddrOf(a0)) THEN Unmodelled_(m)
              ELSE [ok(m) EXCEPT !.env.symstore = @ \cup {AddrOf(a0)}]
         [] d.kind = "deal" ->
              [ok(m) EXCEPT !.world.balance = Put(m.world.balance, AddrOf(a0), a1), !.cheated = TRUE]
         [] d.kind = "warp" -> [ok(m) EXCEPT !.env.timestamp = a0]
         [] d.kind = "roll" -> [ok(m) EXCEPT !.env.number = a0]
         [] d.kind = "fee" -> [ok(m) EXCEPT !.env.basefee = a0]
         [] d.kind = "chainId" -> [ok(m) EXCEPT !.env.chainid = a0]
         [] d.kind = "coinbase" -> [ok(m) EXCEPT !.env.coinbase = AddrOf(a0)]
         [] d.kind = "difficulty" -> [ok(m) EXCEPT !.env.prevrandao = a0]
         [] d.kind = "prank1" -> SetPrank(m, f, AddrOf(a0), FALSE, Zero, FALSE, retOff, retSize)
         [] d.kind = "prank2" -> SetPrank(m, f, AddrOf(a0), TRUE, AddrOf(a1), FALSE, retOff, retSize)
         [] d.kind = "startPrank1" -> SetPrank(m, f, AddrOf(a0), FALSE, Zero, TRUE, retOff, retSize)
         [] d.kind = "startPrank2" -> SetPrank(m, f, AddrOf(a0), TRUE, AddrOf(a1), TRUE, retOff, retSize)
         [] d.kind = "stopPrank" -> CheatRet(m, [f EXCEPT !.prank = NoPrank], <<>>, retOff, retSize)
         [] d.kind = "etch" ->
              [ok(m) EXCEPT !.world.code = Put(m.world.code, AddrOf(a0), ArgDyn(args, 1)), !.cheated = TRUE]
         [] d.kind = "fresh" ->
              IF m.noracle >= Len(m.env.oracle) THEN Unmodelled_(m)
              ELSE LET sz == IF d.n < 0 THEN 0 ELSE ArgNat(args, d.n, 4096)
                       raw == m.env.oracle[m.noracle + 1]
                   IN IF (d.typ \in {"uint", "int"} /\ sz > NBITS) \/ (d.typ \in {"bytes", "string"} /\ sz > Len(raw))
                      THEN Unmodelled_(m)
                      ELSE [CheatRet(m, f, FreshReturn(d.typ, sz, raw), retOff, retSize) EXCEPT !.noracle = m.noracle + 1]
         [] d.kind = "freshRange" ->                  \* a fresh value in [min, max] (unsigned): arguments d.n and d.n + 1
              IF m.noracle >= Len(m.env.oracle) THEN Unmodelled_(m)
              ELSE LET lo == ArgWord(args, d.n)
                       hi == ArgWord(args, d.n + 1)
                       raw == m.env.oracle[m.noracle + 1]
                       w == Sl(raw, Len(raw) - WB, WB)
                   IN IF WLt(hi, lo) THEN Unmodelled_(m)
                      \* the environment's choice lies outside the range: not an admissible behaviour (as for assume(false))
                      ELSE IF WLt(w, lo) \/ WLt(hi, w) THEN [m EXCEPT !.status = "discard"]
                      ELSE [CheatRet(m, f, w, retOff, retSize) EXCEPT !.noracle = m.noracle + 1]
         [] OTHER -> Unmodelled_(m)

\* f: current frame, already advanced past the call instruction with its operands popped and the
\* argument / return areas of its memory expanded
DoCall(m, f, kind, to, value, args, retOff, retSize) ==
    LET pr == f.prank
        pranked == pr.active
        sender == IF pranked THEN pr.sender ELSE f.this
        origin == IF pranked /\ pr.hasOrigin THEN pr.origin ELSE f.origin
        g == IF pranked /\ ~pr.keep THEN [f EXCEPT !.prank = NoPrank] ELSE f          \* a single-use prank is consumed
        mp == SetCur(m, g)
        fail == SetCur(m, [g EXCEPT !.stack = Append(g.stack, Zero), !.ret = <<>>])
        needFunds == kind \in {"CALL", "CALLCODE"} /\ ~BIsZero(value)
    IN IF IsCheatAddr(m, to) THEN CheatCall(m, f, to, args, retOff, retSize)       \* cheatcode calls never consume a prank
       ELSE IF IsPrecompileOrOpaque(m, to) THEN Unmodelled_(m)
       ELSE IF pranked /\ kind \in {"DELEGATECALL", "CALLCODE"} THEN Unmodelled_(m)   \* Foundry's behaviour is version dependent
       ELSE IF f.depth >= DEPTH_LIMIT THEN fail
       ELSE IF needFunds /\ WLt(Balance(m.world, sender), value) THEN fail
       ELSE IF to = IDENTITY
       THEN LET nw == IF Len(args) < retSize THEN Len(args) ELSE retSize
            IN [(SetCur(m, [g EXCEPT !.stack = Append(g.stack, One), !.ret = args,
                                     !.mem = MemWrite(g.mem, retOff, SubSeq(args, 1, nw))]))
                  EXCEPT !.world = IF kind = "CALL" THEN Transfer(m.world, sender, to, value) ELSE m.world]
       ELSE LET w1 == IF kind = "CALL" THEN Transfer(m.world, sender, to, value) ELSE m.world
                nf == NewFrame(kind,
                               IF kind \in {"CALL", "STATICCALL"} THEN to ELSE f.this,
                               to, CodeOf(m.world, to),
                               IF kind = "DELEGATECALL" /\ Mutation # "delegate-caller" THEN f.caller ELSE sender,
                               origin,
                               IF kind = "DELEGATECALL" THEN f.value ELSE IF kind = "STATICCALL" THEN Zero ELSE value,
                               args, (f.static /\ Mutation # "static-leak") \/ kind = "STATICCALL", f.depth + 1,
                               m.world, Len(m.logs), retOff, retSize)
            IN [mp EXCEPT !.frames = Append(mp.frames, [nf EXCEPT !.viaPrank = pranked]), !.world = w1]

\* the address of the next contract created by CREATE: handed out by the environment
\* (halmos numbers them; the real EVM hashes sender and nonce - programs must not depend on it)
NextCreateAddr(m) == WAdd(m.env.createBase, WFromNat(m.ncreated))

Create2Addr(sender, salt, init) ==
    AddrOf(Keccak256(<<255>> \o SubSeq(sender, WB - 19, WB) \o salt \o Keccak256(init)))

DoCreate(m, f, kind, value, init, salt) ==
    LET pr == f.prank
        pranked == pr.active
        sender == IF pranked THEN pr.sender ELSE f.this
        origin == IF pranked /\ pr.hasOrigin THEN pr.origin ELSE f.origin
        g == IF pranked /\ ~pr.keep THEN [f EXCEPT !.prank = NoPrank] ELSE f
        addr == IF kind = "CREATE" THEN NextCreateAddr(m) ELSE Create2Addr(sender, salt, init)
        m1 == [SetCur(m, g) EXCEPT !.ncreated = IF kind = "CREATE" THEN m.ncreated + 1 ELSE m.ncreated]
        fail == SetCur(m1, [g EXCEPT !.stack = Append(g.stack, Zero), !.ret = <<>>])
    IN IF f.depth >= DEPTH_LIMIT THEN fail
       ELSE IF ~BIsZero(value) /\ WLt(Balance(m.world, sender), value) THEN fail
       ELSE IF Exists(m.world, addr) THEN fail                                          \* address collision
       ELSE LET w0 == [m.world EXCEPT !.code = Put(m.world.code, addr, <<>>),
                                      !.storage = [k \in {x \in DOMAIN m.world.storage : x[1] # addr} |-> m.world.storage[k]],
                                      !.tstorage = [k \in {x \in DOMAIN m.world.tstorage : x[1] # addr} |-> m.world.tstorage[k]]]
                w1 == Transfer(w0, sender, addr, value)
                nf == NewFrame(kind, addr, addr, init, sender, origin, value, <<>>, FALSE, f.depth + 1,
                               m.world, Len(m.logs), 0, 0)
            IN [m1 EXCEPT !.frames = Append(m1.frames, [nf EXCEPT !.viaPrank = pranked]), !.world = w1]

-----------------------------------------------------------------------------
(* one instruction *)

Step(m) ==
    LET f  == Cur(m)
        op == OpAt(f.code, f.pc)
        st == f.stack
        n  == Len(st)
        ar == Arity(op)
        A(i) == st[n - i]                                  \* i-th operand, 0 = top of stack
        Rest(k) == SubSeq(st, 1, n - k)                    \* stack without its top k items
        npc == f.pc + InsnLen(op)
        Go(stk) == SetCur(m, [f EXCEPT !.pc = npc, !.stack = stk])
        GoF(g) == SetCur(m, [g EXCEPT !.pc = npc])
        W1(w) == Go(Append(Rest(ar[1]), w))                \* pop the operands, push one word
    IN
    IF Unmodelled(op) THEN [m EXCEPT !.status = "unmodelled"]
    ELSE IF ar[1] < 0 THEN Exc(m, "InvalidOpcode")
    ELSE IF n < ar[1] THEN Exc(m, "StackUnderflow")
    ELSE IF n - ar[1] + ar[2] > STACK_LIMIT THEN Exc(m, "StackOverflow")
    ELSE
    CASE op = 0 -> EndFrame(m, TRUE, "Stop", <<>>)
      [] op \in BinOps -> W1(Bin2(op, A(0), A(1)))
      [] op = 8 -> W1(WAddMod(A(0), A(1), A(2)))
      [] op = 9 -> W1(WMulMod(A(0), A(1), A(2)))
      [] op = 21 -> W1(Bool2W(WIsZero(A(0))))
      [] op = 25 -> W1(WNot(A(0)))
      [] op = 32 ->                                                                   \* SHA3
            LET off == Nat_(A(0))  sz == Nat_(A(1))
            IN IF TooBig(off, sz) THEN Exc(m, "OutOfGas")
               ELSE LET mem2 == MemExtend(f.mem, off, sz)
                    IN GoF([f EXCEPT !.mem = mem2,
                                     !.stack = Append(Rest(2), Keccak256(ReadBytes(mem2, off, sz)))])
      [] op = 48 -> W1(f.this)
      [] op = 49 -> W1(Balance(m.world, AddrOf(A(0))))
      [] op = 50 -> W1(f.origin)
      [] op = 51 -> W1(f.caller)
      [] op = 52 -> W1(f.value)
      [] op = 53 -> W1(ReadBytes(f.data, BCap(A(0), Len(f.data) + 1), WB))            \* CALLDATALOAD
      [] op = 54 -> W1(WFromNat(Len(f.data)))
      [] op \in {55, 57} ->                                                           \* CALLDATACOPY CODECOPY
            LET dst == Nat_(A(0))  sz == Nat_(A(2))
                src == IF op = 55 THEN f.data ELSE f.code
                off == BCap(A(1), Len(src) + 1)
            IN IF TooBig(dst, sz) THEN Exc(m, "OutOfGas")
               ELSE GoF([f EXCEPT !.stack = Rest(3), !.mem = MemWrite(f.mem, dst, ReadBytes(src, off, sz))])
      [] op = 56 -> W1(WFromNat(Len(f.code)))
      [] op = 59 -> W1(WFromNat(Len(CodeOf(m.world, AddrOf(A(0))))))
      [] op = 60 ->                                                                   \* EXTCODECOPY
            LET dst == Nat_(A(1))  sz == Nat_(A(3))
                src == CodeOf(m.world, AddrOf(A(0)))
                off == BCap(A(2), Len(src) + 1)
            IN IF TooBig(dst, sz) THEN Exc(m, "OutOfGas")
               ELSE GoF([f EXCEPT !.stack = Rest(4), !.mem = MemWrite(f.mem, dst, ReadBytes(src, off, sz))])
      [] op = 61 -> W1(WFromNat(Len(f.ret)))
      [] op = 62 ->                                                                   \* RETURNDATACOPY
            LET dst == Nat_(A(0))  sz == Nat_(A(2))
                off == BCap(A(1), Len(f.ret) + 1)
            IN IF off + sz > Len(f.ret) \/ (sz >= BIG) THEN Exc(m, "OutOfBounds")      \* EIP-211, also for sz = 0
               ELSE IF TooBig(dst, sz) THEN Exc(m, "OutOfGas")
               ELSE GoF([f EXCEPT !.stack = Rest(3), !.mem = MemWrite(f.mem, dst, ReadBytes(f.ret, off, sz))])
      [] op = 63 ->                                                                   \* EXTCODEHASH (EIP-1052)
            LET a == AddrOf(A(0))
            IN W1(IF Exists(m.world, a) THEN Keccak256(CodeOf(m.world, a)) ELSE Zero)
      [] op = 65 -> W1(m.env.coinbase)
      [] op = 66 -> W1(m.env.timestamp)
      [] op = 67 -> W1(m.env.number)
      [] op = 68 -> W1(m.env.prevrandao)
      [] op = 69 -> W1(m.env.gaslimit)
      [] op = 70 -> W1(m.env.chainid)
      [] op = 71 -> W1(Balance(m.world, f.this))
      [] op = 72 -> W1(m.env.basefee)
      [] op = 80 -> Go(Rest(1))
      [] op = 81 ->                                                                   \* MLOAD
            LET off == Nat_(A(0))
            IN IF TooBig(off, WB) THEN Exc(m, "OutOfGas")
               ELSE LET mem2 == MemExtend(f.mem, off, WB)
                    IN GoF([f EXCEPT !.mem = mem2, !.stack = Append(Rest(1), ReadBytes(mem2, off, WB))])
      [] op = 82 ->                                                                   \* MSTORE
            LET off == Nat_(A(0))
            IN IF TooBig(off, WB) THEN Exc(m, "OutOfGas")
               ELSE GoF([f EXCEPT !.stack = Rest(2), !.mem = MemWrite(f.mem, off, A(1))])
      [] op = 83 ->                                                                   \* MSTORE8
            LET off == Nat_(A(0))
            IN IF TooBig(off, 1) THEN Exc(m, "OutOfGas")
               ELSE GoF([f EXCEPT !.stack = Rest(2), !.mem = MemWrite(f.mem, off, <<A(1)[WB]>>)])
      [] op = 84 -> W1(SLoad(m, f.this, A(0)))
      [] op = 85 ->                                                                   \* SSTORE
            IF f.static THEN Exc(m, "StaticWrite")
            ELSE [Go(Rest(2)) EXCEPT !.world.storage = Put(m.world.storage, <<f.this, A(0)>>, A(1))]
      [] op = 86 ->                                                                   \* JUMP
            LET d == BCap(A(0), Len(f.code) + 1)
            IN IF d \in f.jd THEN SetCur(m, [f EXCEPT !.pc = d, !.stack = Rest(1)]) ELSE Exc(m, "InvalidJump")
      [] op = 87 ->                                                                   \* JUMPI
            LET d == BCap(A(0), Len(f.code) + 1)
            IN IF BIsZero(A(1)) THEN Go(Rest(2))
               ELSE IF d \in f.jd THEN SetCur(m, [f EXCEPT !.pc = d, !.stack = Rest(2)])
               ELSE Exc(m, "InvalidJump")
      [] op = 88 -> W1(WFromNat(f.pc))
      [] op = 89 -> W1(WFromNat(Len(f.mem)))
      [] op = 91 -> Go(st)
      [] op = 92 -> W1(Get(m.world.tstorage, <<f.this, A(0)>>, Zero))
      [] op = 93 ->                                                                   \* TSTORE
            IF f.static THEN Exc(m, "StaticWrite")
            ELSE [Go(Rest(2)) EXCEPT !.world.tstorage = Put(m.world.tstorage, <<f.this, A(0)>>, A(1))]
      [] op = 94 ->                                                                   \* MCOPY
            LET dst == Nat_(A(0))  src == Nat_(A(1))  sz == Nat_(A(2))
            IN IF TooBig(dst, sz) \/ TooBig(src, sz) THEN Exc(m, "OutOfGas")
               ELSE LET mem2 == MemExtend(f.mem, src, sz)
                    IN GoF([f EXCEPT !.stack = Rest(3), !.mem = MemWrite(mem2, dst, ReadBytes(mem2, src, sz))])
      [] op = 95 -> W1(Zero)
      [] op \in 96..127 ->                                                            \* PUSHk
            LET arg == PushArg(f.code, f.pc)
                k == Len(arg)
            IN W1(IF k >= WB THEN SubSeq(arg, k - WB + 1, k) ELSE BZero(WB - k) \o arg)
      [] op \in 128..143 -> Go(Append(st, A(op - 128)))                               \* DUPk
      [] op \in 144..159 ->                                                           \* SWAPk
            LET k == op - 143
            IN Go(TLCEval([i \in 1..n |-> IF i = n THEN st[n - k] ELSE IF i = n - k THEN st[n] ELSE st[i]]))
      [] op \in 160..164 ->                                                           \* LOGk
            LET k == op - 160  off == Nat_(A(0))  sz == Nat_(A(1))
            IN IF f.static THEN Exc(m, "StaticWrite")
               ELSE IF TooBig(off, sz) THEN Exc(m, "OutOfGas")
               ELSE LET mem2 == MemExtend(f.mem, off, sz)
                        lg == [addr |-> f.this, topics |-> [i \in 1..k |-> A(1 + i)], data |-> ReadBytes(mem2, off, sz)]
                    IN [GoF([f EXCEPT !.stack = Rest(2 + k), !.mem = mem2]) EXCEPT !.logs = Append(m.logs, lg)]
      [] op \in {241, 242, 244, 250} ->                                               \* CALL CALLCODE DELEGATECALL STATICCALL
            LET hasv == op \in {241, 242}
                kind == CASE op = 241 -> "CALL" [] op = 242 -> "CALLCODE" [] op = 244 -> "DELEGATECALL" [] op = 250 -> "STATICCALL"
                to == AddrOf(A(1))
                value == IF hasv THEN A(2) ELSE Zero
                b == IF hasv THEN 3 ELSE 2
                aoff == Nat_(A(b))  asz == Nat_(A(b + 1))  roff == Nat_(A(b + 2))  rsz == Nat_(A(b + 3))
            IN IF op = 241 /\ f.static /\ ~BIsZero(value) THEN Exc(m, "StaticWrite")
               ELSE IF TooBig(aoff, asz) \/ TooBig(roff, rsz) THEN Exc(m, "OutOfGas")
               ELSE LET mem2 == MemExtend(MemExtend(f.mem, aoff, asz), roff, rsz)
                        g == [f EXCEPT !.pc = npc, !.stack = Rest(ar[1]), !.mem = mem2]
                    IN DoCall(m, g, kind, to, value, ReadBytes(mem2, aoff, asz), roff, rsz)
      [] op \in {240, 245} ->                                                         \* CREATE CREATE2
            LET off == Nat_(A(1))  sz == Nat_(A(2))
            IN IF f.static THEN Exc(m, "StaticWrite")
               ELSE IF TooBig(off, sz) THEN Exc(m, "OutOfGas")
               ELSE LET mem2 == MemExtend(f.mem, off, sz)
                        g == [f EXCEPT !.pc = npc, !.stack = Rest(ar[1]), !.mem = mem2]
                    IN DoCreate(m, g, IF op = 240 THEN "CREATE" ELSE "CREATE2", A(0),
                                ReadBytes(mem2, off, sz), IF op = 245 THEN A(3) ELSE Zero)
      [] op \in {243, 253} ->                                                         \* RETURN REVERT
            LET off == Nat_(A(0))  sz == Nat_(A(1))
            IN IF TooBig(off, sz) THEN Exc(m, "OutOfGas")
               ELSE LET d == ReadBytes(MemExtend(f.mem, off, sz), off, sz)
                    IN IF op = 243 THEN EndFrame(m, TRUE, "Return", d) ELSE EndFrame(m, FALSE, "Revert", d)
      [] op = 254 -> Exc(m, "InvalidOpcode")

RECURSIVE Run(_)
\* iterate Step to the end of the transaction (used where a transaction is one atomic action)
Run(m) == IF m.status # "run" THEN m ELSE Run(Step(m))

-----------------------------------------------------------------------------
(* initial machine for a message (tx) sent into a world *)
InitMachine(world, env, tx) ==
    LET w0 == IF tx.transfer THEN Transfer(world, tx.caller, tx.to, tx.value) ELSE world
        code == IF tx.create THEN tx.data ELSE CodeOf(world, tx.to)
        data == IF tx.create THEN <<>> ELSE tx.data
    IN [status |-> "run",
        frames |-> << NewFrame(IF tx.create THEN "CREATE" ELSE "CALL", tx.to, tx.to, code, tx.caller, tx.origin,
                               tx.value, data, tx.static, 1, world, 0, 0, 0) >>,
        world |-> [w0 EXCEPT !.tstorage = EmptyMap],
        logs |-> <<>>, ncreated |-> 0, env |-> env,
        failed |-> FALSE, cheated |-> FALSE, noracle |-> 0,
        result |-> [ok |-> FALSE, kind |-> "", data |-> <<>>]]

-----------------------------------------------------------------------------
(* machine invariants (checked in every state of every behaviour) *)

RECURSIVE SumBal(_, _, _)
SumBal(bal, keys, acc) ==
    IF keys = {} THEN acc
    ELSE LET k == CHOOSE x \in keys : TRUE
         IN SumBal(bal, keys \ {k}, Tail(BAddC(acc, BExt(bal[k], Len(acc)))))
\* total balance as a (WB+2)-byte number (cannot overflow for < 65536 accounts)
TotalBalance(world) == SumBal(world.balance, DOMAIN world.balance, BZero(WB + 2))

StackBound(m) == \A i \in 1..Len(m.frames) : Len(m.frames[i].stack) <= STACK_LIMIT
MemAligned(m) == \A i \in 1..Len(m.frames) : Len(m.frames[i].mem) % WB = 0 /\ Len(m.frames[i].mem) <= CeilW(MEMCAP)
DepthConsistent(m) == \A i \in 1..Len(m.frames) : m.frames[i].depth = i /\ i <= DEPTH_LIMIT + 1
WordsWellFormed(m) ==
    \A i \in 1..Len(m.frames) : \A j \in 1..Len(m.frames[i].stack) : IsWord(m.frames[i].stack[j])
\* inside a static frame nothing observable has changed since the outermost static frame began
StaticNoWrite(m) ==
    \A i \in 1..Len(m.frames) :
        (~m.cheated /\ m.frames[i].static /\ (i = 1 \/ ~m.frames[i - 1].static) /\ i > 1) =>
            /\ m.world = m.frames[i].snapWorld
            /\ Len(m.logs) = m.frames[i].snapLogs
\* every frame sees the context its call kind prescribes
ContextCorrect(m) ==
    \A i \in 2..Len(m.frames) :
        LET c == m.frames[i]  p == m.frames[i - 1]
            own == ~c.viaPrank          \* a pranked call deliberately sees another sender (and origin)
        IN /\ (own => c.origin = p.origin)
           /\ (p.static => c.static)
           /\ ~c.prank.active \/ c.pc > 0      \* a frame never starts with an inherited prank
           /\ CASE c.kind = "CALL" -> (own => c.caller = p.this) /\ c.this = c.codeaddr
                [] c.kind = "STATICCALL" -> (own => c.caller = p.this) /\ c.this = c.codeaddr /\ c.static /\ BIsZero(c.value)
                [] c.kind = "DELEGATECALL" -> c.caller = p.caller /\ c.this = p.this /\ c.value = p.value /\ own
                [] c.kind = "CALLCODE" -> c.caller = p.this /\ c.this = p.this /\ own
                [] c.kind \in {"CREATE", "CREATE2"} -> (own => c.caller = p.this) /\ ~c.static /\ c.data = <<>>
\* value transfers only move balance between accounts
BalanceConserved(m, total0) == m.cheated \/ TotalBalance(m.world) = total0
\* a finished failed transaction leaves the world as it found it
FailureRestores(m, world0) ==
    (m.status = "done" /\ ~m.result.ok /\ ~m.cheated /\ m.result.kind # "Fail") => (m.world.storage = world0.storage /\ m.world.balance = world0.balance
                                             /\ m.world.code = world0.code /\ m.logs = <<>>)
=============================================================================
