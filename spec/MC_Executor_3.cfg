\* 3 interchangeable jobs with timeout, cancel() coarse (see CoarseCancel): exhaustive safety under symmetry
SPECIFICATION Spec
CONSTANTS
  Jobs = {j1, j2, j3}
  HasTimeout = {j1, j2, j3}
  IgnoresTerm = {}
  PopenMayFail = {}
  PreFix = FALSE
  CoarseCancel = TRUE
  Modes = {"nowait", "wait"}
  Modes2 = {"none"}
  NeverExits = {}
VIEW View
SYMMETRY JobSymmetry
INVARIANTS TypeOK ResultAtMostOnce ResultConsistent TimeoutIsUnknown CancelCoversRegistered ClosedMeansDead
  QuiescentUnlessCbp CbpOnlyRegistered NoAcceptAfterShutdown QuiescentAfterReturnedWait
  SnapshotCoversRegistered JoinCoversSnapshot
