\* negative control: "idempotent shutdown" (early return when the flag is already set) must violate QuiescentUnlessCbp
SPECIFICATION SpecMut
CONSTANTS
  Jobs = {j1}
  HasTimeout = {}
  IgnoresTerm = {}
  PopenMayFail = {}
  PreFix = FALSE
  CoarseCancel = TRUE
  Modes = {"wait"}
  Modes2 = {"nowait"}
  NeverExits = {j1}
  Mutation = "early_return"
INVARIANTS QuiescentUnlessCbp
