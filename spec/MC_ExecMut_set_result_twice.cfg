\* negative control: the mutated model must violate ResultAtMostOnce
SPECIFICATION SpecMut
CONSTANTS
  Jobs = {j1}
  HasTimeout = {j1}
  IgnoresTerm = {}
  PopenMayFail = {j1}
  PreFix = FALSE
  CoarseCancel = FALSE
  Modes = {"none", "nowait", "wait"}
  Modes2 = {"none"}
  NeverExits = {}
  Mutation = "set_result_twice"
INVARIANTS ResultAtMostOnce
