------------------------------ MODULE EvmSmall ------------------------------
(***************************************************************************)
(* Exhaustive model check of the reference machine itself.                 *)
(*                                                                         *)
(* The text of Evm.tla that is executed at WB = 32 against halmos is here  *)
(* instantiated with one-byte words (WB = 1: 8-bit stack items, one-byte   *)
(* addresses, offsets and values) and run on EVERY program of a family:    *)
(* the code of three accounts is any concatenation of at most NR / NC / NT *)
(* gadgets (state effects, all call kinds with and without value, CREATE,  *)
(* logs, transient storage, context reports, every way of ending a frame,  *)
(* a backward jump), for every message value and static flag.  TLC visits  *)
(* every state of every such execution and checks the machine invariants   *)
(* (frame contexts, static frames, balance conservation, rollback) plus    *)
(* the step-level properties below; "Never..." predicates are reachability *)
(* probes that must be VIOLATED (non-vacuity of the invariants).           *)
(***************************************************************************)
EXTENDS Evm, TLC

CONSTANTS NR, NC, NT      \* maximal number of gadgets in the code of the root / callee / third account

\* (addresses 1..10 are precompiles, which the reference machine does not model)
RA == 17   CA == 18   TA == 19
ROOT == <<RA>>   CALLEE == <<CA>>   THIRD == <<TA>>   SENDER == <<33>>

P1(b) == <<96, b>>                                  \* PUSH1 b
CallTo(op, to, val) ==                              \* ret area 0/0, args 0/0, then value (CALL, CALLCODE), address, gas; result flag kept on the stack
    P1(0) \o P1(0) \o P1(0) \o P1(0) \o (IF op \in {241, 242} THEN P1(val) ELSE <<>>) \o P1(to) \o P1(255) \o <<op>>
Report(op) == <<op>> \o P1(0) \o <<82>>             \* e.g. CALLER PUSH1 0 MSTORE

Gadgets == <<
    P1(1) \o P1(0) \o <<85>>,                       \*  1  sstore(0, 1)
    P1(0) \o <<84>> \o P1(1) \o <<1>> \o P1(0) \o <<85>>,   \*  2  sstore(0, sload(0) + 1)
    P1(7) \o P1(0) \o <<93>>,                       \*  3  tstore(0, 7)
    P1(0) \o <<92>> \o P1(1) \o <<85>>,             \*  4  sstore(1, tload(0))
    P1(0) \o P1(0) \o <<160>>,                      \*  5  log0(0, 0)
    Report(51), Report(48), Report(52), Report(50), \*  6-9  CALLER / ADDRESS / CALLVALUE / ORIGIN -> mem[0]
    <<71>> \o P1(1) \o <<85>>,                      \* 10  sstore(1, selfbalance)
    CallTo(241, CA, 0), CallTo(241, CA, 1),           \* 11-12 CALL callee without / with value
    CallTo(250, CA, 0), CallTo(244, CA, 0), CallTo(242, CA, 1),   \* 13-15 STATICCALL / DELEGATECALL / CALLCODE(value)
    CallTo(241, TA, 1), CallTo(250, TA, 0),           \* 16-17 CALL third with value / STATICCALL third
    CallTo(241, RA, 0),                             \* 18  CALL root (re-entrancy)
    P1(0) \o P1(0) \o P1(1) \o <<240>>,             \* 19  create(value 1, empty init code)
    <<61>> \o P1(0) \o <<82>>,                      \* 20  mem[0] := returndatasize
    P1(1) \o P1(0) \o <<243>>,                      \* 21  return mem[0:1]
    P1(1) \o P1(0) \o <<253>>,                      \* 22  revert mem[0:1]
    <<254>>, <<0>>,                                 \* 23-24 INVALID / STOP
    <<80>>,                                         \* 25  POP (stack underflow, or dropping a call flag)
    \* 26  x := sload(0) + 1; sstore(0, x); if 3 > x jump to 0 (a valid destination only if the code starts with JUMPDEST)
    P1(0) \o <<84>> \o P1(1) \o <<1, 128>> \o P1(0) \o <<85>> \o P1(3) \o <<17>> \o P1(0) \o <<87>>
>>
JD == <<91>>
NG == Len(Gadgets)

RECURSIVE Programs(_)
Programs(n) == IF n = 0 THEN {<<>>} ELSE Programs(n - 1) \cup {p \o Gadgets[g] : p \in Programs(n - 1), g \in 1..NG}
\* every program, and the same program behind a JUMPDEST
Codes(n) == Programs(n) \cup {JD \o p : p \in Programs(n) \ {<<>>}}

Env == [coinbase |-> <<0>>, timestamp |-> <<1>>, number |-> <<1>>, prevrandao |-> <<0>>, gaslimit |-> <<255>>, chainid |-> <<1>>,
        basefee |-> <<0>>, createBase |-> <<100>>, opaque |-> {}, cheatAddrs |-> {}, cheats |-> <<>>, oracle |-> <<>>,
        assertMode |-> "stop", symstore |-> {}, symmask |-> <<0>>]

VARIABLES m, w0, n
vars == <<m, w0, n>>

Init ==
    \E rc \in Codes(NR), cc \in Codes(NC), tc \in Codes(NT), v \in {<<0>>, <<1>>}, st \in BOOLEAN :
        LET world == [code |-> (ROOT :> rc) @@ (CALLEE :> cc) @@ (THIRD :> tc),
                      storage |-> EmptyMap, tstorage |-> EmptyMap,
                      balance |-> (ROOT :> <<2>>) @@ (SENDER :> <<3>>) @@ (CALLEE :> <<0>>)]
            tx == [to |-> ROOT, caller |-> SENDER, origin |-> SENDER, value |-> v, data |-> <<5>>,
                   static |-> st, create |-> FALSE, transfer |-> TRUE]
        IN /\ ~(st /\ v # <<0>>)
           /\ w0 = world
           /\ m = InitMachine(world, Env, tx)
           /\ n = 0

MaxSteps == 600
StepM == /\ m.status = "run"
         /\ n < MaxSteps
         /\ m' = Step(m)
         /\ n' = n + 1
         /\ UNCHANGED w0
Next == StepM
Spec == Init /\ [][Next]_vars

-----------------------------------------------------------------------------
(* invariants of Evm.tla on every state *)
InvStack == StackBound(m)
InvMem == MemAligned(m)
InvDepth == DepthConsistent(m)
InvWords == WordsWellFormed(m)
InvStatic == StaticNoWrite(m)
InvContext == ContextCorrect(m)
\* the message value has already moved from SENDER to ROOT in the initial machine
InvBalance == BalanceConserved(m, TotalBalance(w0))
InvFailure == FailureRestores(m, w0)
\* every execution of the family ends (the loop is guarded by storage it changes, recursion by the depth limit).  Checked in
\* the configurations with one gadget per account; with two root gadgets `sstore(0,1)` before the loop resets the counter
\* on every iteration - without gas that program runs forever, and exploration stops at MaxSteps (MC_EvmSmall_r.cfg)
InvTerminates == n < MaxSteps
\* a finished machine has no frames left and a result kind
\* nothing in this family is outside the model
InvModelled == m.status \in {"run", "done"}
InvResult == m.status = "done" => (m.result.kind # "" /\ (m.result.ok <=> m.result.kind \in {"Return", "Stop"}))

(* step-level properties *)
\* the call stack grows and shrinks by one frame at a time
FrameStep == [][Len(m'.frames) - Len(m.frames) \in {-1, 0, 1} \/ m'.status # "run"]_vars
\* logs, code and the CREATE counter of a running machine only grow while no frame fails
CreateCounterMonotone == [][m'.ncreated >= m.ncreated]_vars
\* a frame that is not executing does not change (only the top frame and the one below it, on return, do)
LowerFramesFrozen ==
    [][\A i \in 1..Len(m.frames) : (i < Len(m.frames) - 1 /\ i <= Len(m'.frames)) => m'.frames[i] = m.frames[i]]_vars
\* transient and persistent storage of accounts other than the executing one do not change in a step
OnlyOwnStorage ==
    [][m.status = "run" /\ m'.status = "run" /\ Len(m'.frames) = Len(m.frames) =>
        LET this == m.frames[Len(m.frames)].this
        IN \A k \in DOMAIN m'.world.storage : (k[1] # this /\ k \in DOMAIN m.world.storage) => m'.world.storage[k] = m.world.storage[k]]_vars

(* design mutations (cfg: Mutation <- Mut...): each must be refuted by the invariant named in the configuration *)
MutDelegateCaller == "delegate-caller"
MutStaticLeak == "static-leak"
MutNoRollback == "no-rollback"
MutValueCreated == "value-created"
MutLogsKept == "logs-kept"

(* reachability probes: each must be violated, otherwise the invariants above are vacuous *)
Top == m.frames[Len(m.frames)]
NeverDepth3 == Len(m.frames) < 3
NeverStaticWriteAttempt == ~(m.status = "done" /\ m.result.kind = "StaticWrite")
NeverRollbackOfWrite == ~(m.status = "done" /\ ~m.result.ok /\ n > 6)
\* a call made by the root failed (flag 0 on its stack) and the root goes on
NeverCallFailed == ~(m.status = "run" /\ Len(m.frames) = 1 /\ Top.pc >= 15 /\ Len(Top.stack) = 1 /\ Top.stack[1] = <<0>>)
NeverDelegateFrame == \A i \in 1..Len(m.frames) : m.frames[i].kind # "DELEGATECALL"
NeverCallcodeFrame == \A i \in 1..Len(m.frames) : m.frames[i].kind # "CALLCODE"
NeverCreated == m.ncreated = 0
NeverValueMoved == Balance(m.world, CALLEE) = <<0>> /\ Balance(m.world, THIRD) = <<0>>
NeverLog == m.logs = <<>>
NeverReentered == \A i \in 2..Len(m.frames) : m.frames[i].this # ROOT \/ m.frames[i].kind # "CALL"
NeverLooped == ~(m.status = "run" /\ Len(m.frames) = 1 /\ Top.pc = 1 /\ n > 3)
=============================================================================
