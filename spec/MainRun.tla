----------------------------- MODULE MainRun -----------------------------
(***************************************************************************)
(* halmos._main: one process runs every selected test of every selected    *)
(* contract of a project and turns the verdicts into one exit code.        *)
(*                                                                         *)
(* The project is a set of test contracts of fixed shapes (constant        *)
(* Shapes); the command line selects contracts (--contract, --match-       *)
(* contract) and functions (--function, --match-test) and may set --depth. *)
(* Contracts run in the sorted order of their names; a contract without a  *)
(* selected function is skipped silently; a contract whose setUp() fails   *)
(* yields no test results and all its selected functions count as failed.  *)
(* Process-wide state that outlives a test: the memory of the once-only    *)
(* logger (which must not swallow the warning of a later test - C10) and   *)
(* the totals.  The exit code is 0 exactly if at least one test was found  *)
(* and every one of them passed (C05).                                     *)
(*                                                                         *)
(* TLC enumerates every project (subset of the shapes) x selection x depth *)
(* setting; each terminal state is replayed through the real _main on      *)
(* hand-assembled artifacts (checks/c05.py, part "main-run").              *)
(***************************************************************************)
EXTENDS Integers, Sequences, FiniteSets, TLC, Json

CONSTANTS Mutation      \* "none" | "logger-process-wide" | "setup-failure-ignored" | "no-tests-ok"

\* test kinds: "pass", "fail", "deep" (passes; under --depth its exploration is cut and must be reported)
Shapes == [
    A |-> [setup |-> "ok",   tests |-> <<[n |-> "check_deep", k |-> "deep"], [n |-> "check_f", k |-> "fail"], [n |-> "check_p", k |-> "pass"], [n |-> "test_x", k |-> "pass"]>>],
    B |-> [setup |-> "ok",   tests |-> <<[n |-> "check_deep", k |-> "deep"], [n |-> "check_p", k |-> "pass"], [n |-> "check_q", k |-> "pass"]>>],
    C |-> [setup |-> "fail", tests |-> <<[n |-> "check_p", k |-> "pass"]>>],
    D |-> [setup |-> "ok",   tests |-> <<[n |-> "helper", k |-> "pass"]>>],
    \* E and F belong to two further compilation units (compiler versions), each with its own contract `Tgt` deployed by
    \* setUp(): E's Tgt cannot break the invariant, F's can - what is known about a contract name is per unit
    E |-> [setup |-> "ok",   tests |-> <<[n |-> "invariant_flag", k |-> "pass"]>>],
    F |-> [setup |-> "ok",   tests |-> <<[n |-> "invariant_flag", k |-> "fail"]>>]
]
Names == <<"A", "B", "C", "D", "E", "F">>          \* the order of the run: compiler version, file, contract name

\* the selections exercised, with the meaning of the options spelt out
\*   contract: --contract NAME is the exact name; --match-contract RE is a regular-expression search in the name
\*   test:     ^{--function prefix, default (check|invariant)_}.*{--match-test RE}, unless the RE is anchored itself
Selections == <<
    [argv |-> <<>>,                                              cs |-> {"A", "B", "C", "D", "E", "F"}, ts |-> {"check_deep", "check_f", "check_p", "check_q", "invariant_flag"}],
    [argv |-> <<"--contract", "A">>,                            cs |-> {"A"},                ts |-> {"check_deep", "check_f", "check_p", "check_q", "invariant_flag"}],
    [argv |-> <<"--match-contract", "A|C">>,                    cs |-> {"A", "C"},           ts |-> {"check_deep", "check_f", "check_p", "check_q", "invariant_flag"}],
    [argv |-> <<"--match-test", "deep">>,                       cs |-> {"A", "B", "C", "D", "E", "F"}, ts |-> {"check_deep"}],
    [argv |-> <<"--match-test", "^test_">>,                     cs |-> {"A", "B", "C", "D", "E", "F"}, ts |-> {"test_x"}],
    [argv |-> <<"--function", "test_">>,                        cs |-> {"A", "B", "C", "D", "E", "F"}, ts |-> {"test_x"}],
    [argv |-> <<"--contract", "Z">>,                            cs |-> {},                   ts |-> {"check_deep", "check_f", "check_p", "check_q", "invariant_flag"}],
    \* (the regular expression is searched in the function *signature*, e.g. "check_p()")
    [argv |-> <<"--match-contract", "B", "--match-test", "p\\(">>, cs |-> {"B"},             ts |-> {"check_deep", "check_p"}],
    [argv |-> <<"--match-contract", "^[BC]$", "--match-test", "^check_p">>, cs |-> {"B", "C"}, ts |-> {"check_p"}],
    [argv |-> <<"--match-contract", "E|F">>,                    cs |-> {"E", "F"},           ts |-> {"check_deep", "check_f", "check_p", "check_q", "invariant_flag"}]
>>

VARIABLES project,    \* the contracts present
          sel,        \* index into Selections
          depth,      \* TRUE: --depth is set low enough to cut check_deep
          pc,         \* "contract" | "setup" | "test" | "done"
          ci, ti,     \* position in Names / in the selected functions of the current contract
          results,    \* contract -> <<[n, verdict, warned]>>   (only contracts that produced a result list)
          found, failed,
          logseen,    \* texts the once-only logger has printed and not forgotten
          exitcode
vars == <<project, sel, depth, pc, ci, ti, results, found, failed, logseen, exitcode>>

S == Selections[sel]
Selected(c) == c \in project /\ c \in S.cs
Funs(c) == SelectSeq(Shapes[c].tests, LAMBDA t : t.n \in S.ts)

Init == /\ project \in SUBSET {"A", "B", "C", "D", "E", "F"}
        /\ sel \in 1..Len(Selections)
        /\ depth \in BOOLEAN
        /\ pc = "contract" /\ ci = 1 /\ ti = 1
        /\ results = << >> /\ found = 0 /\ failed = 0 /\ logseen = {} /\ exitcode = -1

Cur == Names[ci]

NextContract ==
    /\ pc = "contract" /\ ci <= Len(Names)
    /\ IF Selected(Cur) /\ Len(Funs(Cur)) > 0
       THEN pc' = "setup" /\ UNCHANGED <<ci, found>>
       ELSE pc' = "contract" /\ ci' = ci + 1 /\ UNCHANGED found
    /\ UNCHANGED <<project, sel, depth, ti, results, failed, logseen, exitcode>>

RunSetUp ==
    /\ pc = "setup"
    /\ found' = found + Len(Funs(Cur))
    /\ IF Shapes[Cur].setup = "fail"
       THEN /\ results' = (Cur :> <<>>) @@ results
            /\ failed' = IF Mutation = "setup-failure-ignored" THEN failed ELSE failed + Len(Funs(Cur))
            /\ pc' = "contract" /\ ci' = ci + 1 /\ ti' = 1
       ELSE /\ results' = (Cur :> <<>>) @@ results
            /\ pc' = "test" /\ ti' = 1 /\ UNCHANGED <<ci, failed>>
    /\ UNCHANGED <<project, sel, depth, logseen, exitcode>>

DepthText(t) == <<t.n, "depth">>       \* the warning names the function signature only
RunTest ==
    /\ pc = "test"
    /\ IF ti > Len(Funs(Cur))
       THEN pc' = "contract" /\ ci' = ci + 1 /\ ti' = 1 /\ UNCHANGED <<results, failed, logseen>>
       ELSE LET t == Funs(Cur)[ti]
                seen0 == IF Mutation = "logger-process-wide" THEN logseen ELSE {}     \* the logger forgets at the start of a test
                cut == depth /\ t.k = "deep"
                warned == cut /\ DepthText(t) \notin seen0
                verdict == IF t.k = "fail" THEN "FAIL" ELSE "PASS"
            IN /\ results' = [results EXCEPT ![Cur] = Append(@, [n |-> t.n, verdict |-> verdict, warned |-> warned, cut |-> cut])]
               /\ failed' = IF verdict = "PASS" THEN failed ELSE failed + 1
               /\ logseen' = IF cut THEN seen0 \cup {DepthText(t)} ELSE seen0
               /\ ti' = ti + 1 /\ UNCHANGED <<pc, ci>>
    /\ UNCHANGED <<project, sel, depth, found, exitcode>>

Finish ==
    /\ pc = "contract" /\ ci > Len(Names)
    /\ exitcode' = IF found = 0 THEN (IF Mutation = "no-tests-ok" THEN 0 ELSE 1) ELSE IF failed = 0 THEN 0 ELSE 1
    /\ pc' = "done"
    /\ PrintT("JREC" \o ToJson([project |-> project, argv |-> S.argv, depth |-> depth, exitcode |-> exitcode', results |-> results]))
    /\ UNCHANGED <<project, sel, depth, ci, ti, results, found, failed, logseen>>

Next == NextContract \/ RunSetUp \/ RunTest \/ Finish
Spec == Init /\ [][Next]_vars

-----------------------------------------------------------------------------
Ran == DOMAIN results
AllTests(c) == {Funs(c)[i].n : i \in 1..Len(Funs(c))}

\* exit code 0 exactly if something was selected, no selected contract failed in setUp and no executed test failed
ExitCodeMeaning ==
    pc = "done" =>
        (exitcode = 0 <=>
            /\ \E c \in project : Selected(c) /\ Len(Funs(c)) > 0
            /\ \A c \in project : (Selected(c) /\ Len(Funs(c)) > 0) =>
                   /\ Shapes[c].setup = "ok"
                   /\ \A i \in 1..Len(Funs(c)) : Funs(c)[i].k # "fail")
\* exactly the selected functions of the selected contracts run, each once, in the order of the artifact
SelectionExact ==
    pc = "done" =>
        /\ Ran = {c \in project : Selected(c) /\ Len(Funs(c)) > 0}
        /\ \A c \in Ran : IF Shapes[c].setup = "fail" THEN results[c] = <<>>
                          ELSE [i \in 1..Len(results[c]) |-> results[c][i].n] = [i \in 1..Len(Funs(c)) |-> Funs(c)[i].n]
\* a test whose exploration was cut is reported, whichever tests ran before it in the process
EveryCutReported ==
    \A c \in Ran : \A i \in 1..Len(results[c]) : results[c][i].cut => results[c][i].warned
\* a failing setUp makes the run fail
SetupFailureFails ==
    pc = "done" => ((\E c \in Ran : Shapes[c].setup = "fail") => exitcode = 1)
=============================================================================
