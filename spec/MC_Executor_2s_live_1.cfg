\* liveness with two shutdown callers, 1 job whose process never exits on its own and has no time limit (quick tier):
\* s2 = shutdown(wait=False) must release a shutdown(wait=True) blocked in _join() and every waiter
SPECIFICATION FairSpec
CONSTANTS
  Jobs = {j1}
  HasTimeout = {}
  IgnoresTerm = {j1}
  PopenMayFail = {}
  PreFix = FALSE
  CoarseCancel = FALSE
  Modes = {"wait", "nowait"}
  Modes2 = {"nowait"}
  NeverExits = {j1}
PROPERTIES ShutdownReturnsUnlessCbp WaitReturnsUnlessCbp TerminationUnlessCbp
