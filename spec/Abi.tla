-------------------------------- MODULE Abi --------------------------------
(***************************************************************************)
(* The Solidity contract ABI ("Formal Specification of the Encoding" of    *)
(* the ABI specification), written from that document and not from halmos. *)
(*                                                                         *)
(* TYPES are uniform records [k, n, c]:                                    *)
(*   k = "uint" | "int"  n = bit width M (8..256, M % 8 = 0)   c = <<>>    *)
(*   k = "address"       (= uint160)   k = "bool" (= uint8 in {0,1})       *)
(*   k = "fbytes"        n = byte count M (1..32)   ("bytesM")             *)
(*   k = "bytes" | "string"            dynamic byte strings                *)
(*   k = "darr"          c = <<T>>     T[]                                 *)
(*   k = "farr"          c = <<T>>, n = size    T[n]                       *)
(*   k = "tuple"         c = <<T1..Tn>>                                    *)
(*                                                                         *)
(* VALUES: a leaf is a big-endian byte sequence (uintM/intM: M/8 bytes,    *)
(* two's complement; address: 20 bytes; bool: <<0>> or <<1>>; bytesM: M    *)
(* bytes; bytes/string: any length); arrays and tuples are sequences.      *)
(*                                                                         *)
(* SHAPES / ALLOCATIONS: records [m, n, c] parallel to a value: for bytes  *)
(* n = the length, for T[] n = the element count and c the element shapes; *)
(* m >= n is the *allocated* length (m = n in the shape of a plain value;  *)
(* m = maximal candidate in the generalised encodings halmos builds).      *)
(*                                                                         *)
(* Byte positions are 0-based offsets, ranges are [lo, hi).                *)
(***************************************************************************)
EXTENDS Integers, Sequences, TLC

W == INSTANCE EvmWord WITH WB <- 32

CAP == 4000000                        \* > every buffer length; offsets/lengths are folded with W!BCap

Word(n) == W!BFromNat(n, 32)
Zeros(n) == W!BZero(n)
Ceil32(n) == ((n + 31) \div 32) * 32
Slice(b, lo, hi) == SubSeq(b, lo + 1, hi)          \* bytes [lo, hi)
AllEq(b, x) == \A i \in 1..Len(b) : b[i] = x

T_(k, n, c) == [k |-> k, n |-> n, c |-> c]
UintT(n) == T_("uint", n, <<>>)
IntT(n) == T_("int", n, <<>>)
AddressT == T_("address", 0, <<>>)
BoolT == T_("bool", 0, <<>>)
FBytesT(n) == T_("fbytes", n, <<>>)
BytesT == T_("bytes", 0, <<>>)
StringT == T_("string", 0, <<>>)
DArrT(t) == T_("darr", 0, <<t>>)
FArrT(t, n) == T_("farr", n, <<t>>)
TupleT(ts) == T_("tuple", 0, ts)

StaticLeafKinds == {"uint", "int", "address", "bool", "fbytes"}
IsLeaf(t) == t.k \in StaticLeafKinds \cup {"bytes", "string"}
IsBytesLike(t) == t.k \in {"bytes", "string"}

\* element types of a composite holding cnt elements
Elems(t, cnt) == IF t.k = "tuple" THEN t.c ELSE [i \in 1..cnt |-> t.c[1]]

-----------------------------------------------------------------------------
(* "Definition: the following types are called dynamic: bytes, string, T[]  *)
(*  for any T, T[k] for any dynamic T and any k >= 0, (T1..Tk) if some Ti   *)
(*  is dynamic."                                                            *)
RECURSIVE IsDynamic(_)
IsDynamic(t) ==
    CASE t.k \in {"bytes", "string", "darr"} -> TRUE
      [] t.k = "farr" -> IsDynamic(t.c[1])
      [] t.k = "tuple" -> \E i \in 1..Len(t.c) : IsDynamic(t.c[i])
      [] OTHER -> FALSE

RECURSIVE StaticSize(_)
RECURSIVE SumSeq(_, _)
SumSeq(s, i) == IF i > Len(s) THEN 0 ELSE s[i] + SumSeq(s, i + 1)
\* length of enc(X) for a static type
StaticSize(t) ==
    CASE t.k = "farr" -> t.n * StaticSize(t.c[1])
      [] t.k = "tuple" -> SumSeq([i \in 1..Len(t.c) |-> StaticSize(t.c[i])], 1)
      [] OTHER -> 32
\* length of head(X(i)): the encoding itself for static types, one offset word otherwise
HeadSize(t) == IF IsDynamic(t) THEN 32 ELSE StaticSize(t)
HeadsSize(ts) == SumSeq([i \in 1..Len(ts) |-> HeadSize(ts[i])], 1)

-----------------------------------------------------------------------------
(* Well-formedness of types and values                                      *)
RECURSIVE TypeOK(_)
TypeOK(t) ==
    CASE t.k \in {"uint", "int"} -> t.n \in 8..256 /\ t.n % 8 = 0
      [] t.k = "fbytes" -> t.n \in 1..32
      [] t.k \in {"address", "bool", "bytes", "string"} -> TRUE
      [] t.k = "darr" -> Len(t.c) = 1 /\ TypeOK(t.c[1])
      [] t.k = "farr" -> Len(t.c) = 1 /\ t.n >= 0 /\ TypeOK(t.c[1])
      [] t.k = "tuple" -> \A i \in 1..Len(t.c) : TypeOK(t.c[i])
      [] OTHER -> FALSE

LeafBytes(t) ==
    CASE t.k \in {"uint", "int"} -> t.n \div 8
      [] t.k = "address" -> 20
      [] t.k = "bool" -> 1
      [] t.k = "fbytes" -> t.n

RECURSIVE ValueOK(_, _)
ValueOK(t, v) ==
    CASE t.k = "bool" -> v \in {<<0>>, <<1>>}
      [] t.k \in StaticLeafKinds -> Len(v) = LeafBytes(t) /\ \A i \in 1..Len(v) : v[i] \in 0..255
      [] IsBytesLike(t) -> \A i \in 1..Len(v) : v[i] \in 0..255
      [] t.k = "darr" -> \A i \in 1..Len(v) : ValueOK(t.c[1], v[i])
      [] t.k = "farr" -> Len(v) = t.n /\ \A i \in 1..Len(v) : ValueOK(t.c[1], v[i])
      [] t.k = "tuple" -> Len(v) = Len(t.c) /\ \A i \in 1..Len(v) : ValueOK(t.c[i], v[i])

-----------------------------------------------------------------------------
(* The canonical encoder                                                    *)
(*  uint<M>: big-endian, padded on the higher-order (left) side with zeros   *)
(*  int<M>: two's complement, padded on the left with 0xff / 0x00            *)
(*  bool as uint8, address as uint160, bytes<M>: padded with trailing zeros  *)
(*  bytes: enc(len) followed by the bytes padded on the right to 32k         *)
(*  string: its UTF-8 bytes encoded as bytes                                 *)
(*  T[]: enc(k) enc((X[0],..,X[k-1]));  T[k]: enc((X[0],..,X[k-1]))          *)
(*  tuple: head(X1)..head(Xk) tail(X1)..tail(Xk); for dynamic Ti the head is *)
(*  the offset of the tail measured from the start of enc(X)                 *)
EncLeaf(t, v) ==
    CASE t.k \in {"uint", "address", "bool"} -> Zeros(32 - Len(v)) \o v
      [] t.k = "int" -> (IF v[1] >= 128 THEN W!BOnes(32 - Len(v)) ELSE Zeros(32 - Len(v))) \o v
      [] t.k = "fbytes" -> v \o Zeros(32 - Len(v))

RECURSIVE Encode(_, _)
RECURSIVE EncTupleR(_, _, _, _, _, _)
EncTupleR(ts, vs, i, hs, heads, tails) ==
    IF i > Len(ts) THEN heads \o tails
    ELSE IF IsDynamic(ts[i])
         THEN EncTupleR(ts, vs, i + 1, hs, heads \o Word(hs + Len(tails)), tails \o Encode(ts[i], vs[i]))
         ELSE EncTupleR(ts, vs, i + 1, hs, heads \o Encode(ts[i], vs[i]), tails)
EncTuple(ts, vs) == EncTupleR(ts, vs, 1, HeadsSize(ts), <<>>, <<>>)

Encode(t, v) ==
    CASE t.k \in StaticLeafKinds -> EncLeaf(t, v)
      [] IsBytesLike(t) -> Word(Len(v)) \o v \o Zeros(Ceil32(Len(v)) - Len(v))
      [] t.k = "darr" -> Word(Len(v)) \o EncTuple(Elems(t, Len(v)), v)
      [] OTHER -> EncTuple(Elems(t, Len(v)), v)

-----------------------------------------------------------------------------
(* Spans: what a byte range of an encoding is.                              *)
(*   k = "leaf": the bytes of one leaf value (32 for static leaves, the     *)
(*               declared length for bytes/string)                          *)
(*   k = "len" : a length word;  k = "off": an offset word, tg = the        *)
(*               absolute position it designates                            *)
(*   p = path of child indices from the root                                *)
Span(k, lo, hi, tg, p) == [k |-> k, lo |-> lo, hi |-> hi, tg |-> tg, p |-> p]

Fail(msg, p) == [ok |-> FALSE, err |-> msg, p |-> p, v |-> <<>>, sp |-> <<>>]
Good(v, sp) == [ok |-> TRUE, err |-> "", p |-> <<>>, v |-> v, sp |-> sp]

(* The strict decoder.  strict = TRUE additionally checks the padding of    *)
(* elementary values and of bytes/string and returns the leaf *values*;     *)
(* strict = FALSE (symbolic content) returns the raw 32-byte word of a      *)
(* static leaf and skips the padding checks.  In both modes: every offset   *)
(* is in bounds and points past the head of its tuple, every length fits.   *)
StrictLeaf(t, w, p) ==
    LET nb == LeafBytes(t)
        hi == Slice(w, 0, 32 - nb)
        lo == Slice(w, 32 - nb, 32)
    IN CASE t.k \in {"uint", "address"} ->
              IF AllEq(hi, 0) THEN Good(lo, <<>>) ELSE Fail("dirty high bytes", p)
         [] t.k = "bool" ->
              IF AllEq(hi, 0) /\ lo[1] \in {0, 1} THEN Good(lo, <<>>) ELSE Fail("bool out of range", p)
         [] t.k = "int" ->
              IF AllEq(hi, IF lo[1] >= 128 THEN 255 ELSE 0) THEN Good(lo, <<>>)
              ELSE Fail("bad sign extension", p)
         [] t.k = "fbytes" ->
              IF AllEq(Slice(w, nb, 32), 0) THEN Good(Slice(w, 0, nb), <<>>)
              ELSE Fail("dirty low bytes", p)

RECURSIVE Dec(_, _, _, _, _)
RECURSIVE DecTupleR(_, _, _, _, _, _, _, _, _, _)
\* i = next component, hp = position of its head, H = total head size, vs/sp = accumulated results
DecTupleR(ts, b, base, strict, p, i, hp, H, vs, sp) ==
    IF i > Len(ts) THEN Good(vs, sp)
    ELSE LET q == Append(p, i) IN
         IF IsDynamic(ts[i])
         THEN LET o == W!BCap(Slice(b, hp, hp + 32), CAP) IN
              IF o < H THEN Fail("offset points into the head", q)
              ELSE IF base + o > Len(b) THEN Fail("offset out of bounds", q)
              ELSE LET r == Dec(ts[i], b, base + o, strict, q) IN
                   IF ~r.ok THEN r
                   ELSE DecTupleR(ts, b, base, strict, p, i + 1, hp + 32, H, Append(vs, r.v),
                                  sp \o <<Span("off", hp, hp + 32, base + o, q)>> \o r.sp)
         ELSE LET r == Dec(ts[i], b, hp, strict, q) IN
              IF ~r.ok THEN r
              ELSE DecTupleR(ts, b, base, strict, p, i + 1, hp + StaticSize(ts[i]), H,
                             Append(vs, r.v), sp \o r.sp)
DecTuple(ts, b, base, strict, p) ==
    LET H == HeadsSize(ts) IN
    IF base + H > Len(b) THEN Fail("heads out of bounds", p)
    ELSE DecTupleR(ts, b, base, strict, p, 1, base, H, <<>>, <<>>)

Dec(t, b, pos, strict, p) ==
    IF pos + 32 > Len(b) /\ (IsLeaf(t) \/ t.k = "darr") THEN Fail("word out of bounds", p)
    ELSE CASE t.k \in StaticLeafKinds ->
                LET w == Slice(b, pos, pos + 32)
                    r == IF strict THEN StrictLeaf(t, w, p) ELSE Good(w, <<>>)
                IN IF r.ok THEN Good(r.v, <<Span("leaf", pos, pos + 32, 0, p)>>) ELSE r
           [] IsBytesLike(t) ->
                LET L == W!BCap(Slice(b, pos, pos + 32), CAP) IN
                IF pos + 32 + L > Len(b) THEN Fail("length out of bounds", p)
                ELSE IF strict /\ pos + 32 + Ceil32(L) > Len(b) THEN Fail("padding out of bounds", p)
                ELSE IF strict /\ ~AllEq(Slice(b, pos + 32 + L, pos + 32 + Ceil32(L)), 0)
                     THEN Fail("dirty padding", p)
                ELSE Good(Slice(b, pos + 32, pos + 32 + L),
                          <<Span("len", pos, pos + 32, 0, p), Span("leaf", pos + 32, pos + 32 + L, 0, p)>>)
           [] t.k = "darr" ->
                LET L == W!BCap(Slice(b, pos, pos + 32), CAP) IN
                IF L > Len(b) THEN Fail("count out of bounds", p)       \* every element needs >= 1 byte... of head
                ELSE LET r == DecTuple(Elems(t, L), b, pos + 32, strict, p) IN
                     IF ~r.ok THEN r ELSE Good(r.v, <<Span("len", pos, pos + 32, 0, p)>> \o r.sp)
           [] OTHER -> DecTuple(Elems(t, t.n), b, pos, strict, p)

Decode(t, b) == Dec(t, b, 0, TRUE, <<>>)
DecodeRaw(t, b) == Dec(t, b, 0, FALSE, <<>>)

-----------------------------------------------------------------------------
(* Spans must not overlap and must lie inside the buffer.                   *)
SpansInside(sp, n) == \A i \in 1..Len(sp) : 0 <= sp[i].lo /\ sp[i].lo <= sp[i].hi /\ sp[i].hi <= n
SpansDisjoint(sp) ==
    \A i \in 1..Len(sp) : \A j \in (i + 1)..Len(sp) :
        sp[i].hi <= sp[j].lo \/ sp[j].hi <= sp[i].lo \/ sp[i].lo = sp[i].hi \/ sp[j].lo = sp[j].hi
\* an offset word designates a position after itself, inside the buffer
OffsetsForward(sp, n) == \A i \in 1..Len(sp) : sp[i].k = "off" => sp[i].hi <= sp[i].tg /\ sp[i].tg <= n
SelectSpans(sp, k) == SelectSeq(sp, LAMBDA s : s.k = k)

-----------------------------------------------------------------------------
(* Shapes                                                                   *)
Sh(m, n, c) == [m |-> m, n |-> n, c |-> c]
RECURSIVE ShapeOf(_, _)
ShapeOf(t, v) ==
    CASE t.k \in StaticLeafKinds -> Sh(0, 0, <<>>)
      [] IsBytesLike(t) -> Sh(Len(v), Len(v), <<>>)
      [] OTHER -> Sh(Len(v), Len(v), LET ts == Elems(t, Len(v)) IN [i \in 1..Len(v) |-> ShapeOf(ts[i], v[i])])

\* the shape a decoder sees in an allocation: the first n of the m allocated elements / bytes
RECURSIVE Reach(_, _)
Reach(t, a) ==
    CASE t.k \in StaticLeafKinds -> Sh(0, 0, <<>>)
      [] IsBytesLike(t) -> Sh(a.n, a.n, <<>>)
      [] OTHER -> Sh(a.n, a.n, LET ts == Elems(t, a.n) IN [i \in 1..a.n |-> Reach(ts[i], a.c[i])])

\* the allocation seen as a plain shape (n := m everywhere)
RECURSIVE Full(_, _)
Full(t, a) ==
    CASE t.k \in StaticLeafKinds -> Sh(0, 0, <<>>)
      [] IsBytesLike(t) -> Sh(a.m, a.m, <<>>)
      [] OTHER -> Sh(a.m, a.m, LET ts == Elems(t, a.m) IN [i \in 1..a.m |-> Full(ts[i], a.c[i])])

RECURSIVE AllocOK(_, _)
AllocOK(t, a) ==
    CASE t.k \in StaticLeafKinds -> TRUE
      [] IsBytesLike(t) -> 0 <= a.n /\ a.n <= a.m
      [] OTHER -> /\ 0 <= a.n /\ a.n <= a.m /\ Len(a.c) = a.m
                  /\ (t.k = "farr" => a.n = t.n /\ a.m = t.n)
                  /\ (t.k = "tuple" => a.n = Len(t.c) /\ a.m = Len(t.c))
                  /\ LET ts == Elems(t, a.m) IN \A i \in 1..a.m : AllocOK(ts[i], a.c[i])

\* number of dynamic-length nodes (bytes, string, T[]) of an allocation, and their chosen
\* lengths in pre-order (node before children, children left to right)
RECURSIVE Chosen(_, _)
RECURSIVE ConcatAll(_, _)
ConcatAll(ss, i) == IF i > Len(ss) THEN <<>> ELSE ss[i] \o ConcatAll(ss, i + 1)
Chosen(t, a) ==
    CASE t.k \in StaticLeafKinds -> <<>>
      [] IsBytesLike(t) -> <<a.n>>
      [] OTHER -> (IF t.k = "darr" THEN <<a.n>> ELSE <<>>)
                  \o LET ts == Elems(t, a.m) IN ConcatAll([i \in 1..a.m |-> Chosen(ts[i], a.c[i])], 1)

\* set the chosen lengths of an allocation from a pre-order list cs, starting at index i0 (1-based)
RECURSIVE Fill(_, _, _, _)
RECURSIVE FillKids(_, _, _, _, _, _)
FillKids(ts, cs0, cs, i, at, acc) ==
    IF i > Len(ts) THEN acc
    ELSE FillKids(ts, cs0, cs, i + 1, at + Len(Chosen(ts[i], cs0[i])), Append(acc, Fill(ts[i], cs0[i], cs, at)))
Fill(t, a, cs, i0) ==
    CASE t.k \in StaticLeafKinds -> a
      [] IsBytesLike(t) -> Sh(a.m, cs[i0], <<>>)
      [] t.k = "darr" -> Sh(a.m, cs[i0], FillKids(Elems(t, a.m), a.c, cs, 1, i0 + 1, <<>>))
      [] OTHER -> Sh(a.m, a.n, FillKids(Elems(t, a.m), a.c, cs, 1, i0, <<>>))

-----------------------------------------------------------------------------
(* Layout(t, s): the spans of the canonical encoding of any value of shape  *)
(* s (by arithmetic alone, no bytes), in the same order in which Dec        *)
(* reports them, and the total size.                                        *)
RECURSIVE Lay(_, _, _, _)
RECURSIVE LayTupleR(_, _, _, _, _, _, _, _)
\* tp = position where the next tail goes
LayTupleR(ts, ss, base, p, i, hp, tp, sp) ==
    IF i > Len(ts) THEN [sp |-> sp, end |-> tp]
    ELSE LET q == Append(p, i) IN
         IF IsDynamic(ts[i])
         THEN LET r == Lay(ts[i], ss[i], tp, q) IN
              LayTupleR(ts, ss, base, p, i + 1, hp + 32, r.end,
                        sp \o <<Span("off", hp, hp + 32, tp, q)>> \o r.sp)
         ELSE LET r == Lay(ts[i], ss[i], hp, q) IN
              LayTupleR(ts, ss, base, p, i + 1, r.end, tp, sp \o r.sp)
LayTuple(ts, ss, base, p) == LayTupleR(ts, ss, base, p, 1, base, base + HeadsSize(ts), <<>>)

Lay(t, s, pos, p) ==
    CASE t.k \in StaticLeafKinds -> [sp |-> <<Span("leaf", pos, pos + 32, 0, p)>>, end |-> pos + 32]
      [] IsBytesLike(t) ->
           [sp |-> <<Span("len", pos, pos + 32, 0, p), Span("leaf", pos + 32, pos + 32 + s.m, 0, p)>>,
            end |-> pos + 32 + Ceil32(s.m)]
      [] t.k = "darr" ->
           LET r == LayTuple(Elems(t, s.m), s.c, pos + 32, p)
           IN [sp |-> <<Span("len", pos, pos + 32, 0, p)>> \o r.sp, end |-> r.end]
      [] OTHER -> LayTuple(Elems(t, s.m), s.c, pos, p)

Layout(t, s) == Lay(t, s, 0, <<>>).sp
EncSize(t, s) == Lay(t, s, 0, <<>>).end

-----------------------------------------------------------------------------
(* Generalised encodings (non-canonical but valid): the value v is encoded  *)
(* with its full allocation Full(t, a) and the length words then announce   *)
(* only the chosen lengths.  The decoder must see Trunc(t, v, a).           *)
RECURSIVE PutWords(_, _, _, _)
PutWords(b, sps, ws, i) ==
    IF i > Len(sps) THEN b
    ELSE PutWords(Slice(b, 0, sps[i].lo) \o Word(ws[i]) \o Slice(b, sps[i].hi, Len(b)), sps, ws, i + 1)

EncodeGen(t, v, a) ==
    PutWords(Encode(t, v), SelectSpans(Layout(t, Full(t, a)), "len"), Chosen(t, a), 1)

RECURSIVE Trunc(_, _, _)
Trunc(t, v, a) ==
    CASE t.k \in StaticLeafKinds -> v
      [] IsBytesLike(t) -> SubSeq(v, 1, a.n)
      [] OTHER -> LET ts == Elems(t, a.n) IN [i \in 1..a.n |-> Trunc(ts[i], v[i], a.c[i])]

-----------------------------------------------------------------------------
(* Type strings of the JSON ABI / function signatures                       *)
RECURSIVE TypeStr(_)
RECURSIVE JoinStr(_, _)
JoinStr(ss, i) == IF i > Len(ss) THEN "" ELSE (IF i > 1 THEN "," ELSE "") \o ss[i] \o JoinStr(ss, i + 1)
TypeStr(t) ==
    CASE t.k = "uint" -> "uint" \o ToString(t.n)
      [] t.k = "int" -> "int" \o ToString(t.n)
      [] t.k = "fbytes" -> "bytes" \o ToString(t.n)
      [] t.k = "darr" -> TypeStr(t.c[1]) \o "[]"
      [] t.k = "farr" -> TypeStr(t.c[1]) \o "[" \o ToString(t.n) \o "]"
      [] t.k = "tuple" -> "(" \o JoinStr([i \in 1..Len(t.c) |-> TypeStr(t.c[i])], 1) \o ")"
      [] OTHER -> t.k
=============================================================================
