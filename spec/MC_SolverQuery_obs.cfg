SPECIFICATION Spec
CONSTANTS
  MaxConds = 1
  Mode = "observe"
INVARIANT ObservationsOK
