\* validation of recorded event logs (file named by environment variable C16_TRACES)
\* against the model in which only the shared term_to_vars pins (for implementation runs whose futures
\* are dropped by the harness: they must still be sound)
SPECIFICATION TSpec
CONSTANTS
  Ids <- TraceIds
  Cons <- TraceCons
  UnsatFamily = {}
  Unsat <- TraceUnsat
  PinFutures = FALSE
  PinTermVars = TRUE
  MaxTests = 1000000
  MaxInflight = 1000000
  MaxCores = 1000000
INVARIANTS Report TraceCacheSound TraceCoresDenote HashConsed
