---------------------------- MODULE SolverQuery ----------------------------
(***************************************************************************)
(* What is handed to the external solver for one path (Path.to_smt2, dump, *)
(* refine), as a small state machine, plus the validation of observations  *)
(* recorded from the implementation.                                       *)
(*                                                                         *)
(* Design model.  A path accumulates constraints c1, c2, ... (Append); the *)
(* in-memory solver may hold only a subset (paths extending a sliced       *)
(* setUp / invariant state: ExtendSliced).  ToSmt2 must serialise ALL      *)
(* constraints, whatever the solver holds; Dump writes them plainly or -   *)
(* with the solver cache - as implications guarded by tracking literals    *)
(* which are then all asserted by name; Refine turns every declared        *)
(* arithmetic abstraction into a definition and changes nothing else.      *)
(*                                                                         *)
(* Observation records (one per dumped query, from harness/query_obs.py):  *)
(*   conds     ids of the path's constraints, in order                     *)
(*   ids       the assertion ids returned by to_smt2                       *)
(*   named     ids of the (! |id| :named <id>) assertions in the file       *)
(*   guarded   ids of the (=> |id| c) assertions in the file               *)
(*   nplain    number of unguarded assertions in the file                  *)
(*   cache     --cache-solver                                              *)
(*   declared  abstraction symbols f_evm_* declared in the file            *)
(*   defined   abstraction symbols f_evm_* defined (define-fun) in it      *)
(*   refined   is this the refined query                                   *)
(*   before    (refined only) the symbols declared in the unrefined query  *)
(***************************************************************************)
EXTENDS Integers, Sequences, FiniteSets, TLC, Json, IOUtils

CONSTANTS MaxConds, Mode      \* Mode = "model" | "observe"

Range(s) == {s[i] : i \in 1..Len(s)}
Refinable == {"f_evm_bvmul_256", "f_evm_bvmul_512", "f_evm_bvudiv_256", "f_evm_bvurem_256", "f_evm_bvurem_264",
              "f_evm_bvurem_512", "f_evm_bvsdiv_256", "f_evm_bvsrem_256"}

-----------------------------------------------------------------------------
(* design model *)
VARIABLES conds,    \* sequence of constraint ids of the path
          solver,   \* set of ids the in-memory solver holds
          query,    \* [set, ids, named, guarded, plain]
          phase
vars == <<conds, solver, query, phase>>

NoQuery == [set |-> FALSE, ids |-> <<>>, named |-> {}, guarded |-> {}, plain |-> 0]
Init == conds = <<>> /\ solver = {} /\ query = NoQuery /\ phase = "build"

AppendCond == /\ phase = "build" /\ Len(conds) < MaxConds
          /\ conds' = Append(conds, Len(conds) + 1)
          /\ solver' = solver \cup {Len(conds) + 1}
          /\ UNCHANGED <<query, phase>>
\* a new path starts from a sliced parent: it inherits all conditions, the solver only some of them
ExtendSliced == /\ phase = "build" /\ Len(conds) > 0
                /\ \E keep \in SUBSET Range(conds) : solver' = keep
                /\ UNCHANGED <<conds, query, phase>>
Dump(cache) == /\ phase = "build"
               /\ query' = IF cache
                           THEN [set |-> TRUE, ids |-> conds, named |-> Range(conds), guarded |-> Range(conds), plain |-> 0]
                           ELSE [set |-> TRUE, ids |-> conds, named |-> {}, guarded |-> {}, plain |-> Len(conds)]
               /\ phase' = "dumped"
               /\ UNCHANGED <<conds, solver>>
Next == \/ (Mode = "model" /\ (AppendCond \/ ExtendSliced \/ Dump(TRUE) \/ Dump(FALSE)))
        \/ (Mode = "observe" /\ UNCHANGED vars)
Spec == Init /\ [][Next]_vars

\* every accumulated constraint is in the query, whatever the in-memory solver holds
QueryHasAllConditions == query.set => (Range(query.ids) = Range(conds) /\ (query.plain = Len(conds) \/ query.guarded = Range(conds)))
SolverSubsetOfConditions == solver \subseteq Range(conds)
\* with tracking literals: every guard is asserted, so the guarded form is equisatisfiable with the plain one
NamedEncodingEquisat == (query.set /\ query.guarded # {}) => query.named = query.guarded

-----------------------------------------------------------------------------
(* validation of recorded observations *)
Obs == IF Mode = "observe" THEN JsonDeserialize(IOEnv.OBS) ELSE <<>>

ObsOK(o) ==
    /\ Range(o.ids) = Range(o.conds)                                     \* QueryHasAllConditions (ids)
    /\ Len(o.ids) = Len(o.conds)
    /\ IF o.cache THEN /\ Range(o.guarded) = Range(o.conds)             \* every constraint guarded by its own id
                       /\ Range(o.named) = Range(o.guarded)            \* NamedEncodingEquisat
                       /\ o.nplain = 0
                  ELSE /\ o.nplain = Len(o.conds) /\ o.guarded = <<>> /\ o.named = <<>>
    /\ IF o.refined THEN /\ Range(o.declared) \cap Refinable = {}       \* no refinable abstraction left declared
                         /\ Range(o.defined) = Range(o.before) \cap Refinable
                         /\ Range(o.declared) = Range(o.before) \ Refinable   \* RefineTouchesOnlyAbstractions
                    ELSE o.defined = <<>>
BadObs == {i \in 1..Len(Obs) : ~ObsOK(Obs[i])}
ObservationsOK == Mode = "observe" => (BadObs = {} \/ (PrintT("JREC" \o ToJson([bad |-> BadObs])) /\ FALSE))
=============================================================================
