------------------------------ MODULE ByteSeq ------------------------------
(***************************************************************************)
(* The FLAT model of the byte sequences of halmos (memory, calldata,       *)
(* returndata, code): src/halmos/bytevec.py, class ByteVec, seen only      *)
(* through its public API.                                                 *)
(*                                                                         *)
(* A vector is a finite sequence of BYTE VALUES that reads as zero beyond  *)
(* its end; its length is the highest offset ever written (writes past the *)
(* end back-fill with zeros).  A byte value is                             *)
(*     0..255                       a concrete byte, or                    *)
(*     Tok(s, j) = 256 + 64*s + j   the opaque token <<s, j>>: byte j      *)
(*                                  (0 = most significant) of symbol s.    *)
(* Tokens are encoded as integers >= 256 because TLC cannot compare an     *)
(* integer with a tuple; SymOf/IdxOf decode them.  Symbol s is SymWidth(s) *)
(* = s % 64 bytes wide (so the width is part of the name; s \div 64        *)
(* distinguishes several symbols of the same width).                       *)
(*                                                                         *)
(* The heap maps a few NAMES (1..NV) to vectors.  All operations have      *)
(* VALUE semantics: the bytes of an argument are taken at the time of the  *)
(* call; afterwards the vectors are independent (CopyIndependence is       *)
(* immediate here - it is the obligation of the refinement ChunkVec).      *)
(*                                                                         *)
(* Offsets are 0-based as in the implementation; TLA+ sequences are        *)
(* 1-based, Rd/Write do the shift.                                         *)
(***************************************************************************)
EXTENDS Integers, Sequences, TLC

CONSTANTS NV,      \* number of named vectors
          W        \* bytes per word (32 for conformance with the code, 4 when model checking)

Vecs == 1..NV

-----------------------------------------------------------------------------
(* byte values *)
Tok(s, j)   == 256 + 64 * s + j
IsConc(b)   == b < 256
SymOf(b)    == (b - 256) \div 64
IdxOf(b)    == (b - 256) % 64
SymWidth(s) == s % 64
SymData(s)  == [j \in 1..SymWidth(s) |-> Tok(s, j - 1)]      \* all bytes of symbol s
Zeros(n)    == [i \in 1..n |-> 0]
ConcRun(n, tag) == [i \in 1..n |-> (16 * tag + i) % 256]      \* a recognisable concrete run

Max(a, b) == IF a >= b THEN a ELSE b
Min(a, b) == IF a <= b THEN a ELSE b

-----------------------------------------------------------------------------
(* pure operations on one vector x (a sequence of byte values) *)

\* get_byte: zero beyond the end
Rd(x, off) == IF off < Len(x) THEN x[off + 1] ELSE 0

\* slice(a, b) / x[a:b]: a NEW vector of length max(0, b-a), zero padded
SliceOf(x, a, b) == IF b <= a THEN <<>> ELSE [i \in 1..(b - a) |-> Rd(x, a + i - 1)]

\* get_word
WordOf(x, off) == SliceOf(x, off, off + W)

\* the one write primitive: bytes d at offset start; an empty write changes nothing
\* (in particular it does not extend the vector); otherwise length = max(old, start+Len(d))
Write(x, start, d) ==
    IF Len(d) = 0 THEN x
    ELSE [i \in 1..Max(Len(x), start + Len(d)) |->
            IF i - 1 >= start /\ i - 1 < start + Len(d) THEN d[i - start] ELSE Rd(x, i - 1)]

-----------------------------------------------------------------------------
(* data arguments of the write operations.  A descriptor d is one of       *)
(*   [k |-> "conc",  bytes |-> <<...>>]   python bytes                     *)
(*   [k |-> "sym",   s |-> s]             a whole symbolic term (BitVec)   *)
(*   [k |-> "mixed", bytes |-> <<...>>]   ONE bit-vector term that is the  *)
(*                                        concatenation of symbolic and    *)
(*                                        concrete pieces                  *)
(*   [k |-> "slice", w, a, n]             vec[w].slice(a, a+n): a fresh    *)
(*                                        vector, w may be the target      *)
(*   [k |-> "vec",   w]                   the vector object vec[w] ITSELF  *)
(*                                        (w # target), e.g. returndata    *)
(* DataBytes is its value AT THE TIME OF THE CALL.                         *)
DataBytes(h, d) ==
    CASE d.k = "conc"  -> d.bytes
      [] d.k = "mixed" -> d.bytes
      [] d.k = "sym"   -> SymData(d.s)
      [] d.k = "slice" -> SliceOf(h[d.w], d.a, d.a + d.n)
      [] d.k = "vec"   -> h[d.w]

(* commands = the public write API.  c.v is always the vector that changes *)
(*   [op |-> "SetByte",  v, off, data]   data is 1 byte wide               *)
(*   [op |-> "SetSlice", v, off, data]   set_slice(off, off+len(data), ..) *)
(*   [op |-> "SetWord",  v, off, data]   data is W bytes wide              *)
(*   [op |-> "Append",   v, data]                                          *)
(*   [op |-> "Slice",    v, src, a, b]   vec[v] := vec[src].slice(a, b)    *)
(*   [op |-> "Copy",     v, src]         vec[v] := vec[src].copy()         *)
Apply(h, c) ==
    CASE c.op \in {"SetByte", "SetSlice", "SetWord"} ->
            [h EXCEPT ![c.v] = Write(h[c.v], c.off, DataBytes(h, c.data))]
      [] c.op = "Append" ->
            [h EXCEPT ![c.v] = Write(h[c.v], Len(h[c.v]), DataBytes(h, c.data))]
      [] c.op = "Slice" ->
            [h EXCEPT ![c.v] = SliceOf(h[c.src], c.a, c.b)]
      [] c.op = "Copy" ->
            [h EXCEPT ![c.v] = h[c.src]]

(* the public read API *)
GetByte(h, v, off) == Rd(h[v], off)
GetWord(h, v, off) == WordOf(h[v], off)
GetSlice(h, v, a, b) == SliceOf(h[v], a, b)
LenOf(h, v) == Len(h[v])
Unwrap(h, v) == h[v]

-----------------------------------------------------------------------------
(* Command alphabets.  A profile P is a record of small sets:              *)
(*   wv     vectors that may be written         offs   write offsets       *)
(*   lens   lengths of slice writes             kinds  data kinds          *)
(*   srcs   <<w, a>> sources of "slice" data    boffs  set_byte offsets    *)
(*   bkinds kinds of set_byte data              woffs  set_word offsets    *)
(*   wkinds kinds of set_word data              alens  append lengths      *)
(*   akinds kinds of append data                slices <<v, src, a, b>>    *)
(*   copies <<v, src>>                          maxlen cap on any length   *)

SymVariant(n, k) == n + 64 * k            \* k-th symbol of width n

MixedRun(n) ==     \* first half symbolic (symbol of width n, variant 2), second half concrete
    [i \in 1..n |-> IF 2 * i <= n + 1 THEN Tok(SymVariant(n, 2), i - 1) ELSE (160 + i) % 256]

Datas(P, n, kinds) ==
      (IF "conc"  \in kinds THEN {[k |-> "conc", bytes |-> ConcRun(n, n)]} ELSE {})
    \cup (IF "sym" \in kinds /\ n >= 1 /\ n < 64 THEN {[k |-> "sym", s |-> SymVariant(n, 0)]} ELSE {})
    \cup (IF "mixed" \in kinds /\ n >= 2 /\ n < 64 THEN {[k |-> "mixed", bytes |-> MixedRun(n)]} ELSE {})
    \cup (IF "slice" \in kinds /\ n >= 1
            THEN {[k |-> "slice", w |-> s[1], a |-> s[2], n |-> n] : s \in P.srcs} ELSE {})

Cmds(P, h) ==
    LET fits(off, n) == off + n <= P.maxlen IN
      {[op |-> "SetByte", v |-> v, off |-> o, data |-> d] :
            v \in P.wv, o \in P.boffs, d \in Datas(P, 1, P.bkinds)}
    \cup UNION {UNION {UNION {
            {[op |-> "SetSlice", v |-> v, off |-> o, data |-> d] : d \in Datas(P, n, P.kinds \ {"vec"})}
            : n \in {m \in P.lens : fits(o, m)}} : o \in P.offs} : v \in P.wv}
    \cup UNION {UNION {
            {[op |-> "SetSlice", v |-> v, off |-> o, data |-> [k |-> "vec", w |-> w]] :
                w \in {u \in Vecs : u # v /\ Len(h[u]) >= 1 /\ fits(o, Len(h[u])) /\ "vec" \in P.kinds}}
            : o \in P.offs} : v \in P.wv}
    \cup {[op |-> "SetWord", v |-> v, off |-> o, data |-> d] :
            v \in P.wv, o \in {x \in P.woffs : fits(x, W)}, d \in Datas(P, W, P.wkinds)}
    \cup UNION {UNION {
            {[op |-> "Append", v |-> v, data |-> d] : d \in Datas(P, n, P.akinds \ {"vec"})}
            : n \in {m \in P.alens : fits(Len(h[v]), m)}} : v \in P.wv}
    \cup UNION {
            {[op |-> "Append", v |-> v, data |-> [k |-> "vec", w |-> w]] :
                w \in {u \in Vecs : u # v /\ Len(h[u]) >= 1 /\ fits(Len(h[v]), Len(h[u])) /\ "vec" \in P.akinds}}
            : v \in P.wv}
    \cup {[op |-> "Slice", v |-> s[1], src |-> s[2], a |-> s[3], b |-> s[4]] : s \in P.slices}
    \cup {[op |-> "Copy", v |-> s[1], src |-> s[2]] : s \in P.copies}

(* One command of the profile drawn at random (TLC's RandomElement), for long histories under  *)
(* -simulate without enumerating Cmds at every step.  The draw may be illegal (too long, no      *)
(* matching whole-vector argument); LegalCmd says whether it is an element of Cmds(P, h).         *)
RandOps == <<"SetByte", "SetSlice", "SetSlice", "SetSlice", "SetSliceVec", "SetWord",
             "Append", "AppendVec", "Slice", "Copy">>

RandomCmd(P, h) ==
    LET v  == RandomElement(P.wv)
        op == RandOps[RandomElement(1..Len(RandOps))]
        w  == RandomElement(Vecs)
    IN CASE op = "SetByte" ->
              [op |-> "SetByte", v |-> v, off |-> RandomElement(P.boffs),
               data |-> RandomElement(Datas(P, 1, P.bkinds))]
         [] op = "SetSlice" ->
              LET n == RandomElement(P.lens)
                  ds == Datas(P, n, P.kinds \ {"vec"})
              IN [op |-> "SetSlice", v |-> v, off |-> RandomElement(P.offs),
                  data |-> IF ds = {} THEN [k |-> "conc", bytes |-> <<>>] ELSE RandomElement(ds)]
         [] op = "SetSliceVec" ->
              [op |-> "SetSlice", v |-> v, off |-> RandomElement(P.offs), data |-> [k |-> "vec", w |-> w]]
         [] op = "SetWord" ->
              [op |-> "SetWord", v |-> v, off |-> RandomElement(P.woffs),
               data |-> RandomElement(Datas(P, W, P.wkinds))]
         [] op = "Append" ->
              LET ds == Datas(P, RandomElement(P.alens), P.akinds \ {"vec"})
              IN [op |-> "Append", v |-> v,
                  data |-> IF ds = {} THEN [k |-> "conc", bytes |-> <<>>] ELSE RandomElement(ds)]
         [] op = "AppendVec" ->
              [op |-> "Append", v |-> v, data |-> [k |-> "vec", w |-> w]]
         [] op = "Slice" ->
              LET q == RandomElement(P.slices)
              IN [op |-> "Slice", v |-> q[1], src |-> q[2], a |-> q[3], b |-> q[4]]
         [] op = "Copy" ->
              LET q == RandomElement(P.copies) IN [op |-> "Copy", v |-> q[1], src |-> q[2]]

LegalCmd(P, h, c) ==
    LET fits(off, n) == off + n <= P.maxlen
        dataOK(v, d) == d.k = "vec" => (d.w # v /\ Len(h[d.w]) >= 1)
    IN CASE c.op = "SetByte" -> TRUE
         [] c.op \in {"SetSlice", "SetWord"} ->
                dataOK(c.v, c.data) /\ fits(c.off, Len(DataBytes(h, c.data)))
         [] c.op = "Append" ->
                dataOK(c.v, c.data) /\ fits(Len(h[c.v]), Len(DataBytes(h, c.data)))
         [] OTHER -> TRUE

-----------------------------------------------------------------------------
(* the flat state machine *)
VARIABLE heap

FlatInit == heap = [v \in Vecs |-> <<>>]
FlatNext(P) == \E c \in Cmds(P, heap) : heap' = Apply(heap, c)

IsByteValue(b) == b \in Nat /\ (b >= 256 => IdxOf(b) < SymWidth(SymOf(b)))
FlatTypeOK == \A v \in Vecs : \A i \in 1..Len(heap[v]) : IsByteValue(heap[v][i])

(* laws of the flat model that do not depend on the alphabet (checked by    *)
(* MC_ByteSeq on every reachable state over a grid of arguments)            *)
FlatLaws(G) ==
    \A v \in Vecs :
        LET x == heap[v] IN
        /\ \A o \in G : o >= Len(x) => Rd(x, o) = 0
        /\ \A a \in G, b \in G :
              /\ Len(SliceOf(x, a, b)) = (IF b > a THEN b - a ELSE 0)
              /\ \A i \in 0..(b - a - 1) : Rd(SliceOf(x, a, b), i) = Rd(x, a + i)
        /\ SliceOf(x, 0, Len(x)) = x
        /\ \A o \in G : LET y == Write(x, o, <<7>>) IN
              /\ Len(y) = Max(Len(x), o + 1)
              /\ Rd(y, o) = 7
              /\ \A p \in G : p # o => Rd(y, p) = Rd(x, p)
        /\ \A o \in G : Write(x, o, <<>>) = x
=============================================================================
