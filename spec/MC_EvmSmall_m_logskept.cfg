SPECIFICATION Spec
CONSTANTS
  WB = 1
  MEMCAP = 64
  NR = 2
  NC = 0
  NT = 0
  Mutation <- MutLogsKept
INVARIANT InvFailure
CHECK_DEADLOCK FALSE
