\* C18 thorough tier, part Rest (the thorough enumeration is split to bound the size of one TLC output).
SPECIFICATION Spec
CONSTANTS
  MaxL3 = 0
  MaxL2 = 0
  MaxLE = 0
  MaxStr = 6
  MaxTok = 6
  DoVals = TRUE
  DoScope = TRUE
  DoValidate = FALSE
  InvMax = 3
INVARIANTS
  ResolveIsFunction
  ResolveAgreesWithFold
  StepIsResolve
  ResolveIsHighest
  LayeringMonotone
  RecentWinsAmongEquals
  SolverCommandPrecedence
  StrictIsTolerant
  BlankInsensitive
  RoundTrip
  ScopeLocal
