\* liveness under weak fairness: no VIEW, no state constraint, no symmetry
SPECIFICATION FairSpec
CONSTANTS
  Jobs = {j1}
  HasTimeout = {j1}
  IgnoresTerm = {j1}
  PopenMayFail = {j1}
  PreFix = FALSE
  CoarseCancel = FALSE
  Modes = {"none", "nowait", "wait"}
  Modes2 = {"none"}
  NeverExits = {}
PROPERTIES ResultEventually WaitReturns ShutdownReturns Termination
