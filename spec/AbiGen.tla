------------------------------- MODULE AbiGen -------------------------------
(***************************************************************************)
(* Signature generator for the conformance check of halmos' calldata       *)
(* construction (C12): enumerates every function signature                 *)
(*   - with one parameter of nesting depth <= MaxDepth, and                *)
(*   - with 2..Arity parameters of nesting depth <= MaxDepth - 1           *)
(* over abstract leaves S (static elementary type) / D (bytes, string),    *)
(* T[], T[k] (k \in FK) and tuples of arity <= Arity; makes the leaves     *)
(* concrete by rotation; chooses the length-candidate lists                *)
(* (--default-array-lengths, --default-bytes-lengths and up to three       *)
(* --array-lengths overrides, applied by the harness to the first dynamic  *)
(* parameters in pre-order) and prints one JSON record per signature and   *)
(* candidate configuration.                                                *)
(* Params (JSON file named by ABIGEN): salt, stride, off: only signatures  *)
(* with (hash + salt) % stride = off are emitted (stride 1 = all).         *)
(***************************************************************************)
EXTENDS AbiTypes, Json, IOUtils

CONSTANTS MaxDepth, Arity, FK, NC

Params == JsonDeserialize(IOEnv.ABIGEN)

AbsLeaves == {SLeaf, DLeaf}
Deep == TypesUpTo(MaxDepth, AbsLeaves, FK, Arity)
Shallow == TypesUpTo(MaxDepth - 1, AbsLeaves, FK, Arity)
Sigs == {<<x>> : x \in Deep} \cup (SeqsUpTo(Shallow, Arity) \ {<<x>> : x \in Shallow})

ArrC == << <<0>>, <<1>>, <<2>>, <<0, 1>>, <<0, 2>>, <<1, 2>>, <<0, 1, 2>>, <<3>>, <<3, 1>>, <<2, 0>> >>
BytesC == << <<0>>, <<1>>, <<32>>, <<0, 33>>, <<31, 64>>, <<0, 65>>, <<5, 32, 33>>, <<33, 0>>, <<64>>, <<0, 1, 96>> >>
OvC == << <<>>, <<>>, <<0>>, <<1>>, <<2, 1>>, <<0, 3>>, <<2>>, <<>>, <<1, 0>> >>
Pick(s, h) == s[(h % Len(s)) + 1]

VARIABLES sig, cc, on
vars == <<sig, cc, on>>

Root(s) == TupleT(s)
Selected(s) == (THash(Root(s)) + Params.salt) % Params.stride = Params.off

Out(s, c) ==
    LET h0 == THash(Root(s))
        h == (h0 * 31 + c * 1009 + Params.salt) % 1000003
        t == Concretise(Root(s), h)
    IN [h |-> h0, cc |-> c, sig |-> TypeStr(t), t |-> t,
        dal |-> Pick(ArrC, h), dbl |-> Pick(BytesC, h \div 11),
        ov |-> <<Pick(OvC, h \div 7), Pick(OvC, h \div 67), Pick(OvC, h \div 613)>>]

Init == sig \in {x \in Sigs : Selected(x)} /\ cc = 0 /\ on = FALSE
Emit == /\ ~on /\ on' = TRUE
        /\ sig' = sig
        /\ cc' \in 1..NC
        /\ PrintT("JREC" \o ToJson(Out(sig', cc')))
Next == Emit
Spec == Init /\ [][Next]_vars

InvSigTypes == \A i \in 1..Len(sig) : Depth(sig[i]) <= MaxDepth
=============================================================================
