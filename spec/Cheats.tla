------------------------------- MODULE Cheats -------------------------------
(***************************************************************************)
(* Meaning of the Foundry / halmos cheatcodes that the properties mention, *)
(* written from the forge-std interface (Vm.sol, StdAssertions.sol) and    *)
(* the Foundry book - not from halmos' handlers.  This module holds the    *)
(* pure part: ABI access to the arguments and the relation table of the    *)
(* vm.assert* family.  The state effects are applied by Evm!CheatCall.     *)
(*                                                                         *)
(* A cheatcode is identified by a descriptor d supplied with the case      *)
(* (env.cheats); the harness derives it from the Solidity signature text   *)
(* and computes the selector with keccak:                                  *)
(*   [sel, kind, op, typ, arr, n]                                          *)
(*   kind "assert": op in Eq NotEq Lt Gt Le Ge True False, typ the         *)
(*        Solidity operand type, arr = operands are T[]                    *)
(*   kind "fresh": typ in uint int uint256 int256 bytes32 address bool     *)
(*        bytes4 bytes8 bytes string, n = position of the size argument    *)
(*        (-1 if the width is fixed by the type)                           *)
(*   other kinds: see Evm!CheatCall.                                       *)
(* Only meaningful at WB = 32.                                             *)
(***************************************************************************)
EXTENDS EvmWord

\* bytes off+1 .. off+size of s, zero beyond the end
Sl(s, off, size) == TLCEval([i \in 1..size |-> IF off + i <= Len(s) THEN s[off + i] ELSE 0])

\* i-th static argument word (i = 0, 1, ...) of the call data `args` (selector first)
ArgWord(args, i) == Sl(args, 4 + WB * i, WB)
\* a natural number below cap (cap otherwise)
ArgNat(args, i, cap) == BCap(ArgWord(args, i), cap)

\* i-th argument of type bytes / string: the byte sequence it denotes
ArgDyn(args, i) ==
    LET off == ArgNat(args, i, Len(args) + 1)
        len == BCap(Sl(args, 4 + off, WB), Len(args) + 1)
    IN Sl(args, 4 + off + WB, len)
\* i-th argument of type T[] with word-sized T: the sequence of its elements
ArgArr(args, i) ==
    LET off == ArgNat(args, i, Len(args) + 1)
        n   == BCap(Sl(args, 4 + off, WB), Len(args) + 1)
    IN [k \in 1..n |-> Sl(args, 4 + off + WB * k, WB)]

\* i-th argument of type bytes[] / string[]: the sequence of the byte sequences its elements denote (the element offsets
\* are relative to the word after the length)
ArgDynArr(args, i) ==
    LET cap  == Len(args) + 1
        off  == ArgNat(args, i, cap)
        n    == BCap(Sl(args, 4 + off, WB), cap)
        base == 4 + off + WB
    IN [k \in 1..n |->
          LET eo  == BCap(Sl(args, base + WB * (k - 1), WB), cap)
              len == BCap(Sl(args, base + eo, WB), cap)
          IN Sl(args, base + eo + WB, len)]

IsOrd(op) == op \in {"Lt", "Gt", "Le", "Ge"}
\* the stated relation between two operand words
Rel(op, typ, a, b) ==
    CASE op = "Eq" -> a = b
      [] op = "NotEq" -> a # b
      [] op = "Lt" -> IF typ = "int256" THEN WSLt(a, b) ELSE WLt(a, b)
      [] op = "Gt" -> IF typ = "int256" THEN WSGt(a, b) ELSE WGt(a, b)
      [] op = "Le" -> IF typ = "int256" THEN ~WSGt(a, b) ELSE ~WGt(a, b)
      [] op = "Ge" -> IF typ = "int256" THEN ~WSLt(a, b) ELSE ~WLt(a, b)

\* does the assertion described by d hold for the call data args?
AssertHolds(d, args) ==
    IF d.op = "True" THEN ~BIsZero(ArgWord(args, 0))
    ELSE IF d.op = "False" THEN BIsZero(ArgWord(args, 0))
    ELSE IF d.arr /\ d.typ \in {"bytes", "string"} THEN (ArgDynArr(args, 0) = ArgDynArr(args, 1)) = (d.op = "Eq")
    ELSE IF d.arr THEN (ArgArr(args, 0) = ArgArr(args, 1)) = (d.op = "Eq")
    ELSE IF d.typ \in {"bytes", "string"} THEN (ArgDyn(args, 0) = ArgDyn(args, 1)) = (d.op = "Eq")
    ELSE Rel(d.op, d.typ, ArgWord(args, 0), ArgWord(args, 1))

-----------------------------------------------------------------------------
(* fresh symbolic values: svm.create* / vm.random*  - the k-th call returns a *)
(* value of the requested type built from the k-th oracle entry `raw`         *)

\* keep the low `bits` bits of a word
LowBits(w, bits) ==
    IF bits >= NBITS THEN w
    ELSE LET full == bits \div 8          \* whole low bytes kept
             part == bits % 8
         IN TLCEval([i \in 1..WB |->
                IF i > WB - full THEN w[i]
                ELSE IF i = WB - full /\ part > 0 THEN w[i] % (2 ^ part)
                ELSE 0])
\* two's complement sign extension from `bits` bits
SignExtBits(w, bits) ==
    IF bits >= NBITS \/ bits = 0 THEN LowBits(w, bits)
    ELSE LET lw == LowBits(w, bits)
             top == bits - 1                          \* index of the sign bit
             byteIx == WB - (top \div 8)
             neg == (lw[byteIx] \div (2 ^ (top % 8))) % 2 = 1
         IN IF ~neg THEN lw
            ELSE TLCEval([i \in 1..WB |->
                    IF i < byteIx THEN 255
                    ELSE IF i = byteIx THEN lw[i] + (256 - 2 ^ ((top % 8) + 1))
                    ELSE lw[i]])

Pad32(bs) == bs \o BZero((WB - (Len(bs) % WB)) % WB)
\* ABI encoding of one value of type bytes / string as return data
EncodeDyn(bs) == WFromNat(WB) \o WFromNat(Len(bs)) \o Pad32(bs)

\* the return data of a fresh-value cheatcode of type typ with size argument sz (bits or bytes)
FreshReturn(typ, sz, raw) ==
    LET w == Sl(raw, Len(raw) - WB, WB)                \* low word of the oracle entry
    IN CASE typ = "uint" -> LowBits(w, sz)
         [] typ = "int" -> SignExtBits(w, sz)
         [] typ \in {"uint256", "int256", "bytes32"} -> w
         [] typ = "address" -> LowBits(w, 160)
         [] typ = "bool" -> LowBits(w, 1)
         [] typ = "bytes4" -> Sl(w, WB - 4, 4) \o BZero(WB - 4)
         [] typ = "bytes8" -> Sl(w, WB - 8, 8) \o BZero(WB - 8)
         [] typ \in {"bytes", "string"} -> EncodeDyn(Sl(raw, Len(raw) - sz, sz))
=============================================================================
