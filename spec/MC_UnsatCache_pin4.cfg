\* faithful model: both references exist (submitted_futures and the shared term_to_vars)
SPECIFICATION Spec
CONSTANTS
  Ids = {1, 2, 3, 4}
  Cons = {"a", "b", "c", "d"}
  UnsatFamily = {{"a", "b"}, {"b", "c", "d"}}
  PinFutures = TRUE
  PinTermVars = TRUE
  MaxTests = 2
  MaxInflight = 1
  MaxCores = 2
INVARIANTS TypeOK HashConsed CacheSound CoresDenoteUnsat
PROPERTIES PinnedStable
