\* faithful model: both references exist (submitted_futures and the shared term_to_vars)
\* four ids, two tests
SPECIFICATION Spec
CONSTANTS
  Ids = {1, 2, 3, 4}
  Cons = {"a", "b", "c"}
  UnsatFamily = {{"a", "b"}}
  PinFutures = TRUE
  PinTermVars = TRUE
  MaxTests = 2
  MaxInflight = 1
  MaxCores = 1
INVARIANTS TypeOK HashConsed CacheSound CoresDenoteUnsat
PROPERTIES PinnedStable
