----------------------------- MODULE UnsatCache -----------------------------
(***************************************************************************)
(* Property C16: the unsat-core cache of halmos (`--cache-solver`) answers *)
(* a query `unsat` without running the solver iff some stored unsat core   *)
(* is a subset of the query's list of assertion *identifiers*              *)
(* (solve.py `check_unsat_cores`).  The identifiers are z3 AST ids read at *)
(* serialisation time (sevm.py `Path.to_smt2`: `cond.get_id()`), and z3    *)
(* hands the id of a reclaimed AST out again.  Soundness therefore rests   *)
(* on every id held in a stored core continuing to denote the constraint   *)
(* it denoted when the core was computed, i.e. on which objects stay       *)
(* referenced.  The code has two such references ("pins"):                 *)
(*                                                                         *)
(*  PinFutures   `run_test` keeps `submitted_futures`; each future keeps   *)
(*               its done-callback `partial(_solve_end_to_end_callback,    *)
(*               ex=ex, ...)` (concurrent.futures never clears             *)
(*               `_done_callbacks`), hence the `Exec`, its `Path` and the  *)
(*               `conditions` dict whose keys are the z3 terms of the      *)
(*               submitted query.  Lifetime: until `run_test` returns,     *)
(*               which is also the lifetime of the core list               *)
(*               (`SolvingContext.unsat_cores` is created per              *)
(*               FunctionContext, i.e. per test).                          *)
(*  PinTermVars  `Path.append` calls `get_var_set(cond)`, which stores     *)
(*               `HashableTerm(cond)` as a key of `term_to_vars`; that     *)
(*               dict is shared (not copied) by `branch()` and by          *)
(*               `extend_path()` with the setUp path, so every condition   *)
(*               ever appended stays referenced until `run_contract`       *)
(*               returns.                                                  *)
(*                                                                         *)
(* `CacheSound` holds when at least one pin is present and is refuted by   *)
(* TLC when both are removed (MC_UnsatCache_nopin.cfg) - the negative      *)
(* control, and the statement of what a refactoring must not break.        *)
(*                                                                         *)
(* Constraints are abstract values; satisfiability is given by a family of *)
(* jointly unsatisfiable subsets (a set of constraints is unsatisfiable    *)
(* iff it contains a member of the family).  A query is the map            *)
(* id |-> constraint of the active path at serialisation time (the order   *)
(* of the id list is irrelevant to `check_unsat_cores`).                   *)
(***************************************************************************)
EXTENDS Naturals, FiniteSets, TLC

CONSTANTS
    Ids,          \* AST identifiers z3 can hand out
    Cons,         \* abstract constraints
    UnsatFamily,  \* subsets of Cons that are jointly unsatisfiable
    PinFutures,   \* BOOLEAN: submitted futures keep their Exec alive until the test ends
    PinTermVars,  \* BOOLEAN: the shared term_to_vars cache keeps every appended condition alive
    MaxTests,     \* tests per contract that are modelled
    MaxInflight,  \* queries submitted and not yet answered (--solver-threads / queue)
    MaxCores      \* bound on the stored cores (model-checking bound only)

Unsat(S) == \E U \in UnsatFamily : U \subseteq S

VARIABLES
    alive,     \* id |-> constraint : the condition objects that exist in the z3 context
    freeIds,   \* ids whose object was reclaimed; z3 may hand them out again
    cur,       \* ids referenced by the conditions of the path being executed
    held,      \* ids referenced by pending sibling paths (shared prefixes on the worklist)
    pinned,    \* ids referenced through submitted_futures (this test)
    tvpinned,  \* ids referenced through the shared term_to_vars cache (this contract)
    cores,     \* stored unsat cores of the current test: sets of ids
    queries,   \* in-flight queries and the most recent cache hit of the current test
    test       \* number of the current test

vars == <<alive, freeIds, cur, held, pinned, tvpinned, cores, queries, test>>

Range(f) == {f[x] : x \in DOMAIN f}
Restrict(f, S) == [x \in S |-> f[x]]
ConsOf(q, S) == {q.ids[i] : i \in S}
Inflight == {q \in queries : q.st \in {"submitted", "solving"}}

Init ==
    /\ alive = <<>> /\ freeIds = {} /\ cur = {} /\ held = {}
    /\ pinned = {} /\ tvpinned = {} /\ cores = {} /\ queries = {} /\ test = 1

(* The active path appends constraint c (Path.append ignores a condition it already *)
(* has).  z3 hash-conses: a term that still exists keeps its id (NewShared); a new    *)
(* term gets a never-used id (NewFresh) OR the id of a reclaimed object (NewRecycled).*)
Appendable(c) == ~ \E i \in cur : alive[i] = c
Reference(i) ==
    /\ cur' = cur \cup {i}
    /\ tvpinned' = IF PinTermVars THEN tvpinned \cup {i} ELSE tvpinned
    /\ UNCHANGED <<held, pinned, cores, queries, test>>
Create(i, c) ==
    /\ ~ \E j \in DOMAIN alive : alive[j] = c
    /\ i \notin DOMAIN alive
    /\ alive' = [x \in DOMAIN alive \cup {i} |-> IF x = i THEN c ELSE alive[x]]
    /\ freeIds' = freeIds \ {i}
    /\ Reference(i)

NewShared(c) ==
    /\ Appendable(c)
    /\ \E i \in DOMAIN alive : alive[i] = c /\ Reference(i)
    /\ UNCHANGED <<alive, freeIds>>
NewFresh(c) == Appendable(c) /\ \E i \in Ids \ freeIds : Create(i, c)
NewRecycled(c) == Appendable(c) /\ \E i \in freeIds : Create(i, c)
NewCond(c) == NewShared(c) \/ NewFresh(c) \/ NewRecycled(c)

(* JUMPI with both sides feasible: a sibling path that shares the prefix is pushed. *)
Branch ==
    /\ ~ (cur \subseteq held)
    /\ held' = held \cup cur
    /\ UNCHANGED <<alive, freeIds, cur, pinned, tvpinned, cores, queries, test>>

(* The active path is finished; the references of its Exec/Path are dropped and the   *)
(* next path (some prefix kept by the worklist) becomes active.                      *)
ReleasePath ==
    /\ \E c2 \in SUBSET held :
        /\ cur' = c2
        /\ held' \in {held, c2}     \* other siblings still share everything / only this prefix is left
        /\ <<cur', held'>> # <<cur, held>>
    /\ UNCHANGED <<alive, freeIds, pinned, tvpinned, cores, queries, test>>

(* Reference counting / gc.collect(): any unreferenced objects disappear.  In-flight  *)
(* queries and stored cores hold *texts and numbers*, not objects.                   *)
Garbage == DOMAIN alive \ (cur \cup held \cup pinned \cup tvpinned)
Reclaim ==
    /\ \E S \in SUBSET Garbage :
        /\ S # {}
        /\ alive' = Restrict(alive, DOMAIN alive \ S)
        /\ freeIds' = freeIds \cup S
    /\ UNCHANGED <<cur, held, pinned, tvpinned, cores, queries, test>>

(* handle_assertion_violation: Path.to_smt2 reads the ids, the query goes to the pool. *)
Submit ==
    /\ cur # {}
    /\ Cardinality(Inflight) < MaxInflight
    /\ queries' = queries \cup {[ids |-> Restrict(alive, cur), st |-> "submitted"]}
    /\ pinned' = IF PinFutures THEN pinned \cup cur ELSE pinned
    /\ UNCHANGED <<alive, freeIds, cur, held, tvpinned, cores, test>>

HitEnabled(q) == \E core \in cores : core \subseteq DOMAIN q.ids   \* check_unsat_cores

CacheHit(q) ==
    /\ q \in queries /\ q.st = "submitted"
    /\ HitEnabled(q)
    \* only the most recent hit is remembered (CacheSound is evaluated in every state)
    /\ queries' = (Inflight \ {q}) \cup {[q EXCEPT !.st = "hit"]}
    /\ UNCHANGED <<alive, freeIds, cur, held, pinned, tvpinned, cores, test>>

CacheMiss(q) ==
    /\ q \in queries /\ q.st = "submitted"
    /\ ~ HitEnabled(q)
    /\ queries' = (queries \ {q}) \cup {[q EXCEPT !.st = "solving"]}
    /\ UNCHANGED <<alive, freeIds, cur, held, pinned, tvpinned, cores, test>>

(* The solver proves the query unsat and names a jointly unsatisfiable subset of its   *)
(* assertions (not necessarily minimal); the callback stores it.                      *)
SolverUnsat(q, core) ==
    /\ q \in queries /\ q.st = "solving"
    /\ core # {} /\ core \subseteq DOMAIN q.ids
    /\ Unsat(ConsOf(q, core))
    /\ Cardinality(cores \cup {core}) <= MaxCores
    /\ cores' = cores \cup {core}
    /\ queries' = queries \ {q}
    /\ UNCHANGED <<alive, freeIds, cur, held, pinned, tvpinned, test>>

(* sat / unknown / error / unsat whose core could not be parsed, or whose core is the   *)
(* empty list `()` (a solver that does not track named assertions: the guard           *)
(* `if solver_output.unsat_core:`): nothing is stored.  An empty core would be a subset *)
(* of every later query - HitEnabled for all of them (exercised from C16 through        *)
(* harness/coreless_solver.py and from C05 with the reply kind unsat_nocore).           *)
SolverNoCore(q) ==
    /\ q \in queries /\ q.st = "solving"
    /\ queries' = queries \ {q}
    /\ UNCHANGED <<alive, freeIds, cur, held, pinned, tvpinned, cores, test>>

(* run_test returns (after thread_pool.shutdown(wait=True)): submitted_futures and the  *)
(* FunctionContext with its SolvingContext.unsat_cores are dropped; the next test        *)
(* starts with an empty core list.  term_to_vars survives (it belongs to the setUp path).*)
EndTest ==
    /\ Inflight = {}
    /\ test < MaxTests
    /\ test' = test + 1
    /\ cores' = {} /\ pinned' = {} /\ cur' = {} /\ held' = {} /\ queries' = {}
    /\ UNCHANGED <<alive, freeIds, tvpinned>>

\* parameterless wrappers, so that TLC's coverage reports each of them by name
DoCacheHit == \E q \in queries : CacheHit(q)
DoCacheMiss == \E q \in queries : CacheMiss(q)
DoSolverNoCore == \E q \in queries : SolverNoCore(q)
DoSolverUnsat == \E q \in queries : \E core \in SUBSET DOMAIN q.ids : SolverUnsat(q, core)

Next ==
    \/ \E c \in Cons : NewShared(c) \/ NewFresh(c) \/ NewRecycled(c)
    \/ Branch \/ ReleasePath \/ Reclaim \/ Submit \/ EndTest
    \/ DoCacheHit \/ DoCacheMiss \/ DoSolverNoCore \/ DoSolverUnsat

Spec == Init /\ [][Next]_vars

-----------------------------------------------------------------------------
TypeOK ==
    /\ DOMAIN alive \subseteq Ids /\ Range(alive) \subseteq Cons
    /\ freeIds \subseteq Ids /\ freeIds \cap DOMAIN alive = {}
    /\ cur \subseteq DOMAIN alive /\ held \subseteq DOMAIN alive
    /\ pinned \subseteq DOMAIN alive /\ tvpinned \subseteq DOMAIN alive
    /\ cores \subseteq SUBSET Ids
    /\ \A q \in queries : q.st \in {"submitted", "solving", "hit"} /\ DOMAIN q.ids \subseteq Ids
    /\ test \in 1..MaxTests

(* z3 hash-consing: one object per term *)
HashConsed == \A i, j \in DOMAIN alive : alive[i] = alive[j] => i = j

(* THE property: a query answered from the cache really is unsatisfiable. *)
CacheSound == \A q \in queries : q.st = "hit" => Unsat(Range(q.ids))

(* Inductive strengthening that the pins provide: every id of a stored core still       *)
(* denotes an object, and the denoted constraints are jointly unsatisfiable.            *)
CoresDenoteUnsat ==
    \A core \in cores : core \subseteq DOMAIN alive /\ Unsat({alive[i] : i \in core})

(* What the trace specification relies on: a pinned id never changes its meaning. *)
PinnedStable ==
    [][\A i \in pinned \cup tvpinned : i \in DOMAIN alive' /\ alive'[i] = alive[i]]_vars

=============================================================================
