\* RESIDUAL, EXPECTED TO BE VIOLATED: a confirmation query cancelled in flight by the early-exit shutdown may raise OSError out of run_test (modelled, not forced by the harness)
SPECIFICATION Spec
CONSTANTS
  MinPaths = 1
  MaxPaths = 2
  Outcomes = {"success", "panic", "stuck"}
  Replies = {"sat_valid", "unsat", "unknown", "garbage"}
  Replies2 = {"unsat"}
  StuckReplies = {"unsat", "unknown"}
  EarlySet = {TRUE, FALSE}
  CacheSet = {FALSE}
  RefinableSet = {FALSE}
  Threads = 4
  MaxPrev = 0
  PrevCodes = {0}
  RecordHist = FALSE
  Canon = FALSE
  Coarse = FALSE
  MutPrecedence = FALSE
  MutNoCatch = FALSE
  KilledMayRaise = TRUE
INVARIANTS OrderIndependence
