\* generator (W=32): tiny, tiny, FULL, tiny
SPECIFICATION Spec
VIEW View
CONSTANTS
  NV = 2
  W = 32
  Depth = 4
  Emit = "all"
  Pick = "all"
  FullLevels = {3}
  MedLevels = {}
  TinyLevels = {1,2,4}
  AliasLevels = {}
  XOffs = {31,32,33}
  XLens = {32}
  MaxLen = 70
  Mutant = "none"
  Prof <- ProfByLevel
INVARIANT InvFlatTypeOK
INVARIANT InvWellFormed
INVARIANT InvRefines
INVARIANT InvCopyIndependence
