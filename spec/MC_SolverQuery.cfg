SPECIFICATION Spec
CONSTANTS
  MaxConds = 4
  Mode = "model"
INVARIANT QueryHasAllConditions
INVARIANT SolverSubsetOfConditions
INVARIANT NamedEncodingEquisat
