SPECIFICATION Spec
CONSTANTS
  N = 7
  MaxLoop = 4
  MaxFaults = 3
INVARIANT NeverDropFeasible
INVARIANT SoundPaths
INVARIANT DeterminedLoopsNeverCut
INVARIANT FlagIsMeaningful
INVARIANT StackSmall
