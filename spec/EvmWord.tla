------------------------------ MODULE EvmWord ------------------------------
(***************************************************************************)
(* EVM machine words as big-endian byte sequences, and every word-level    *)
(* instruction of the EVM (Yellow Paper, appendix H.2, sections 0s-1s) as  *)
(* a limb algorithm.  TLC integers are 32 bit, so a 256-bit word is a      *)
(* tuple of WB = 32 bytes, index 1 = most significant byte (the same order *)
(* in which a word lies in memory, calldata and return data).              *)
(*                                                                         *)
(* The module is parameterised by WB so that MC_WordRefine can check the   *)
(* limb algorithms exhaustively against the natural-number definitions of  *)
(* EvmWordNat at WB = 1 and on boundary grids at WB = 2..4, while the      *)
(* conformance runs use the very same text at WB = 32.                     *)
(***************************************************************************)
EXTENDS Integers, Sequences, TLC
LOCAL INSTANCE Bitwise

CONSTANT WB                      \* bytes per word

ByteVal == 0..255
NBITS == 8 * WB

\* TLCEval forces TLC's lazy function values; without it limb arithmetic is exponential.
BZero(n) == TLCEval([i \in 1..n |-> 0])
BOnes(n) == TLCEval([i \in 1..n |-> 255])
Zero == BZero(WB)
AllOnes == BOnes(WB)

IsWord(a) == /\ Len(a) = WB
             /\ \A i \in 1..WB : a[i] \in ByteVal

-----------------------------------------------------------------------------
(* Conversions between small naturals and byte sequences.                  *)

RECURSIVE FromNatR(_, _, _)
FromNatR(n, k, acc) == IF k = 0 THEN acc ELSE FromNatR(n \div 256, k - 1, <<n % 256>> \o acc)
\* k-byte big-endian representation of n mod 256^k   (n < 2^31)
BFromNat(n, k) == FromNatR(n, k, <<>>)
WFromNat(n) == BFromNat(n, WB)
One == WFromNat(1)

RECURSIVE CapR(_, _, _, _)
CapR(a, i, acc, cap) ==
    IF i > Len(a) THEN acc
    ELSE IF acc * 256 + a[i] >= cap THEN cap
    ELSE CapR(a, i + 1, acc * 256 + a[i], cap)
\* min(value of a, cap)  for cap < 2^22: the only way a big word becomes a TLC integer
BCap(a, cap) == CapR(a, 1, 0, cap)

\* zero-extend on the left to n bytes / keep the low n bytes
BExt(a, n) == BZero(n - Len(a)) \o a
BLow(a, n) == SubSeq(a, Len(a) - n + 1, Len(a))
BIsZero(a) == \A i \in 1..Len(a) : a[i] = 0

-----------------------------------------------------------------------------
(* Arbitrary-length unsigned arithmetic on big-endian byte sequences.      *)

RECURSIVE BAddR(_, _, _, _, _)
BAddR(a, b, i, c, acc) ==
    IF i = 0 THEN <<c>> \o acc
    ELSE LET s == a[i] + b[i] + c
         IN BAddR(a, b, i - 1, s \div 256, <<s % 256>> \o acc)
\* a + b for Len(a) = Len(b) = n, as n+1 bytes (the first byte is the carry)
BAddC(a, b) == BAddR(a, b, Len(a), 0, <<>>)

RECURSIVE BSubR(_, _, _, _, _)
BSubR(a, b, i, bw, acc) ==
    IF i = 0 THEN <<bw>> \o acc
    ELSE LET d == a[i] - b[i] - bw
         IN IF d < 0 THEN BSubR(a, b, i - 1, 1, <<d + 256>> \o acc)
                     ELSE BSubR(a, b, i - 1, 0, <<d>> \o acc)
\* (a - b) mod 256^n as n+1 elements: the first is the borrow (1 iff a < b)
BSubB(a, b) == BSubR(a, b, Len(a), 0, <<>>)
BSub(a, b) == Tail(BSubB(a, b))

RECURSIVE BCmpR(_, _, _, _)
BCmpR(a, b, i, n) ==
    IF i > n THEN 0
    ELSE IF a[i] < b[i] THEN -1
    ELSE IF a[i] > b[i] THEN 1
    ELSE BCmpR(a, b, i + 1, n)
\* -1, 0, 1 for equal-length sequences
BCmp(a, b) == BCmpR(a, b, 1, Len(a))

RECURSIVE ColSum(_, _, _, _, _, _)
\* acc + sum of a_le[i] * b_le[k-i] for i in i..hi  (x_le[j] = byte j counted from the least significant end)
ColSum(a, b, k, i, hi, acc) ==
    IF i > hi THEN acc
    ELSE ColSum(a, b, k, i + 1, hi, acc + a[Len(a) - i] * b[Len(b) - (k - i)])

RECURSIVE BMulR(_, _, _, _, _, _)
BMulR(a, b, k, K, c, acc) ==
    IF k = K THEN acc
    ELSE LET lo == IF k - (Len(b) - 1) > 0 THEN k - (Len(b) - 1) ELSE 0
             hi == IF k < Len(a) - 1 THEN k ELSE Len(a) - 1
             s  == ColSum(a, b, k, lo, hi, c)
         IN BMulR(a, b, k + 1, K, s \div 256, <<s % 256>> \o acc)
\* the low K bytes of a * b (schoolbook product by columns), K <= Len(a) + Len(b)
BMul(a, b, K) == BMulR(a, b, 0, K, 0, <<>>)

RECURSIVE BShl1R(_, _, _, _)
BShl1R(a, i, c, acc) ==
    IF i = 0 THEN acc
    ELSE LET s == a[i] * 2 + c
         IN BShl1R(a, i - 1, s \div 256, <<s % 256>> \o acc)
\* (2a + bit) mod 256^n
BShl1(a, bit) == BShl1R(a, Len(a), bit, <<>>)

RECURSIVE FirstNonZero(_, _)
FirstNonZero(a, i) == IF i > Len(a) THEN i ELSE IF a[i] # 0 THEN i ELSE FirstNonZero(a, i + 1)

RECURSIVE BDivR(_, _, _, _, _, _)
\* restoring division, one dividend bit per step; k = index of the next bit (0 = most significant)
BDivR(a, bx, k, nb, R, Q) ==
    IF k = nb THEN <<Q, R>>
    ELSE LET bit == (a[(k \div 8) + 1] \div (2 ^ (7 - (k % 8)))) % 2
             R1  == BShl1(R, bit)
             ge  == BCmp(R1, bx) >= 0
         IN BDivR(a, bx, k + 1, nb,
                  IF ge THEN BSub(R1, bx) ELSE R1,
                  BShl1(Q, IF ge THEN 1 ELSE 0))
\* <<a div b, a mod b>> for b # 0; quotient has Len(a) bytes, remainder Len(b) bytes
BDivMod(a, b) ==
    LET m  == Len(b)
        bx == <<0>> \o b
        k0 == 8 * (FirstNonZero(a, 1) - 1)           \* leading zero bytes contribute nothing
        qr == BDivR(a, bx, k0, 8 * Len(a), BZero(m + 1), BZero(Len(a)))
    IN <<qr[1], Tail(qr[2])>>

-----------------------------------------------------------------------------
(* The EVM instructions.  Operand order is the order in which the operands  *)
(* are popped: Op(mu_s[0], mu_s[1], ...).                                   *)

WAdd(a, b) == Tail(BAddC(a, b))
WSub(a, b) == BSub(a, b)
WMul(a, b) == BMul(a, b, WB)
WDiv(a, b) == IF BIsZero(b) THEN Zero ELSE BDivMod(a, b)[1]
WMod(a, b) == IF BIsZero(b) THEN Zero ELSE BDivMod(a, b)[2]

IsNeg(a) == a[1] >= 128
WNeg(a) == BSub(Zero, a)
WAbs(a) == IF IsNeg(a) THEN WNeg(a) ELSE a

\* truncated signed division; -2^(NBITS-1) / -1 = -2^(NBITS-1) falls out of the two's complement wrap
WSDiv(a, b) ==
    IF BIsZero(b) THEN Zero
    ELSE LET q == BDivMod(WAbs(a), WAbs(b))[1]
         IN IF IsNeg(a) # IsNeg(b) THEN WNeg(q) ELSE q
\* the result has the sign of the dividend
WSMod(a, b) ==
    IF BIsZero(b) THEN Zero
    ELSE LET r == BDivMod(WAbs(a), WAbs(b))[2]
         IN IF IsNeg(a) THEN WNeg(r) ELSE r

\* intermediate results are not truncated
WAddMod(a, b, m) == IF BIsZero(m) THEN Zero ELSE BDivMod(BAddC(a, b), m)[2]
WMulMod(a, b, m) == IF BIsZero(m) THEN Zero ELSE BDivMod(BMul(a, b, 2 * WB), m)[2]

RECURSIVE ExpR(_, _, _, _, _)
\* left-to-right square and multiply over the bits of e
ExpR(a, e, k, nb, acc) ==
    IF k = nb THEN acc
    ELSE LET bit == (e[(k \div 8) + 1] \div (2 ^ (7 - (k % 8)))) % 2
             sq  == WMul(acc, acc)
         IN ExpR(a, e, k + 1, nb, IF bit = 1 THEN WMul(sq, a) ELSE sq)
WExp(a, e) == ExpR(a, e, 8 * (FirstNonZero(e, 1) - 1), NBITS, One)

\* SIGNEXTEND(k, x): x is taken as a (k+1)-byte signed integer
WSignExtend(k, x) ==
    LET n == BCap(k, WB)
    IN IF n >= WB - 1 THEN x
       ELSE LET p    == WB - n                \* index of the sign byte
                fill == IF x[p] >= 128 THEN 255 ELSE 0
            IN TLCEval([i \in 1..WB |-> IF i < p THEN fill ELSE x[i]])

WLt(a, b) == BCmp(a, b) < 0
WGt(a, b) == BCmp(a, b) > 0
WSLt(a, b) == IF IsNeg(a) # IsNeg(b) THEN IsNeg(a) ELSE BCmp(a, b) < 0
WSGt(a, b) == IF IsNeg(a) # IsNeg(b) THEN IsNeg(b) ELSE BCmp(a, b) > 0
WEq(a, b) == a = b
WIsZero(a) == BIsZero(a)
Bool2W(p) == IF p THEN One ELSE Zero

WAnd(a, b) == TLCEval([i \in 1..WB |-> a[i] & b[i]])
WOr(a, b)  == TLCEval([i \in 1..WB |-> a[i] | b[i]])
WXor(a, b) == TLCEval([i \in 1..WB |-> a[i] ^^ b[i]])
WNot(a)    == TLCEval([i \in 1..WB |-> 255 - a[i]])

\* BYTE(i, x): the i-th byte of x counted from the most significant end, 0 when i >= WB
WByte(i, x) ==
    LET n == BCap(i, WB)
    IN IF n >= WB THEN Zero ELSE WFromNat(x[n + 1])

\* byte j of x where out-of-range indices read as `fill`
LOCAL At(x, j, fill) == IF j < 1 \/ j > WB THEN fill ELSE x[j]

\* SHL(shift, x), SHR(shift, x), SAR(shift, x)
WShl(sh, x) ==
    LET s == BCap(sh, NBITS)
    IN IF s >= NBITS THEN Zero
       ELSE LET bs == s \div 8
                bt == s % 8
            IN TLCEval([i \in 1..WB |->
                  ((At(x, i + bs, 0) * (2 ^ bt)) % 256) + (At(x, i + bs + 1, 0) \div (2 ^ (8 - bt)))])
LOCAL ShrFill(sh, x, fill) ==
    LET s == BCap(sh, NBITS)
    IN IF s >= NBITS THEN TLCEval([i \in 1..WB |-> fill])
       ELSE LET bs == s \div 8
                bt == s % 8
            IN TLCEval([i \in 1..WB |->
                  (At(x, i - bs, fill) \div (2 ^ bt)) + ((At(x, i - bs - 1, fill) * (2 ^ (8 - bt))) % 256)])
WShr(sh, x) == ShrFill(sh, x, 0)
WSar(sh, x) == ShrFill(sh, x, IF IsNeg(x) THEN 255 ELSE 0)

=============================================================================
