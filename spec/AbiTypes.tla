------------------------------ MODULE AbiTypes ------------------------------
(***************************************************************************)
(* Enumeration of ABI type trees up to a nesting depth / arity bound and   *)
(* deterministic pseudo-random values for them.  Used by the model check   *)
(* of Abi (MC_Abi), by the signature generator (AbiGen) and by the batch   *)
(* conformance run (AbiRun).                                               *)
(***************************************************************************)
EXTENDS Abi, FiniteSets

(* All type trees of depth <= d: leaves have depth 1; T[], T[k] (k \in FK)  *)
(* and tuples of arity 1..ar add one level.                                 *)
RECURSIVE SeqsUpTo(_, _)
\* all sequences of length 1..n over S
SeqsUpTo(S, n) == IF n = 0 THEN {} ELSE SeqsUpTo(S, n - 1) \cup [1..n -> S]

RECURSIVE TypesUpTo(_, _, _, _)
TypesUpTo(d, leaves, FK, ar) ==
    IF d <= 1 THEN leaves
    ELSE LET sub == TypesUpTo(d - 1, leaves, FK, ar)
         IN leaves
            \cup {DArrT(t) : t \in sub}
            \cup {FArrT(t, k) : t \in sub, k \in FK}
            \cup {TupleT(ts) : ts \in SeqsUpTo(sub, ar)}

RECURSIVE Depth(_)
RECURSIVE MaxSeq(_, _)
MaxSeq(s, i) == IF i > Len(s) THEN 0 ELSE LET r == MaxSeq(s, i + 1) IN IF s[i] > r THEN s[i] ELSE r
Depth(t) == IF IsLeaf(t) THEN 1 ELSE 1 + MaxSeq([i \in 1..Len(t.c) |-> Depth(t.c[i])], 1)

\* a structural hash (small non-negative integer) used to derive pseudo-random choices
RECURSIVE THash(_)
RECURSIVE HashSeq(_, _, _)
HashSeq(s, i, acc) ==
    IF i > Len(s) THEN acc
    ELSE LET x == s[i] % 46337
         IN HashSeq(s, i + 1, ((acc * 131) + ((x * x) % 46337) + x + 7) % 46337)
KindNo(k) == CASE k = "uint" -> 1 [] k = "int" -> 2 [] k = "address" -> 3 [] k = "bool" -> 4
               [] k = "fbytes" -> 5 [] k = "bytes" -> 6 [] k = "string" -> 7 [] k = "darr" -> 8
               [] k = "farr" -> 9 [] k = "tuple" -> 10 [] k = "S" -> 11 [] k = "D" -> 12
THash(t) == HashSeq(TLCEval(<<KindNo(t.k), t.n>> \o [i \in 1..Len(t.c) |-> THash(t.c[i])]), 1, 17)

-----------------------------------------------------------------------------
(* Abstract leaves "S" (any static elementary type) and "D" (bytes/string)  *)
(* are made concrete by a rotation that depends on a hash of the position.  *)
SLeaf == T_("S", 0, <<>>)
DLeaf == T_("D", 0, <<>>)
StaticPool == << UintT(256), UintT(8), IntT(256), AddressT, BoolT, FBytesT(32), IntT(8), FBytesT(1),
                 UintT(160), IntT(128), FBytesT(4), UintT(16), IntT(24), FBytesT(20), UintT(248), FBytesT(31) >>
DynPool == << BytesT, StringT >>

RECURSIVE Concretise(_, _)
Concretise(t, h) ==
    CASE t.k = "S" -> StaticPool[(h % Len(StaticPool)) + 1]
      [] t.k = "D" -> DynPool[(h % Len(DynPool)) + 1]
      [] OTHER -> T_(t.k, t.n, [i \in 1..Len(t.c) |-> Concretise(t.c[i], (h * 7 + i * 13 + 5) % 1000003)])

-----------------------------------------------------------------------------
(* Pseudo-random values.  rnd is a sequence of bytes (the entropy: supplied *)
(* by the harness from its seed, or a fixed pattern in the model check);    *)
(* h identifies the position.                                               *)
RByte(rnd, h, j) == rnd[((h * 131 + j * 29) % Len(rnd)) + 1]
RBytes(rnd, h, n) == TLCEval([j \in 1..n |-> RByte(rnd, h, j)])
Kid(h, i) == (h * 7 + i * 13 + 5) % 1000003

\* a value for type t with the full allocation a; bytes beyond the chosen length are zero
RECURSIVE GenV(_, _, _, _)
GenV(t, a, rnd, h) ==
    CASE t.k = "bool" -> <<RByte(rnd, h, 1) % 2>>
      [] t.k \in StaticLeafKinds -> RBytes(rnd, h, LeafBytes(t))
      [] IsBytesLike(t) -> RBytes(rnd, h, a.n) \o Zeros(a.m - a.n)
      [] OTHER -> LET ts == Elems(t, a.m) IN [i \in 1..a.m |-> GenV(ts[i], a.c[i], rnd, Kid(h, i))]

\* an allocation for t: lengths drawn from AL (arrays) and BL (bytes) by position, chosen = allocated
RECURSIVE GenShape(_, _, _, _)
GenShape(t, AL, BL, h) ==
    CASE t.k \in StaticLeafKinds -> Sh(0, 0, <<>>)
      [] IsBytesLike(t) -> LET n == BL[(h % Len(BL)) + 1] IN Sh(n, n, <<>>)
      [] OTHER -> LET n == CASE t.k = "darr" -> AL[(h % Len(AL)) + 1] [] t.k = "farr" -> t.n [] OTHER -> Len(t.c)
                      ts == Elems(t, n)
                  IN Sh(n, n, [i \in 1..n |-> GenShape(ts[i], AL, BL, Kid(h, i))])

\* shrink the chosen lengths of an allocation: mode 0 keep, 1 = n-1 (if > 0), 2 = 0, 3 = alternate by position
RECURSIVE Shrink(_, _, _, _)
Shrink(t, a, mode, h) ==
    LET n2 == CASE mode = 0 -> a.m
                [] mode = 1 -> IF a.m > 0 THEN a.m - 1 ELSE 0
                [] mode = 2 -> 0
                [] OTHER -> IF h % 2 = 0 THEN a.m ELSE a.m \div 2
    IN CASE t.k \in StaticLeafKinds -> a
         [] IsBytesLike(t) -> Sh(a.m, n2, <<>>)
         [] OTHER -> LET ts == Elems(t, a.m)
                     IN Sh(a.m, IF t.k = "darr" THEN n2 ELSE a.n,
                           [i \in 1..a.m |-> Shrink(ts[i], a.c[i], mode, Kid(h, i))])

\* the raw view of a value: static leaves as their 32-byte words (what DecodeRaw returns)
RECURSIVE RawOf(_, _)
RawOf(t, v) ==
    CASE t.k \in StaticLeafKinds -> EncLeaf(t, v)
      [] IsBytesLike(t) -> v
      [] OTHER -> LET ts == Elems(t, Len(v)) IN [i \in 1..Len(v) |-> RawOf(ts[i], v[i])]

\* bytes beyond the chosen length set to zero
RECURSIVE ZeroTail(_, _, _)
ZeroTail(t, v, a) ==
    CASE t.k \in StaticLeafKinds -> v
      [] IsBytesLike(t) -> SubSeq(v, 1, a.n) \o Zeros(Len(v) - a.n)
      [] OTHER -> LET ts == Elems(t, Len(v)) IN [i \in 1..Len(v) |-> ZeroTail(ts[i], v[i], a.c[i])]
=============================================================================
