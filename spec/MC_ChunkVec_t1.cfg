\* refinement: small x3, FULL, small
SPECIFICATION Spec
VIEW View
CONSTANTS
  NV = 2
  W = 4
  Depth = 5
  Emit = "none"
  Pick = "all"
  FullLevels = {4}
  MedLevels = {}
  TinyLevels = {}
  AliasLevels = {}
  XOffs = {}
  XLens = {}
  MaxLen = 11
  Mutant = "none"
  Prof <- ProfByLevel
INVARIANT InvFlatTypeOK
INVARIANT InvWellFormed
INVARIANT InvRefines
INVARIANT InvCopyIndependence
INVARIANT InvReadsAgree
