\* aliasing case excluded: small x3, FULL, small
SPECIFICATION Spec
VIEW View
CONSTANTS
  NV = 2
  W = 4
  Depth = 5
  Mode = "noalias"
  Emit = "none"
  Pick = "all"
  FullLevels = {4}
  MedLevels = {}
  TinyLevels = {}
  XOffs = {}
  XLens = {}
  MaxLen = 11
  Prof <- ProfByLevel
INVARIANT InvFlatTypeOK
INVARIANT InvWellFormed
INVARIANT InvRefines
INVARIANT InvCopyIndependence
INVARIANT InvReadsAgree
