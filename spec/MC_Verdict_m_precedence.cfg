\* MUTANT (code before 78a52f5: TIMEOUT tested before stuck paths) - TLC MUST find a violation of VerdictIsPrecedence
SPECIFICATION Spec
CONSTANTS
  MinPaths = 1
  MaxPaths = 2
  Outcomes = {"success", "panic", "stuck"}
  Replies = {"sat_valid", "unsat", "unknown", "garbage"}
  Replies2 = {"unsat"}
  StuckReplies = {"unsat", "unknown"}
  EarlySet = {FALSE}
  CacheSet = {FALSE}
  RefinableSet = {FALSE}
  Threads = 4
  MaxPrev = 0
  PrevCodes = {0}
  RecordHist = FALSE
  Canon = FALSE
  Coarse = FALSE
  MutPrecedence = TRUE
  MutNoCatch = FALSE
  MutKilledEscapes = FALSE
  KilledMayRaise = FALSE
INVARIANTS VerdictIsPrecedence
