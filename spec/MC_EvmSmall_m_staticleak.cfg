SPECIFICATION Spec
CONSTANTS
  WB = 1
  MEMCAP = 64
  NR = 1
  NC = 1
  NT = 0
  Mutation <- MutStaticLeak
INVARIANT InvContext
CHECK_DEADLOCK FALSE
