\* refinement: small, FULL, FULL
SPECIFICATION Spec
VIEW View
CONSTANTS
  NV = 2
  W = 4
  Depth = 3
  Emit = "none"
  Pick = "all"
  FullLevels = {2,3}
  MedLevels = {}
  TinyLevels = {}
  AliasLevels = {}
  XOffs = {}
  XLens = {}
  MaxLen = 9
  Mutant = "none"
  Prof <- ProfByLevel
INVARIANT InvFlatTypeOK
INVARIANT InvWellFormed
INVARIANT InvRefines
INVARIANT InvCopyIndependence
INVARIANT InvReadsAgree
