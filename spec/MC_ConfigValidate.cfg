\* C18: classify and parse, with the documented grammars, the strings produced by the
\* implementation (unparse output), read from the JSON file named by C18_IN.
SPECIFICATION Spec
CONSTANTS
  MaxL3 = 0
  MaxL2 = 0
  MaxLE = 0
  MaxStr = 0
  MaxTok = 0
  DoVals = FALSE
  DoScope = FALSE
  DoValidate = TRUE
  InvMax = 0
