\* two shutdown callers: random schedules, 2 jobs (use with -simulate)
SPECIFICATION SpecH
CONSTANTS
  Jobs = {j1, j2}
  HasTimeout = {j2}
  IgnoresTerm = {j2}
  PopenMayFail = {}
  PreFix = FALSE
  CoarseCancel = FALSE
  Modes = {"nowait", "wait"}
  Modes2 = {"nowait", "wait"}
  NeverExits = {j1}
  MaxPreempt = 1000
INVARIANTS Emit
