\* thorough scenario generation: <= 2 paths, reply classes, every flag, coarse interleavings
SPECIFICATION Spec
CONSTANTS
  MinPaths = 1
  MaxPaths = 2
  Outcomes = {"success", "revert", "panic", "failflag", "stuck"}
  Replies = {"sat_valid", "sat_abstract", "unsat", "unsat_shared", "unknown", "garbage"}
  Replies2 = {"sat_valid", "sat_abstract", "unsat", "unknown", "garbage"}
  StuckReplies = {"sat_valid", "unsat", "unknown", "garbage"}
  EarlySet = {TRUE, FALSE}
  CacheSet = {TRUE, FALSE}
  RefinableSet = {TRUE, FALSE}
  Threads = 4
  MaxPrev = 0
  PrevCodes = {0}
  RecordHist = TRUE
  Canon = FALSE
  Coarse = TRUE
  MutPrecedence = FALSE
  MutNoCatch = FALSE
  MutKilledEscapes = FALSE
  KilledMayRaise = TRUE
INVARIANTS TypeOK PassOnlyIfClean VerdictModuloKnown OrderIndependenceModuloKnown ExitNonZeroIffNotAllPass ValidNeverAbstract OneOutputPerQuery
