\* FAITHFUL model of bytevec.py (tiny,tiny,FULL,small): TLC must exhibit bytevec-aligned-nested-alias; run with -continue to list every violating history
SPECIFICATION Spec
VIEW View
CONSTANTS
  NV = 2
  W = 4
  Depth = 4
  Mode = "all"
  Emit = "none"
  Pick = "all"
  FullLevels = {3}
  MedLevels = {}
  TinyLevels = {1,2}
  XOffs = {}
  XLens = {}
  MaxLen = 9
  Prof <- ProfByLevel
INVARIANT InvFlatTypeOK
INVARIANT InvWellFormed
INVARIANT InvRefines
INVARIANT InvCopyIndependence
INVARIANT InvReadsAgree
