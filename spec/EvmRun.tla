------------------------------- MODULE EvmRun -------------------------------
(***************************************************************************)
(* Batch execution of the reference machine: every element of the JSON     *)
(* file named by the environment variable CASES is one world plus a        *)
(* sequence of messages (e.g. deployment, setUp(), test(args)) = one       *)
(* initial state; Next is the deterministic Step, and when a message ends  *)
(* the next one starts from the world it left (transient storage cleared). *)
(* The terminal state of each behaviour is printed as one JSON record.     *)
(* All machine invariants of Evm are checked in every state on the way.    *)
(***************************************************************************)
EXTENDS Evm, Json, IOUtils, SequencesExt

CONSTANT MaxSteps

Cases == JsonDeserialize(IOEnv.CASES)
\* cheatcode descriptors (see Cheats.tla), shared by all cases
CheatTable == JsonDeserialize(IOEnv.CHEATS)

VARIABLES cid,     \* index of the case
          m,       \* machine state of the message being executed
          steps,   \* instructions executed so far in this case
          ti,      \* index of the current message in Cases[cid].txs
          w0,      \* world at the start of the current message
          hist     \* outcomes of the finished messages: <<[ok, kind]>>
vars == <<cid, m, steps, ti, w0, hist>>

SeqToMap(s, K(_), V(_)) ==
    [k \in {K(s[i]) : i \in 1..Len(s)} |-> V(s[CHOOSE i \in 1..Len(s) : K(s[i]) = k])]

KA(e) == e.a
KAK(e) == <<e.a, e.k>>
VC(e) == e.c
VV(e) == e.v

World0(c) == [code |-> SeqToMap(c.code, KA, VC),
              storage |-> SeqToMap(c.storage, KAK, VV),
              tstorage |-> EmptyMap,
              balance |-> SeqToMap(c.balance, KA, VV)]
Env0(c) == [coinbase |-> c.env.coinbase, timestamp |-> c.env.timestamp, number |-> c.env.number,
            prevrandao |-> c.env.prevrandao, gaslimit |-> c.env.gaslimit, chainid |-> c.env.chainid,
            basefee |-> c.env.basefee, createBase |-> c.env.createBase,
            opaque |-> {c.env.opaque[i] : i \in 1..Len(c.env.opaque)},
            cheatAddrs |-> {c.env.cheatAddrs[i] : i \in 1..Len(c.env.cheatAddrs)},
            cheats |-> CheatTable, oracle |-> c.env.oracle, assertMode |-> c.env.assertMode,
            symstore |-> {c.env.symstore[i] : i \in 1..Len(c.env.symstore)}, symmask |-> c.env.symmask]

MapToSeq(f, R(_, _)) == LET ks == SetToSeq(DOMAIN f) IN [i \in 1..Len(ks) |-> R(ks[i], f[ks[i]])]
RS(k, v) == [a |-> k[1], k |-> k[2], v |-> v]
RB(k, v) == [a |-> k, v |-> v]
RC(k, v) == [a |-> k, c |-> v]

Out(c, mm, n, h) ==
    [id |-> Cases[c].id, status |-> mm.status, ok |-> mm.result.ok, kind |-> mm.result.kind,
     data |-> mm.result.data, logs |-> mm.logs, steps |-> n, pre |-> h, failed |-> mm.failed,
     block |-> [timestamp |-> mm.env.timestamp, number |-> mm.env.number, basefee |-> mm.env.basefee,
                chainid |-> mm.env.chainid, coinbase |-> mm.env.coinbase, prevrandao |-> mm.env.prevrandao],
     storage |-> MapToSeq(mm.world.storage, RS), balance |-> MapToSeq(mm.world.balance, RB),
     code |-> MapToSeq(mm.world.code, RC), ncreated |-> mm.ncreated]

Init == /\ cid \in 1..Len(Cases)
        /\ m = InitMachine(World0(Cases[cid]), Env0(Cases[cid]), Cases[cid].txs[1])
        /\ steps = 0
        /\ ti = 1
        /\ w0 = World0(Cases[cid])
        /\ hist = <<>>

IsLast == ti = Len(Cases[cid].txs)

StepTx == /\ m.status = "run"
          /\ steps < MaxSteps
          /\ m' = Step(m)
          /\ steps' = steps + 1
          /\ UNCHANGED <<cid, ti, w0, hist>>
          /\ ((m'.status # "run" /\ IsLast) => PrintT("JREC" \o ToJson(Out(cid, m', steps', hist))))

\* the next message of the sequence starts from the world the previous one left
NextTx == /\ m.status = "done"
          /\ ~IsLast
          /\ ti' = ti + 1
          /\ LET tx == Cases[cid].txs[ti + 1]
                 \* a message may come with its own block timestamp ("ts"); otherwise time stands still
                 env == IF "ts" \in DOMAIN tx THEN [m.env EXCEPT !.timestamp = tx.ts] ELSE m.env
             IN m' = [InitMachine(m.world, env, tx) EXCEPT !.ncreated = m.ncreated]
          /\ w0' = m.world
          /\ hist' = Append(hist, [ok |-> m.result.ok, kind |-> m.result.kind])
          /\ UNCHANGED <<cid, steps>>

\* a message the specification does not model ends the case
Abandon == /\ m.status \in {"unmodelled", "discard"}
           /\ ~IsLast
           /\ ti' = Len(Cases[cid].txs)
           /\ PrintT("JREC" \o ToJson(Out(cid, m, steps, hist)))
           /\ UNCHANGED <<cid, m, steps, w0, hist>>

Next == StepTx \/ NextTx \/ Abandon

Spec == Init /\ [][Next]_vars

InvStack == StackBound(m)
InvMem == MemAligned(m)
InvDepth == DepthConsistent(m)
InvWords == WordsWellFormed(m)
InvStatic == StaticNoWrite(m)
InvContext == ContextCorrect(m)
InvBalance == BalanceConserved(m, TotalBalance(w0))
InvFailure == FailureRestores(m, w0)
\* every message starts with empty transient storage (EIP-1153)
TransientFresh == [][(ti' # ti /\ m'.status = "run") => m'.world.tstorage = EmptyMap]_vars
=============================================================================
