------------------------------- MODULE EvmRun -------------------------------
(***************************************************************************)
(* Batch execution of the reference machine: every element of the JSON     *)
(* file named by the environment variable CASES is one (world, message)    *)
(* pair = one initial state; Next is the deterministic Step; the terminal  *)
(* state of each behaviour is printed as one JSON record.  All machine     *)
(* invariants of Evm are checked in every state on the way.                *)
(***************************************************************************)
EXTENDS Evm, Json, IOUtils, SequencesExt

CONSTANT MaxSteps

Cases == JsonDeserialize(IOEnv.CASES)

VARIABLES cid, m, steps
vars == <<cid, m, steps>>

SeqToMap(s, K(_), V(_)) ==
    [k \in {K(s[i]) : i \in 1..Len(s)} |-> V(s[CHOOSE i \in 1..Len(s) : K(s[i]) = k])]

KA(e) == e.a
KAK(e) == <<e.a, e.k>>
VC(e) == e.c
VV(e) == e.v

World0(c) == [code |-> SeqToMap(c.code, KA, VC),
              storage |-> SeqToMap(c.storage, KAK, VV),
              tstorage |-> EmptyMap,
              balance |-> SeqToMap(c.balance, KA, VV)]
Env0(c) == [coinbase |-> c.env.coinbase, timestamp |-> c.env.timestamp, number |-> c.env.number,
            prevrandao |-> c.env.prevrandao, gaslimit |-> c.env.gaslimit, chainid |-> c.env.chainid,
            basefee |-> c.env.basefee, createBase |-> c.env.createBase,
            opaque |-> {c.env.opaque[i] : i \in 1..Len(c.env.opaque)}]

MapToSeq(f, R(_, _)) == LET ks == SetToSeq(DOMAIN f) IN [i \in 1..Len(ks) |-> R(ks[i], f[ks[i]])]
RS(k, v) == [a |-> k[1], k |-> k[2], v |-> v]
RB(k, v) == [a |-> k, v |-> v]
RC(k, v) == [a |-> k, c |-> v]

Out(c, mm, n) ==
    [id |-> Cases[c].id, status |-> mm.status, ok |-> mm.result.ok, kind |-> mm.result.kind,
     data |-> mm.result.data, logs |-> mm.logs, steps |-> n,
     storage |-> MapToSeq(mm.world.storage, RS), balance |-> MapToSeq(mm.world.balance, RB),
     code |-> MapToSeq(mm.world.code, RC), ncreated |-> mm.ncreated]

Init == /\ cid \in 1..Len(Cases)
        /\ m = InitMachine(World0(Cases[cid]), Env0(Cases[cid]), Cases[cid].tx)
        /\ steps = 0

Next == /\ m.status = "run"
        /\ steps < MaxSteps
        /\ m' = Step(m)
        /\ steps' = steps + 1
        /\ cid' = cid
        /\ (m'.status # "run" => PrintT("JREC" \o ToJson(Out(cid, m', steps'))))

Spec == Init /\ [][Next]_vars

InvStack == StackBound(m)
InvMem == MemAligned(m)
InvDepth == DepthConsistent(m)
InvWords == WordsWellFormed(m)
InvStatic == StaticNoWrite(m)
InvContext == ContextCorrect(m)
InvBalance == BalanceConserved(m, TotalBalance(World0(Cases[cid])))
InvFailure == FailureRestores(m, World0(Cases[cid]))
=============================================================================
