SPECIFICATION Spec
CONSTANTS
  WB = 1
  Grid <- G1T
  Grid3 <- G1T
  MaxExp = 64
INVARIANT BinOK
INVARIANT UnaOK
INVARIANT TerOK
