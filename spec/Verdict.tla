------------------------------ MODULE Verdict ------------------------------
(***************************************************************************)
(* Property C05: verdict aggregation of one halmos test (`run_test`) and   *)
(* the process exit code (`_main`).                                        *)
(*                                                                         *)
(* WHAT HAPPENS is modelled as actions, one per code site:                 *)
(*   LoopCheck      run_test loop head: `if executor.is_shutdown(): break` *)
(*   ClassifyPlain  success / revert path (normal += 1 for success)        *)
(*   Submit         handle_assertion_violation: thread_pool.submit         *)
(*   StuckSubmit    solve_low_level of a stuck path: executor.submit       *)
(*                  (main thread; ShutdownError / OSError are NOT caught   *)
(*                  in run_test: they escape to run_tests -> EXCEPTION)    *)
(*   StuckFinish    the confirmation query returns (kept unless unsat)     *)
(*   WorkerBegin    solve_end_to_end in a pool thread: check_unsat_cores,  *)
(*                  then executor.submit (ShutdownError -> err)            *)
(*   SolverFinish   the solver process of the first query ends             *)
(*   ReSolve        refine + solve_low_level(refined) (abstract model,     *)
(*                  query mentions an f_evm_ abstraction)                  *)
(*   SolverFinish2  the solver process of the refined query ends           *)
(*   Callback       _solve_end_to_end_callback: is_shutdown -> err;        *)
(*                  solver_outputs.append; append_unsat_core               *)
(*   EarlyExit      executor.shutdown(wait=False) after a VALID model      *)
(*   Join           thread_pool.shutdown(wait=True)                        *)
(*   Aggregate      the Counter / precedence table of run_test             *)
(*   Raised         `except Exception` in run_tests -> EXCEPTION (5)       *)
(*   ExitCode       the counting loop and exit code of _main               *)
(*                                                                         *)
(* WHAT IS REQUIRED is stated from the property text as a function of the  *)
(* assignment only (`Required`), and as invariants.                        *)
(*                                                                         *)
(* The assignment (paths with outcomes, scripted solver replies, flags) is *)
(* chosen by the Setup actions, so one TLC run covers all assignments.     *)
(*                                                                         *)
(* History: until /repo a19e257 and 78a52f5 the code deviated from the     *)
(* property in two ways, kept here as MUTANTS of the model that TLC must   *)
(* refute (MC_Verdict_m_*.cfg, expected violations):                       *)
(*  MutPrecedence  `unknown` tested before `stuck` in the table:           *)
(*      panic(unknown), stuck(unknown) -> TIMEOUT(2), required ERROR       *)
(*  MutNoCatch     the ShutdownError of the synchronous confirmation query *)
(*      of a stuck path escapes run_test: panic(sat_valid), stuck with     *)
(*      --early-exit gives FAIL or EXCEPTION(5) depending on the order     *)
(*  MutKilledEscapes (before e7511fd) a confirmation query IN FLIGHT when   *)
(*      the early-exit shutdown cancels it may end with an OSError (EBADF)  *)
(*      out of future.result(); only ShutdownError was caught, so it       *)
(*      escaped run_test: EXCEPTION(5) instead of FAIL                     *)
(* On the faithful model (all FALSE) VerdictIsPrecedence,                  *)
(* OrderIndependence and NoLostCounterexampleStrict hold, also with        *)
(* KilledMayRaise = TRUE (whether the cancelled query yields an err output *)
(* or an exception is not forced by the harness; both end in FAIL).        *)
(* UNCONSTRAINED: a spawn failure (Popen raising) is not among the         *)
(* property's solver replies: it is modelled for potential-violation       *)
(* queries (-> err), never scripted for confirmation queries, and any      *)
(* non-PASS verdict is acceptable for such an assignment.  "No path        *)
(* succeeded" has no label in the property: with a timeout as the only     *)
(* other defect ERROR and TIMEOUT are both acceptable.                     *)
(***************************************************************************)
EXTENDS Integers, Sequences, FiniteSets, TLC, Json

CONSTANTS
    MinPaths, MaxPaths,
    Outcomes,        \* subset of {"success","revert","panic","failflag","stuck"}
    Replies,         \* replies to a potential-violation query
    Replies2,        \* replies to its refined query (after an abstract model)
    StuckReplies,    \* replies to the synchronous confirmation query of a stuck path
    EarlySet,        \* subset of BOOLEAN: --early-exit
    CacheSet,        \* subset of BOOLEAN: --cache-solver
    RefinableSet,    \* subset of BOOLEAN: do the queries mention an f_evm_ abstraction (refine changes them)?
    Threads,         \* --solver-threads
    MaxPrev,         \* number of tests run earlier in the same process (exit-code aggregation)
    PrevCodes,       \* their possible results: exit codes 0..5, or 9 (selected, but no result: setUp failed)
    RecordHist,      \* TRUE: keep the event history and print one JSON record per behaviour
    Canon,           \* TRUE: only the sequential schedule (each query runs to completion when submitted)
    Coarse,          \* TRUE: a pool thread runs from the end of its solver process to the end of its callback
                     \*       without interleaving (fewer schedules for scenario generation)
    MutPrecedence,   \* mutant (code before 78a52f5): TIMEOUT tested before stuck paths
    MutNoCatch,      \* mutant (code before a19e257): ShutdownError of the confirmation query escapes run_test
    MutKilledEscapes,\* mutant (code before e7511fd): the OSError of a confirmation query cancelled in flight escapes
    KilledMayRaise   \* a confirmation query cancelled in flight by the early-exit shutdown ends either with an err
                     \* output (path kept) or with an OSError (loop left); which one is not forced by the harness

ViolKinds  == {"panic", "failflag"}
SatKinds   == {"sat_valid", "sat_abstract"}
\* "unsat_nocore": the solver answers unsat and replies to (get-unsat-core) with the empty list `()`
UnsatKinds == {"unsat", "unsat_rc1", "unsat_shared", "unsat_nocore"}
ToKinds    == {"unknown", "timeout"}
ErrKinds   == {"garbage", "empty", "nonzero", "crash", "spawnfail"}
AllKinds   == SatKinds \cup UnsatKinds \cup ToKinds \cup ErrKinds

ASSUME /\ Replies \subseteq AllKinds /\ Replies2 \subseteq AllKinds \ {"unsat_shared"}
       /\ StuckReplies \subseteq AllKinds \ {"unsat_shared", "spawnfail"}
       /\ Outcomes \subseteq {"success", "revert", "stuck"} \cup ViolKinds
       /\ MinPaths \in 1..MaxPaths /\ Threads \in Nat \ {0}

VARIABLES
    arms,        \* the assignment: sequence of [o, r, r2] in exploration order (path id = index - 1)
    fl,          \* [early, cache, refinable]
    prev,        \* results of the earlier tests of the process
    mpc, i,      \* main thread: program counter and current path
    qs,          \* per path: [st, res] of its potential-violation query
    shutdown,    \* PopenExecutor._shutdown
    sharedcore,  \* an unsat core that is contained in every query has been recorded
    outputs,     \* FunctionContext.solver_outputs: [p, r, v]
    normal, stuck, raised,
    code,        \* TestResult.exitcode (-1: not yet)
    pexit,       \* process exit code (-1: not yet)
    hist,        \* history (only if RecordHist)
    lock         \* Coarse: the query whose pool thread must continue (0: none)

vars == <<arms, fl, prev, mpc, i, qs, shutdown, sharedcore, outputs, normal, stuck, raised, code, pexit, hist, lock>>

N == Len(arms)

Res(r, v, c) == [r |-> r, v |-> v, c |-> c]
NoRes  == Res("none", FALSE, FALSE)
ErrRes == Res("err", FALSE, FALSE)

\* SolverOutput.from_result / solve_low_level / PopenFuture: first line of stdout decides; the return code
\* is ignored; a model is valid iff the text has no f_evm_; subprocess timeout -> unknown; exception -> err
ReplyRes(k) ==
    CASE k = "sat_valid"              -> Res("sat", TRUE, FALSE)
      [] k = "sat_abstract"           -> Res("sat", FALSE, FALSE)
      \* an empty core is never recorded (`if solver_output.unsat_core:`): it names no constraint of its own query
      [] k \in {"unsat", "unsat_rc1", "unsat_nocore"} -> Res("unsat", FALSE, FALSE)
      [] k = "unsat_shared"           -> Res("unsat", FALSE, TRUE)
      [] k \in ToKinds                -> Res("unknown", FALSE, FALSE)
      [] OTHER                        -> ErrRes

---------------------------------------------------------------------------
(* Setup: choose the assignment *)

QueryArms ==
    {[o |-> k, r |-> r, r2 |-> "none"] : k \in Outcomes \cap ViolKinds, r \in Replies \ {"sat_abstract"}}
    \cup {[o |-> k, r |-> "sat_abstract", r2 |-> r2] :
            k \in Outcomes \cap ViolKinds,
            r2 \in IF "sat_abstract" \in Replies THEN (IF fl.refinable THEN Replies2 ELSE {"none"}) ELSE {}}
ArmSet ==
    {[o |-> k, r |-> "none", r2 |-> "none"] : k \in Outcomes \cap {"success", "revert"}}
    \cup QueryArms
    \cup {[o |-> "stuck", r |-> r, r2 |-> "none"] : r \in IF "stuck" \in Outcomes THEN StuckReplies ELSE {}}

\* the scripted solver is consistent with the cores it hands out: a core contained in every query of the
\* test is only returned if every query of the test is unsatisfiable (and --cache-solver asks for cores)
Honest(as) ==
    (\E j \in 1..Len(as) : as[j].r = "unsat_shared") =>
        /\ fl.cache
        /\ \A j \in 1..Len(as) : as[j].o \in ViolKinds => as[j].r \in UnsatKinds

PrevSeqs == UNION {[1..k -> PrevCodes] : k \in 0..MaxPrev}

Init ==
    /\ arms = <<>>
    /\ fl \in [early : EarlySet, cache : CacheSet, refinable : RefinableSet]
    /\ prev \in PrevSeqs
    /\ mpc = "setup" /\ i = 1 /\ qs = <<>>
    /\ shutdown = FALSE /\ sharedcore = FALSE /\ outputs = <<>>
    /\ normal = 0 /\ stuck = {} /\ raised = FALSE /\ code = -1 /\ pexit = -1
    /\ hist = <<>> /\ lock = 0

Log(e) == hist' = IF RecordHist THEN Append(hist, e) ELSE hist
Ev(e, p, x) == [e |-> e, p |-> p - 1, x |-> x]     \* p - 1: halmos path ids start at 0

AddArm ==
    /\ lock = 0
    /\ mpc = "setup" /\ N < MaxPaths
    /\ \E a \in ArmSet : arms' = Append(arms, a)
    /\ UNCHANGED <<fl, prev, mpc, i, qs, shutdown, sharedcore, outputs, normal, stuck, raised, code, pexit, hist, lock>>

Start ==
    /\ lock = 0
    /\ mpc = "setup" /\ N >= MinPaths /\ Honest(arms)
    /\ mpc' = "loop"
    /\ qs' = [j \in 1..N |-> [st |-> "idle", res |-> NoRes]]
    /\ UNCHANGED <<arms, fl, prev, i, shutdown, sharedcore, outputs, normal, stuck, raised, code, pexit, hist, lock>>

---------------------------------------------------------------------------
(* Main thread *)

WorkerActive == \E q \in 1..N : qs[q].st \notin {"idle", "done"}
MainOK == (~Canon \/ ~WorkerActive) /\ lock = 0

LoopCheck ==
    /\ mpc = "loop" /\ MainOK
    /\ IF i > N THEN mpc' = "join" /\ hist' = hist
       ELSE IF shutdown THEN mpc' = "join" /\ Log(Ev("E", i, "break"))
       ELSE mpc' = "classify" /\ Log(Ev("E", i, "go"))
    /\ UNCHANGED <<arms, fl, prev, i, qs, shutdown, sharedcore, outputs, normal, stuck, raised, code, pexit, lock>>

ClassifyPlain ==
    /\ lock = 0
    /\ mpc = "classify" /\ arms[i].o \in {"success", "revert"}
    /\ normal' = IF arms[i].o = "success" THEN normal + 1 ELSE normal
    /\ i' = i + 1 /\ mpc' = "loop"
    /\ UNCHANGED <<arms, fl, prev, qs, shutdown, sharedcore, outputs, stuck, raised, code, pexit, hist, lock>>

Submit ==
    /\ lock = 0
    /\ mpc = "classify" /\ arms[i].o \in ViolKinds
    /\ qs' = [qs EXCEPT ![i].st = "queued"]
    /\ i' = i + 1 /\ mpc' = "loop"
    /\ Log(Ev("S", i, "queued"))
    /\ UNCHANGED <<arms, fl, prev, shutdown, sharedcore, outputs, normal, stuck, raised, code, pexit, lock>>

StuckSubmit ==
    /\ lock = 0
    /\ mpc = "classify" /\ arms[i].o = "stuck"
    /\ IF shutdown THEN
            \* executor.submit raises ShutdownError: `except ShutdownError: break` (since a19e257)
            IF MutNoCatch THEN /\ mpc' = "raised" /\ raised' = TRUE /\ Log(Ev("K", i, "shutdown"))
            ELSE /\ mpc' = "join" /\ raised' = raised /\ Log(Ev("K", i, "shutdown"))
       ELSE IF arms[i].r = "spawnfail" THEN /\ mpc' = "raised" /\ raised' = TRUE /\ Log(Ev("K", i, "spawnfail"))
       ELSE /\ mpc' = "stuckwait" /\ raised' = raised /\ Log(Ev("K", i, "run"))
    /\ UNCHANGED <<arms, fl, prev, i, qs, shutdown, sharedcore, outputs, normal, stuck, code, pexit, lock>>

\* the confirmation query returns.  A process killed by shutdown(wait=False) surfaces as an `err` output
\* (path kept) or as an OSError out of future.result() (escapes run_test): both are possible
StuckFinish ==
    /\ mpc = "stuckwait" /\ MainOK
    /\ \/ /\ ~shutdown
          /\ stuck' = IF ReplyRes(arms[i].r).r = "unsat" THEN stuck ELSE stuck \cup {i}
          /\ i' = i + 1 /\ mpc' = "loop" /\ raised' = raised
          /\ Log(Ev("SF", i, arms[i].r))
       \/ /\ shutdown
          /\ stuck' = stuck \cup {i}
          /\ i' = i + 1 /\ mpc' = "loop" /\ raised' = raised
          /\ Log(Ev("SF", i, "killed"))
       \/ /\ shutdown /\ KilledMayRaise
          \* the OSError of the cancelled query: `except Exception: if not executor.is_shutdown(): raise; break`
          \* (since e7511fd); before, only ShutdownError was caught and the OSError escaped run_test
          /\ stuck' = stuck /\ i' = i
          /\ IF MutKilledEscapes THEN mpc' = "raised" /\ raised' = TRUE ELSE mpc' = "join" /\ raised' = raised
          /\ Log(Ev("SF", i, "killed-raise"))
    /\ UNCHANGED <<arms, fl, prev, qs, shutdown, sharedcore, outputs, normal, code, pexit, lock>>

Join ==
    /\ lock = 0
    /\ mpc = "join"
    /\ \A q \in 1..N : qs[q].st \in {"idle", "done"}
    /\ mpc' = "aggregate"
    /\ UNCHANGED <<arms, fl, prev, i, qs, shutdown, sharedcore, outputs, normal, stuck, raised, code, pexit, hist, lock>>

Count(r) == Cardinality({k \in 1..Len(outputs) : outputs[k].r = r})

\* the table of run_test
CodeOf(nsat, nerr, nunk, nstuck, nnormal) ==
    IF nsat > 0 THEN 1
    ELSE IF nerr > 0 THEN 5
    ELSE IF MutPrecedence /\ nunk > 0 THEN 2
    ELSE IF nstuck > 0 THEN 3
    ELSE IF nunk > 0 THEN 2
    ELSE IF nnormal = 0 THEN 4
    ELSE 0

Aggregate ==
    /\ lock = 0
    /\ mpc = "aggregate"
    /\ code' = CodeOf(Count("sat"), Count("err"), Count("unknown"), Cardinality(stuck), normal)
    /\ mpc' = "exit"
    /\ UNCHANGED <<arms, fl, prev, i, qs, shutdown, sharedcore, outputs, normal, stuck, raised, pexit, hist, lock>>

\* run_tests: `except Exception` -> TestResult(funsig, EXCEPTION); the pool threads keep running
Raised ==
    /\ lock = 0
    /\ mpc = "raised"
    /\ code' = 5 /\ mpc' = "exit"
    /\ UNCHANGED <<arms, fl, prev, i, qs, shutdown, sharedcore, outputs, normal, stuck, raised, pexit, hist, lock>>

---------------------------------------------------------------------------
(* Pool threads *)

Busy == {q \in 1..N : qs[q].st \in {"run1", "refine", "run2", "cb", "exiting"}}
Queued == {q \in 1..N : qs[q].st = "queued"}
\* the work queue of the ThreadPoolExecutor is FIFO: the free threads take the oldest queued items
MayBegin(q) == Cardinality({p \in Queued : p < q}) < Threads - Cardinality(Busy)

Alive == mpc \notin {"setup", "done"}
Free(q) == lock \in {0, q}

SetQ(q, st, res) ==
    /\ qs' = [qs EXCEPT ![q] = [st |-> st, res |-> res]]
    /\ lock' = IF Coarse /\ st \in {"refine", "run2", "cb", "exiting"} THEN q ELSE 0

WorkerBegin(q) ==
    /\ Alive /\ Free(q) /\ qs[q].st = "queued" /\ MayBegin(q)
    /\ IF fl.cache /\ sharedcore THEN SetQ(q, "cb", Res("unsat", FALSE, FALSE)) /\ Log(Ev("B", q, "cachehit"))
       ELSE IF shutdown THEN SetQ(q, "cb", ErrRes) /\ Log(Ev("B", q, "shutdown"))
       ELSE IF arms[q].r = "spawnfail" THEN SetQ(q, "cb", ErrRes) /\ Log(Ev("B", q, "spawnfail"))
       ELSE SetQ(q, "run1", NoRes) /\ Log(Ev("B", q, "run"))
    /\ UNCHANGED <<arms, fl, prev, mpc, i, shutdown, sharedcore, outputs, normal, stuck, raised, code, pexit>>

SolverFinish(q) ==
    /\ Alive /\ Free(q) /\ qs[q].st = "run1"
    /\ LET r == IF shutdown THEN ErrRes ELSE ReplyRes(arms[q].r) IN
        /\ IF r.r = "sat" /\ ~r.v /\ fl.refinable THEN SetQ(q, "refine", r) ELSE SetQ(q, "cb", r)
        /\ Log(Ev("F", q, IF shutdown THEN "killed" ELSE arms[q].r))
    /\ UNCHANGED <<arms, fl, prev, mpc, i, shutdown, sharedcore, outputs, normal, stuck, raised, code, pexit>>

ReSolve(q) ==
    /\ Alive /\ Free(q) /\ qs[q].st = "refine"
    /\ IF shutdown THEN SetQ(q, "cb", ErrRes) /\ Log(Ev("R", q, "shutdown"))
       ELSE IF arms[q].r2 = "spawnfail" THEN SetQ(q, "cb", ErrRes) /\ Log(Ev("R", q, "spawnfail"))
       ELSE SetQ(q, "run2", NoRes) /\ Log(Ev("R", q, "run"))
    /\ UNCHANGED <<arms, fl, prev, mpc, i, shutdown, sharedcore, outputs, normal, stuck, raised, code, pexit>>

SolverFinish2(q) ==
    /\ Alive /\ Free(q) /\ qs[q].st = "run2"
    /\ SetQ(q, "cb", IF shutdown THEN ErrRes ELSE ReplyRes(arms[q].r2))
    /\ Log(Ev("F2", q, IF shutdown THEN "killed" ELSE arms[q].r2))
    /\ UNCHANGED <<arms, fl, prev, mpc, i, shutdown, sharedcore, outputs, normal, stuck, raised, code, pexit>>

SortedInsert(s, o) ==
    LET k == Cardinality({x \in 1..Len(s) : s[x].p < o.p}) IN
    SubSeq(s, 1, k) \o <<o>> \o SubSeq(s, k + 1, Len(s))

Callback(q) ==
    /\ Alive /\ Free(q) /\ qs[q].st = "cb"
    /\ LET o == IF shutdown THEN ErrRes ELSE qs[q].res
           rec == [p |-> q - 1, r |-> o.r, v |-> o.v] IN
        /\ outputs' = IF RecordHist THEN Append(outputs, rec) ELSE SortedInsert(outputs, rec)
        /\ sharedcore' = (sharedcore \/ (fl.cache /\ o.r = "unsat" /\ o.c))
        /\ SetQ(q, IF o.r = "sat" /\ o.v /\ fl.early THEN "exiting" ELSE "done", o)
        /\ Log(Ev("C", q, o.r))
    /\ UNCHANGED <<arms, fl, prev, mpc, i, shutdown, normal, stuck, raised, code, pexit>>

EarlyExit(q) ==
    /\ Alive /\ Free(q) /\ qs[q].st = "exiting"
    /\ shutdown' = TRUE
    /\ SetQ(q, "done", qs[q].res)
    /\ Log(Ev("X", q, "shutdown"))
    /\ UNCHANGED <<arms, fl, prev, mpc, i, sharedcore, outputs, normal, stuck, raised, code, pexit>>

---------------------------------------------------------------------------
(* REQUIRED verdict, from the property text: a function of the assignment only *)

Class2(k) == IF k \in SatKinds THEN "sat" ELSE IF k \in UnsatKinds THEN "unsat"
             ELSE IF k \in ToKinds THEN "to" ELSE "fail"
\* how the query of a potential-violation path was finally answered
QClass(a) ==
    IF a.r = "sat_valid" THEN "sat"
    ELSE IF a.r = "sat_abstract" THEN (IF a.r2 = "none" THEN "sat" ELSE Class2(a.r2))
    ELSE Class2(a.r)

QPaths(as)    == {j \in 1..Len(as) : as[j].o \in ViolKinds}
StuckKept(as) == {j \in 1..Len(as) : as[j].o = "stuck" /\ as[j].r \notin UnsatKinds}
Succ(as)      == {j \in 1..Len(as) : as[j].o = "success"}

Required(as) ==
    IF \E j \in QPaths(as) : QClass(as[j]) = "sat" THEN "FAIL"
    ELSE IF \/ \E j \in QPaths(as) : QClass(as[j]) = "fail"
            \/ StuckKept(as) # {}
            \/ Succ(as) = {} THEN "ERROR"
    ELSE IF \E j \in QPaths(as) : QClass(as[j]) = "to" THEN "TIMEOUT"
    ELSE "PASS"

\* "no path succeeded" is not given a label by the property text: when it is the only reason for ERROR and
\* some query timed out, TIMEOUT is accepted as well
Acceptable(as) ==
    (IF \E j \in 1..Len(as) : as[j].o = "stuck" /\ as[j].r = "spawnfail" THEN {"FAIL", "ERROR", "TIMEOUT"} ELSE {}) \cup
    {Required(as)} \cup
    (IF /\ Required(as) = "ERROR" /\ StuckKept(as) = {}
        /\ ~\E j \in QPaths(as) : QClass(as[j]) = "fail"
        /\ \E j \in QPaths(as) : QClass(as[j]) = "to" THEN {"TIMEOUT"} ELSE {})

ClassOf(c) == CASE c = 0 -> "PASS" [] c = 1 -> "FAIL" [] c = 2 -> "TIMEOUT" [] c \in {3, 4, 5} -> "ERROR"

---------------------------------------------------------------------------
(* The sequential reference run (every query answered synchronously when it is submitted), as a function
   of the assignment: OrderIndependence compares every terminal state with it *)

SeqQuery(a, shared) ==
    IF fl.cache /\ shared THEN Res("unsat", FALSE, FALSE)
    ELSE IF a.r = "spawnfail" THEN ErrRes
    ELSE LET r1 == ReplyRes(a.r) IN
         IF r1.r = "sat" /\ ~r1.v /\ fl.refinable
         THEN (IF a.r2 = "spawnfail" THEN ErrRes ELSE ReplyRes(a.r2))
         ELSE r1

RECURSIVE SeqRun(_, _)
SeqRun(j, a) ==
    IF j > N \/ a.shut \/ a.raised THEN a
    ELSE LET arm == arms[j] IN
        CASE arm.o = "success" -> SeqRun(j + 1, [a EXCEPT !.normal = @ + 1])
          [] arm.o = "revert"  -> SeqRun(j + 1, a)
          [] arm.o = "stuck"   ->
                IF arm.r = "spawnfail" THEN [a EXCEPT !.raised = TRUE]
                ELSE SeqRun(j + 1, [a EXCEPT !.nstuck = @ + (IF ReplyRes(arm.r).r = "unsat" THEN 0 ELSE 1)])
          [] OTHER ->
                LET r == SeqQuery(arm, a.shared) IN
                SeqRun(j + 1, [a EXCEPT !.nsat = @ + (IF r.r = "sat" THEN 1 ELSE 0),
                                        !.nerr = @ + (IF r.r = "err" THEN 1 ELSE 0),
                                        !.nunk = @ + (IF r.r = "unknown" THEN 1 ELSE 0),
                                        !.shut = (fl.early /\ r.r = "sat" /\ r.v),
                                        !.shared = (@ \/ (fl.cache /\ r.r = "unsat" /\ r.c))])

SeqCode ==
    LET a == SeqRun(1, [nsat |-> 0, nerr |-> 0, nunk |-> 0, nstuck |-> 0, normal |-> 0,
                        shut |-> FALSE, shared |-> FALSE, raised |-> FALSE]) IN
    IF a.raised THEN 5 ELSE CodeOf(a.nsat, a.nerr, a.nunk, a.nstuck, a.normal)

---------------------------------------------------------------------------
(* Process exit code: the loop of _main *)

NumFound  == Len(prev) + 1
NumPassed == Cardinality({k \in 1..Len(prev) : prev[k] = 0}) + (IF code = 0 THEN 1 ELSE 0)

EmitRecords == RecordHist    \* (Trace_Verdict overrides it: no scenario records while validating traces)

JRec(px) == [arms |-> arms, fl |-> fl, prev |-> prev, hist |-> hist, outputs |-> outputs,
             stuck |-> {j - 1 : j \in stuck}, normal |-> normal, raised |-> raised, shutdown |-> shutdown,
             code |-> code, pexit |-> px, seqcode |-> SeqCode, required |-> Required(arms),
             acceptable |-> Acceptable(arms)]

ExitCode ==
    /\ lock = 0
    /\ mpc = "exit"
    /\ pexit' = IF NumFound - NumPassed = 0 THEN 0 ELSE 1
    /\ mpc' = "done"
    /\ EmitRecords => PrintT("JREC" \o ToJson(JRec(pexit')))
    /\ UNCHANGED <<arms, fl, prev, i, qs, shutdown, sharedcore, outputs, normal, stuck, raised, code, hist, lock>>

AnyWorkerBegin   == \E q \in 1..N : WorkerBegin(q)
AnySolverFinish  == \E q \in 1..N : SolverFinish(q)
AnyReSolve       == \E q \in 1..N : ReSolve(q)
AnySolverFinish2 == \E q \in 1..N : SolverFinish2(q)
AnyCallback      == \E q \in 1..N : Callback(q)
AnyEarlyExit     == \E q \in 1..N : EarlyExit(q)

Next ==
    \/ AddArm \/ Start
    \/ LoopCheck \/ ClassifyPlain \/ Submit \/ StuckSubmit \/ StuckFinish \/ Join \/ Aggregate \/ Raised \/ ExitCode
    \/ AnyWorkerBegin \/ AnySolverFinish \/ AnyReSolve \/ AnySolverFinish2 \/ AnyCallback \/ AnyEarlyExit

Spec == Init /\ [][Next]_vars

---------------------------------------------------------------------------
(* Invariants *)

Done == mpc = "done"

TypeOK ==
    /\ mpc \in {"setup", "loop", "classify", "stuckwait", "raised", "join", "aggregate", "exit", "done"}
    /\ code \in {-1} \cup 0..5 /\ pexit \in {-1, 0, 1}
    /\ normal \in 0..MaxPaths /\ stuck \subseteq 1..N
    /\ \A k \in 1..Len(outputs) : outputs[k].r \in {"sat", "unsat", "unknown", "err"}
    /\ mpc # "setup" => \A q \in 1..N :
           qs[q].st \in {"idle", "queued", "run1", "refine", "run2", "cb", "exiting", "done"}

\* PASS only if some path succeeded, every query was answered unsat, nothing stuck, no solver failure
PassOnlyIfClean == (Done /\ code = 0) => Required(arms) = "PASS"
\* conversely a clean assignment passes (sanity: the model is not vacuously failing everything)
CleanPasses == (Done /\ Required(arms) = "PASS") => code = 0

\* the precedence FAIL > ERROR > TIMEOUT (with the two acceptable sets of the unlabelled / unconstrained cases)
VerdictIsPrecedence == Done => ClassOf(code) \in Acceptable(arms)
\* fully literal reading (violated only by: no path succeeded + a timeout -> TIMEOUT, which the text does not label)
VerdictIsPrecedenceStrict == Done => ClassOf(code) = Required(arms)

\* (no deviation is known any more: kept as names of the invariants used by the generation configs)
DevKilledRaise == FALSE
VerdictModuloKnown == Done => (ClassOf(code) \in Acceptable(arms) \/ DevKilledRaise)

\* the verdict is a function of the assignment: every schedule agrees with the sequential one
OrderIndependence == Done => ClassOf(code) = ClassOf(SeqCode)
OrderIndependenceModuloKnown == Done => (ClassOf(code) = ClassOf(SeqCode) \/ DevKilledRaise)
\* without --early-exit nothing depends on the schedule, not even the ERROR kind
OrderIndependenceNoEarly == (Done /\ ~fl.early) => code = SeqCode

\* a valid counterexample that was recorded is never lost from the verdict (violated by the race)
NoLostCounterexample ==
    (Done /\ \E k \in 1..Len(outputs) : outputs[k].r = "sat" /\ outputs[k].v) => (code = 1 \/ raised)

NoLostCounterexampleStrict ==
    (Done /\ \E k \in 1..Len(outputs) : outputs[k].r = "sat" /\ outputs[k].v) => code = 1

\* the sequential schedule (Canon = TRUE) ends with the code computed by SeqRun
CanonIsSeq == Done => code = SeqCode

ExitNonZeroIffNotAllPass ==
    Done => ((pexit # 0) <=> (code # 0 \/ \E k \in 1..Len(prev) : prev[k] # 0))

\* a model is marked valid only if the solver's (final) reply did not interpret an abstraction
ValidNeverAbstract ==
    \A k \in 1..Len(outputs) :
        (outputs[k].r = "sat" /\ outputs[k].v) =>
            LET a == arms[outputs[k].p + 1] IN
            a.r = "sat_valid" \/ (a.r = "sat_abstract" /\ fl.refinable /\ a.r2 = "sat_valid")

\* one output per submitted query, none for the others (unless run_test was left by an exception)
OneOutputPerQuery ==
    (mpc \in {"aggregate", "exit", "done"} /\ ~raised) =>
        /\ Len(outputs) = Cardinality({q \in 1..N : qs[q].st = "done"})
        /\ \A k, l \in 1..Len(outputs) : outputs[k].p = outputs[l].p => k = l
        /\ \A q \in 1..N : qs[q].st = "done" <=> (q < i /\ arms[q].o \in ViolKinds)

\* after an early exit every later callback reports err, and the exploration stops
ShutdownOnlyAfterValid ==
    shutdown => (fl.early /\ \E k \in 1..Len(outputs) : outputs[k].r = "sat" /\ outputs[k].v)

=============================================================================
