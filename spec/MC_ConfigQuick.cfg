\* C18 quick tier: stacks <= 3 layers x 3 options, <= 4 layers x {solver, solver_command},
\* <= 3 layers with "" commands; strings <= 5; values; annotation placements.
SPECIFICATION Spec
CONSTANTS
  MaxL3 = 3
  MaxL2 = 4
  MaxLE = 3
  MaxStr = 5
  MaxTok = 5
  DoVals = TRUE
  DoScope = TRUE
  DoValidate = FALSE
  InvMax = 2
INVARIANTS
  ResolveIsFunction
  ResolveAgreesWithFold
  StepIsResolve
  ResolveIsHighest
  LayeringMonotone
  RecentWinsAmongEquals
  SolverCommandPrecedence
  StrictIsTolerant
  BlankInsensitive
  RoundTrip
  ScopeLocal
