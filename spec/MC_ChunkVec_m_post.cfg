\* NEGATIVE CONTROL of the invariants: post-chunk truncation off by one - Refines must fail
SPECIFICATION Spec
VIEW View
CONSTANTS
  NV = 2
  W = 4
  Depth = 4
  Emit = "none"
  Pick = "all"
  FullLevels = {3}
  MedLevels = {}
  TinyLevels = {}
  AliasLevels = {}
  XOffs = {}
  XLens = {}
  MaxLen = 9
  Mutant = "post"
  Prof <- ProfByLevel
INVARIANT InvRefines
