\* negative control: the mutated model must violate TimeoutIsUnknown
SPECIFICATION SpecMut
CONSTANTS
  Jobs = {j1}
  HasTimeout = {j1}
  IgnoresTerm = {}
  PopenMayFail = {j1}
  PreFix = FALSE
  CoarseCancel = FALSE
  Modes = {"none", "nowait", "wait"}
  Modes2 = {"none"}
  NeverExits = {}
  Mutation = "result_ignores_exc"
INVARIANTS TimeoutIsUnknown
