----------------------------- MODULE BytecodeRun -----------------------------
(***************************************************************************)
(* Batch driver for C19 (bytecode decoding, valid jump destinations).      *)
(*                                                                         *)
(* Mode "enum": EXHAUSTIVE enumeration of every code of length <= MaxLen    *)
(* over the 8 byte values that represent every decoding class               *)
(*     STOP 00, JUMPDEST 5b, PUSH0 5f, PUSH1 60, PUSH2 61, PUSH32 7f,       *)
(*     JUMP 56, ADD 01                                                      *)
(* plus the opaque byte SYM.  A code whose SYM bytes form a suffix is a     *)
(* concrete-prefix/symbolic-suffix split: the split of the concrete string  *)
(* s at offset k is the code s[0..k) ++ SYM^(|s|-k), so the codes           *)
(* {p ++ SYM^m : |p| + m <= MaxLen} are exactly all strings x all splits.   *)
(* Codes of length <= HoleMaxLen may have SYM anywhere (symbolic PUSH data  *)
(* followed by concrete code, concrete bytes after a symbolic opcode).      *)
(*                                                                         *)
(* Mode "file": the codes (and the slices to read) come from the JSON file  *)
(* named by the environment variable BYTECODE_IN (random strings up to      *)
(* 4 KiB, assembled jump programs).  The variable must name a file in both  *)
(* modes ({"cases": []} in mode "enum").                                    *)
(*                                                                         *)
(* One state per group of codes (81 codes / one file case); its successor   *)
(* prints the expected decoding of every code of the group as one JSON      *)
(* line, and the invariants below - design-level facts about Bytecode.tla - *)
(* are checked on every code of every group.                                *)
(*                                                                         *)
(* Printed value: a set (JSON array) of tuples                              *)
(*   <<id, code, n, B, I, E, J, S, fs, U>>                                  *)
(*   id    case id (file mode), -1 (enum mode)                              *)
(*   code  the code (enum mode; <<>> in file mode), SYM = -1                *)
(*   n     Len(code)                                                        *)
(*   B     Boundaries(code), increasing                                     *)
(*   I     for the k-th boundary pc: <<pc, OpAt, NextPc, PushArg>> or       *)
(*         <<pc, SYM>> when the opcode is opaque                            *)
(*   E     OpAt at Len, Len + 1, Len + 33 (the implicit STOP)               *)
(*   J     ValidJumpdests(code), increasing                                 *)
(*   S     <<off, size, CodeSlice(code, off, size)>> for SlicePairs(code)   *)
(*   fs    the boundary whose opcode is opaque (decoding is not determined  *)
(*         beyond it), -1 if there is none                                  *)
(*   U     PossibleJ(code): the positions that are a valid destination in   *)
(*         SOME instance at most (J plus the 5b/SYM bytes from fs on)       *)
(***************************************************************************)
EXTENDS Bytecode, FiniteSets, SequencesExt, Json, IOUtils, TLC

CONSTANTS Mode,        \* "enum" | "file"
          MaxLen,      \* enum: longest code
          HoleMaxLen   \* enum: codes up to this length may have SYM anywhere, longer ones only as a suffix

In == JsonDeserialize(IOEnv.BYTECODE_IN)
Cases == In.cases

ConcAlphabet == <<0, 91, 95, 96, 97, 127, 86, 1>>
Alphabet == ConcAlphabet \o <<SYM>>
NA == Len(Alphabet)
Pow == <<1, 9, 81, 729, 6561, 59049, 531441, 4782969>>     \* Pow[k + 1] = NA^k
ASSUME NA = 9 /\ MaxLen + 1 <= Len(Pow) /\ \A k \in 1..(Len(Pow) - 1) : Pow[k + 1] = NA * Pow[k]

\* the n-th code of length L (n written with L digits in base NA, most significant first)
CodeOf(L, n) == [i \in 1..L |-> Alphabet[((n \div Pow[L - i + 1]) % NA) + 1]]

GD(L) == IF L < 2 THEN L ELSE 2                              \* digits enumerated inside one group
Groups == UNION {{<<L, h>> : h \in 0..(Pow[L - GD(L) + 1] - 1)} : L \in 0..MaxLen}

SuffixSym(c) == \A i \in 1..Len(c) : c[i] = SYM => \A j \in i..Len(c) : c[j] = SYM
Keep(c) == Len(c) <= HoleMaxLen \/ SuffixSym(c)

\* the codes of a group; <<-1, k>> is the k-th case of the input file
GroupCodes(gr) ==
    IF gr[1] < 0 THEN {Cases[gr[2]].code}
    ELSE LET L == gr[1]
             w == Pow[GD(L) + 1]
         IN {c \in {TLCEval(CodeOf(L, gr[2] * w + n)) : n \in 0..(w - 1)} : Keep(c)}

-----------------------------------------------------------------------------
(* derived notions *)

SortedSeq(S) == SetToSortSeq(S, LAMBDA a, b : a < b)

\* (the ...Of operators take the boundary set B = Boundaries(c) so that it is computed once per code)
\* boundaries whose opcode is known
ConcBOf(c, B) == {b \in B : IsConcrete(c[b + 1])}
\* the (at most one) boundary with an opaque opcode: sequential decoding stops there
SymBOf(c, B) == {b \in B : ~IsConcrete(c[b + 1])}
FirstSymOf(c, B) == LET S == SymBOf(c, B) IN IF S = {} THEN -1 ELSE CHOOSE b \in S : TRUE
\* positions below the frontier are decoded the same way in every instance of the code
FrontierOf(c, B) == LET f == FirstSymOf(c, B) IN IF f = -1 THEN Len(c) ELSE f + 1
\* ... and positions below the jump frontier are valid destinations in every instance or in none
\* (the opaque opcode itself may or may not be a JUMPDEST)
JFrontierOf(c, B) == LET f == FirstSymOf(c, B) IN IF f = -1 THEN Len(c) ELSE f
\* an upper bound of the valid destinations of any instance: beyond the jump frontier only bytes that
\* are or may be 5b qualify
PossibleJOf(c, B, J) == J \cup {p \in JFrontierOf(c, B)..(Len(c) - 1) : c[p + 1] \in {SYM, OP_JUMPDEST}}
\* positions of the immediate operand of the instruction at b (may extend beyond the end)
OperandRange(c, b) == (b + 1)..(NextPc(c, b) - 1)

RECURSIVE ConcPrefixLen(_, _)
ConcPrefixLen(c, i) == IF i < Len(c) /\ IsConcrete(c[i + 1]) THEN ConcPrefixLen(c, i + 1) ELSE i

SlicePairs(c) ==
    LET L == Len(c)
        P == ConcPrefixLen(c, 0)
    IN {<<0, L + 2>>, <<1, 2>>, <<L, 2>>, <<L + 40, 1>>, <<2, 0>>, <<0, P>>, <<0, P + 1>>}
       \cup (IF P >= 1 THEN {<<0, P - 1>>, <<P - 1, 2>>} ELSE {})
       \cup (IF L >= 1 THEN {<<L - 1, 3>>} ELSE {})

InsnRec(c, pc) ==
    IF IsConcrete(OpAt(c, pc)) THEN <<pc, OpAt(c, pc), NextPc(c, pc), PushArg(c, pc)>> ELSE <<pc, SYM>>

\* Everything derived from the operators of Bytecode.tla for one code, evaluated once per code (TLC
\* would otherwise re-run Boundaries at every mention): the record printed for the code and the
\* invariants both read it.
Facts(c) ==
    LET B == Boundaries(c)
        J == ValidJumpdests(c)
    IN [B |-> B,
        CB |-> ConcBOf(c, B),
        SB |-> SymBOf(c, B),
        J |-> J,
        FS |-> FirstSymOf(c, B),
        F |-> FrontierOf(c, B),
        JF |-> JFrontierOf(c, B),
        U |-> PossibleJOf(c, B, J)]

Rec(id, c, d, pairs, withCode) ==
    LET L == Len(c)
        bs == TLCEval(SortedSeq(d.B))
        ps == SetToSeq(pairs)
    IN <<id, IF withCode THEN c ELSE <<>>, L,
         bs,
         [k \in 1..Len(bs) |-> InsnRec(c, bs[k])],
         <<OpAt(c, L), OpAt(c, L + 1), OpAt(c, L + 33)>>,
         SortedSeq(d.J),
         [k \in 1..Len(ps) |-> <<ps[k][1], ps[k][2], CodeSlice(c, ps[k][1], ps[k][2])>>],
         d.FS,
         SortedSeq(d.U)>>

FilePairs(k) == {<<Cases[k].sl[i][1], Cases[k].sl[i][2]>> : i \in 1..Len(Cases[k].sl)}

GroupRecs(gr, fs) ==
    IF gr[1] < 0 THEN {Rec(Cases[gr[2]].id, c, fs[c], FilePairs(gr[2]), FALSE) : c \in DOMAIN fs}
    ELSE {Rec(-1, c, fs[c], SlicePairs(c), TRUE) : c \in DOMAIN fs}

-----------------------------------------------------------------------------
VARIABLES g,      \* the group: <<L, h>> (enum) or <<-1, k>> (file case k)
          done,   \* the group has been evaluated and printed
          facts   \* code -> Facts(code) for the codes of the group (once done)
vars == <<g, done, facts>>

Init == /\ done = FALSE
        /\ facts = <<>>
        /\ g \in (IF Mode = "enum" THEN Groups ELSE {<<-1, k>> : k \in 1..Len(Cases)})

Emit == /\ ~done
        /\ done' = TRUE
        /\ g' = g
        /\ facts' = [c \in GroupCodes(g) |-> Facts(c)]
        /\ PrintT("JREC" \o ToJson(GroupRecs(g, facts')))

Next == Emit
Spec == Init /\ [][Next]_vars

-----------------------------------------------------------------------------
(* Invariants: facts about Bytecode.tla, checked on every enumerated code.  The quadratic ones are  *)
(* restricted to short codes so that the 4 KiB cases of mode "file" stay cheap.                     *)

OnCodes(P(_, _)) == done => \A c \in DOMAIN facts : P(c, facts[c])
Short(c) == Len(c) <= 64

\* the state holds what the definitions say
FactsAreFacts(c, d) == Len(c) <= 16 => d = Facts(c)

\* boundaries start at 0 and lie inside the code; at most one has an opaque opcode, and it is the last
StartsAtZero(c, d) ==
    /\ (Len(c) = 0 => d.B = {})
    /\ (Len(c) > 0 => 0 \in d.B)
    /\ \A b \in d.B : b >= 0 /\ b < Len(c)
    /\ Cardinality(d.SB) <= 1
    /\ \A b \in d.B : b < d.F
    /\ \A b \in d.SB : b = d.F - 1 /\ b = d.JF

\* the boundaries form one strictly increasing chain pc -> NextPc(pc): the successor of a boundary is
\* the next boundary (or lies beyond the end) and nothing in between is a boundary
Chain(c, d) ==
    \A b \in d.CB :
        /\ NextPc(c, b) > b
        /\ NextPc(c, b) = b + 1 + PushLen(c[b + 1])
        /\ (NextPc(c, b) < Len(c) => NextPc(c, b) \in d.B)
        /\ \A x \in OperandRange(c, b) : x \notin d.B
ChainBack(c, d) ==
    LET succ == {NextPc(c, a) : a \in d.CB} IN \A b \in d.B : b = 0 \/ b \in succ

\* a valid jump destination is a JUMPDEST byte at a boundary and never lies in the operand of a PUSH
JumpdestNotInPush(c, d) ==
    /\ \A j \in d.J : c[j + 1] = OP_JUMPDEST /\ j \in d.B
    /\ \A b \in d.CB : \A x \in OperandRange(c, b) : x \notin d.J

\* below the frontier every position is either a boundary or inside exactly one PUSH operand
\* (for fully concrete code: every position of the code)
Partition(c, d) ==
    Short(c) => \A p \in 0..(d.F - 1) :
        Cardinality({b \in d.B : p = b \/ p \in OperandRange(c, b)}) = 1

\* a genuine JUMPDEST is never rejected: below the frontier a 5b byte is a valid destination
\* exactly when it is not PUSH data
GenuineJumpdest(c, d) ==
    Short(c) => \A p \in 0..(d.F - 1) :
        c[p + 1] = OP_JUMPDEST => (p \in d.J <=> ~\E b \in d.CB : p \in OperandRange(c, b))

\* the operand is the zero-padded code slice behind the opcode
PushArgIsSlice(c, d) ==
    \A b \in d.CB :
        LET a == PushArg(c, b)
            k == PushLen(c[b + 1])
        IN /\ Len(a) = k
           /\ a = CodeSlice(c, b + 1, k)
           /\ \A i \in 1..k : b + i >= Len(c) => a[i] = 0

BeyondEnd(c, d) == \A k \in {0, 1, 33} : OpAt(c, Len(c) + k) = OP_STOP /\ NextPc(c, Len(c) + k) = Len(c) + k + 1

SliceZeroPadded(c, d) ==
    \A p \in SlicePairs(c) :
        LET s == CodeSlice(c, p[1], p[2])
        IN /\ Len(s) = p[2]
           /\ \A i \in 1..p[2] : s[i] = (IF p[1] + i <= Len(c) THEN c[p[1] + i] ELSE 0)

\* the opaque byte is a sound abstraction: whatever the SYM bytes are, below the frontier the
\* instance has the same boundaries and the same valid jump destinations, and no instance has a
\* destination outside PossibleJ (all instances for up to two SYM bytes, the uniform instances otherwise)
SymPos(c) == {i \in 1..Len(c) : c[i] = SYM}
ConcSet == {ConcAlphabet[i] : i \in 1..Len(ConcAlphabet)}
Instances(c) ==
    IF Cardinality(SymPos(c)) <= 2
    THEN {[i \in 1..Len(c) |-> IF c[i] = SYM THEN f[i] ELSE c[i]] : f \in [SymPos(c) -> ConcSet]}
    ELSE {[i \in 1..Len(c) |-> IF c[i] = SYM THEN a ELSE c[i]] : a \in ConcSet}
Below(S, n) == {x \in S : x < n}
SymSound(c, d) ==
    (Len(c) <= 8 /\ SymPos(c) # {}) =>
        LET U == d.U
        IN \A e \in Instances(c) :
            LET Be == Boundaries(e)
                Je == ValidJumpdests(e)
            IN /\ d.B \subseteq Be
               /\ Below(Be, d.F) = d.B
               /\ d.J \subseteq Je
               /\ Below(Je, d.JF) = d.J
               /\ Je \subseteq U

InvFactsAreFacts == OnCodes(FactsAreFacts)
InvStartsAtZero == OnCodes(StartsAtZero)
InvChain == OnCodes(Chain)
InvChainBack == OnCodes(ChainBack)
InvJumpdestNotInPush == OnCodes(JumpdestNotInPush)
InvPartition == OnCodes(Partition)
InvGenuineJumpdest == OnCodes(GenuineJumpdest)
InvPushArgIsSlice == OnCodes(PushArgIsSlice)
InvBeyondEnd == OnCodes(BeyondEnd)
InvSliceZeroPadded == OnCodes(SliceZeroPadded)
InvSymSound == OnCodes(SymSound)

\* negative controls (each must be VIOLATED): the invariants above are not vacuous.  They look at
\* disjoint groups (lengths 2 and 3) so that one TLC run with -continue reports both.
EveryJumpdestByteValid(c, d) == \A p \in 0..(Len(c) - 1) : c[p + 1] = OP_JUMPDEST => p \in d.J
EveryPositionBoundary(c, d) == \A p \in 0..(d.F - 1) : p \in d.B
NegEveryJumpdestByteValid == g[1] = 2 => OnCodes(EveryJumpdestByteValid)
NegEveryPositionBoundary == g[1] = 3 => OnCodes(EveryPositionBoundary)
=============================================================================
