\* sequential schedules, <= 2 paths, one or two kinds per reply class incl. real solver timeouts (quick)
SPECIFICATION Spec
CONSTANTS
  MinPaths = 1
  MaxPaths = 2
  Outcomes = {"success", "revert", "panic", "failflag", "stuck"}
  Replies = {"sat_valid", "sat_abstract", "unsat_rc1", "timeout", "unknown", "empty", "nonzero", "crash", "spawnfail"}
  Replies2 = {"sat_abstract", "unsat", "timeout", "garbage"}
  StuckReplies = {"unsat_rc1", "timeout", "sat_abstract", "crash"}
  EarlySet = {TRUE, FALSE}
  CacheSet = {FALSE}
  RefinableSet = {TRUE}
  Threads = 4
  MaxPrev = 0
  PrevCodes = {0}
  RecordHist = TRUE
  Canon = TRUE
  Coarse = FALSE
  MutPrecedence = FALSE
  MutNoCatch = FALSE
  MutKilledEscapes = FALSE
  KilledMayRaise = TRUE
INVARIANTS TypeOK PassOnlyIfClean VerdictModuloKnown OrderIndependenceModuloKnown ExitNonZeroIffNotAllPass ValidNeverAbstract OneOutputPerQuery
