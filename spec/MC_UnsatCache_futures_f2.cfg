\* only submitted_futures pins (term_to_vars not shared any more): CacheSound must still hold
\* two overlapping unsat sets of sizes 2 and 3
SPECIFICATION Spec
CONSTANTS
  Ids = {1, 2, 3}
  Cons = {"a", "b", "c", "d"}
  UnsatFamily = {{"a", "b"}, {"b", "c", "d"}}
  PinFutures = TRUE
  PinTermVars = FALSE
  MaxTests = 2
  MaxInflight = 1
  MaxCores = 2
INVARIANTS TypeOK HashConsed CacheSound CoresDenoteUnsat
PROPERTIES PinnedStable
