SPECIFICATION Spec
CONSTANTS
  WB = 1
  MEMCAP = 64
  NR = 1
  NC = 1
  NT = 0
  Mutation <- MutValueCreated
INVARIANT InvBalance
CHECK_DEADLOCK FALSE
