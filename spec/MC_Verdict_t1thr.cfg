\* a single solver thread (FIFO work queue): <= 3 paths, reply classes
SPECIFICATION Spec
CONSTANTS
  MinPaths = 1
  MaxPaths = 3
  Outcomes = {"success", "panic", "stuck"}
  Replies = {"sat_valid", "sat_abstract", "unsat", "unsat_shared", "unknown", "garbage"}
  Replies2 = {"sat_valid", "unsat"}
  StuckReplies = {"unsat", "unknown"}
  EarlySet = {TRUE, FALSE}
  CacheSet = {TRUE, FALSE}
  RefinableSet = {TRUE}
  Threads = 1
  MaxPrev = 0
  PrevCodes = {0}
  RecordHist = FALSE
  Canon = FALSE
  Coarse = FALSE
  MutPrecedence = FALSE
  MutNoCatch = FALSE
  MutKilledEscapes = FALSE
  KilledMayRaise = TRUE
INVARIANTS TypeOK PassOnlyIfClean CleanPasses VerdictIsPrecedence OrderIndependence NoLostCounterexampleStrict OrderIndependenceNoEarly ExitNonZeroIffNotAllPass ValidNeverAbstract OneOutputPerQuery ShutdownOnlyAfterValid
