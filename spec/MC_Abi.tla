------------------------------- MODULE MC_Abi -------------------------------
(***************************************************************************)
(* Model check of the ABI specification itself: for every type tree up to  *)
(* the bounds and every value of a small domain (Exhaustive) or NG         *)
(* generated values per type (otherwise)                                   *)
(*   - Decode(t, Encode(t, v)) = v, and the raw decoder agrees             *)
(*   - the spans the decoder visits are exactly Layout(t, ShapeOf(t, v));  *)
(*     they are pairwise disjoint, inside the encoding, offsets forward    *)
(*   - generalised encodings (allocation larger than the announced length) *)
(*     decode to the truncated value                                       *)
(*   - the decoder is strict: a corrupted offset / length / padding byte   *)
(*     is rejected                                                         *)
(***************************************************************************)
EXTENDS AbiTypes

CONSTANTS MaxDepth, Arity, FK, AL, BL, NG, Exhaustive, Leaves, Mutant

LeavesFull == {UintT(256), UintT(8), IntT(16), BoolT, AddressT, FBytesT(3), BytesT, StringT}
LeavesMid == {UintT(8), IntT(16), FBytesT(3), BytesT}
LeavesSmall == {IntT(16), StringT}

Rnd == [i \in 1..97 |-> (i * 89 + 41) % 256]
SetToSeqI(S) == LET RECURSIVE R(_)
                    R(s) == IF s = {} THEN <<>> ELSE LET x == CHOOSE y \in s : \A z \in s : y <= z IN <<x>> \o R(s \ {x})
                IN R(S)
ALq == SetToSeqI(AL)
BLq == SetToSeqI(BL)

Types == TypesUpTo(MaxDepth, Leaves, FK, Arity)

\* all values over the small domain
RECURSIVE ValuesOf(_)
RECURSIVE ProdSeq(_, _)
\* all sequences s with s[i] \in sets[i]
ProdSeq(sets, i) ==
    IF i > Len(sets) THEN {<<>>}
    ELSE {<<x>> \o r : x \in sets[i], r \in ProdSeq(sets, i + 1)}
ValuesOf(t) ==
    CASE t.k = "bool" -> {<<0>>, <<1>>}
      [] t.k \in StaticLeafKinds -> {RBytes(Rnd, 1, LeafBytes(t)), RBytes(Rnd, 2, LeafBytes(t)), W!BOnes(LeafBytes(t))}
      [] IsBytesLike(t) -> {RBytes(Rnd, 3 + n, n) : n \in BL}
      [] t.k = "darr" -> UNION {ProdSeq([i \in 1..n |-> ValuesOf(t.c[1])], 1) : n \in AL}
      [] t.k = "farr" -> ProdSeq([i \in 1..t.n |-> ValuesOf(t.c[1])], 1)
      [] t.k = "tuple" -> ProdSeq([i \in 1..Len(t.c) |-> ValuesOf(t.c[i])], 1)

VARIABLES t, v, mode, on, res
vars == <<t, v, mode, on, res>>

WithWord(b, lo, w) == Slice(b, 0, lo) \o w \o Slice(b, lo + 32, Len(b))
Covered(sp, i) == \E j \in 1..Len(sp) : sp[j].lo <= i /\ i < sp[j].hi

\* negative control of the model check itself: Mutant = 1 swaps the first two words of every encoding,
\* Mutant = 2 clears the last byte (a padding or content byte)
Mut(b) == CASE Mutant = 1 /\ Len(b) >= 64 -> Slice(b, 32, 64) \o Slice(b, 0, 32) \o Slice(b, 64, Len(b))
            [] Mutant = 2 /\ Len(b) >= 1 -> [b EXCEPT ![Len(b)] = 255 - b[Len(b)]]
            [] OTHER -> b

\* every check of one (type, value, shrink mode), evaluated once per state
Checks(tt, vv, mm) ==
    LET E == TLCEval(Mut(Encode(tt, vv)))
        D == TLCEval(Decode(tt, E))
        S == TLCEval(ShapeOf(tt, vv))
        A == TLCEval(Shrink(tt, S, mm, 1))
        sp == D.sp
        n == Len(E)
        raw == TLCEval(DecodeRaw(tt, E))
        g == TLCEval(DecodeRaw(tt, EncodeGen(tt, vv, A)))
        v0 == TLCEval(ZeroTail(tt, vv, A))
        gs == TLCEval(Decode(tt, EncodeGen(tt, v0, A)))
    IN [ types |-> TypeOK(tt) /\ ValueOK(tt, vv),
         roundtrip |-> D.ok /\ D.v = vv,
         raw |-> raw.ok /\ raw.v = RawOf(tt, vv) /\ raw.sp = sp,
         layout |-> sp = Layout(tt, S) /\ n = EncSize(tt, S) /\ n % 32 = 0,
         spans |-> SpansDisjoint(sp) /\ SpansInside(sp, n) /\ OffsetsForward(sp, n),
         \* every byte of a canonical encoding is a leaf byte, a length/offset word or zero padding
         covered |-> \A i \in 0..(n - 1) : Covered(sp, i) \/ E[i + 1] = 0,
         staticsize |-> (~IsDynamic(tt) => n = StaticSize(tt)),
         gen |-> /\ AllocOK(tt, A)
                 /\ g.ok /\ g.v = RawOf(tt, Trunc(tt, vv, A))
                 /\ ShapeOf(tt, Trunc(tt, vv, A)) = Reach(tt, A)
                 /\ SpansDisjoint(g.sp),
         genstrict |-> gs.ok /\ gs.v = Trunc(tt, v0, A),
         fill |-> Fill(tt, S, Chosen(tt, A), 1) = A /\ Full(tt, A) = S,
         \* strictness of the decoder
         strictoff |-> \A i \in 1..Len(sp) : sp[i].k = "off" =>
                          /\ ~Decode(tt, WithWord(E, sp[i].lo, Word(0))).ok
                          /\ ~Decode(tt, WithWord(E, sp[i].lo, Word(n + 1))).ok
                          /\ ~Decode(tt, WithWord(E, sp[i].lo, W!BOnes(32))).ok,
         strictlen |-> \A i \in 1..Len(sp) : sp[i].k = "len" =>
                          /\ ~Decode(tt, WithWord(E, sp[i].lo, Word(n + 1))).ok
                          /\ ~Decode(tt, WithWord(E, sp[i].lo, W!BOnes(32))).ok,
         \* a non-zero byte in any padding position (a byte covered by no span) is rejected
         strictpad |-> \A i \in 0..(n - 1) : ~Covered(sp, i) => ~Decode(tt, [E EXCEPT ![i + 1] = 1]).ok,
         \* dirty bytes of a static leaf: accepted raw; strictly either rejected or another value
         strictleaf |-> \A i \in 1..Len(sp) :
                          (sp[i].k = "leaf" /\ sp[i].hi - sp[i].lo = 32) =>
                             LET lo == sp[i].lo
                                 flip == [E EXCEPT ![lo + 1] = 255 - E[lo + 1], ![lo + 32] = 255 - E[lo + 32]]
                                 r == Decode(tt, flip)
                             IN DecodeRaw(tt, flip).ok /\ (r.ok => r.v # vv) ]

Init == t \in Types /\ v = <<>> /\ mode = 0 /\ on = FALSE /\ res = <<>>
Pick ==
    /\ ~on /\ on' = TRUE
    /\ t' = t
    /\ mode' \in 0..3
    /\ IF Exhaustive THEN v' \in ValuesOf(t)
       ELSE \E g \in 1..NG : v' = LET s == GenShape(t, ALq, BLq, g * 7919 + THash(t)) IN GenV(t, s, Rnd, g)
    /\ res' = Checks(t', v', mode')
Next == Pick
Spec == Init /\ [][Next]_vars

InvTypes == on => res.types
InvRoundTrip == on => res.roundtrip
InvRaw == on => res.raw
InvLayout == on => res.layout
InvSpans == on => res.spans
InvCovered == on => res.covered
InvStaticSize == on => res.staticsize
InvGen == on => res.gen
InvGenStrict == on => res.genstrict
InvFill == on => res.fill
InvStrictOffsets == on => res.strictoff
InvStrictLengths == on => res.strictlen
InvStrictPadding == on => res.strictpad
InvStrictLeaf == on => res.strictleaf
=============================================================================
