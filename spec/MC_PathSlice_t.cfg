SPECIFICATION Spec
CONSTANTS
  Vars = {"x", "y", "z"}
  MaxConds = 4
  Algo = "component"
  Emit = TRUE
INVARIANT SliceIsComponent
INVARIANT RelatedIsSymmetric
INVARIANT Report
CHECK_DEADLOCK FALSE
