----------------------------- MODULE MC_ByteSeq -----------------------------
(* The flat model on its own: type correctness and the laws of a zero-extended byte array      *)
(* (reads beyond the end are zero, slices have the requested length, a write changes exactly   *)
(* the bytes it covers and extends the length to the highest offset written, an empty write    *)
(* changes nothing), on every state reachable with a medium command grid.                      *)
EXTENDS ByteSeq

CONSTANTS Depth, MaxLen
VARIABLE d

P == [wv |-> Vecs, offs |-> {0, 1, 3, 5}, lens |-> {0, 1, 2, 4}, kinds |-> {"conc", "sym", "mixed", "slice", "vec"},
      srcs |-> {<<1, 1>>, <<2, 0>>},
      boffs |-> {0, 2, 6}, bkinds |-> {"conc", "sym"}, woffs |-> {0, 3}, wkinds |-> {"conc", "mixed"},
      alens |-> {1, 2}, akinds |-> {"conc", "sym", "vec", "slice"},
      slices |-> {<<2, 1, 1, 4>>, <<1, 1, 0, 3>>, <<1, 2, 5, 2>>}, copies |-> {<<2, 1>>, <<1, 2>>}, maxlen |-> MaxLen]

Init == FlatInit /\ d = 0
Next == d < Depth /\ FlatNext(P) /\ d' = d + 1
Spec == Init /\ [][Next]_<<heap, d>>

TypeOK == FlatTypeOK
Laws == FlatLaws({0, 1, 3, MaxLen - 1, MaxLen, MaxLen + 2})
LenBound == \A v \in Vecs : Len(heap[v]) <= MaxLen
\* the predicate used by the random generator agrees with the enumerated alphabet
LegalAgrees == \A c \in Cmds(P, heap) : LegalCmd(P, heap, c)
=============================================================================
