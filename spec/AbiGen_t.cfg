SPECIFICATION Spec
CONSTANTS
  MaxDepth = 3
  Arity = 3
  FK = {1, 2, 3}
  NC = 1
INVARIANT InvSigTypes
