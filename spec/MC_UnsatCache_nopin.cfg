\* NEGATIVE CONTROL: no reference keeps the conditions of a submitted path alive.
\* TLC must refute CacheSound (an id of a stored core is reclaimed, recycled for another
\* constraint, and a satisfiable query is answered unsat from the cache).
SPECIFICATION Spec
CONSTANTS
  Ids = {1, 2, 3}
  Cons = {"a", "b", "c"}
  UnsatFamily = {{"a", "b"}}
  PinFutures = FALSE
  PinTermVars = FALSE
  MaxTests = 2
  MaxInflight = 2
  MaxCores = 2
INVARIANTS TypeOK HashConsed CacheSound
