SPECIFICATION Spec
CONSTANTS
  Mode = "shared"
  MaxLen = 3
INVARIANT EachTestStartsFromSetup
INVARIANT ResultIndependentOfHistory
