----------------------------- MODULE WordRefine -----------------------------
(***************************************************************************)
(* Refinement check: every limb algorithm of EvmWord computes the          *)
(* natural-number definition of EvmWordNat.  One TLC state per first       *)
(* operand; the invariant quantifies over the second (and third) operand.  *)
(* WB = 1: all 256 x 256 pairs, triples over Grid3.  WB = 2, 3: Grid.      *)
(***************************************************************************)
EXTENDS Integers, Sequences, TLC

CONSTANTS WB, Grid, Grid3, MaxExp

W == INSTANCE EvmWord
N == INSTANCE EvmWordNat

VARIABLE job          \* -1, or the first operand

F(n) == W!WFromNat(n)
RECURSIVE ToNatR(_, _, _)
ToNatR(a, i, acc) == IF i > Len(a) THEN acc ELSE ToNatR(a, i + 1, acc * 256 + a[i])
T(a) == ToNatR(a, 1, 0)
B(p) == IF p THEN 1 ELSE 0

Bin(a, b) ==
    /\ T(W!WAdd(F(a), F(b))) = N!N_Add(a, b)
    /\ T(W!WSub(F(a), F(b))) = N!N_Sub(a, b)
    /\ T(W!WMul(F(a), F(b))) = N!N_Mul(a, b)
    /\ T(W!WDiv(F(a), F(b))) = N!N_Div(a, b)
    /\ T(W!WMod(F(a), F(b))) = N!N_Mod(a, b)
    /\ T(W!WSDiv(F(a), F(b))) = N!N_SDiv(a, b)
    /\ T(W!WSMod(F(a), F(b))) = N!N_SMod(a, b)
    /\ (b <= MaxExp => T(W!WExp(F(a), F(b))) = N!N_Exp(a, b))
    /\ T(W!WSignExtend(F(a), F(b))) = N!N_SignExtend(a, b)
    /\ W!WLt(F(a), F(b)) = N!N_Lt(a, b)
    /\ W!WGt(F(a), F(b)) = N!N_Gt(a, b)
    /\ W!WSLt(F(a), F(b)) = N!N_SLt(a, b)
    /\ W!WSGt(F(a), F(b)) = N!N_SGt(a, b)
    /\ W!WEq(F(a), F(b)) = (a = b)
    /\ T(W!WAnd(F(a), F(b))) = N!N_And(a, b)
    /\ T(W!WOr(F(a), F(b))) = N!N_Or(a, b)
    /\ T(W!WXor(F(a), F(b))) = N!N_Xor(a, b)
    /\ T(W!WByte(F(a), F(b))) = N!N_Byte(a, b)
    /\ T(W!WShl(F(a), F(b))) = N!N_Shl(a, b)
    /\ T(W!WShr(F(a), F(b))) = N!N_Shr(a, b)
    /\ T(W!WSar(F(a), F(b))) = N!N_Sar(a, b)
    \* algebraic laws relating the operations to one another
    /\ (b # 0 => T(W!WAdd(W!WMul(W!WDiv(F(a), F(b)), F(b)), W!WMod(F(a), F(b)))) = a)
    /\ (b # 0 => T(W!WAdd(W!WMul(W!WSDiv(F(a), F(b)), F(b)), W!WSMod(F(a), F(b)))) = a)
    /\ W!WNot(W!WAnd(F(a), F(b))) = W!WOr(W!WNot(F(a)), W!WNot(F(b)))
    /\ W!WSub(F(a), F(b)) = W!WAdd(F(a), W!WNeg(F(b)))
    /\ W!WSignExtend(F(a), W!WSignExtend(F(a), F(b))) = W!WSignExtend(F(a), F(b))

Una(a) ==
    /\ T(W!WNot(F(a))) = N!N_Not(a)
    /\ W!WIsZero(F(a)) = (a = 0)
    /\ W!IsWord(F(a))
    /\ T(F(a)) = a

Ter(a, b, c) ==
    /\ T(W!WAddMod(F(a), F(b), F(c))) = N!N_AddMod(a, b, c)
    /\ T(W!WMulMod(F(a), F(b), F(c))) = N!N_MulMod(a, b, c)


\* operand grids (definitions, because a cfg file cannot write set expressions)
G1  == 0..255
G1T == {0, 1, 2, 3, 5, 7, 15, 16, 17, 31, 32, 63, 64, 100, 127, 128, 129, 200, 254, 255}
G2  == {0, 1, 2, 3, 7, 8, 15, 16, 17, 127, 128, 129, 254, 255, 256, 257, 258, 511, 512, 1000,
        4095, 4096, 32766, 32767, 32768, 32769, 40000, 65279, 65280, 65534, 65535}
G2T == {0, 1, 2, 255, 256, 257, 32767, 32768, 65280, 65534, 65535, 1000, 40000}
G3  == {0, 1, 2, 3, 7, 23, 24, 128, 255, 256, 257, 32768, 65535, 65536, 65537, 1000000, 8388607,
        8388608, 8388609, 12345678, 16711680, 16777214, 16777215}
G3T == {0, 1, 2, 255, 256, 65535, 65536, 8388607, 8388608, 16777214, 16777215, 12345678}

Init == job = -1
Next == job = -1 /\ job' \in Grid
Spec == Init /\ [][Next]_job

BinOK == job = -1 \/ \A b \in Grid : Bin(job, b)
UnaOK == job = -1 \/ Una(job)
TerOK == job = -1 \/ (job \in Grid3 => \A b \in Grid3 : \A c \in Grid3 : Ter(job, b, c))
=============================================================================
