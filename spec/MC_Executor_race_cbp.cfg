\* EXPECTED TO FAIL: the code as written admits this interleaving (see Executor.tla, last section)
SPECIFICATION Spec
CONSTANTS
  Jobs = {j1}
  HasTimeout = {j1}
  IgnoresTerm = {}
  PopenMayFail = {}
  PreFix = FALSE
  CoarseCancel = FALSE
  Modes = {"nowait"}
  Modes2 = {"none"}
  NeverExits = {}
INVARIANTS NoCancelBeforePopenWitness
