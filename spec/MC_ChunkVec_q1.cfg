\* refinement: small,small,FULL,small
SPECIFICATION Spec
VIEW View
CONSTANTS
  NV = 2
  W = 4
  Depth = 4
  Emit = "none"
  Pick = "all"
  FullLevels = {3}
  MedLevels = {}
  TinyLevels = {}
  AliasLevels = {}
  XOffs = {}
  XLens = {}
  MaxLen = 9
  Mutant = "none"
  Prof <- ProfByLevel
INVARIANT InvFlatTypeOK
INVARIANT InvWellFormed
INVARIANT InvRefines
INVARIANT InvCopyIndependence
INVARIANT InvReadsAgree
