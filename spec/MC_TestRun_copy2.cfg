SPECIFICATION Spec
CONSTANTS
  Mode = "copy"
  MaxLen = 2
INVARIANT EachTestStartsFromSetup
INVARIANT ResultIndependentOfHistory
