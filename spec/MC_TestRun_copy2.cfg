SPECIFICATION Spec
CONSTANTS
  Mode = "copy"
  EarlyExit = FALSE
  MaxLen = 2
INVARIANT EachTestStartsFromSetup
INVARIANT ResultIndependentOfHistory
