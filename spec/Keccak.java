import tlc2.value.impl.IntValue;
import tlc2.value.impl.TupleValue;
import tlc2.value.impl.Value;

// TLC module override for Keccak.tla: Keccak256(<<b1, ..., bn>>) = <<h1, ..., h32>>
public class Keccak {
    private static final long[] RC = {
        0x0000000000000001L, 0x0000000000008082L, 0x800000000000808aL, 0x8000000080008000L,
        0x000000000000808bL, 0x0000000080000001L, 0x8000000080008081L, 0x8000000000008009L,
        0x000000000000008aL, 0x0000000000000088L, 0x0000000080008009L, 0x000000008000000aL,
        0x000000008000808bL, 0x800000000000008bL, 0x8000000000008089L, 0x8000000000008003L,
        0x8000000000008002L, 0x8000000000000080L, 0x000000000000800aL, 0x800000008000000aL,
        0x8000000080008081L, 0x8000000000008080L, 0x0000000080000001L, 0x8000000080008008L };
    private static final int[] ROT = {1, 3, 6, 10, 15, 21, 28, 36, 45, 55, 2, 14, 27, 41, 56, 8, 25, 43, 62, 18, 39, 61, 20, 44};
    private static final int[] PIL = {10, 7, 11, 17, 18, 3, 5, 16, 8, 21, 24, 4, 15, 23, 19, 13, 12, 2, 20, 14, 22, 9, 6, 1};

    private static void f(long[] s) {
        long[] bc = new long[5];
        for (int r = 0; r < 24; r++) {
            for (int i = 0; i < 5; i++) bc[i] = s[i] ^ s[i + 5] ^ s[i + 10] ^ s[i + 15] ^ s[i + 20];
            for (int i = 0; i < 5; i++) {
                long t = bc[(i + 4) % 5] ^ Long.rotateLeft(bc[(i + 1) % 5], 1);
                for (int j = 0; j < 25; j += 5) s[j + i] ^= t;
            }
            long t = s[1];
            for (int i = 0; i < 24; i++) {
                int j = PIL[i];
                long b = s[j];
                s[j] = Long.rotateLeft(t, ROT[i]);
                t = b;
            }
            for (int j = 0; j < 25; j += 5) {
                for (int i = 0; i < 5; i++) bc[i] = s[j + i];
                for (int i = 0; i < 5; i++) s[j + i] ^= (~bc[(i + 1) % 5]) & bc[(i + 2) % 5];
            }
            s[0] ^= RC[r];
        }
    }

    private static byte[] keccak256(byte[] in) {
        int rate = 136;
        long[] s = new long[25];
        int padded = (in.length / rate + 1) * rate;
        byte[] m = new byte[padded];
        System.arraycopy(in, 0, m, 0, in.length);
        m[in.length] ^= 0x01;
        m[padded - 1] ^= (byte) 0x80;
        for (int off = 0; off < padded; off += rate) {
            for (int i = 0; i < rate / 8; i++) {
                long v = 0;
                for (int b = 0; b < 8; b++) v |= ((long) (m[off + 8 * i + b] & 0xff)) << (8 * b);
                s[i] ^= v;
            }
            f(s);
        }
        byte[] out = new byte[32];
        for (int i = 0; i < 32; i++) out[i] = (byte) ((s[i / 8] >>> (8 * (i % 8))) & 0xff);
        return out;
    }

    public static Value Keccak256(final Value v) {
        final TupleValue tv = (TupleValue) v.toTuple();
        if (tv == null) throw new RuntimeException("Keccak256: argument is not a sequence: " + v);
        final byte[] in = new byte[tv.size()];
        for (int i = 0; i < in.length; i++) in[i] = (byte) ((IntValue) tv.elems[i]).val;
        final byte[] h = keccak256(in);
        final Value[] out = new Value[32];
        for (int i = 0; i < 32; i++) out[i] = IntValue.gen(h[i] & 0xff);
        return new TupleValue(out);
    }
}
