SPECIFICATION Spec
CONSTANTS
  Mode = "shared"
  EarlyExit = TRUE
  MaxLen = 2
INVARIANT ExecutorPrivate
