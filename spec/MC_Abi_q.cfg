SPECIFICATION Spec
CONSTANTS
  MaxDepth = 2
  Arity = 2
  FK = {0, 2}
  AL = {0, 2}
  BL = {0, 1, 33}
  NG = 1
  Exhaustive = TRUE
  Mutant = 0
  Leaves <- LeavesMid
INVARIANT InvTypes
INVARIANT InvRoundTrip
INVARIANT InvRaw
INVARIANT InvLayout
INVARIANT InvSpans
INVARIANT InvCovered
INVARIANT InvStaticSize
INVARIANT InvGen
INVARIANT InvGenStrict
INVARIANT InvFill
INVARIANT InvStrictOffsets
INVARIANT InvStrictLengths
INVARIANT InvStrictPadding
INVARIANT InvStrictLeaf
