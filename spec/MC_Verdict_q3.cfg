\* quick: exactly 3 paths, reply classes, --early-exit, every interleaving
SPECIFICATION Spec
CONSTANTS
  MinPaths = 3
  MaxPaths = 3
  Outcomes = {"success", "revert", "panic", "stuck"}
  Replies = {"sat_valid", "sat_abstract", "unsat", "unknown", "garbage"}
  Replies2 = {"sat_valid", "unsat"}
  StuckReplies = {"unsat", "unknown"}
  EarlySet = {TRUE}
  CacheSet = {FALSE}
  RefinableSet = {TRUE}
  Threads = 4
  MaxPrev = 0
  PrevCodes = {0}
  RecordHist = FALSE
  Canon = FALSE
  Coarse = FALSE
  MutPrecedence = FALSE
  MutNoCatch = FALSE
  MutKilledEscapes = FALSE
  KilledMayRaise = TRUE
INVARIANTS TypeOK PassOnlyIfClean CleanPasses VerdictIsPrecedence OrderIndependence NoLostCounterexampleStrict OrderIndependenceNoEarly ExitNonZeroIffNotAllPass ValidNeverAbstract OneOutputPerQuery ShutdownOnlyAfterValid
