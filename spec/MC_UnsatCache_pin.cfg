\* faithful model: both references exist (submitted_futures and the shared term_to_vars)
SPECIFICATION Spec
CONSTANTS
  Ids = {1, 2, 3}
  Cons = {"a", "b", "c"}
  UnsatFamily = {{"a", "b"}}
  PinFutures = TRUE
  PinTermVars = TRUE
  MaxTests = 2
  MaxInflight = 2
  MaxCores = 2
INVARIANTS TypeOK HashConsed CacheSound CoresDenoteUnsat
PROPERTIES PinnedStable
