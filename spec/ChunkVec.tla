------------------------------ MODULE ChunkVec ------------------------------
(***************************************************************************)
(* Implementation-shaped refinement of ByteSeq: src/halmos/bytevec.py as   *)
(* it is written.                                                          *)
(*                                                                         *)
(* A vector is [len |-> n, cs |-> <<[off |-> o, c |-> chunk], ...>>]: the  *)
(* SortedDict offset -> chunk as a sequence sorted by offset, plus the     *)
(* cached length.  A chunk is one of                                       *)
(*   [t |-> "C", data, st, n]   ConcreteChunk(data, start, length)         *)
(*   [t |-> "S", data, st, n]   SymbolicChunk(term, start, length); data   *)
(*                              is the byte-value sequence of the term     *)
(*   [t |-> "N", v |-> vector]  a ByteVec stored as a chunk that no name   *)
(*                              refers to any more (the temporary result   *)
(*                              of slice(), or a vector whose name was     *)
(*                              rebound): nobody can write to it, so it is *)
(*                              held by value                              *)
(*   [t |-> "R", r |-> name]    a ByteVec stored as a chunk BY REFERENCE   *)
(*                              while the program still holds it under a   *)
(*                              name: its bytes AND ITS LENGTH are those   *)
(*                              of cv[name] at the time of each read       *)
(* Since halmos commit 1a97aee the code never stores a ByteVec as a chunk:  *)
(* a ByteVec argument is always unpacked into its (immutable) chunks - by   *)
(* append(), by the back-fill branch and by the general branch of          *)
(* set_slice; the aligned fast path of set_slice (bytevec.py:582-591) is    *)
(* only taken for a Chunk value.  "N" and "R" chunks therefore only exist   *)
(* as VALUES of arguments, never inside a chunk map, and the refinement     *)
(* holds for the whole alphabet, whole-vector arguments included.           *)
(*                                                                         *)
(* What must not come back is kept as the model mutant "alignedref" (the   *)
(* code before 1a97aee, finding bytevec-aligned-nested-alias): the aligned  *)
(* branch stores a ByteVec value as it is.  Then a write to the source      *)
(* shows through the destination, a length change of the source leaves the  *)
(* destination ill-formed, and two vectors can even come to contain each    *)
(* other (from there on the mutant model is only an approximation: the      *)
(* append() of such a vector never returns in the code, the model's does).  *)
(* TLC must refute it (MC_ChunkVec_m_alignedref.cfg).                       *)
(*                                                                         *)
(* The module runs the chunk heap cv in lock step with the flat heap of    *)
(* ByteSeq on the same commands; Refinement is Flatten(cv) = heap.         *)
(***************************************************************************)
EXTENDS ByteSeq, FiniteSets, TLC, Json

CONSTANTS Depth,       \* histories of at most Depth commands
          Emit,        \* "none" | "all" (one JSON record per transition) | "leaf" (at level Depth)
          Pick,        \* "all": every enabled command is a successor; "random": one command chosen by
                       \* TLC's RandomElement per step (cheap long histories under -simulate)
          Prof(_),     \* level |-> command profile (see ByteSeq!Cmds)
          Mutant       \* "none", or a deliberately wrong variant of the chunk model that the invariants
                       \* must reject (negative controls of the invariants themselves):
                       \* "post" (post-chunk truncation off by one), "slicefill" (slice() pads one zero
                       \* too few), "copyalias" (copy() returns a reference to the original),
                       \* "alignedref" (aligned set_slice stores a ByteVec value by reference: the
                       \* behaviour of the code before 1a97aee)

VARIABLES cv,      \* the chunk heap: name -> vector
          hist,    \* history of commands with the flat value of the written vector (not in VIEW)
          indep,   \* did the last step leave every vector other than its target unchanged?
          depth    \* number of commands executed (the profile of the next one depends on it)

cvars == <<heap, cv, hist, indep, depth>>
\* (a history that contains the alias case is kept apart from histories that reach the same model state
\* without it: in the code the two need not be the same state - that was the defect - so the generators
\* must extend both)
Tainted == \E i \in DOMAIN hist : hist[i].alias
View == <<heap, cv, indep, depth, Tainted>>

CC(data) == [t |-> "C", data |-> data, st |-> 0, n |-> Len(data)]
SC(data) == [t |-> "S", data |-> data, st |-> 0, n |-> Len(data)]
NC(vec)  == [t |-> "N", v |-> vec]
RC(w)    == [t |-> "R", r |-> w]
EmptyVec == [len |-> 0, cs |-> <<>>]
Flat(c)  == c.t = "C" \/ c.t = "S"

\* len(chunk): for a ByteVec held by reference it is the CURRENT length of that ByteVec
CLen(H, c) == IF Flat(c) THEN c.n ELSE IF c.t = "N" THEN c.v.len ELSE H[c.r].len

\* SortedDict: self.chunks[o] = c
Put(cs, o, c) == SelectSeq(cs, LAMBDA e : e.off < o) \o <<[off |-> o, c |-> c]>>
                 \o SelectSeq(cs, LAMBDA e : e.off > o)

\* __set_chunk: empty chunks are ignored
SetChunk(H, cs, o, c) == IF CLen(H, c) = 0 THEN cs ELSE Put(cs, o, c)

\* _load_chunk: 0 = not found, otherwise the (1-based) index of the chunk containing off:
\* bisect_right(off) - 1; a python index of -1 would address the last item
LoadIdx(x, off) ==
    IF off >= x.len THEN 0
    ELSE LET k == Cardinality({i \in DOMAIN x.cs : x.cs[i].off <= off})
         IN IF k = 0 THEN Len(x.cs) ELSE k

-----------------------------------------------------------------------------
\* append(value): a ByteVec is unpacked recursively, a chunk is stored at offset len
RECURSIVE VAppend(_, _, _), AppendAll(_, _, _)
VAppend(H, x, c) ==
    IF c.t = "N" THEN AppendAll(H, x, c.v.cs)
    ELSE IF c.t = "R" THEN AppendAll(H, x, H[c.r].cs)
    ELSE IF c.n = 0 THEN x
    ELSE [len |-> x.len + c.n, cs |-> Put(x.cs, x.len, c)]
AppendAll(H, x, cs) ==
    IF Len(cs) = 0 THEN x ELSE AppendAll(H, VAppend(H, x, Head(cs).c), Tail(cs))

\* slice(start, stop) and chunk[a:b]
RECURSIVE VSlice(_, _, _, _), ChunkSlice(_, _, _, _), SliceLoop(_, _, _, _, _, _)
ChunkSlice(H, c, a, b) ==
    IF Flat(c) THEN [c EXCEPT !.st = c.st + a, !.n = b - a]
    ELSE IF c.t = "N" THEN NC(VSlice(H, c.v, a, b))
    ELSE NC(VSlice(H, H[c.r], a, b))
SliceLoop(H, x, start, stop, i, acc) ==
    IF i > Len(x.cs) THEN acc
    ELSE LET e  == x.cs[i]
             cl == CLen(H, e.c)
         IN IF e.off >= stop THEN acc
            ELSE IF start <= e.off /\ e.off + cl <= stop
                 THEN SliceLoop(H, x, start, stop, i + 1, VAppend(H, acc, e.c))
                 ELSE LET so == Max(0, start - e.off)
                          eo == Min(cl, stop - e.off)
                      IN SliceLoop(H, x, start, stop, i + 1,
                                   VAppend(H, acc, ChunkSlice(H, e.c, so, eo)))
VSlice(H, x, start, stop) ==
    IF stop - start <= 0 THEN EmptyVec
    ELSE LET fi == LoadIdx(x, start) IN
         IF fi = 0 THEN VAppend(H, EmptyVec, CC(Zeros(stop - start)))
         ELSE LET r == SliceLoop(H, x, start, stop, fi, EmptyVec)
                  missing == (stop - start) - r.len
                  fill == IF Mutant = "slicefill" THEN missing - 1 ELSE missing
              IN IF fill > 0 THEN VAppend(H, r, CC(Zeros(fill))) ELSE r

\* set_byte(off, value), bc = Chunk.wrap(value)
VSetByte(H, x, off, bc) ==
    IF off >= x.len
    THEN VAppend(H, VAppend(H, x, CC(Zeros(off - x.len))), bc)          \* back-fill
    ELSE LET i    == LoadIdx(x, off)
             e    == x.cs[i]
             oic  == off - e.off
             pre  == ChunkSlice(H, e.c, 0, oic)
             post == ChunkSlice(H, e.c, oic + 1, CLen(H, e.c))
             cs1  == SetChunk(H, x.cs, e.off, pre)
             cs2  == Put(cs1, off, bc)
             cs3  == SetChunk(H, cs2, off + 1, post)
         IN [x EXCEPT !.cs = cs3]

\* is [start, stop) exactly one existing chunk?  (the "aligned write" test of set_slice)
IsAligned(H, x, start, stop) ==
    /\ start < stop
    /\ start < x.len
    /\ LET e == x.cs[LoadIdx(x, start)] IN start = e.off /\ stop = e.off + CLen(H, e.c)

RECURSIVE PutAll(_, _, _, _)
PutAll(H, cs, base, inner) ==
    IF Len(inner) = 0 THEN cs
    ELSE PutAll(H, SetChunk(H, cs, base + Head(inner).off, Head(inner).c), base, Tail(inner))

\* set_slice(start, stop, val); val is a chunk (wrapped bytes / term) or a ByteVec ("N"/"R")
VSetSlice(H, x, start, stop, val) ==
    IF start = stop THEN x
    ELSE IF start >= x.len
    THEN VAppend(H, VAppend(H, x, CC(Zeros(start - x.len))), val)        \* back-fill
    ELSE IF IsAligned(H, x, start, stop) /\ (Flat(val) \/ Mutant = "alignedref")
    THEN [x EXCEPT !.cs = SetChunk(H, x.cs, start, val)]                  \* aligned Chunk: stored as is
    ELSE LET fi    == LoadIdx(x, start)
             fe    == x.cs[fi]
             li    == LoadIdx(x, stop - 1)                                \* 0: stop > len
             rto   == IF stop >= x.len THEN Len(x.cs) ELSE li
             kept  == SelectSeq([j \in 1..Len(x.cs) |-> [i |-> j, e |-> x.cs[j]]],
                                LAMBDA p : ~(p.i >= fi + 1 /\ p.i <= rto))
             cs1   == [j \in 1..Len(kept) |-> kept[j].e]                  \* removal range
             pre   == ChunkSlice(H, fe.c, 0, start - fe.off)
             cs2   == SetChunk(H, cs1, fe.off, pre)                       \* truncate the first chunk
             cs3   == IF val.t = "N" THEN PutAll(H, cs2, start, val.v.cs)
                      ELSE IF val.t = "R" THEN PutAll(H, cs2, start, H[val.r].cs)
                      ELSE SetChunk(H, cs2, start, val)
             cs4   == IF li # 0
                      THEN LET le   == x.cs[li]
                               lend == le.off + CLen(H, le.c)
                           IN IF stop < lend
                              THEN SetChunk(H, cs3, stop,
                                            ChunkSlice(H, le.c, stop - le.off + (IF Mutant = "post" THEN 1 ELSE 0),
                                                       CLen(H, le.c)))
                              ELSE cs3
                      ELSE cs3
         IN [len |-> Max(x.len, stop), cs |-> cs4]

\* copy(): a new container with the same chunk objects
VCopy(x) == x

-----------------------------------------------------------------------------
\* reads.  fuel bounds the chase through "R" chunks: two vectors can come to contain each other,
\* on which the code raises RecursionError; the model then yields the impossible byte -1
RECURSIVE FlatSeq(_, _, _)
ChunkBytes(H, c, fuel) ==
    IF Flat(c) THEN SubSeq(c.data, c.st + 1, c.st + c.n)
    ELSE IF c.t = "N" THEN FlatSeq(H, c.v.cs, fuel)
    ELSE IF fuel = 0 THEN <<-1>> ELSE FlatSeq(H, H[c.r].cs, fuel - 1)
FlatSeq(H, cs, fuel) ==
    IF Len(cs) = 0 THEN <<>> ELSE ChunkBytes(H, Head(cs).c, fuel) \o FlatSeq(H, Tail(cs), fuel)

Fuel == NV + 1
\* unwrap(): the concatenation of the chunks = the refinement mapping
Flatten(H, x) == FlatSeq(H, x.cs, Fuel)

RECURSIVE CGetByte(_, _, _, _)
CGetByte(H, x, off, fuel) ==
    LET i == LoadIdx(x, off) IN
    IF i = 0 THEN 0
    ELSE LET e == x.cs[i]
             o == off - e.off
         IN IF Flat(e.c) THEN (IF o >= 0 /\ o < e.c.n THEN e.c.data[e.c.st + o + 1] ELSE -1)
            ELSE IF e.c.t = "N" THEN CGetByte(H, e.c.v, o, fuel)
            ELSE IF fuel = 0 THEN -1 ELSE CGetByte(H, H[e.c.r], o, fuel - 1)

-----------------------------------------------------------------------------
\* rebinding name d to a new object: the old object stays reachable only through the chunks that
\* hold it, so those references become values
RECURSIVE FreezeSeq(_, _, _)
FreezeChunk(H, d, c) ==
    IF Flat(c) THEN c
    ELSE IF c.t = "R" THEN (IF c.r = d THEN NC(H[d]) ELSE c)
    ELSE NC([len |-> c.v.len, cs |-> FreezeSeq(H, d, c.v.cs)])
FreezeSeq(H, d, cs) ==
    [j \in 1..Len(cs) |-> [off |-> cs[j].off, c |-> FreezeChunk(H, d, cs[j].c)]]
Freeze(H, d) == [u \in Vecs |-> [len |-> H[u].len, cs |-> FreezeSeq(H, d, H[u].cs)]]

\* the chunk a data argument becomes
ValOf(H, d) ==
    CASE d.k = "conc"  -> CC(d.bytes)
      [] d.k = "sym"   -> SC(SymData(d.s))
      [] d.k = "mixed" -> SC(d.bytes)
      [] d.k = "slice" -> NC(VSlice(H, H[d.w], d.a, d.a + d.n))
      [] d.k = "vec"   -> RC(d.w)
ValLen(H, val) == CLen(H, val)

CApply(H, c) ==
    CASE c.op = "SetByte"  -> [H EXCEPT ![c.v] = VSetByte(H, H[c.v], c.off, ValOf(H, c.data))]
      [] c.op \in {"SetSlice", "SetWord"} ->
            LET val == ValOf(H, c.data)
            IN [H EXCEPT ![c.v] = VSetSlice(H, H[c.v], c.off, c.off + ValLen(H, val), val)]
      [] c.op = "Append"   -> [H EXCEPT ![c.v] = VAppend(H, H[c.v], ValOf(H, c.data))]
      [] c.op = "Slice"    -> LET F == Freeze(H, c.v)      \* (the result is computed before the name is
                                  r == VSlice(F, F[c.src], c.a, c.b)  \* rebound; F and H read the same)
                              IN [F EXCEPT ![c.v] = r]
      [] c.op = "Copy"     -> LET F == Freeze(H, c.v)
                                  r == IF Mutant = "copyalias" /\ c.src # c.v /\ F[c.src].len > 0
                                       THEN [len |-> F[c.src].len, cs |-> <<[off |-> 0, c |-> RC(c.src)]>>]
                                       ELSE VCopy(F[c.src])
                              IN [F EXCEPT ![c.v] = r]

\* the case of the former finding bytevec-aligned-nested-alias (DESIGN section 7): a whole live vector
\* written exactly over one existing chunk.  It is part of the alphabet; histories are tagged with it so
\* that a disagreement after such a step is reported under that key
AliasCase(c) == /\ c.op = "SetSlice"
                /\ c.data.k = "vec"
                /\ IsAligned(cv, cv[c.v], c.off, c.off + cv[c.data.w].len)

\* which branch of the code a command takes (coverage bookkeeping only; see checks/c07.py)
Branch(H, c) ==
    LET flag(b, str) == IF b THEN str ELSE ""
    IN IF c.op \in {"SetSlice", "SetWord"} THEN
            LET x     == H[c.v]
                n     == ValLen(H, ValOf(H, c.data))
                start == c.off
                stop  == c.off + n
            IN IF n = 0 THEN "noop"
               ELSE IF start >= x.len THEN (IF start > x.len THEN "backfill-gap" ELSE "backfill")
               ELSE IF IsAligned(H, x, start, stop) /\ (Flat(ValOf(H, c.data)) \/ Mutant = "alignedref")
                    THEN "aligned"
               ELSE LET fi   == LoadIdx(x, start)
                        fe   == x.cs[fi]
                        li   == LoadIdx(x, stop - 1)
                        rto  == IF stop >= x.len THEN Len(x.cs) ELSE li
                        lend == IF li = 0 THEN 0 ELSE x.cs[li].off + CLen(H, x.cs[li].c)
                    IN "general" \o flag(start > fe.off, "+pre") \o flag(li # 0 /\ stop < lend, "+post")
                       \o flag(stop > x.len, "+extend") \o flag(rto >= fi + 1, "+remove")
                       \o flag(li = fi, "+same") \o flag(IsAligned(H, x, start, stop), "+wholechunk")
       ELSE IF c.op = "SetByte" THEN
            LET x == H[c.v] IN
            IF c.off >= x.len THEN (IF c.off > x.len THEN "byte-backfill-gap" ELSE "byte-backfill")
            ELSE LET e == x.cs[LoadIdx(x, c.off)]
                 IN "byte-inside" \o flag(c.off > e.off, "+pre")
                    \o flag(c.off + 1 < e.off + CLen(H, e.c), "+post")
       ELSE c.op

-----------------------------------------------------------------------------
Init == /\ FlatInit
        /\ cv = [v \in Vecs |-> EmptyVec]
        /\ hist = <<>>
        /\ indep = TRUE
        /\ depth = 0

Level == depth + 1

\* Pick = "random": up to three draws; if none is legal the step is a one-byte write
Choices ==
    IF Pick = "random"
    THEN LET P == Prof(Level)
             ok(c) == LegalCmd(P, heap, c)
             c1 == RandomCmd(P, heap)
             c2 == RandomCmd(P, heap)
             c3 == RandomCmd(P, heap)
         IN IF ok(c1) THEN {c1} ELSE IF ok(c2) THEN {c2} ELSE IF ok(c3) THEN {c3}
            ELSE {[op |-> "SetByte", v |-> 1, off |-> 0, data |-> [k |-> "conc", bytes |-> <<9>>]]}
    ELSE Cmds(Prof(Level), heap)

Next ==
    /\ Level <= Depth
    /\ depth' = depth + 1
    /\ \E c \in Choices :
         /\ heap' = Apply(heap, c)
         /\ cv' = CApply(cv, c)
         /\ hist' = Append(hist, [c |-> c, post |-> heap'[c.v], alias |-> AliasCase(c), br |-> Branch(cv, c)])
         /\ indep' = \A u \in Vecs \ {c.v} : Flatten(cv', cv'[u]) = Flatten(cv, cv[u])
         /\ CASE Emit = "all"  -> PrintT("JREC" \o ToJson(hist'))
              [] Emit = "leaf" -> (Level = Depth => PrintT("JREC" \o ToJson(hist')))
              [] OTHER -> TRUE

Spec == Init /\ [][Next]_cvars

-----------------------------------------------------------------------------
(* invariants *)

\* chunks contiguous from 0, non-empty, total = length (the code's _well_formed)
RECURSIVE Contig(_, _, _)
Contig(H, cs, at) ==
    IF Len(cs) = 0 THEN at
    ELSE IF Head(cs).off # at \/ CLen(H, Head(cs).c) <= 0 THEN -1
    ELSE Contig(H, Tail(cs), at + CLen(H, Head(cs).c))
WF(H, x) == Contig(H, x.cs, 0) = x.len
WellFormed == \A v \in Vecs : WF(cv, cv[v])

\* the refinement mapping
Refines == \A v \in Vecs : Flatten(cv, cv[v]) = heap[v] /\ cv[v].len = Len(heap[v])

\* a write to one vector changes no other vector (copy / slice / argument independence)
CopyIndependence == indep

\* the read API computes what the flat model reads, on a grid around the end of each vector
ReadLens == {1, 2, 3, W}
ReadsAgree ==
    \A v \in Vecs :
        LET x == cv[v]
            G == 0..(x.len + 2)
        IN /\ \A o \in G : CGetByte(cv, x, o, Fuel) = Rd(heap[v], o)
           /\ \A a \in G : \A n \in ReadLens :
                 LET s == VSlice(cv, x, a, a + n)
                 IN /\ WF(cv, s)
                    /\ s.len = n
                    /\ Flatten(cv, s) = SliceOf(heap[v], a, a + n)

\* printing wrappers: a violated invariant prints its history as JSON for the replay
\* (model = what the chunk model says the implementation will return from unwrap() and len())
Report(name) ==
    PrintT("JREC" \o ToJson([cex |-> name, hist |-> hist,
                             model |-> [v \in Vecs |-> Flatten(cv, cv[v])],
                             mlen |-> [v \in Vecs |-> cv[v].len],
                             flat |-> heap]))
InvWellFormed == WellFormed \/ (Report("WellFormed") /\ FALSE)
InvRefines == Refines \/ (Report("Refines") /\ FALSE)
InvCopyIndependence == CopyIndependence \/ (Report("CopyIndependence") /\ FALSE)
InvReadsAgree == ReadsAgree \/ (Report("ReadsAgree") /\ FALSE)
InvFlatTypeOK == FlatTypeOK
=============================================================================
