\* scenario generation for --cache-solver: success + two query paths, one unsat (with core) and one sat, every coarse order
SPECIFICATION Spec
CONSTANTS
  MinPaths = 3
  MaxPaths = 3
  Outcomes = {"success", "panic"}
  Replies = {"sat_valid", "unsat"}
  Replies2 = {"unsat"}
  StuckReplies = {"unsat"}
  EarlySet = {FALSE}
  CacheSet = {TRUE}
  RefinableSet = {FALSE}
  Threads = 4
  MaxPrev = 0
  PrevCodes = {0}
  RecordHist = TRUE
  Canon = FALSE
  Coarse = TRUE
  MutPrecedence = FALSE
  MutNoCatch = FALSE
  MutKilledEscapes = FALSE
  KilledMayRaise = TRUE
INVARIANTS TypeOK PassOnlyIfClean VerdictModuloKnown OrderIndependenceModuloKnown ExitNonZeroIffNotAllPass ValidNeverAbstract OneOutputPerQuery
