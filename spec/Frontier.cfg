SPECIFICATION Spec
CONSTANTS
  WB = 32
  MEMCAP = 1048576
VIEW view
INVARIANT InitReport
INVARIANT CallsReport
