\* liveness under weak fairness: no VIEW, no state constraint, no symmetry
SPECIFICATION FairSpec
CONSTANTS
  Jobs = {j1, j2}
  HasTimeout = {j1}
  IgnoresTerm = {j1}
  PopenMayFail = {j2}
  PreFix = FALSE
  CoarseCancel = FALSE
  Modes = {"none", "nowait", "wait"}
  Modes2 = {"none"}
  NeverExits = {}
\* Termination implies the other three (given ResultConsistent); they are checked one by one in MC_Executor_live_1.cfg
PROPERTIES Termination
