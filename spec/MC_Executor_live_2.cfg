\* liveness under weak fairness: no VIEW, no state constraint, no symmetry
SPECIFICATION FairSpec
CONSTANTS
  Jobs = {j1, j2}
  HasTimeout = {j1}
  IgnoresTerm = {j1}
  PopenMayFail = {j2}
  PreFix = FALSE
  CoarseCancel = FALSE
  Modes = {"none", "nowait", "wait"}
  Modes2 = {"none"}
  NeverExits = {}
PROPERTIES ResultEventually WaitReturns ShutdownReturns Termination
