SPECIFICATION Spec
CONSTANTS
  N = 5
  MaxLoop = 3
  MaxFaults = 2
INVARIANT NeverDropFeasible
INVARIANT SoundPaths
INVARIANT DeterminedLoopsNeverCut
INVARIANT FlagIsMeaningful
INVARIANT StackSmall
