\* validation of recorded event logs (file named by environment variable C17_TRACES)
SPECIFICATION TSpec
CONSTANTS
  Jobs = {"j1", "j2", "j3"}
  HasTimeout = {"j1", "j2", "j3"}
  IgnoresTerm = {}
  PopenMayFail = {"j1", "j2", "j3"}
  PreFix = FALSE
  CoarseCancel = TRUE
  Modes = {"none", "nowait", "wait"}
  Modes2 = {"none", "nowait", "wait"}
  NeverExits = {}
VIEW TView
INVARIANTS Accept
