SPECIFICATION Spec
CONSTANTS
  WB = 3
  Grid <- G3
  Grid3 <- G3T
  MaxExp = 300
INVARIANT BinOK
INVARIANT UnaOK
INVARIANT TerOK
