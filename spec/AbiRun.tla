------------------------------- MODULE AbiRun -------------------------------
(***************************************************************************)
(* Batch conformance run for C12.  Input (JSON file named by ABIRUN):      *)
(*   rnd   : entropy bytes for the generated argument tuples               *)
(*   cases : one record per signature                                      *)
(*     id, t     the parameter tuple type                                  *)
(*     tpl       the argument bytes of the calldata halmos built, every    *)
(*               leaf symbol instantiated with a recognisable value        *)
(*     amax      the allocation (maximal candidate of every dynamic node)  *)
(*     szpos     positions of the size symbols in tpl, in dyn_params order *)
(*     combos    the candidate combinations (one length per size symbol)   *)
(*     valc      combos for which the decoded leaf values are printed      *)
(*     genc      combos for which a generated argument tuple is encoded    *)
(* For every combination the size symbols are instantiated, the bytes are  *)
(* decoded by Abi!DecodeRaw and judged; one JSON record is printed per     *)
(* signature (layout) and per combination.                                 *)
(***************************************************************************)
EXTENDS AbiTypes, Json, IOUtils

In == JsonDeserialize(IOEnv.ABIRUN)
Cases == In.cases
Rnd == In.rnd

VARIABLES cid, ci, on
vars == <<cid, ci, on>>

RECURSIVE Leaves(_, _)
\* the leaves of a (raw) value in pre-order
Leaves(t, v) ==
    IF IsLeaf(t) THEN <<v>>
    ELSE LET ts == Elems(t, Len(v)) IN ConcatAll([i \in 1..Len(v) |-> Leaves(ts[i], v[i])], 1)

SpanRow(s) == <<s.k, s.lo, s.hi, s.tg, s.p>>

LayoutRec(c) ==
    LET full == Full(c.t, c.amax)
        lay == Layout(c.t, full)
        lens == SelectSpans(lay, "len")
    IN [id |-> c.id, kind |-> "layout",
        allocok |-> AllocOK(c.t, c.amax) /\ TypeOK(c.t),
        size |-> EncSize(c.t, full),
        lay |-> [i \in 1..Len(lay) |-> SpanRow(lay[i])],
        disjoint |-> SpansDisjoint(lay),
        lenpos |-> [i \in 1..Len(lens) |-> lens[i].lo],
        ndyn |-> Len(Chosen(c.t, c.amax))]

InSeq(x, s) == \E i \in 1..Len(s) : s[i] = x

ComboRec(c, k) ==
    LET cs == c.combos[k]
        a == TLCEval(Fill(c.t, c.amax, cs, 1))
        b == TLCEval(PutWords(c.tpl, [i \in 1..Len(c.szpos) |-> [lo |-> c.szpos[i], hi |-> c.szpos[i] + 32]], cs, 1))
        d == TLCEval(DecodeRaw(c.t, b))
        lf == SelectSpans(d.sp, "leaf")
        wantB == InSeq(k, c.genc)
        v == TLCEval(GenV(c.t, a, Rnd, c.id * 37 + k))
        B == TLCEval(EncodeGen(c.t, v, a))
        dB == TLCEval(Decode(c.t, B))
    IN [id |-> c.id, kind |-> "combo", ci |-> k,
        ok |-> d.ok, err |-> d.err, errpath |-> d.p,
        shapeok |-> d.ok /\ ShapeOf(c.t, d.v) = Reach(c.t, a),
        disjoint |-> d.ok /\ SpansDisjoint(d.sp),
        inside |-> d.ok /\ SpansInside(d.sp, Len(b)) /\ OffsetsForward(d.sp, Len(b)),
        spans |-> IF d.ok THEN [i \in 1..Len(d.sp) |-> SpanRow(d.sp[i])] ELSE <<>>,
        vals |-> IF d.ok /\ InSeq(k, c.valc) THEN Leaves(c.t, d.v) ELSE <<>>,
        hasB |-> wantB,
        B |-> IF wantB THEN B ELSE <<>>,
        Bok |-> IF wantB THEN ValueOK(c.t, v) /\ dB.ok /\ dB.v = Trunc(c.t, v, a) ELSE TRUE]

Init == cid \in 1..Len(Cases) /\ ci = -1 /\ on = FALSE
DoLayout == /\ ci = -1 /\ ci' = 0 /\ cid' = cid /\ on' = on
            /\ PrintT("JREC" \o ToJson(LayoutRec(Cases[cid])))
DoCombo == /\ ci = 0 /\ cid' = cid /\ on' = TRUE
           /\ ci' \in 1..Len(Cases[cid].combos)
           /\ PrintT("JREC" \o ToJson(ComboRec(Cases[cid], ci')))
Next == DoLayout \/ DoCombo
Spec == Init /\ [][Next]_vars

InvIds == cid \in 1..Len(Cases)
=============================================================================
