------------------------------ MODULE PathSlice ------------------------------
(***************************************************************************)
(* The dependency relation between the conditions of a path, and slicing.  *)
(*                                                                         *)
(* halmos keeps, for a path, the list of its conditions and an incremental *)
(* "related" map (Path.append); Path.slice(V) selects the conditions that  *)
(* constrain the variables V directly or through other conditions.  The    *)
(* selection is what a frontier state of invariant testing carries to the  *)
(* branching solver and what identifies the state for de-duplication, so   *)
(* it has to be the whole connected component: with x <= y and y < 4 on the *)
(* path, the slice for {x} contains both, in whatever order they came.     *)
(*                                                                         *)
(* A condition is abstracted to the set of variables it mentions.  Spec     *)
(* side: Component(conds, V), a least fixed point.  Model of the code:      *)
(* `related`, updated as Path.append does it (Algo = "component": every     *)
(* member of the merged group gets the new set; Algo = "backward": only the *)
(* new condition learns about earlier ones - the behaviour before fix       *)
(* f0cf83b, kept as a negative control that TLC must refute).  A path can   *)
(* fork (Path.branch copies the map shallowly) and both copies go on.       *)
(***************************************************************************)
EXTENDS Naturals, Sequences, FiniteSets, TLC, Json, SequencesExt

CONSTANTS Vars, MaxConds, Algo, Emit

CondSets == {S \in SUBSET Vars : Cardinality(S) \in {1, 2}}

VARIABLES paths,     \* sequence of paths; a path is [conds, related, base (length at which it was forked off)]
          forked     \* has the fork happened
vars == <<paths, forked>>

\* ---- specification: connected component of the conditions touching V
RECURSIVE Grow(_, _)
Grow(conds, I) ==
    LET vs == UNION {conds[i] : i \in I}
        J == {j \in 1..Len(conds) : conds[j] \cap vs # {}}
    IN IF J \subseteq I THEN I ELSE Grow(conds, I \cup J)
Component(conds, V) == Grow(conds, {i \in 1..Len(conds) : conds[i] \cap V # {}})

\* ---- model of Path.append / Path._get_related / Path.slice
GetRelated(p, V) ==
    LET direct == {i \in 1..Len(p.conds) : p.conds[i] \cap V # {}}
    IN direct \cup UNION {p.related[i] : i \in direct}
AppendCond(p, S) ==
    LET idx == Len(p.conds) + 1
        rel == GetRelated(p, S) \cup (IF Algo = "component" THEN {idx} ELSE {})
        newrel == [i \in 1..idx |->
                      IF i = idx THEN rel
                      ELSE IF Algo = "component" /\ i \in rel THEN rel
                      ELSE p.related[i]]
    IN [conds |-> Append(p.conds, S), related |-> newrel, base |-> p.base]
Slice(p, V) == GetRelated(p, V)

Empty == [conds |-> <<>>, related |-> <<>>, base |-> 0]
Init == paths = <<Empty>> /\ forked = FALSE

Add(k, S) == /\ Len(paths[k].conds) < MaxConds
             /\ paths' = [paths EXCEPT ![k] = AppendCond(paths[k], S)]
             /\ UNCHANGED forked
\* Path.branch(): the child starts with the same conditions and a (shallow) copy of the map
Fork == /\ ~forked /\ Len(paths[1].conds) >= 1
        /\ paths' = Append(paths, [paths[1] EXCEPT !.base = Len(paths[1].conds)])
        /\ forked' = TRUE
Next == (\E k \in 1..Len(paths), S \in CondSets : Add(k, S)) \/ Fork
Spec == Init /\ [][Next]_vars

\* the slice is the connected component, for every path and every set of state variables
SliceIsComponent ==
    \A k \in 1..Len(paths) : \A V \in SUBSET Vars :
        Slice(paths[k], V) = Component(paths[k].conds, V)
\* two paths with different constraint sets on the state variables never get the same slice
\* unless the slices are equal as sets of conditions (state identity is decided on the slice)
RelatedIsSymmetric ==
    \A k \in 1..Len(paths) : \A i, j \in 1..Len(paths[k].conds) :
        (Algo = "component") => (j \in paths[k].related[i] <=> i \in paths[k].related[j])

\* every complete history with its expected slices, for the replay into the real Path class
Report == (Emit /\ \A k \in 1..Len(paths) : Len(paths[k].conds) = MaxConds) =>
    PrintT("JREC" \o ToJson([paths |-> [k \in 1..Len(paths) |->
        [conds |-> paths[k].conds, base |-> paths[k].base,
         slices |-> LET Vs == SetToSeq((SUBSET Vars) \ {{}})
                    IN [n \in 1..Len(Vs) |-> [v |-> Vs[n], s |-> Component(paths[k].conds, Vs[n])]]]]]))
=============================================================================
