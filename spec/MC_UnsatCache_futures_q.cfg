\* only submitted_futures pins (term_to_vars not shared any more): CacheSound must still hold
SPECIFICATION Spec
CONSTANTS
  Ids = {1, 2, 3}
  Cons = {"a", "b", "c"}
  UnsatFamily = {{"a", "b"}}
  PinFutures = TRUE
  PinTermVars = FALSE
  MaxTests = 2
  MaxInflight = 1
  MaxCores = 1
INVARIANTS TypeOK HashConsed CacheSound CoresDenoteUnsat
PROPERTIES PinnedStable
