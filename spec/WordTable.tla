----------------------------- MODULE WordTable -----------------------------
(***************************************************************************)
(* Tables of expected results of the word-level EVM instructions, computed *)
(* by TLC from EvmWord and replayed into halmos (property C06).            *)
(*                                                                         *)
(* Mode "table" (WB = 1): for every operation and every first operand a    *)
(* one row with the results for all 256 second operands; ternary           *)
(* operations over the grid G3.                                            *)
(* Mode "vectors" (any WB): operand tuples come from the JSON file named   *)
(* by the environment variable VECTORS: [{op, a, b, c}] with byte arrays.  *)
(* One TLC state per row / vector, so the work is spread over the workers. *)
(***************************************************************************)
EXTENDS EvmWord, Json, IOUtils

CONSTANT Mode

Ops2 == <<"ADD", "MUL", "SUB", "DIV", "SDIV", "MOD", "SMOD", "EXP", "SIGNEXTEND", "LT", "GT", "SLT", "SGT", "EQ",
          "AND", "OR", "XOR", "BYTE", "SHL", "SHR", "SAR">>
Ops1 == <<"ISZERO", "NOT">>
Ops3 == <<"ADDMOD", "MULMOD">>

\* first argument = top of the stack
Op2(name, a, b) ==
    CASE name = "ADD" -> WAdd(a, b)   [] name = "MUL" -> WMul(a, b)   [] name = "SUB" -> WSub(a, b)
      [] name = "DIV" -> WDiv(a, b)   [] name = "SDIV" -> WSDiv(a, b) [] name = "MOD" -> WMod(a, b)
      [] name = "SMOD" -> WSMod(a, b) [] name = "EXP" -> WExp(a, b)   [] name = "SIGNEXTEND" -> WSignExtend(a, b)
      [] name = "LT" -> Bool2W(WLt(a, b))   [] name = "GT" -> Bool2W(WGt(a, b))
      [] name = "SLT" -> Bool2W(WSLt(a, b)) [] name = "SGT" -> Bool2W(WSGt(a, b))
      [] name = "EQ" -> Bool2W(a = b)
      [] name = "AND" -> WAnd(a, b)   [] name = "OR" -> WOr(a, b)     [] name = "XOR" -> WXor(a, b)
      [] name = "BYTE" -> WByte(a, b) [] name = "SHL" -> WShl(a, b)   [] name = "SHR" -> WShr(a, b)
      [] name = "SAR" -> WSar(a, b)
Op1(name, a) == CASE name = "ISZERO" -> Bool2W(WIsZero(a)) [] name = "NOT" -> WNot(a)
Op3(name, a, b, c) == CASE name = "ADDMOD" -> WAddMod(a, b, c) [] name = "MULMOD" -> WMulMod(a, b, c)

Apply(v) ==
    IF v.op \in {Ops1[i] : i \in 1..Len(Ops1)} THEN Op1(v.op, v.a)
    ELSE IF v.op \in {Ops3[i] : i \in 1..Len(Ops3)} THEN Op3(v.op, v.a, v.b, v.c)
    ELSE Op2(v.op, v.a, v.b)

G3 == {0, 1, 2, 3, 5, 7, 15, 16, 17, 31, 32, 63, 64, 100, 127, 128, 129, 200, 250, 253, 254, 255}
G3Seq == <<0, 1, 2, 3, 5, 7, 15, 16, 17, 31, 32, 63, 64, 100, 127, 128, 129, 200, 250, 253, 254, 255>>

Vectors == IF Mode = "vectors" THEN JsonDeserialize(IOEnv.VECTORS) ELSE <<>>

VARIABLE job
\* jobs of the table mode: <<2, opIndex, a>>, <<1, opIndex>>, <<3, opIndex, a, b>>
TableJobs == {<<2, o, a>> : o \in 1..Len(Ops2), a \in 0..255}
             \cup {<<1, o>> : o \in 1..Len(Ops1)}
             \cup {<<3, o, a, b>> : o \in 1..Len(Ops3), a \in G3, b \in G3}
Jobs == IF Mode = "table" THEN TableJobs ELSE {<<0, i>> : i \in 1..Len(Vectors)}

F(n) == WFromNat(n)
Row(j) ==
    CASE j[1] = 2 -> [op |-> Ops2[j[2]], a |-> j[3], r |-> [b \in 1..256 |-> Op2(Ops2[j[2]], F(j[3]), F(b - 1))[1]]]
      [] j[1] = 1 -> [op |-> Ops1[j[2]], a |-> -1, r |-> [a \in 1..256 |-> Op1(Ops1[j[2]], F(a - 1))[1]]]
      [] j[1] = 3 -> [op |-> Ops3[j[2]], a |-> j[3], b |-> j[4],
                      r |-> [k \in 1..Len(G3Seq) |-> Op3(Ops3[j[2]], F(j[3]), F(j[4]), F(G3Seq[k]))[1]]]
      [] j[1] = 0 -> [i |-> j[2], r |-> Apply(Vectors[j[2]])]

\* markers are integer tuples so that TLC can compare them with the job tuples
Init == job = <<-2>>
Next == \/ job = <<-2>> /\ job' \in Jobs
        \/ job \in Jobs /\ PrintT("JREC" \o ToJson(Row(job))) /\ job' = <<-1>> \o job
Spec == Init /\ [][Next]_job
=============================================================================
