\* refinement: medium grid at every level, depth 3
SPECIFICATION Spec
VIEW View
CONSTANTS
  NV = 2
  W = 4
  Depth = 3
  Emit = "none"
  Pick = "all"
  FullLevels = {}
  MedLevels = {1,2,3}
  TinyLevels = {}
  AliasLevels = {}
  XOffs = {}
  XLens = {}
  MaxLen = 9
  Mutant = "none"
  Prof <- ProfByLevel
INVARIANT InvFlatTypeOK
INVARIANT InvWellFormed
INVARIANT InvRefines
INVARIANT InvCopyIndependence
INVARIANT InvReadsAgree
