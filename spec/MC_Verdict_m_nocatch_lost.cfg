\* MUTANT (code before a19e257) - TLC MUST find a violation of NoLostCounterexampleStrict
SPECIFICATION Spec
CONSTANTS
  MinPaths = 1
  MaxPaths = 2
  Outcomes = {"success", "panic", "stuck"}
  Replies = {"sat_valid", "unsat", "unknown", "garbage"}
  Replies2 = {"unsat"}
  StuckReplies = {"unsat", "unknown"}
  EarlySet = {TRUE, FALSE}
  CacheSet = {FALSE}
  RefinableSet = {FALSE}
  Threads = 4
  MaxPrev = 0
  PrevCodes = {0}
  RecordHist = FALSE
  Canon = FALSE
  Coarse = FALSE
  MutPrecedence = FALSE
  MutNoCatch = TRUE
  MutKilledEscapes = FALSE
  KilledMayRaise = FALSE
INVARIANTS NoLostCounterexampleStrict
