\* liveness with two shutdown callers: s1 = shutdown(wait=True) (blocks in _join on j1, whose process never exits on
\* its own and has no time limit), s2 = shutdown(wait=False): s2 must release everybody (unless cancel-before-popen)
SPECIFICATION FairSpec
CONSTANTS
  Jobs = {j1, j2}
  HasTimeout = {j2}
  IgnoresTerm = {}
  PopenMayFail = {}
  PreFix = FALSE
  CoarseCancel = TRUE
  Modes = {"wait"}
  Modes2 = {"nowait"}
  NeverExits = {j1}
PROPERTIES ShutdownReturnsUnlessCbp WaitReturnsUnlessCbp TerminationUnlessCbp
