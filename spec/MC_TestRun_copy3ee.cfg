SPECIFICATION Spec
CONSTANTS
  Mode = "copy"
  EarlyExit = TRUE
  MaxLen = 3
INVARIANT EachTestStartsFromSetup
INVARIANT ResultIndependentOfHistory
INVARIANT ExecutorPrivate
