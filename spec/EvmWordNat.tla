---------------------------- MODULE EvmWordNat ----------------------------
(***************************************************************************)
(* The word-level EVM instructions written the obvious way, as arithmetic  *)
(* on naturals below M = 256^WB.  Usable only for WB <= 3 (TLC integers    *)
(* are 32 bit); it exists so that the limb algorithms of EvmWord, which    *)
(* serve as the 256-bit oracle, can themselves be model-checked.           *)
(***************************************************************************)
EXTENDS Integers
LOCAL INSTANCE Bitwise

CONSTANT WB
M == 256 ^ WB
HALF == M \div 2
NB == 8 * WB

RECURSIVE MulModSafe(_, _, _)
\* (a * b) mod m by doubling, no intermediate value above 2m  (a < m <= 2^24)
MulModSafe(a, b, m) ==
    IF b = 0 THEN 0
    ELSE LET h == MulModSafe((2 * a) % m, b \div 2, m)
         IN IF b % 2 = 1 THEN (h + a) % m ELSE h

S(a) == IF a >= HALF THEN a - M ELSE a          \* two's complement reading
U(x) == x % M                                   \* back to 0..M-1  (TLA+ % is non-negative)
Abs(x) == IF x < 0 THEN -x ELSE x
Sgn(x) == IF x < 0 THEN -1 ELSE 1

N_Add(a, b) == (a + b) % M
N_Sub(a, b) == (a - b) % M
N_Mul(a, b) == MulModSafe(a, b, M)
N_Div(a, b) == IF b = 0 THEN 0 ELSE a \div b
N_Mod(a, b) == IF b = 0 THEN 0 ELSE a % b
N_SDiv(a, b) == IF b = 0 THEN 0 ELSE U(Sgn(S(a)) * Sgn(S(b)) * (Abs(S(a)) \div Abs(S(b))))
N_SMod(a, b) == IF b = 0 THEN 0 ELSE U(Sgn(S(a)) * (Abs(S(a)) % Abs(S(b))))
N_AddMod(a, b, m) == IF m = 0 THEN 0 ELSE (a + b) % m
N_MulMod(a, b, m) == IF m = 0 THEN 0 ELSE MulModSafe(a % m, b, m)
RECURSIVE N_Exp(_, _)
N_Exp(a, e) == IF e = 0 THEN 1 % M ELSE MulModSafe(N_Exp(a, e - 1), a, M)
N_SignExtend(k, x) ==
    IF k >= WB - 1 THEN x
    ELSE LET bits == 8 * (k + 1)
             low  == x % (2 ^ bits)
         IN IF low >= 2 ^ (bits - 1) THEN low + (M - 2 ^ bits) ELSE low
N_Lt(a, b) == a < b
N_Gt(a, b) == a > b
N_SLt(a, b) == S(a) < S(b)
N_SGt(a, b) == S(a) > S(b)
N_And(a, b) == a & b
N_Or(a, b) == a | b
N_Xor(a, b) == a ^^ b
N_Not(a) == M - 1 - a
N_Byte(i, x) == IF i >= WB THEN 0 ELSE (x \div (256 ^ (WB - 1 - i))) % 256
N_Shl(s, x) == IF s >= NB THEN 0 ELSE MulModSafe(x, 2 ^ s, M)
N_Shr(s, x) == IF s >= NB THEN 0 ELSE x \div (2 ^ s)
N_Sar(s, x) == IF s >= NB THEN (IF x >= HALF THEN M - 1 ELSE 0) ELSE U(S(x) \div (2 ^ s))
=============================================================================
