SPECIFICATION Spec
CONSTANTS
  Mode = "copy"
  MaxLen = 3
INVARIANT EachTestStartsFromSetup
INVARIANT ResultIndependentOfHistory
