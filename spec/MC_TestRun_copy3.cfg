SPECIFICATION Spec
CONSTANTS
  Mode = "copy"
  EarlyExit = FALSE
  MaxLen = 3
INVARIANT EachTestStartsFromSetup
INVARIANT ResultIndependentOfHistory
