\* thorough: exactly 4 paths, reduced reply classes, with and without --early-exit, every interleaving
SPECIFICATION Spec
CONSTANTS
  MinPaths = 4
  MaxPaths = 4
  Outcomes = {"success", "revert", "panic", "stuck"}
  Replies = {"sat_valid", "unsat", "unknown", "garbage"}
  Replies2 = {"unsat"}
  StuckReplies = {"unsat", "unknown"}
  EarlySet = {TRUE, FALSE}
  CacheSet = {FALSE}
  RefinableSet = {FALSE}
  Threads = 4
  MaxPrev = 0
  PrevCodes = {0}
  RecordHist = FALSE
  Canon = FALSE
  Coarse = FALSE
  MutPrecedence = FALSE
  MutNoCatch = FALSE
  MutKilledEscapes = FALSE
  KilledMayRaise = TRUE
INVARIANTS TypeOK PassOnlyIfClean CleanPasses VerdictIsPrecedence OrderIndependence NoLostCounterexampleStrict OrderIndependenceNoEarly ExitNonZeroIffNotAllPass ValidNeverAbstract OneOutputPerQuery ShutdownOnlyAfterValid
