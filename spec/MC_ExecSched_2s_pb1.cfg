\* two shutdown callers: every schedule of 1 job with at most MaxPreempt preemptions (BFS, history in the state)
SPECIFICATION SpecH
CONSTANTS
  Jobs = {j1}
  HasTimeout = {}
  IgnoresTerm = {}
  PopenMayFail = {}
  PreFix = FALSE
  CoarseCancel = FALSE
  Modes = {"nowait", "wait"}
  Modes2 = {"nowait", "wait"}
  NeverExits = {j1}
  MaxPreempt = 1
CONSTRAINT Bounded
INVARIANTS Emit
