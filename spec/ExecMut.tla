------------------------------- MODULE ExecMut -------------------------------
(***************************************************************************)
(* Negative controls for the invariants/properties of Executor.tla: the    *)
(* model plus ONE deliberately wrong action. Each mutation must make the   *)
(* named property FAIL (checks/c17.py), otherwise the property is vacuous. *)
(***************************************************************************)
EXTENDS Executor

CONSTANT Mutation

Rest == <<mode, flag, lock, futures, proc, exc, hpc, snap, hidx, late, postret, early, sclosed>>

\* the worker delivers a second time                                -> ResultAtMostOnce
M_SetResultTwice(j) ==
    /\ wpc[j] = "done" /\ delivered[j] = 1
    /\ delivered' = [delivered EXCEPT ![j] = 2]
    /\ act' = L("wrk", j, "M_SetResultTwice")
    /\ UNCHANGED <<Rest, spc, wpc, seen, cpc>>

\* result() hands out the tuple although an exception is stored     -> TimeoutIsUnknown
M_ResultIgnoresExc(j) ==
    /\ spc[j] = "waiting" /\ delivered[j] >= 1
    /\ seen' = [seen EXCEPT ![j] = "tuple"]
    /\ spc' = [spc EXCEPT ![j] = "got"]
    /\ act' = L("sub", j, "M_ResultIgnoresExc")
    /\ UNCHANGED <<Rest, wpc, delivered, cpc>>

\* cancel() returns although the process is running                  -> QuiescentUnlessCbp
M_CancelSkips(j) ==
    /\ cpc[<<"s1", j>>] = "poll"
    /\ cpc' = [cpc EXCEPT ![<<"s1", j>>] = "done"]
    /\ act' = L("can", <<"s1", j>>, "M_CancelSkips")
    /\ UNCHANGED <<Rest, spc, wpc, delivered, seen>>

\* the worker finishes without set_result                            -> WaitReturns / ResultEventually
M_LostResult(j) ==
    /\ wpc[j] = "setresult"
    /\ wpc' = [wpc EXCEPT ![j] = "done"]
    /\ act' = L("wrk", j, "M_LostResult")
    /\ UNCHANGED <<Rest, spc, delivered, seen, cpc>>

\* submit() without the flag test                                    -> RejectAfterFlag
M_NoCheck(j) ==
    /\ spc[j] = "locked"
    /\ spc' = [spc EXCEPT ![j] = "checked"]
    /\ act' = L("sub", j, "M_NoCheck")
    /\ UNCHANGED <<Rest, wpc, delivered, seen, cpc>>

\* "idempotent shutdown": shutdown() returns at once when the flag is already set  -> QuiescentUnlessCbp,
\* ShutdownReturnsUnlessCbp (a shutdown(wait=False) arriving while a shutdown(wait=True) joins cancels nothing)
M_EarlyReturn(s) ==
    /\ hpc[s] = "idle" /\ mode[s] # "none" /\ flag
    /\ hpc' = [hpc EXCEPT ![s] = "returned"]
    /\ act' = L("shut", s, "M_EarlyReturn")
    /\ UNCHANGED <<mode, flag, lock, futures, proc, exc, snap, hidx, late, postret, early, sclosed, spc, wpc, delivered, seen, cpc>>

MutStep ==
    \/ Mutation = "early_return" /\ \E s \in Shuts : M_EarlyReturn(s)
    \/ \E j \in Jobs :
        \/ Mutation = "set_result_twice" /\ M_SetResultTwice(j)
        \/ Mutation = "result_ignores_exc" /\ M_ResultIgnoresExc(j)
        \/ Mutation = "cancel_skips" /\ M_CancelSkips(j)
        \/ Mutation = "lost_result" /\ M_LostResult(j)
        \/ Mutation = "no_check" /\ M_NoCheck(j)

\* with the early return the regular H_SetFlag is only taken when the flag is not yet set
NextMut ==
    \/ (Next /\ (Mutation = "early_return" => \A s \in Shuts : (hpc[s] = "idle" /\ hpc'[s] # "idle") => ~flag))
    \/ MutStep
SpecMut == Init /\ [][NextMut]_vars
FairSpecMut ==
    /\ SpecMut
    /\ \A j \in Jobs : WF_vars(SubNext(j)) /\ WF_vars(WrkNext(j) \/ M_LostResult(j))
    /\ \A s \in Shuts, j \in Jobs : WF_vars(CanNext(s, j))
    /\ \A j \in Jobs \ (HasTimeout \cup NeverExits) : WF_vars(Env_Exit(j))
    /\ \A s \in Shuts : WF_vars(ShutNext(s) \/ M_EarlyReturn(s))
=============================================================================
