------------------------------- MODULE ExecMut -------------------------------
(***************************************************************************)
(* Negative controls for the invariants/properties of Executor.tla: the    *)
(* model plus ONE deliberately wrong action. Each mutation must make the   *)
(* named property FAIL (checks/c17.py), otherwise the property is vacuous. *)
(***************************************************************************)
EXTENDS Executor

CONSTANT Mutation

Rest == <<mode, flag, lock, futures, proc, exc, hpc, snap, hidx, late, postret, early, sclosed>>

\* the worker delivers a second time                                -> ResultAtMostOnce
M_SetResultTwice(j) ==
    /\ wpc[j] = "done" /\ delivered[j] = 1
    /\ delivered' = [delivered EXCEPT ![j] = 2]
    /\ act' = L("wrk", j, "M_SetResultTwice")
    /\ UNCHANGED <<Rest, spc, wpc, seen, cpc>>

\* result() hands out the tuple although an exception is stored     -> TimeoutIsUnknown
M_ResultIgnoresExc(j) ==
    /\ spc[j] = "waiting" /\ delivered[j] >= 1
    /\ seen' = [seen EXCEPT ![j] = "tuple"]
    /\ spc' = [spc EXCEPT ![j] = "got"]
    /\ act' = L("sub", j, "M_ResultIgnoresExc")
    /\ UNCHANGED <<Rest, wpc, delivered, cpc>>

\* cancel() returns although the process is running                  -> QuiescentUnlessCbp
M_CancelSkips(j) ==
    /\ cpc[<<"h", j>>] = "poll"
    /\ cpc' = [cpc EXCEPT ![<<"h", j>>] = "done"]
    /\ act' = L("can", j, "M_CancelSkips")
    /\ UNCHANGED <<Rest, spc, wpc, delivered, seen>>

\* the worker finishes without set_result                            -> WaitReturns / ResultEventually
M_LostResult(j) ==
    /\ wpc[j] = "setresult"
    /\ wpc' = [wpc EXCEPT ![j] = "done"]
    /\ act' = L("wrk", j, "M_LostResult")
    /\ UNCHANGED <<Rest, spc, delivered, seen, cpc>>

\* submit() without the flag test                                    -> RejectAfterFlag
M_NoCheck(j) ==
    /\ spc[j] = "locked"
    /\ spc' = [spc EXCEPT ![j] = "checked"]
    /\ act' = L("sub", j, "M_NoCheck")
    /\ UNCHANGED <<Rest, wpc, delivered, seen, cpc>>

MutStep ==
    \E j \in Jobs :
        \/ Mutation = "set_result_twice" /\ M_SetResultTwice(j)
        \/ Mutation = "result_ignores_exc" /\ M_ResultIgnoresExc(j)
        \/ Mutation = "cancel_skips" /\ M_CancelSkips(j)
        \/ Mutation = "lost_result" /\ M_LostResult(j)
        \/ Mutation = "no_check" /\ M_NoCheck(j)

NextMut == Next \/ MutStep
SpecMut == Init /\ [][NextMut]_vars
FairSpecMut ==
    /\ SpecMut
    /\ \A j \in Jobs : WF_vars(SubNext(j)) /\ WF_vars(WrkNext(j) \/ M_LostResult(j)) /\ WF_vars(CanNext(j))
    /\ \A j \in Jobs \ HasTimeout : WF_vars(Env_Exit(j))
    /\ WF_vars(ShutNext)
=============================================================================
