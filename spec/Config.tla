------------------------------- MODULE Config -------------------------------
(***************************************************************************)
(* C18 - configuration precedence, annotation scoping and the syntax of    *)
(* the structured option values of halmos.                                  *)
(*                                                                         *)
(* Written from the documented behaviour (option help strings / metavars,   *)
(* the ConfigSource ordering stated in the documentation of the property,   *)
(* NatSpec's rule that a tag's content extends to the next tag), NOT from   *)
(* the implementation:                                                      *)
(*                                                                         *)
(*  - a configuration is a stack of layers; every layer has a source        *)
(*    (1 default < 2 config file < 3 contract annotation < 4 function       *)
(*    annotation < 5 command line) and sets a subset of the options;        *)
(*  - the effective value of an option is the one of the highest source     *)
(*    that sets it, the most recent layer winning among equals; None never  *)
(*    overrides;                                                            *)
(*  - --solver-command wins over --solver iff it is set (non-empty) and its *)
(*    source is at least the source of --solver;                            *)
(*  - TIMEOUT      ::= INT [ "ms" | "s" | "m" | "h" ]      (bare = ms)        *)
(*    ERROR_CODES  ::= "*" | CODE ("," CODE)*   CODE ::= INT | "0x" HEX+     *)
(*    LENGTHS      ::= INT ("," INT)*                                        *)
(*    ARRAY_LENGTHS::= "" | ENTRY ("," ENTRY)*                               *)
(*                     ENTRY ::= NAME "=" (INT | "{" INT ("," INT)* "}")     *)
(*    EVENTS       ::= EVENT ("," EVENT)*                                    *)
(*    every string is classified W (well formed: must parse to the stated   *)
(*    value), M (malformed: must be rejected) or L (lenient: the            *)
(*    documentation does not settle it - blanks, empty items, leading       *)
(*    zeros, signs, decimal fractions, digit-leading names, duplicate       *)
(*    names - no constraint).                                               *)
(*                                                                         *)
(* The module is used in two ways: TLC checks the design-level invariants   *)
(* below on every enumerated state, and the same run PRINTS every           *)
(* enumerated case with its expected outcome ("JREC" lines) for replay      *)
(* into the real code (harness/config_replay.py).                           *)
(***************************************************************************)
EXTENDS Integers, Sequences, FiniteSets, TLC, TLCExt, Json, IOUtils

CONSTANTS
  MaxL3,      \* stacks of <= MaxL3 layers over 3 options x {None, set}           (0 = family off)
  MaxL2,      \* stacks of <= MaxL2 layers over <<solver, solver_command>> x {None, set}
  MaxLE,      \* same, the command column ranging over {None, set, ""}
  MaxStr,     \* strings of length <= MaxStr over the 7-symbol alphabets             (0 = off)
  MaxTok,     \* token strings of length <= MaxTok for --trace-events                (0 = off)
  DoVals,     \* enumerate the values of the structured-option grammars (round trips)
  DoScope,    \* enumerate annotation placements
  DoValidate, \* classify/parse the strings of the JSON file named by C18_IN
  InvMax      \* the quadratic invariants (insertion of a layer anywhere) are checked on stacks <= InvMax

VARIABLES mode, stack, str

vars == <<mode, stack, str>>

-----------------------------------------------------------------------------
(* Generic helpers                                                          *)

None  == -1     \* the option is not set by the layer
Empty == -2     \* the empty string (only meaningful for solver_command: "no command")

Min(S) == CHOOSE x \in S : \A y \in S : x <= y

RECURSIVE SetToSeq(_)
SetToSeq(S) == IF S = {} THEN <<>> ELSE LET x == Min(S) IN <<x>> \o SetToSeq(S \ {x})

-----------------------------------------------------------------------------
(* 1. Precedence                                                             *)
(* A stack is a sequence of [source, values]; stack[Len] is the most recent *)
(* layer; values maps a column index to None or a value.                     *)

Sources == 1..5

Cand(st, o) == {i \in 1..Len(st) : st[i].values[o] # None}

Better(st, i, k) == \/ st[i].source > st[k].source
                    \/ (st[i].source = st[k].source /\ i >= k)

IsBest(st, o, i) == i \in Cand(st, o) /\ \A k \in Cand(st, o) : Better(st, i, k)

Best(st, o) == CHOOSE i \in Cand(st, o) : IsBest(st, o, i)

(* <<effective value, source of the layer that decides>> *)
RW(st, o) ==
  LET C == Cand(st, o) IN
  IF C = {} THEN <<None, 0>>
  ELSE LET b == CHOOSE i \in C : \A k \in C : Better(st, i, k)
       IN <<st[b].values[o], st[b].source>>

Resolve(st, o)       == RW(st, o)[1]
ResolveSource(st, o) == RW(st, o)[2]

(* The same thing said operationally: apply the layers oldest first; a      *)
(* layer replaces the current value when it sets the option and its source  *)
(* is not lower than the source of the current value.                       *)
RECURSIVE Fold(_, _, _, _)
Fold(st, o, i, acc) ==
  IF i > Len(st) THEN acc
  ELSE LET v == st[i].values[o] IN
       IF v # None /\ st[i].source >= acc[2]
       THEN Fold(st, o, i + 1, <<v, st[i].source>>)
       ELSE Fold(st, o, i + 1, acc)

ResolveOp(st, o) == Fold(st, o, 1, <<None, 0>>)

(* One step of that reading: the stack resolves to acc = <<value, source>>; a layer of   *)
(* source s that gives the option the value v (possibly None) is pushed.                  *)
Step(acc, v, s) == IF v # None /\ s >= acc[2] THEN <<v, s>> ELSE acc

(* --solver-command versus --solver (columns 1 = solver, 2 = solver_command) *)
(* rs, rc: <<value, source>> of --solver and of --solver-command                *)
CmdOf(rs, rc) ==
  IF rc[1] # None /\ rc[1] # Empty /\ rc[2] >= rs[2] THEN <<"c", rc[1]>>
  ELSE IF rs[1] # None THEN <<"s", rs[1]>>
  ELSE <<"u", None>>

ResolveSolverCommand(st) == CmdOf(RW(st, 1), RW(st, 2))

InsertAt(st, p, L) == SubSeq(st, 1, p) \o <<L>> \o SubSeq(st, p + 1, Len(st))

-----------------------------------------------------------------------------
(* 2. Enumerated stack families                                              *)
(* A cell is 0 (None), 1 (set to a token identifying the layer = its        *)
(* position) or 2 (set to the empty string).                                 *)

StackModes == {"S3", "S2", "SE"}

NCols(m) == IF m = "S3" THEN 3 ELSE 2

MaxLen(m) == CASE m = "S3" -> MaxL3 [] m = "S2" -> MaxL2 [] m = "SE" -> MaxLE

Masks3 == [i \in 1..8 |-> << ((i - 1) \div 4) % 2, ((i - 1) \div 2) % 2, (i - 1) % 2 >>]
Masks2 == [i \in 1..4 |-> << ((i - 1) \div 2) % 2, (i - 1) % 2 >>]
MasksE == [i \in 1..6 |-> << ((i - 1) \div 3) % 2, (i - 1) % 3 >>]

(* canonical order of the layers that can be pushed: every source x every mask *)
LayersOf(M) ==
  LET n == Len(M) IN
  [j \in 1..(5 * n) |-> [src |-> ((j - 1) \div n) + 1, set |-> M[((j - 1) % n) + 1]]]

Layers3 == TLCEval(LayersOf(Masks3))
Layers2 == TLCEval(LayersOf(Masks2))
LayersE == TLCEval(LayersOf(MasksE))

LayerSeq(m) == CASE m = "S3" -> Layers3 [] m = "S2" -> Layers2 [] m = "SE" -> LayersE

CellVal(cell, tok) == CASE cell = 0 -> None [] cell = 1 -> tok [] cell = 2 -> Empty

MatLayer(m, L, tok) ==
  [source |-> L.src, values |-> [c \in 1..NCols(m) |-> CellVal(L.set[c], tok)]]

Mat(m, cells) == TLCEval([i \in 1..Len(cells) |-> MatLayer(m, cells[i], i)])

(* default_config(): every option has a value (token 0); --solver-command defaults to "" *)
DefaultLayer(m) ==
  TLCEval([source |-> 1,
           values |-> [c \in 1..NCols(m) |-> IF m # "S3" /\ c = 2 THEN Empty ELSE 0]])

(* Encoding of the expected outcome of one stack as small integers (building strings  *)
(* in TLC is slow: every new string is interned under a global lock).                  *)
(*   cell  = (value + 2) * 6 + source   with value: Empty -2, None -1, default 0,      *)
(*           layer i -> i;  the columns are packed in base 48                          *)
(*   cmd   = kind * 8 + (value + 2)     kind: 0 undefined, 1 --solver, 2 --solver-command *)
CellCode(r) == (r[1] + 2) * 6 + r[2]

PackRs(rs) ==
  IF Len(rs) = 3
  THEN CellCode(rs[1]) + 48 * CellCode(rs[2]) + 2304 * CellCode(rs[3])
  ELSE CellCode(rs[1]) + 48 * CellCode(rs[2])

CmdCodeOf(r) == (CASE r[1] = "u" -> 0 [] r[1] = "s" -> 1 [] r[1] = "c" -> 2) * 8 + r[2] + 2

(* rv, rd: <<value, source>> per column on a void root and on default_config() *)
ExpectRs(m, rv, rd) ==
  IF m = "S3" THEN <<PackRs(rv), PackRs(rd)>>
  ELSE <<PackRs(rv), PackRs(rd),
         CmdCodeOf(CmdOf(rv[1], rv[2])) * 32 + CmdCodeOf(CmdOf(rd[1], rd[2]))>>

ResolveAll(m, st) == TLCEval([o \in 1..NCols(m) |-> RW(st, o)])

(* expected outcome for one stack, by the definition of Resolve *)
Expect(m, st, sd) == ExpectRs(m, ResolveAll(m, st), ResolveAll(m, sd))

ChildStr(m, cells) ==
  LET st == Mat(m, cells) IN Expect(m, st, TLCEval(<<DefaultLayer(m)>> \o st))

(* the outcome of pushing the layer L (token tok) on a stack that resolves to acc *)
StepAll(m, acc, L, tok) ==
  TLCEval([o \in 1..NCols(m) |-> Step(acc[o], CellVal(L.set[o], tok), L.src)])

(* One record per enumerated stack P: the outcomes of all its one-layer extensions,  *)
(* computed with Step from Resolve(P) (invariant StepIsResolve: this is Resolve of   *)
(* the extended stack).                                                               *)
StackRec(m, cells) ==
  LET LS == LayerSeq(m)
      P  == Mat(m, cells)
      n  == Len(cells)
      av == ResolveAll(m, P)
      ad == ResolveAll(m, TLCEval(<<DefaultLayer(m)>> \o P))
  IN
  [m   |-> m,
   src |-> [i \in 1..n |-> cells[i].src],
   set |-> [i \in 1..n |-> cells[i].set],
   r   |-> [j \in 1..Len(LS) |->
              ExpectRs(m, StepAll(m, av, LS[j], n + 1), StepAll(m, ad, LS[j], n + 1))]]

StackHdr(m) == [m |-> m, hdr |-> LayerSeq(m), self |-> ChildStr(m, <<>>)]

-----------------------------------------------------------------------------
(* 3. Grammars of the structured option values (strings = sequences of     *)
(*    one-character strings; for --trace-events sequences of tokens).        *)

Digit  == {"0", "1", "2", "3", "4", "5", "6", "7", "8", "9"}
Letter == {"a", "b", "c", "d", "e", "f", "x", "y", "z"}
HexDigit == Digit \cup {"a", "b", "c", "d", "e", "f"}

DigVal(c) ==
  CASE c = "0" -> 0 [] c = "1" -> 1 [] c = "2" -> 2 [] c = "3" -> 3 [] c = "4" -> 4
    [] c = "5" -> 5 [] c = "6" -> 6 [] c = "7" -> 7 [] c = "8" -> 8 [] c = "9" -> 9
    [] c = "a" -> 10 [] c = "b" -> 11 [] c = "c" -> 12 [] c = "d" -> 13 [] c = "e" -> 14
    [] c = "f" -> 15

DigChr(n) == <<"0", "1", "2", "3", "4", "5", "6", "7", "8", "9">>[n + 1]

IsDigits(s) == Len(s) > 0 /\ \A i \in 1..Len(s) : s[i] \in Digit

(* canonical decimal numeral *)
Canon(s) == IsDigits(s) /\ (Len(s) = 1 \/ s[1] # "0")

RECURSIVE BaseVal(_, _)
BaseVal(s, b) == IF s = <<>> THEN 0
                 ELSE b * BaseVal(SubSeq(s, 1, Len(s) - 1), b) + DigVal(s[Len(s)])

DecVal(s) == BaseVal(s, 10)

RECURSIVE DecStr(_)
DecStr(n) == IF n < 10 THEN <<DigChr(n)>> ELSE DecStr(n \div 10) \o <<DigChr(n % 10)>>

NoBlank(s) == SelectSeq(s, LAMBDA c : c # " ")

(* spellings of numbers that the documentation neither promises nor excludes: a sign, *)
(* digit-group underscores (1_000), leading zeros                                       *)
StripSign(x) == IF Len(x) > 0 /\ x[1] \in {"+", "-"} THEN Tail(x) ELSE x
Plain(x)     == SelectSeq(StripSign(x), LAMBDA c : c # "_")

RECURSIVE SplitAt(_, _)
SplitAt(s, P) ==
  IF P = {} THEN <<s>>
  ELSE LET i == Min(P) IN
       <<SubSeq(s, 1, i - 1)>> \o SplitAt(SubSeq(s, i + 1, Len(s)), {p - i : p \in P \ {i}})

Split(s, sep) == SplitAt(s, {i \in 1..Len(s) : s[i] = sep})

NonEmpty(items) == SelectSeq(items, LAMBDA x : x # <<>>)

RECURSIVE Join(_, _)
Join(items, sep) ==
  IF items = <<>> THEN <<>>
  ELSE IF Len(items) = 1 THEN items[1]
  ELSE items[1] \o <<sep>> \o Join(Tail(items), sep)

All(items, P(_)) == \A i \in 1..Len(items) : P(items[i])

(* ---- LENGTH1,LENGTH2,... (default-array-lengths, default-bytes-lengths) --- *)

CsvAlpha == <<"0", "1", "a", ",", " ", "-">>

CsvStrict(s) == All(Split(s, ","), Canon)

CsvValue(s) == LET it == Split(s, ",") IN [i \in 1..Len(it) |-> DecVal(it[i])]

LooseInt(x) == IsDigits(Plain(x))

CsvTolerant(s) ==
  LET it == NonEmpty(Split(NoBlank(s), ",")) IN Len(it) > 0 /\ All(it, LooseInt)

(* ---- ERROR_CODE1,ERROR_CODE2,... | * -------------------------------------- *)

ErrAlpha == <<"0", "1", "x", "a", ",", "*", " ">>

IsHex(x) == /\ Len(x) > 2
            /\ x[1] = "0"
            /\ x[2] = "x"
            /\ \A i \in 3..Len(x) : x[i] \in HexDigit

CodeStrict(x) == Canon(x) \/ IsHex(x)
(* "multiple bases": 0x.., 0b.., 0o.. *)
IsBased(x) == /\ Len(x) > 2
              /\ x[1] = "0"
              /\ x[2] \in {"x", "X", "b", "B", "o", "O"}
              /\ \A i \in 3..Len(x) : x[i] \in HexDigit \cup {"A", "B", "C", "D", "E", "F"}
CodeLoose(x)  == IsDigits(Plain(x)) \/ IsBased(Plain(x))
CodeVal(x)    == IF IsHex(x) THEN BaseVal(SubSeq(x, 3, Len(x)), 16) ELSE DecVal(x)

ErrStrict(s) == s = <<"*">> \/ All(Split(s, ","), CodeStrict)

(* the value is a set of codes; "*" (every code) is written {-1} *)
AllCodes == {-1}

ErrValue(s) ==
  IF s = <<"*">> THEN AllCodes
  ELSE LET it == Split(s, ",") IN {CodeVal(it[i]) : i \in 1..Len(it)}

ErrTolerant(s) ==
  LET it == NonEmpty(Split(NoBlank(s), ",")) IN
  it = << <<"*">> >> \/ (Len(it) > 0 /\ All(it, CodeLoose))

(* ---- NAME1={LENGTH1,LENGTH2,...},NAME2=LENGTH3,... ----------------------- *)

ArrAlpha == <<"1", "a", "=", "{", "}", ",", " ">>

Depth(s, i) == Cardinality({j \in 1..(i - 1) : s[j] = "{"})
               - Cardinality({j \in 1..(i - 1) : s[j] = "}"})

SplitTop(s) == SplitAt(s, {i \in 1..Len(s) : s[i] = "," /\ Depth(s, i) = 0})

NameLoose(n)  == Len(n) > 0 /\ \A i \in 1..Len(n) : n[i] \in Letter \cup Digit
NameStrict(n) == NameLoose(n) /\ n[1] \in Letter

Braced(r) == Len(r) >= 2 /\ r[1] = "{" /\ r[Len(r)] = "}"
Inner(r)  == SubSeq(r, 2, Len(r) - 1)

SizesStrict(r) == Canon(r) \/ (Braced(r) /\ All(Split(Inner(r), ","), Canon))

SizesLoose(r) ==
  \/ IsDigits(r)
  \/ (Braced(r) /\ LET it == NonEmpty(Split(Inner(r), ",")) IN Len(it) > 0 /\ All(it, IsDigits))

SizesVal(r) ==
  IF Braced(r)
  THEN LET it == Split(Inner(r), ",") IN [i \in 1..Len(it) |-> DecVal(it[i])]
  ELSE <<DecVal(r)>>

HasEq(e)    == \E i \in 1..Len(e) : e[i] = "="
EqPos(e)    == Min({i \in 1..Len(e) : e[i] = "="})
EntryName(e)  == SubSeq(e, 1, EqPos(e) - 1)
EntrySizes(e) == SubSeq(e, EqPos(e) + 1, Len(e))

EntryStrict(e) == HasEq(e) /\ NameStrict(EntryName(e)) /\ SizesStrict(EntrySizes(e))
EntryLoose(e)  == HasEq(e) /\ NameLoose(EntryName(e)) /\ SizesLoose(EntrySizes(e))

ArrStrict(s) ==
  \/ s = <<>>
  \/ LET es == SplitTop(s) IN
     /\ All(es, EntryStrict)
     /\ \A i, j \in 1..Len(es) : i # j => EntryName(es[i]) # EntryName(es[j])

(* a map is the set of its <<name, sizes>> pairs *)
ArrValue(s) ==
  IF s = <<>> THEN {}
  ELSE LET es == SplitTop(s) IN {<<EntryName(es[i]), SizesVal(EntrySizes(es[i]))>> : i \in 1..Len(es)}

ArrTolerant(s) == All(NonEmpty(SplitTop(NoBlank(s))), EntryLoose)

(* the same grammar over an alphabet of larger chunks, so that short chunk strings reach *)
(* several entries and braced lists ("x={1,2},y1=3")                                    *)
ArrChunks == <<"x=", "y1=", "{1,2}", "{", "}", ",", "3">>

ChunkChars(c) ==
  CASE c = "x=" -> <<"x", "=">> [] c = "y1=" -> <<"y", "1", "=">>
    [] c = "{1,2}" -> <<"{", "1", ",", "2", "}">>
    [] OTHER -> <<c>>

RECURSIVE Flat(_)
Flat(cs) == IF cs = <<>> THEN <<>> ELSE ChunkChars(Head(cs)) \o Flat(Tail(cs))

(* ---- TIMEOUT --------------------------------------------------------------- *)
(* value = <<seconds, microseconds>>                                            *)

TimeAlpha == <<"0", "1", "m", "s", "h", ".", " ">>

UnitSplit(s) ==
  LET n == Len(s) IN
  IF n >= 2 /\ s[n - 1] = "m" /\ s[n] = "s" THEN <<SubSeq(s, 1, n - 2), "ms">>
  ELSE IF n >= 1 /\ s[n] \in {"s", "m", "h"} THEN <<SubSeq(s, 1, n - 1), s[n]>>
  ELSE <<s, "">>

TimeStrict(s) == Canon(UnitSplit(s)[1])

TimeValue(s) ==
  LET u == UnitSplit(s)
      n == DecVal(u[1])
  IN CASE u[2] \in {"ms", ""} -> <<n \div 1000, (n % 1000) * 1000>>
       [] u[2] = "s" -> <<n, 0>>
       [] u[2] = "m" -> <<60 * n, 0>>
       [] u[2] = "h" -> <<3600 * n, 0>>

Mantissa(x) ==
  /\ \E i \in 1..Len(x) : x[i] \in Digit
  /\ \A i \in 1..Len(x) : x[i] \in Digit \cup {"."}
  /\ Cardinality({i \in 1..Len(x) : x[i] = "."}) <= 1

(* decimal fractions and exponents are not documented for timeouts, nor excluded *)
NumLoose(x) ==
  LET parts == Split(Plain(x), "e") IN
  /\ Len(parts) \in {1, 2}
  /\ Mantissa(parts[1])
  /\ Len(parts) = 2 => IsDigits(StripSign(parts[2]))

TimeTolerant(s) == NumLoose(UnitSplit(NoBlank(s))[1])

(* ---- EVENT1,EVENT2,... (tokens) -------------------------------------------- *)

Events   == {"LOG", "SSTORE", "SLOAD"}
EvtAlpha == <<"LOG", "SLOAD", "log", ",", " ">>

EvtItem(x) == Len(x) = 1 /\ x[1] \in Events

EvtStrict(s) == All(Split(s, ","), EvtItem)
EvtValue(s)  == LET it == Split(s, ",") IN [i \in 1..Len(it) |-> it[i][1]]
EvtTolerant(s) == All(NonEmpty(Split(NoBlank(s), ",")), EvtItem)

(* ---- dispatch ---------------------------------------------------------------- *)

StrModes == {"T", "E", "C", "A", "B"}
TokModes == {"V"}

Alpha(k) == CASE k = "T" -> TimeAlpha [] k = "E" -> ErrAlpha [] k = "C" -> CsvAlpha
              [] k = "A" -> ArrAlpha [] k = "B" -> ArrChunks [] k = "V" -> EvtAlpha

Strict(k, s) == CASE k = "T" -> TimeStrict(s) [] k = "E" -> ErrStrict(s) [] k = "C" -> CsvStrict(s)
                  [] k = "A" -> ArrStrict(s) [] k = "B" -> ArrStrict(Flat(s)) [] k = "V" -> EvtStrict(s)

Tolerant(k, s) == CASE k = "T" -> TimeTolerant(s) [] k = "E" -> ErrTolerant(s)
                    [] k = "C" -> CsvTolerant(s) [] k = "A" -> ArrTolerant(s)
                    [] k = "B" -> ArrTolerant(Flat(s))
                    [] k = "V" -> EvtTolerant(s)

Parse(k, s) == CASE k = "T" -> TimeValue(s) [] k = "E" -> ErrValue(s) [] k = "C" -> CsvValue(s)
                 [] k = "A" -> ArrValue(s) [] k = "B" -> ArrValue(Flat(s)) [] k = "V" -> EvtValue(s)

(* "W" value | "L" | "M" *)
Outcome(k, s) == IF Strict(k, s) THEN <<"W", Parse(k, s)>>
                 ELSE IF Tolerant(k, s) THEN <<"L">>
                 ELSE <<"M">>

MaxStrLen(k) == IF k \in TokModes THEN MaxTok ELSE MaxStr

StrRec(k, s) ==
  LET A == Alpha(k) IN
  [m |-> k, s |-> s, r |-> [j \in 1..Len(A) |-> Outcome(k, Append(s, A[j]))]]

StrHdr(k) == [m |-> k, alpha |-> Alpha(k), self |-> Outcome(k, <<>>)]

(* ---- canonical unparse (a witness that the documented syntax can express   *)
(*      every value of the domain)                                             *)

TimeUnparse(v) ==
  IF v[2] = 0 THEN DecStr(v[1]) \o <<"s">>
  ELSE DecStr(v[1] * 1000 + v[2] \div 1000) \o <<"m", "s">>

ErrUnparse(v) ==
  IF v = AllCodes THEN <<"*">>
  ELSE LET q == SetToSeq(v) IN Join([i \in 1..Len(q) |-> DecStr(q[i])], ",")

CsvUnparse(v) == Join([i \in 1..Len(v) |-> DecStr(v[i])], ",")

(* an arbitrary but fixed order of the entries of a map *)
RECURSIVE EntrySeq(_)
EntrySeq(S) == IF S = {} THEN <<>> ELSE LET e == CHOOSE x \in S : TRUE IN <<e>> \o EntrySeq(S \ {e})

ArrUnparse(v) ==
  LET q == EntrySeq(v) IN
  Join([i \in 1..Len(q) |-> q[i][1] \o <<"=", "{">> \o CsvUnparse(q[i][2]) \o <<"}">>], ",")

EvtUnparse(v) == Join([i \in 1..Len(v) |-> <<v[i]>>], ",")

Unparse(k, v) == CASE k = "T" -> TimeUnparse(v) [] k = "E" -> ErrUnparse(v) [] k = "C" -> CsvUnparse(v)
                   [] k = "A" -> ArrUnparse(v) [] k = "V" -> EvtUnparse(v)

(* ---- value domains (up to a size bound) -------------------------------------- *)

SeqsUpTo(S, lo, hi) == UNION {[1..n -> S] : n \in lo..hi}

SecGrid == {0, 1, 2, 59, 60, 61, 3599, 3600, 3601}
MsGrid  == {0, 1, 2, 200, 500, 999}
SubMsGrid == {500, 1500, 999999}          \* microseconds that are not whole milliseconds

TimeVals    == {<<s, ms * 1000>> : s \in SecGrid, ms \in MsGrid}
TimeSubVals == {<<s, us>> : s \in {0, 1, 60}, us \in SubMsGrid}

CodeGrid == {0, 1, 18, 256}
ErrVals  == {AllCodes} \cup ((SUBSET CodeGrid) \ {{}})

CsvVals == SeqsUpTo({0, 1, 2, 65}, 1, 3)

ArrNames == {<<"x">>, <<"y", "1">>}
ArrSizes == SeqsUpTo({0, 1, 2}, 1, 3)
ArrVals  == UNION {[N -> ArrSizes] : N \in SUBSET ArrNames}
MapPairs(f) == {<<n, f[n]>> : n \in DOMAIN f}

EvtVals == SeqsUpTo(Events, 1, 3)

(* values given in a config file with a TOML type other than string: a timeout may be *)
(* a number (of milliseconds); every other structured option is a string              *)
TomlLits == << [n |-> "0",    int |-> TRUE,  s |-> <<"0">>],
               [n |-> "1",    int |-> TRUE,  s |-> <<"1">>],
               [n |-> "1000", int |-> TRUE,  s |-> <<"1", "0", "0", "0">>],
               [n |-> "1.5",  int |-> FALSE, s |-> <<"1", ".", "5">>],
               [n |-> "true", int |-> FALSE, s |-> <<>>],
               [n |-> "false", int |-> FALSE, s |-> <<>>],
               [n |-> "[]",   int |-> FALSE, s |-> <<>>],
               [n |-> "[1]",  int |-> FALSE, s |-> <<>>] >>

TomlOutcome(k, L) ==
  IF k = "T" /\ L.int THEN Outcome("T", L.s)
  ELSE IF k = "T" /\ L.n = "1.5" THEN <<"L">>
  ELSE <<"M">>

TomlRec(k, i) == [m |-> "TS", k |-> k, lit |-> TomlLits[i].n, o |-> TomlOutcome(k, TomlLits[i])]

(* a few strings outside the small alphabets.  The words nan / inf / -inf (accepted by halmos, *)
(* because it parses numbers with float()) are deliberately not probed: no documentation says  *)
(* whether they are timeouts, so the specification leaves them unconstrained.                   *)
Probes ==
  << <<"T", <<"1", "e", "1">>>>, <<"T", <<"-", "1", "s">>>>, <<"T", <<"1", "_", "0">>>>,
     <<"T", <<"2", "0", "0", "m", "s">>>>, <<"T", <<"5", "s">>>>, <<"T", <<"2", "m">>>>, <<"T", <<"1", "h">>>>,
     <<"T", <<"1", "x">>>>, <<"T", <<"1", "d">>>>,
     <<"E", <<"0", "b", "1">>>>, <<"E", <<"0", "o", "7">>>>, <<"E", <<"-", "1">>>>,
     <<"E", <<"0", "x", "f", "f">>>>, <<"E", <<"0", "x", "0", "1", ",", "0", "x", "1", "2">>>>,
     <<"E", <<"1", "g">>>>, <<"E", <<"0", "x", "g">>>>,
     <<"C", <<"+", "1">>>>, <<"C", <<"1", "_", "0">>>>, <<"C", <<"0", ",", "6", "5", ",", "1", "0", "2", "4">>>>,
     <<"C", <<"1", ".", "5">>>>, <<"C", <<"1", ";", "2">>>>,
     <<"A", <<"x", "=", "-", "1">>>>, <<"A", <<"x", "=", "1", ";", "y", "=", "2">>>>,
     <<"A", <<"x", "=", "{", "6", "5", ",", "1", "0", "2", "4", "}", ",", "y", "1", "=", "3">>>> >>

ProbeRec(i) == [m |-> "X", k |-> Probes[i][1], s |-> Probes[i][2], o |-> Outcome(Probes[i][1], Probes[i][2])]

ValRec(k, v, doc) == [m |-> "RT", k |-> k, v |-> v, doc |-> doc,
                      u |-> IF doc THEN Unparse(k, v) ELSE <<>>]

-----------------------------------------------------------------------------
(* 4. Annotation scoping                                                      *)
(* Two contracts with three functions each (function 0 is setUp()); a        *)
(* placement is the set of annotated sites; every site carries its own       *)
(* value.  Layers are pushed in the order default, config file, command      *)
(* line, contract annotation, function annotation (the annotations are read  *)
(* after the command line was parsed): only the source decides.              *)

Contracts == {1, 2}
Funs      == {0, 1, 2}
CSite(c)    == 10 * c               \* site ids: 10, 20 contracts; 11.. functions
FSite(c, f) == 10 * c + f + 1
AllSites == {CSite(c) : c \in Contracts} \cup {FSite(c, f) : c \in Contracts, f \in Funs}

\* a layer of the scoping model sets two options: column 1 `loop` (an integer), column 2 a boolean flag (`no-status`)
Lay(src, v, fl) == [source |-> src, values |-> <<v, fl>>]

\* flagAt: where the flag is switched on - 0 nowhere, 2 in halmos.toml, 3 in the annotation of contract 1.  No other
\* layer mentions it, and a layer that does not mention an option leaves it alone - in particular the command line,
\* which is parsed in every run, also when it says nothing.
ScopeStack(file, cli, sites, flagAt, c, f) ==
  <<Lay(1, 2, 0)>>
  \o (IF file THEN <<Lay(2, 5, IF flagAt = 2 THEN 1 ELSE None)>> ELSE <<>>)
  \o <<Lay(5, IF cli THEN 7 ELSE None, None)>>
  \o (IF CSite(c) \in sites \/ (flagAt = 3 /\ c = 1)
      THEN <<Lay(3, IF CSite(c) \in sites THEN 100 + CSite(c) ELSE None, IF flagAt = 3 /\ c = 1 THEN 1 ELSE None)>> ELSE <<>>)
  \o (IF FSite(c, f) \in sites THEN <<Lay(4, 100 + FSite(c, f), None)>> ELSE <<>>)

ScopeRec(file, cli, sites, flagAt) ==
  [m |-> "SC", file |-> file, cli |-> cli, sites |-> sites, flagAt |-> flagAt,
   exp |-> [c \in Contracts |-> [f1 \in 1..3 |->
              <<Resolve(ScopeStack(file, cli, sites, flagAt, c, f1 - 1), 1),
                ResolveSource(ScopeStack(file, cli, sites, flagAt, c, f1 - 1), 1),
                Resolve(ScopeStack(file, cli, sites, flagAt, c, f1 - 1), 2),
                ResolveSource(ScopeStack(file, cli, sites, flagAt, c, f1 - 1), 2)>>]]]

(* NatSpec text of a contract: a sequence of segments.  The content of a tag *)
(* extends to the next tag; only @custom:halmos segments contribute.         *)
(*   "P" plain text "--loop 9" (continues the previous tag, if any)          *)
(*   "H" @custom:halmos --loop <10+position>                                  *)
(*   "W" @custom:halmos --width 3                                             *)
(*   "N" @notice --loop 9                                                     *)
(*   "O" @custom:halmoss --loop 9   (another tag with a similar name)         *)
SegKinds == <<"P", "H", "W", "N", "O">>

IsTag(k) == k # "P"

(* which tag governs segment i *)
RECURSIVE Gov(_, _)
Gov(segs, i) == IF i = 0 THEN "none" ELSE IF IsTag(segs[i]) THEN segs[i] ELSE Gov(segs, i - 1)

HalmosCtl(segs, i) == Gov(segs, i) \in {"H", "W"}

(* values of --loop given to halmos, in order; --width likewise *)
NatLoops(segs) ==
  {IF segs[i] = "H" THEN 10 + i ELSE 9 : i \in {j \in 1..Len(segs) : HalmosCtl(segs, j) /\ segs[j] \in {"H", "P"}}}
NatWidth(segs) == \E i \in 1..Len(segs) : segs[i] = "W"

NatRec(segs) == [m |-> "NS", segs |-> segs, loops |-> NatLoops(segs), width |-> NatWidth(segs)]

NatSegs == SeqsUpTo({"P", "H", "W", "N", "O"}, 0, 3)

-----------------------------------------------------------------------------
(* 5. Validation of strings produced by the implementation (unparse output)  *)

Input == IF DoValidate THEN JsonDeserialize(IOEnv.C18_IN) ELSE <<>>

ValidateRec(i) ==
  LET it == Input[i] IN [m |-> "VD", id |-> it.id, o |-> Outcome(it.k, it.s)]

-----------------------------------------------------------------------------
(* 6. State graph: one state per enumerated parent; the record of a state    *)
(* lists the outcomes of all its one-step extensions.                         *)

Emit(rec) == PrintT("JREC" \o ToJson(rec))

InitStack == /\ \E m \in StackModes : MaxLen(m) > 0 /\ mode = m /\ Emit(StackHdr(m))
             /\ stack = <<>>
             /\ str = <<>>

InitStr == /\ \E k \in StrModes \cup TokModes : MaxStrLen(k) > 0 /\ mode = k /\ Emit(StrHdr(k))
           /\ stack = <<>>
           /\ str = <<>>

InitVals ==
  /\ DoVals
  /\ mode = "RT"
  /\ stack = <<>>
  /\ \/ \E v \in TimeVals : str = <<"T", v>> /\ Emit(ValRec("T", v, TRUE))
     \/ \E v \in TimeSubVals : str = <<"t", v>> /\ Emit(ValRec("T", v, FALSE))
     \/ \E v \in ErrVals : str = <<"E", v>> /\ Emit(ValRec("E", v, TRUE))
     \/ \E v \in CsvVals : str = <<"C", v>> /\ Emit(ValRec("C", v, TRUE))
     \/ \E f \in ArrVals : str = <<"A", MapPairs(f)>> /\ Emit(ValRec("A", MapPairs(f), TRUE))
     \/ \E v \in EvtVals : str = <<"V", v>> /\ Emit(ValRec("V", v, TRUE))
     \/ \E k \in {"T", "E", "C", "A", "V"} : \E i \in 1..Len(TomlLits) :
           str = <<"toml", k, i>> /\ Emit(TomlRec(k, i))
     \/ \E i \in 1..Len(Probes) : str = <<"probe", i>> /\ Emit(ProbeRec(i))

InitScope ==
  /\ DoScope
  /\ stack = <<>>
  /\ \/ /\ mode = "SC"
        /\ \E file \in BOOLEAN, cli \in BOOLEAN, sites \in SUBSET AllSites, flagAt \in {0, 2, 3} :
              /\ flagAt = 2 => file
              /\ str = <<file, cli, sites, flagAt>>
              /\ Emit(ScopeRec(file, cli, sites, flagAt))
     \/ /\ mode = "NS"
        /\ \E segs \in NatSegs : str = segs /\ Emit(NatRec(segs))

InitValidate ==
  /\ DoValidate
  /\ mode = "VD"
  /\ stack = <<>>
  /\ \E i \in 1..Len(Input) : str = <<i>> /\ Emit(ValidateRec(i))

Init == InitStack \/ InitStr \/ InitVals \/ InitScope \/ InitValidate

PushLayer ==
  /\ mode \in StackModes
  /\ Len(stack) < MaxLen(mode)
  /\ Emit(StackRec(mode, stack))
  /\ Len(stack) < MaxLen(mode) - 1
  /\ \E j \in 1..Len(LayerSeq(mode)) : stack' = Append(stack, LayerSeq(mode)[j])
  /\ UNCHANGED <<mode, str>>

AppendSymbol ==
  /\ mode \in StrModes \cup TokModes
  /\ Len(str) < MaxStrLen(mode)
  /\ Emit(StrRec(mode, str))
  /\ Len(str) < MaxStrLen(mode) - 1
  /\ \E j \in 1..Len(Alpha(mode)) : str' = Append(str, Alpha(mode)[j])
  /\ UNCHANGED <<mode, stack>>

Next == PushLayer \/ AppendSymbol

Spec == Init /\ [][Next]_vars

-----------------------------------------------------------------------------
(* 7. Design-level properties checked by TLC on every enumerated state         *)

(* (a stack on top of default_config() is itself a member of the family: it starts with a *)
(* layer of source 1 that sets every option)                                              *)
Stacks(m) == {Mat(m, stack)}

(* Resolve is a function of the stack: the winning layer exists and is unique *)
ResolveIsFunction ==
  mode \in StackModes =>
    \A st \in Stacks(mode) : \A o \in 1..NCols(mode) :
      Cand(st, o) # {} => Cardinality({i \in 1..Len(st) : IsBest(st, o, i)}) = 1

(* the declarative and the operational reading of "precedence" agree *)
ResolveAgreesWithFold ==
  mode \in StackModes =>
    \A st \in Stacks(mode) : \A o \in 1..NCols(mode) :
      ResolveOp(st, o) = <<Resolve(st, o), ResolveSource(st, o)>>

(* the records printed for replay (Step from the parent's Resolve) are Resolve of the  *)
(* extended stack: for every extension of the stacks <= InvMax, a quarter of them beyond *)
StepIsResolve ==
  mode \in StackModes =>
    LET LS == LayerSeq(mode)
        P  == Mat(mode, stack)
        PD == TLCEval(<<DefaultLayer(mode)>> \o P)
        n  == Len(stack)
        R  == StackRec(mode, stack).r
    IN \A j \in 1..Len(LS) :
         (n <= InvMax \/ j % 4 = n % 4) =>
           LET L == TLCEval(MatLayer(mode, LS[j], n + 1))
           IN R[j] = Expect(mode, TLCEval(Append(P, L)), TLCEval(Append(PD, L)))

(* the effective value is a value some layer set, with the source of that layer, *)
(* and no layer of a higher source sets the option                                *)
ResolveIsHighest ==
  mode \in StackModes =>
    \A st \in Stacks(mode) : \A o \in 1..NCols(mode) :
      LET s == ResolveSource(st, o) IN
      /\ (Resolve(st, o) = None) <=> (\A i \in 1..Len(st) : st[i].values[o] = None)
      /\ \A i \in 1..Len(st) : st[i].values[o] # None => st[i].source <= s

(* layering is monotone: inserting, anywhere, a layer that does not set the option, *)
(* or a layer of a lower source than the one that currently decides, or an equal    *)
(* source layer below the deciding one, never changes the effective value           *)
LayeringMonotone ==
  (mode \in StackModes /\ Len(stack) <= InvMax) =>
    \A st \in Stacks(mode) : \A o \in 1..NCols(mode) :
      LET r == RW(st, o)
          b == IF r[2] = 0 THEN 0 ELSE Best(st, o)
      IN \A p \in 0..Len(st) : \A src \in Sources : \A v \in {None, 99} :
           (\/ v = None
            \/ src < r[2]
            \/ (src = r[2] /\ r[2] # 0 /\ p < b))
           => LET L == TLCEval([source |-> src, values |-> [c \in 1..NCols(mode) |-> v]])
              IN RW(TLCEval(InsertAt(st, p, L)), o) = r

(* pushing a layer that sets the option with a source >= the deciding one takes over *)
RecentWinsAmongEquals ==
  mode \in StackModes =>
    \A st \in Stacks(mode) : \A o \in 1..NCols(mode) : \A src \in Sources :
      LET L == TLCEval([source |-> src, values |-> [c \in 1..NCols(mode) |-> 99]])
          r == RW(st, o)
      IN Resolve(TLCEval(Append(st, L)), o) = IF src >= r[2] THEN 99 ELSE r[1]

(* --solver-command: a command set on the command line always wins; a solver chosen   *)
(* by a strictly higher source than every command wins; "" never counts as a command *)
SolverCommandPrecedence ==
  mode \in {"S2", "SE"} =>
    \A st \in Stacks(mode) :
      LET r == ResolveSolverCommand(st) IN
      /\ r[2] # Empty
      /\ (r[1] = "c") => /\ r[2] = Resolve(st, 2)
                         /\ ResolveSource(st, 2) >= ResolveSource(st, 1)
      /\ (r[1] = "s") => r[2] = Resolve(st, 1)
      /\ (r[1] = "u") <=> (Resolve(st, 1) = None /\ Resolve(st, 2) \in {None, Empty})
      /\ (ResolveSource(st, 1) > ResolveSource(st, 2) /\ Resolve(st, 1) # None) => r[1] = "s"
      /\ (Resolve(st, 2) \notin {None, Empty} /\ ResolveSource(st, 2) = 5) => r[1] = "c"

(* the classes are nested: documented syntax is tolerated syntax *)
StrictIsTolerant ==
  mode \in StrModes \cup TokModes => (Strict(mode, str) => Tolerant(mode, str))

(* blanks never make a malformed string acceptable or a tolerated one malformed *)
BlankInsensitive ==
  mode \in StrModes \cup TokModes => (Tolerant(mode, str) <=> Tolerant(mode, NoBlank(str)))

(* Parse(Unparse(v)) = v on every value of the documented domain *)
RoundTrip ==
  (mode = "RT" /\ str[1] \in {"T", "E", "C", "A", "V"}) =>
    LET k == str[1]
        v == str[2]
        u == Unparse(k, v)
    IN Strict(k, u) /\ Parse(k, u) = v

(* annotation scoping: an annotation never changes the value seen by another contract  *)
(* or function, and the command line always wins                                       *)
ScopeLocal ==
  mode = "SC" =>
    LET file == str[1]
        cli == str[2]
        sites == str[3]
        flagAt == str[4]
    IN \A c \in Contracts : \A f \in Funs :
         LET r == Resolve(ScopeStack(file, cli, sites, flagAt, c, f), 1)
             fl == Resolve(ScopeStack(file, cli, sites, flagAt, c, f), 2)
         IN
         /\ cli => r = 7
         /\ r = Resolve(ScopeStack(file, cli, sites \cap {CSite(c), FSite(c, f)}, flagAt, c, f), 1)
         /\ (~cli /\ FSite(c, f) \in sites) => r = 100 + FSite(c, f)
         /\ (~cli /\ FSite(c, f) \notin sites /\ CSite(c) \in sites) => r = 100 + CSite(c)
         \* the flag is on exactly where it was switched on: whatever the other layers say about other options
         /\ fl = (IF flagAt = 2 \/ (flagAt = 3 /\ c = 1) THEN 1 ELSE 0)

=============================================================================
