--------------------------- MODULE Trace_Executor ---------------------------
(***************************************************************************)
(* Trace validation (code -> spec) for property C17: event logs recorded   *)
(* by wrappers around the UNMODIFIED halmos.processes classes running real *)
(* subprocesses (harness/exec_real.py) must be behaviours of Executor.tla. *)
(*                                                                         *)
(* A log is a total order of events, each written by the thread concerned  *)
(* at a known place between two of its synchronisation points:             *)
(*   submit_call j     before submit()            (S_Check only afterwards)*)
(*   accepted j        submit() returned, before result()                  *)
(*   rejected j        submit() raised ShutdownError                       *)
(*   popen j           Popen() returned, before communicate()              *)
(*   popen_failed j    Popen() raised                                      *)
(*   set_result j      just before Future.set_result (only afterwards      *)
(*                     W_SetResult)                                        *)
(*   result j kind     result() returned/raised: tuple | timeout | oserror *)
(*   shutdown_call s   before shutdown() of caller s (H_SetFlag(s) only    *)
(*                     afterwards); s in {s1, s2}                          *)
(*   shutdown_return s o   shutdown() of caller s returned | raised        *)
(* All other actions of Executor are hidden steps. A log is accepted iff   *)
(* some interleaving of hidden steps consumes all its events; accepted     *)
(* logs are printed (JREC) and counted by checks/c17.py.                   *)
(* Constants: Jobs = {"j1","j2","j3"}, HasTimeout = PopenMayFail = Jobs,   *)
(* CoarseCancel = TRUE: a superset of the behaviours of every scenario.    *)
(***************************************************************************)
EXTENDS Executor, Json, IOUtils

Traces == JsonDeserialize(IOEnv.C17_TRACES)

VARIABLES tid, i, called, shcalled, srlogged, popened, accepted

tvars == <<vars, tid, i, called, shcalled, srlogged, popened, accepted>>

TView == <<View, tid, i, called, shcalled, srlogged, popened, accepted>>

Ev == Traces[tid].events
Done == i = Len(Ev)

TInit ==
    /\ tid \in 1..Len(Traces)
    /\ Init
    /\ mode = [s \in Shuts |-> Traces[tid].mode[s]]
    /\ i = 0 /\ called = {} /\ shcalled = {} /\ srlogged = {} /\ popened = {} /\ accepted = {}

\* hidden step of the model; a thread may not pass a log point whose event has not been consumed
Hidden ==
    /\ ~Done
    /\ Next
    /\ \A j \in Jobs :
        /\ (spc[j] = "idle" /\ spc'[j] # "idle") => j \in called
        /\ (spc[j] = "waiting" /\ spc'[j] # "waiting") => j \in accepted
        /\ (wpc[j] = "communicating" /\ wpc'[j] # "communicating") => j \in popened
        /\ (delivered'[j] # delivered[j]) => j \in srlogged
    /\ \A s \in Shuts : (hpc[s] = "idle" /\ hpc'[s] # "idle") => s \in shcalled
    /\ UNCHANGED <<tid, i, called, shcalled, srlogged, popened, accepted>>

Match(e) ==
    CASE e.e = "submit_call" -> spc[e.j] = "idle" /\ e.j \notin called
      [] e.e = "accepted" -> spc[e.j] = "waiting"
      [] e.e = "rejected" -> spc[e.j] = "rejected"
      [] e.e = "popen" -> wpc[e.j] = "communicating"
      [] e.e = "popen_failed" -> wpc[e.j] = "setresult" /\ exc[e.j] = "oserror" /\ proc[e.j] = "none"
      [] e.e = "set_result" -> wpc[e.j] = "setresult" /\ e.j \notin srlogged
      [] e.e = "result" -> spc[e.j] = "got" /\ seen[e.j] = e.x
      [] e.e = "shutdown_call" -> hpc[e.j] = "idle" /\ e.j \notin shcalled /\ mode[e.j] # "none"
      [] e.e = "shutdown_return" -> hpc[e.j] = e.x
      [] OTHER -> FALSE

Event ==
    /\ ~Done
    /\ LET e == Ev[i + 1] IN
        /\ Match(e)
        /\ called' = IF e.e = "submit_call" THEN called \cup {e.j} ELSE called
        /\ accepted' = IF e.e = "accepted" THEN accepted \cup {e.j} ELSE accepted
        /\ popened' = IF e.e = "popen" THEN popened \cup {e.j} ELSE popened
        /\ srlogged' = IF e.e = "set_result" THEN srlogged \cup {e.j} ELSE srlogged
        /\ shcalled' = IF e.e = "shutdown_call" THEN shcalled \cup {e.j} ELSE shcalled
    /\ i' = i + 1
    /\ UNCHANGED <<vars, tid>>

TNext == Hidden \/ Event
TSpec == TInit /\ [][TNext]_tvars

\* printing hook (configured as an invariant; always TRUE): one record per state that completes a log
Accept == Done => PrintT("JREC" \o ToJson([tid |-> tid, n |-> i]))
\* longest matched prefix, for diagnosis
Progress == PrintT("JREC" \o ToJson([tid |-> tid, p |-> i]))
=============================================================================
