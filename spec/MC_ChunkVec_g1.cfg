\* generator (W=32): small, FULL; one JSON record per transition
SPECIFICATION Spec
VIEW View
CONSTANTS
  NV = 2
  W = 32
  Depth = 2
  Emit = "all"
  Pick = "all"
  FullLevels = {2}
  MedLevels = {}
  TinyLevels = {}
  AliasLevels = {}
  XOffs = {31,32,33}
  XLens = {32}
  MaxLen = 70
  Mutant = "none"
  Prof <- ProfByLevel
INVARIANT InvFlatTypeOK
INVARIANT InvWellFormed
INVARIANT InvRefines
INVARIANT InvCopyIndependence
