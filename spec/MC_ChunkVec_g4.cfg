\* generator (W=32): tiny, medium, medium
SPECIFICATION Spec
VIEW View
CONSTANTS
  NV = 2
  W = 32
  Depth = 3
  Emit = "all"
  Pick = "all"
  FullLevels = {}
  MedLevels = {2,3}
  TinyLevels = {1}
  AliasLevels = {}
  XOffs = {}
  XLens = {}
  MaxLen = 70
  Mutant = "none"
  Prof <- ProfByLevel
INVARIANT InvFlatTypeOK
INVARIANT InvWellFormed
INVARIANT InvRefines
INVARIANT InvCopyIndependence
