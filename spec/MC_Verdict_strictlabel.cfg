\* EXPECTED TO BE VIOLATED (unlabelled case only): literal precedence; no path succeeded + a timeout gives TIMEOUT
SPECIFICATION Spec
CONSTANTS
  MinPaths = 1
  MaxPaths = 2
  Outcomes = {"success", "panic", "stuck"}
  Replies = {"sat_valid", "unsat", "unknown", "garbage"}
  Replies2 = {"unsat"}
  StuckReplies = {"unsat", "unknown"}
  EarlySet = {FALSE}
  CacheSet = {FALSE}
  RefinableSet = {FALSE}
  Threads = 4
  MaxPrev = 0
  PrevCodes = {0}
  RecordHist = FALSE
  Canon = FALSE
  Coarse = FALSE
  MutPrecedence = FALSE
  MutNoCatch = FALSE
  MutKilledEscapes = FALSE
  KilledMayRaise = FALSE
INVARIANTS VerdictIsPrecedenceStrict
