\* scenario generation for --cache-solver: 3 query paths, unsat cores contained in every query
SPECIFICATION Spec
CONSTANTS
  MinPaths = 3
  MaxPaths = 3
  Outcomes = {"panic"}
  Replies = {"unsat", "unsat_shared"}
  Replies2 = {"unsat"}
  StuckReplies = {"unsat"}
  EarlySet = {FALSE}
  CacheSet = {TRUE}
  RefinableSet = {FALSE}
  Threads = 4
  MaxPrev = 0
  PrevCodes = {0}
  RecordHist = TRUE
  Canon = FALSE
  Coarse = TRUE
  MutPrecedence = FALSE
  MutNoCatch = FALSE
  MutKilledEscapes = FALSE
  KilledMayRaise = TRUE
INVARIANTS TypeOK PassOnlyIfClean VerdictModuloKnown OrderIndependenceModuloKnown ExitNonZeroIffNotAllPass ValidNeverAbstract OneOutputPerQuery
