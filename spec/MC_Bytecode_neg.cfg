SPECIFICATION Spec
CONSTANTS
  Mode = "enum"
  MaxLen = 3
  HoleMaxLen = 3
INVARIANT NegEveryJumpdestByteValid
INVARIANT NegEveryPositionBoundary
INVARIANT InvChain
