--------------------------- MODULE HashRegistry ---------------------------
(***************************************************************************)
(* KeccakRegistry + OffsetMap (sevm.py / utils.py): the table that turns a *)
(* concrete storage location back into "hash of some preimage + offset".   *)
(*                                                                         *)
(* Every path owns a registry; a fork of the path (SEVM.create_branch) and *)
(* the next transaction (SEVM.run_message) start from a copy.  A registry  *)
(* gives each hash expression an id at its first registration and, when    *)
(* the hash value is known, files the expression under the BLOCK of that   *)
(* value (its high bits); a lookup of key k finds the expression filed     *)
(* under k's block and reports the signed distance of the low bits.        *)
(*                                                                         *)
(* The window is therefore block-aligned, not centred on the hash: a key   *)
(* one below a hash that sits at the start of its block is NOT found       *)
(* (recorded finding hash-offset-window of C08).  The specification states *)
(* what is guaranteed: soundness of every answer, completeness inside the  *)
(* block, stability of ids, and that a copy knows everything its original  *)
(* knew while later registrations stay private to the registry they were   *)
(* made in.                                                                *)
(*                                                                         *)
(* TLC enumerates every history of at most MaxOps operations over Exprs    *)
(* and every admissible assignment of hash values; each terminal history   *)
(* carries, after each operation, the complete lookup table of every       *)
(* registry and is replayed into the real classes (checks/c08.py).         *)
(***************************************************************************)
EXTENDS Integers, Sequences, FiniteSets, TLC, Json

CONSTANTS OffsetBits,    \* low bits of a key (halmos: 16)
          KeyBits,       \* total bits of a key in the model
          Exprs,         \* hash expressions f_sha3_N(preimage)
          HashValues,    \* the hash values tried for each expression (a subset of Keys: block starts, block ends, middles)
          MaxOps, MaxRegs,
          Mutation       \* "none" | "copy-drops-values" | "copy-shares" | "centred-window"

None == -1
Pow2(n) == 2 ^ n
Keys == 0 .. Pow2(KeyBits) - 1
Block(k) == k \div Pow2(OffsetBits)
Low(k) == k % Pow2(OffsetBits)

VARIABLES hv,      \* Exprs -> Keys \cup {None}: the value of each hash (None: the preimage is symbolic, the value unknown)
          regs,    \* <<[ids |-> Seq(Exprs), vals |-> [block -> <<expr, low>>]]>>
          ops      \* history: <<[op, reg, expr, tables]>>
vars == <<hv, regs, ops>>

EmptyReg == [ids |-> <<>>, vals |-> << >>]
Range(s) == {s[i] : i \in DOMAIN s}
IdOf(r, e) == CHOOSE i \in DOMAIN r.ids : r.ids[i] = e

\* reverse_lookup on the local table (the precomputed table of common hashes is a second, constant registry)
Lookup(r, k) ==
    IF Mutation = "centred-window"
    THEN LET cands == {e \in Range(r.ids) : hv[e] # None /\ k - hv[e] \in -(Pow2(OffsetBits) - 1) .. (Pow2(OffsetBits) - 1)}
         IN IF cands = {} THEN <<>> ELSE LET e == CHOOSE e \in cands : TRUE IN <<e, k - hv[e]>>
    ELSE IF Block(k) \in DOMAIN r.vals
         THEN <<r.vals[Block(k)][1], Low(k) - r.vals[Block(k)][2]>>
         ELSE <<>>

Tables == [i \in DOMAIN regs |-> [k \in Keys |-> Lookup(regs[i], k)]]
IdTables == [i \in DOMAIN regs |-> regs[i].ids]

\* no two known hash values share a block: for keccak a 2^-240 event, which the implementation turns into an assertion failure
Admissible(h) == \A a, b \in Exprs : (a # b /\ h[a] # None /\ h[b] # None) => Block(h[a]) # Block(h[b])

Init == /\ hv \in {h \in [Exprs -> HashValues \cup {None}] : Admissible(h)}
        /\ regs = <<EmptyReg>>
        /\ ops = <<>>

Log(op, i, e) == ops' = Append(ops, [op |-> op, reg |-> i, expr |-> e, tables |-> Tables', ids |-> IdTables'])

RegisterIn(r, e) ==
    IF e \in Range(r.ids) THEN r
    ELSE [ids |-> Append(r.ids, e),
          vals |-> IF hv[e] = None THEN r.vals ELSE (Block(hv[e]) :> <<e, Low(hv[e])>>) @@ r.vals]

Register(i, e) ==
    /\ Len(ops) < MaxOps
    /\ regs' = [j \in DOMAIN regs |->
                   IF j = i \/ (Mutation = "copy-shares" /\ j < i) THEN RegisterIn(regs[j], e) ELSE regs[j]]
    /\ UNCHANGED hv
    /\ Log("register", i, e)

Copy(i) ==
    /\ Len(ops) < MaxOps /\ Len(regs) < MaxRegs
    /\ regs' = Append(regs, IF Mutation = "copy-drops-values" THEN [regs[i] EXCEPT !.vals = << >>] ELSE regs[i])
    /\ UNCHANGED hv
    /\ Log("copy", i, "")

Report == /\ Len(ops) = MaxOps /\ PrintT("JREC" \o ToJson([hv |-> hv, ops |-> ops])) /\ UNCHANGED vars

Next == (\E i \in DOMAIN regs, e \in Exprs : Register(i, e)) \/ (\E i \in DOMAIN regs : Copy(i)) \/ Report
Spec == Init /\ [][Next]_vars

-----------------------------------------------------------------------------
\* an answer is never wrong: the expression's hash value plus the reported distance is the key asked for
LookupSound ==
    \A i \in DOMAIN regs, k \in Keys :
        LET a == Lookup(regs[i], k) IN a # <<>> => (hv[a[1]] # None /\ hv[a[1]] + a[2] = k /\ a[1] \in Range(regs[i].ids))
\* every key in the block of a registered hash value is recognised
LookupCompleteInBlock ==
    \A i \in DOMAIN regs, e \in Exprs :
        (e \in Range(regs[i].ids) /\ hv[e] # None) =>
            \A k \in Keys : Block(k) = Block(hv[e]) => Lookup(regs[i], k) = <<e, k - hv[e]>>
\* the reach of the mechanism is exactly the block (what the recorded finding hash-offset-window is about)
NothingOutsideTheBlock ==
    \A i \in DOMAIN regs, k \in Keys :
        Lookup(regs[i], k) # <<>> => Block(k) = Block(hv[Lookup(regs[i], k)[1]])
\* ids are handed out once, in registration order, and never change
IdsStable == [][\A i \in DOMAIN regs : \A n \in DOMAIN regs[i].ids : regs'[i].ids[n] = regs[i].ids[n]]_vars
IdsDense == \A i \in DOMAIN regs : \A a, b \in DOMAIN regs[i].ids : a # b => regs[i].ids[a] # regs[i].ids[b]
\* a copy knows what its original knew (ids and values) at the moment of the copy ...
CopyComplete ==
    [][Len(regs') > Len(regs) =>
          LET i == ops'[Len(ops')].reg
              c == regs'[Len(regs')]
          IN /\ c.ids = regs[i].ids
             /\ \A k \in Keys : Lookup(c, k) = Lookup(regs[i], k)]_vars
\* ... and a registration changes the registry it is made in only
RegistrationPrivate ==
    [][\A i \in DOMAIN regs : (Len(regs') = Len(regs) /\ ops'[Len(ops')].reg # i) => regs'[i] = regs[i]]_vars
=============================================================================
