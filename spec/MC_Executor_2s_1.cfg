\* TWO shutdown callers, 1 job, every pair of modes, every fault: exhaustive safety
SPECIFICATION Spec
CONSTANTS
  Jobs = {j1}
  HasTimeout = {j1}
  IgnoresTerm = {j1}
  PopenMayFail = {j1}
  PreFix = FALSE
  CoarseCancel = FALSE
  Modes = {"nowait", "wait"}
  Modes2 = {"nowait", "wait"}
  NeverExits = {}
VIEW View
INVARIANTS TypeOK ResultAtMostOnce ResultConsistent TimeoutIsUnknown CancelCoversRegistered ClosedMeansDead
  QuiescentUnlessCbp CbpOnlyRegistered NoAcceptAfterShutdown QuiescentAfterReturnedWait
  SnapshotCoversRegistered JoinCoversSnapshot
PROPERTIES ExcStable RejectAfterFlag FlagStable
