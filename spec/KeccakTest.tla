---- MODULE KeccakTest ----
EXTENDS Keccak, TLC, Json
ASSUME PrintT("JREC" \o ToJson(<<Keccak256(<<>>), [a |-> 1, b |-> "x\"y", c |-> TRUE, d |-> {1,2}]>>))
ASSUME PrintT("JREC" \o ToJson(Keccak256(<<97,98,99>>)))
ASSUME PrintT("JREC" \o ToJson(Keccak256([i \in 1..200 |-> i % 256])))
VARIABLE x
Init == x = 0
Next == UNCHANGED x
====
