\* scenario sampling (TLC -simulate): 2..4 paths, every reply kind but real timeouts, every interleaving
SPECIFICATION Spec
CONSTANTS
  MinPaths = 2
  MaxPaths = 4
  Outcomes = {"success", "revert", "panic", "failflag", "stuck"}
  Replies = {"sat_valid", "sat_abstract", "unsat", "unsat_rc1", "unsat_shared", "unknown", "garbage", "empty", "nonzero", "crash", "spawnfail"}
  Replies2 = {"sat_valid", "sat_abstract", "unsat", "unsat_rc1", "unknown", "garbage", "empty", "nonzero", "crash", "spawnfail"}
  StuckReplies = {"sat_valid", "sat_abstract", "unsat", "unsat_rc1", "unknown", "garbage", "empty", "nonzero", "crash"}
  EarlySet = {TRUE, FALSE}
  CacheSet = {TRUE, FALSE}
  RefinableSet = {TRUE, FALSE}
  Threads = 4
  MaxPrev = 0
  PrevCodes = {0}
  RecordHist = TRUE
  Canon = FALSE
  Coarse = FALSE
  MutPrecedence = FALSE
  MutNoCatch = FALSE
  MutKilledEscapes = FALSE
  KilledMayRaise = TRUE
INVARIANTS TypeOK PassOnlyIfClean VerdictModuloKnown OrderIndependenceModuloKnown ExitNonZeroIffNotAllPass ValidNeverAbstract OneOutputPerQuery
