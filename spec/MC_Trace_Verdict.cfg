\* validation of recorded runs (file named by environment variable C05_TRACES)
SPECIFICATION TSpec
CONSTANTS
  MinPaths = 1
  MaxPaths = 4
  Outcomes = {"success", "revert", "panic", "failflag", "stuck"}
  Replies = {"sat_valid", "sat_abstract", "unsat", "unsat_rc1", "unsat_shared", "unsat_nocore", "unknown", "timeout", "garbage", "empty", "nonzero", "crash", "spawnfail"}
  Replies2 = {"sat_valid", "sat_abstract", "unsat", "unsat_rc1", "unknown", "timeout", "garbage", "empty", "nonzero", "crash", "spawnfail"}
  StuckReplies = {"sat_valid", "sat_abstract", "unsat", "unsat_rc1", "unknown", "timeout", "garbage", "empty", "nonzero", "crash"}
  EarlySet = {TRUE, FALSE}
  CacheSet = {TRUE, FALSE}
  RefinableSet = {TRUE, FALSE}
  Threads = 4
  MaxPrev = 0
  PrevCodes = {0}
  RecordHist = TRUE
  Canon = FALSE
  Coarse = FALSE
  MutPrecedence = FALSE
  MutNoCatch = FALSE
  MutKilledEscapes = FALSE
  KilledMayRaise = TRUE
  EmitRecords <- NoEmit
VIEW TView
