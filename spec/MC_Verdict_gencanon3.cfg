\* sequential schedules, exactly 3 paths, one kind per reply class incl. real solver timeouts
SPECIFICATION Spec
CONSTANTS
  MinPaths = 3
  MaxPaths = 3
  Outcomes = {"success", "revert", "panic", "failflag", "stuck"}
  Replies = {"sat_valid", "sat_abstract", "unsat_rc1", "unsat_shared", "timeout", "crash", "spawnfail"}
  Replies2 = {"sat_abstract", "unsat", "timeout", "empty"}
  StuckReplies = {"unsat", "timeout", "sat_abstract", "nonzero"}
  EarlySet = {TRUE, FALSE}
  CacheSet = {TRUE, FALSE}
  RefinableSet = {TRUE, FALSE}
  Threads = 4
  MaxPrev = 0
  PrevCodes = {0}
  RecordHist = TRUE
  Canon = TRUE
  Coarse = FALSE
  MutPrecedence = FALSE
  MutNoCatch = FALSE
  MutKilledEscapes = FALSE
  KilledMayRaise = TRUE
INVARIANTS TypeOK PassOnlyIfClean VerdictModuloKnown OrderIndependenceModuloKnown ExitNonZeroIffNotAllPass ValidNeverAbstract OneOutputPerQuery
