\* thorough: <= 3 paths, reply classes, --early-exit and refinable both ways (--cache-solver: q2, t1thr, t3c), every interleaving
SPECIFICATION Spec
CONSTANTS
  MinPaths = 1
  MaxPaths = 3
  Outcomes = {"success", "revert", "panic", "failflag", "stuck"}
  Replies = {"sat_valid", "sat_abstract", "unsat", "unsat_shared", "unknown", "garbage"}
  Replies2 = {"sat_valid", "sat_abstract", "unsat", "unknown", "garbage"}
  StuckReplies = {"sat_valid", "unsat", "unknown", "garbage"}
  EarlySet = {TRUE, FALSE}
  CacheSet = {FALSE}
  RefinableSet = {TRUE, FALSE}
  Threads = 4
  MaxPrev = 0
  PrevCodes = {0}
  RecordHist = FALSE
  Canon = FALSE
  Coarse = FALSE
  MutPrecedence = FALSE
  MutNoCatch = FALSE
  MutKilledEscapes = FALSE
  KilledMayRaise = TRUE
INVARIANTS TypeOK PassOnlyIfClean CleanPasses VerdictIsPrecedence OrderIndependence NoLostCounterexampleStrict OrderIndependenceNoEarly ExitNonZeroIffNotAllPass ValidNeverAbstract OneOutputPerQuery ShutdownOnlyAfterValid
