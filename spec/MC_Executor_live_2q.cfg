\* liveness under weak fairness, 2 jobs, coarse cancel() (quick tier; the fine-grained 2-job run is MC_Executor_live_2.cfg): no VIEW, no constraint, no symmetry
SPECIFICATION FairSpec
CONSTANTS
  Jobs = {j1, j2}
  HasTimeout = {j1}
  IgnoresTerm = {}
  PopenMayFail = {j2}
  PreFix = FALSE
  CoarseCancel = TRUE
  Modes = {"none", "nowait", "wait"}
  Modes2 = {"none"}
  NeverExits = {}
\* only Termination here (it implies the other three given ResultConsistent; they are checked one by one in
\* MC_Executor_live_1.cfg and MC_Executor_live_2.cfg): a single tableau keeps the quick tier short
PROPERTIES Termination
