\* validation of recorded event logs (file named by environment variable C16_TRACES)
\* against the model in which only submitted_futures pins (for implementation runs whose term_to_vars
\* cache is cleared by the harness: they must still be sound)
SPECIFICATION TSpec
CONSTANTS
  Ids <- TraceIds
  Cons <- TraceCons
  UnsatFamily = {}
  Unsat <- TraceUnsat
  PinFutures = TRUE
  PinTermVars = FALSE
  MaxTests = 1000000
  MaxInflight = 1000000
  MaxCores = 1000000
INVARIANTS Report TraceCacheSound TraceCoresDenote HashConsed
