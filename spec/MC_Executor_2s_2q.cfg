\* (quick tier: cancel() coarse) TWO shutdown callers, 2 jobs (j1 never exits on its own, no time limit; j2 has a time limit): exhaustive safety
SPECIFICATION Spec
CONSTANTS
  Jobs = {j1, j2}
  HasTimeout = {j2}
  IgnoresTerm = {}
  PopenMayFail = {}
  PreFix = FALSE
  CoarseCancel = TRUE
  Modes = {"nowait", "wait"}
  Modes2 = {"nowait", "wait"}
  NeverExits = {j1}
VIEW View
INVARIANTS TypeOK ResultAtMostOnce ResultConsistent TimeoutIsUnknown CancelCoversRegistered ClosedMeansDead
  QuiescentUnlessCbp CbpOnlyRegistered NoAcceptAfterShutdown QuiescentAfterReturnedWait
  SnapshotCoversRegistered JoinCoversSnapshot
PROPERTIES ExcStable RejectAfterFlag FlagStable
