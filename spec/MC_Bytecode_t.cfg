SPECIFICATION Spec
CONSTANTS
  Mode = "enum"
  MaxLen = 6
  HoleMaxLen = 5
INVARIANT InvFactsAreFacts
INVARIANT InvStartsAtZero
INVARIANT InvChain
INVARIANT InvChainBack
INVARIANT InvJumpdestNotInPush
INVARIANT InvPartition
INVARIANT InvGenuineJumpdest
INVARIANT InvPushArgIsSlice
INVARIANT InvBeyondEnd
INVARIANT InvSliceZeroPadded
INVARIANT InvSymSound
