\* negative control: "idempotent shutdown" (early return when the flag is already set) must violate ShutdownReturnsUnlessCbp
SPECIFICATION FairSpecMut
CONSTANTS
  Jobs = {j1}
  HasTimeout = {}
  IgnoresTerm = {}
  PopenMayFail = {}
  PreFix = FALSE
  CoarseCancel = TRUE
  Modes = {"wait"}
  Modes2 = {"nowait"}
  NeverExits = {j1}
  Mutation = "early_return"
PROPERTIES ShutdownReturnsUnlessCbp
