\* C18 thorough tier, part S2 (the thorough enumeration is split to bound the size of one TLC output).
SPECIFICATION Spec
CONSTANTS
  MaxL3 = 0
  MaxL2 = 5
  MaxLE = 4
  MaxStr = 0
  MaxTok = 0
  DoVals = FALSE
  DoScope = FALSE
  DoValidate = FALSE
  InvMax = 3
INVARIANTS
  ResolveIsFunction
  ResolveAgreesWithFold
  StepIsResolve
  ResolveIsHighest
  LayeringMonotone
  RecentWinsAmongEquals
  SolverCommandPrecedence
  StrictIsTolerant
  BlankInsensitive
  RoundTrip
  ScopeLocal
