\* process exit code: 1 path, up to 2 earlier tests with every exit code (9 = selected but not run: setUp failed)
SPECIFICATION Spec
CONSTANTS
  MinPaths = 1
  MaxPaths = 1
  Outcomes = {"success", "panic", "stuck"}
  Replies = {"sat_valid", "unsat", "unknown", "garbage"}
  Replies2 = {"unsat"}
  StuckReplies = {"unsat", "unknown"}
  EarlySet = {FALSE}
  CacheSet = {FALSE}
  RefinableSet = {FALSE}
  Threads = 4
  MaxPrev = 2
  PrevCodes = {0, 1, 2, 3, 4, 5, 9}
  RecordHist = FALSE
  Canon = FALSE
  Coarse = FALSE
  MutPrecedence = FALSE
  MutNoCatch = FALSE
  MutKilledEscapes = FALSE
  KilledMayRaise = TRUE
INVARIANTS TypeOK PassOnlyIfClean CleanPasses VerdictIsPrecedence OrderIndependence NoLostCounterexampleStrict OrderIndependenceNoEarly ExitNonZeroIffNotAllPass ValidNeverAbstract OneOutputPerQuery ShutdownOnlyAfterValid
