\* thorough: exactly 3 query paths with --cache-solver, unsat cores contained in every query, every interleaving
SPECIFICATION Spec
CONSTANTS
  MinPaths = 3
  MaxPaths = 3
  Outcomes = {"success", "panic"}
  Replies = {"sat_valid", "unsat", "unsat_shared", "unknown"}
  Replies2 = {"sat_valid", "sat_abstract", "unsat", "unknown", "garbage"}
  StuckReplies = {"sat_valid", "unsat", "unknown", "garbage"}
  EarlySet = {TRUE, FALSE}
  CacheSet = {TRUE}
  RefinableSet = {FALSE}
  Threads = 4
  MaxPrev = 0
  PrevCodes = {0}
  RecordHist = FALSE
  Canon = FALSE
  Coarse = FALSE
  MutPrecedence = FALSE
  MutNoCatch = FALSE
  MutKilledEscapes = FALSE
  KilledMayRaise = TRUE
INVARIANTS TypeOK PassOnlyIfClean CleanPasses VerdictIsPrecedence OrderIndependence NoLostCounterexampleStrict OrderIndependenceNoEarly ExitNonZeroIffNotAllPass ValidNeverAbstract OneOutputPerQuery ShutdownOnlyAfterValid
