SPECIFICATION Spec
CONSTANTS
  Mutation = "logger-process-wide"
INVARIANT EveryCutReported
