\* only the shared term_to_vars pins (futures dropped early): CacheSound must still hold
SPECIFICATION Spec
CONSTANTS
  Ids = {1, 2, 3}
  Cons = {"a", "b", "c"}
  UnsatFamily = {{"a", "b"}}
  PinFutures = FALSE
  PinTermVars = TRUE
  MaxTests = 2
  MaxInflight = 2
  MaxCores = 2
INVARIANTS TypeOK HashConsed CacheSound CoresDenoteUnsat
PROPERTIES PinnedStable
