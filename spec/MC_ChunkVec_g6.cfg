\* generator (W=32) around the alias case: tiny, small, WHOLE-VECTOR set_slice, small, small
SPECIFICATION Spec
VIEW View
CONSTANTS
  NV = 2
  W = 32
  Depth = 5
  Emit = "all"
  Pick = "all"
  FullLevels = {}
  MedLevels = {}
  TinyLevels = {1}
  AliasLevels = {3}
  XOffs = {31,32,33}
  XLens = {32}
  MaxLen = 70
  Mutant = "none"
  Prof <- ProfByLevel
INVARIANT InvFlatTypeOK
INVARIANT InvWellFormed
INVARIANT InvRefines
INVARIANT InvCopyIndependence
