"""Generated stateful target contracts + invariant test contracts (C15), and the Frontier.tla cases.

Target state: x (slot 0), y (slot 1).  Every function masks its argument with 3, compares msg.sender only
with OWNER and msg.value only with 1, so the finite domains TLC enumerates (arguments 0..3, senders
{OWNER, OTHER}, values {0, 1}) are complete for the symbolic calls halmos makes.
"""

from __future__ import annotations

import random
from dataclasses import dataclass, field

from . import e1
from .artifacts import Contract, Fn, arg, panic, revert_plain, selector
from .asm import assemble
from .reftest import FOUNDRY_CALLER, FOUNDRY_TEST, TEST_BALANCE

OWNER = 0x1001
OTHER = 0x2002
TARGET_ADDR = 0xAAAA0002  # first CREATE of setUp()


def _a():  # masked argument
    return arg(0) + [("PUSH", 3), "AND"]


def _set(slot, code):
    return code + [("PUSH", slot), "SSTORE"]


def _x():
    return [("PUSH", 0), "SLOAD"]


def _y():
    return [("PUSH", 1), "SLOAD"]


@dataclass
class TFn:
    sig: str
    body: list
    nargs: int
    payable: bool = False
    desc: str = ""


def gen_functions(rnd: random.Random, n: int) -> list[TFn]:
    out = []
    kinds = ["inc", "setx", "gate", "owner", "pay", "assertive", "swap", "reset", "addy", "incy"]
    rnd.shuffle(kinds)
    for i, k in enumerate(kinds[:n]):
        lab = f"r{i}"
        K, K2 = rnd.randrange(4), rnd.randrange(4)
        if k == "inc":
            out.append(TFn(f"inc{i}()", _set(0, _x() + [("PUSH", 1), "ADD"]) + ["STOP"], 0, desc="x++"))
        elif k == "incy":
            out.append(TFn(f"incy{i}()", _set(1, _y() + [("PUSH", 1), "ADD"]) + ["STOP"], 0, desc="y++"))
        elif k == "setx":
            c = rnd.randrange(3)
            body = _a() + [("PUSH", K), "EQ", ("PUSHL", lab), "JUMPI"] + revert_plain() + [("LABEL", lab)] + _set(0, _a() + [("PUSH", c), "ADD"]) + ["STOP"]
            out.append(TFn(f"setx{i}(uint256)", body, 1, desc=f"require(a&3=={K}); x=(a&3)+{c}"))
        elif k == "gate":
            body = _x() + [("PUSH", K), "EQ", ("PUSHL", lab), "JUMPI", "STOP", ("LABEL", lab)] + _set(1, _a()) + ["STOP"]
            out.append(TFn(f"gate{i}(uint256)", body, 1, desc=f"if(x=={K}) y=a&3"))
        elif k == "owner":
            body = ["CALLER", ("PUSH", OWNER), "EQ", ("PUSHL", lab), "JUMPI"] + revert_plain() + [("LABEL", lab)] + _set(0, [("PUSH", K)]) + ["STOP"]
            out.append(TFn(f"owner{i}()", body, 0, desc=f"require(msg.sender==OWNER); x={K}"))
        elif k == "pay":
            body = ["CALLVALUE", ("PUSH", 1), "EQ", ("PUSHL", lab), "JUMPI", "STOP", ("LABEL", lab)] + _set(1, [("PUSH", K)]) + ["STOP"]
            out.append(TFn(f"pay{i}()", body, 0, payable=True, desc=f"if(msg.value==1) y={K}"))
        elif k == "assertive":
            body = _x() + [("PUSH", K), "EQ"] + _a() + [("PUSH", K2), "EQ", "AND", ("PUSHL", lab), "JUMPI", "STOP", ("LABEL", lab)] + panic(1)
            out.append(TFn(f"assertive{i}(uint256)", body, 1, desc=f"assert(!(x=={K} && a&3=={K2}))"))
        elif k == "swap":
            out.append(TFn(f"swap{i}()", _x() + _y() + [("PUSH", 0), "SSTORE", ("PUSH", 1), "SSTORE", "STOP"], 0, desc="x,y=y,x"))
        elif k == "reset":
            out.append(TFn(f"reset{i}()", _set(0, [("PUSH", 0)]) + ["STOP"], 0, desc="x=0"))
        elif k == "addy":
            out.append(TFn(f"addy{i}()", _set(0, _x() + _y() + ["ADD"]) + ["STOP"], 0, desc="x+=y"))
    return out


@dataclass
class Machine:
    test: Contract
    target: Contract
    fns: list[TFn]
    inv_desc: str
    depth: int
    meta: dict = field(default_factory=dict)


def gen_machine(rnd: random.Random, depth: int | None = None) -> Machine:
    fns = gen_functions(rnd, rnd.randint(2, 4))
    getx = Fn("getx()", _x() + [("PUSH", 0), "MSTORE", ("PUSH", 32), ("PUSH", 0), "RETURN"], mutability="view")
    gety = Fn("gety()", _y() + [("PUSH", 0), "MSTORE", ("PUSH", 32), ("PUSH", 0), "RETURN"], mutability="view")
    target = Contract("Machine", [Fn(f.sig, _uniq(f.body, f"t{i}"), mutability="payable" if f.payable else "nonpayable") for i, f in enumerate(fns)] + [getx, gety],
                      filename="src/Machine.sol")
    tinit = target.creation()
    setup = [("PUSHN", 2, len(tinit)), ("PUSHL", "tinit"), ("PUSH", 0x100), "CODECOPY", ("PUSHN", 2, len(tinit)), ("PUSH", 0x100), ("PUSH", 0), "CREATE",
             ("PUSH", 0), "SSTORE", "STOP"]

    def call_get(sig, off):
        return [("PUSHN", 32, int(selector(sig), 16) << 224), ("PUSH", 0), "MSTORE",
                ("PUSH", 32), ("PUSH", off), ("PUSH", 4), ("PUSH", 0), ("PUSH", 0), ("PUSH", 0), "SLOAD", ("PUSH", 0xFFFFFF), "CALL", "POP"]

    V, V2 = rnd.randint(1, 4), rnd.randrange(4)
    kind = rnd.choice(["x", "sum", "pair"])
    load = call_get("getx()", 0x40) + call_get("gety()", 0x60)
    if kind == "x":
        cond = [("PUSH", 0x40), "MLOAD", ("PUSH", V), "EQ"]
        desc = f"x != {V}"
    elif kind == "sum":
        cond = [("PUSH", 0x40), "MLOAD", ("PUSH", 0x60), "MLOAD", "ADD", ("PUSH", V), "EQ"]
        desc = f"x + y != {V}"
    else:
        cond = [("PUSH", 0x40), "MLOAD", ("PUSH", V), "EQ", ("PUSH", 0x60), "MLOAD", ("PUSH", V2), "EQ", "AND"]
        desc = f"!(x == {V} && y == {V2})"
    inv = load + cond + [("PUSHL", "bad"), "JUMPI", "STOP", ("LABEL", "bad")] + panic(1)
    test = Contract("InvTest", [Fn("setUp()", setup), Fn("invariant_machine()", inv)], data=[("MARK", "tinit"), ("RAW", tinit)])
    return Machine(test, target, fns, desc, depth if depth is not None else rnd.choice([1, 2, 2, 3]),
                   meta={"functions": [f"{f.sig}: {f.desc}" for f in fns], "invariant": desc})


def _uniq(body, tag):
    out = []
    for it in body:
        if isinstance(it, tuple) and it[0] in ("LABEL", "PUSHL", "MARK"):
            out.append((it[0], f"{it[1]}_{tag}"))
        else:
            out.append(it)
    return out


def frontier_case(cid: int, m: Machine, depth: int | None = None, fns: list[TFn] | None = None, senders: list[int] | None = None) -> dict:
    """The Frontier.tla case for machine m (optionally with a filtered function / sender set)."""
    w = e1.word
    base = e1.mk_case(cid, {}, [], balances={FOUNDRY_TEST: TEST_BALANCE, OWNER: 10, OTHER: 10})
    base.pop("txs")
    base["pre"] = [
        e1.mk_tx(FOUNDRY_TEST, FOUNDRY_CALLER, FOUNDRY_CALLER, 0, m.test.creation(), create=True),
        e1.mk_tx(FOUNDRY_TEST, FOUNDRY_CALLER, FOUNDRY_CALLER, 0, bytes.fromhex(selector("setUp()"))),
    ]
    base["inv"] = e1.mk_tx(FOUNDRY_TEST, FOUNDRY_CALLER, FOUNDRY_CALLER, 0, bytes.fromhex(selector("invariant_machine()")))
    use = fns if fns is not None else m.fns
    base["targets"] = [{"addr": w(TARGET_ADDR), "fns": [{"sel": list(bytes.fromhex(selector(f.sig))), "nargs": f.nargs,
                                                          "values": [w(0), w(1)] if f.payable else [w(0)]} for f in use]}]
    base["argdom"] = [w(i) for i in range(4)]
    base["senders"] = [w(s) for s in (senders if senders is not None else [OWNER, OTHER])]
    base["depth"] = depth if depth is not None else m.depth
    return base
