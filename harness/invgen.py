"""Generated stateful target contracts + invariant test contracts (C15), and the Frontier.tla cases.

Target state: x (slot 0), y (slot 1).  Every function masks its argument with 3, compares msg.sender only
with OWNER and msg.value only with 1, so the finite domains TLC enumerates (arguments 0..3, senders
{OWNER, OTHER}, values {0, 1}) are complete for the symbolic calls halmos makes.
"""

from __future__ import annotations

import random
from dataclasses import dataclass, field

from . import e1
from .artifacts import Contract, Fn, arg, panic, revert_plain, selector
from .asm import assemble
from .reftest import FOUNDRY_CALLER, FOUNDRY_TEST, TEST_BALANCE

OWNER = 0x1001
OTHER = 0x2002
ANY = 0x3003  # a sender that is neither: the functions compare msg.sender with OWNER only
TARGET_ADDR = 0xAAAA0002  # first CREATE of setUp()
DUMMY_ADDR = 0xAAAA0003  # second CREATE of setUp() (filter scenarios): a contract whose only function changes nothing

GETTERS = ["targetSenders()", "excludeSenders()", "targetContracts()", "excludeContracts()", "targetSelectors()", "excludeSelectors()"]


@dataclass
class Filters:
    """What the test contract's forge-std getters return."""

    t_senders: list = field(default_factory=list)
    x_senders: list = field(default_factory=list)
    t_contracts: list = field(default_factory=list)
    x_contracts: list = field(default_factory=list)
    t_selectors: list = field(default_factory=list)  # [(addr, [function signature, ...])]
    x_selectors: list = field(default_factory=list)

    def describe(self) -> str:
        parts = []
        for k in ("t_senders", "x_senders", "t_contracts", "x_contracts"):
            if getattr(self, k):
                parts.append(f"{k}={[hex(a) for a in getattr(self, k)]}")
        for k in ("t_selectors", "x_selectors"):
            if getattr(self, k):
                parts.append(f"{k}={[(hex(a), sigs) for a, sigs in getattr(self, k)]}")
        return " ".join(parts) or "no filters"


def _w32(n: int) -> bytes:
    return n.to_bytes(32, "big")


def enc_addr_array(addrs: list[int]) -> bytes:
    return _w32(0x20) + _w32(len(addrs)) + b"".join(_w32(a) for a in addrs)


def enc_fuzzselector_array(items: list) -> bytes:
    """abi.encode(FuzzSelector[]) with FuzzSelector = (address addr, bytes4[] selectors)."""
    heads, tails = [], b""
    for addr, sigs in items:
        heads.append(32 * len(items) + len(tails))
        sels = b"".join(bytes.fromhex(selector(sg)).ljust(32, b"\0") for sg in sigs)
        tails += _w32(addr) + _w32(0x40) + _w32(len(sigs)) + sels
    return _w32(0x20) + _w32(len(items)) + b"".join(_w32(h) for h in heads) + tails


def getter_fns(flt: Filters) -> tuple[list, list]:
    """The six forge-std getters as view functions returning constant ABI blobs."""
    blobs = {
        "targetSenders()": enc_addr_array(flt.t_senders), "excludeSenders()": enc_addr_array(flt.x_senders),
        "targetContracts()": enc_addr_array(flt.t_contracts), "excludeContracts()": enc_addr_array(flt.x_contracts),
        "targetSelectors()": enc_fuzzselector_array(flt.t_selectors), "excludeSelectors()": enc_fuzzselector_array(flt.x_selectors),
    }
    fns, data = [], []
    for i, sig in enumerate(GETTERS):
        b = blobs[sig]
        fns.append(Fn(sig, [("PUSHN", 2, len(b)), ("PUSHL", f"blob{i}"), ("PUSH", 0), "CODECOPY", ("PUSHN", 2, len(b)), ("PUSH", 0), "RETURN"], mutability="view"))
        data += [("MARK", f"blob{i}"), ("RAW", b)]
    return fns, data


def _a():  # masked argument
    return arg(0) + [("PUSH", 3), "AND"]


def _set(slot, code):
    return code + [("PUSH", slot), "SSTORE"]


def _x():
    return [("PUSH", 0), "SLOAD"]


def _y():
    return [("PUSH", 1), "SLOAD"]


@dataclass
class TFn:
    sig: str
    body: list
    nargs: int
    payable: bool = False
    desc: str = ""


def gen_functions(rnd: random.Random, n: int) -> list[TFn]:
    out = []
    kinds = ["inc", "setx", "gate", "owner", "pay", "assertive", "swap", "reset", "addy", "incy", "sameblock", "later", "sameblock", "pairset", "pairset"]
    rnd.shuffle(kinds)
    for i, k in enumerate(kinds[:n]):
        lab = f"r{i}"
        K, K2 = rnd.randrange(4), rnd.randrange(4)
        if k == "inc":
            out.append(TFn(f"inc{i}()", _set(0, _x() + [("PUSH", 1), "ADD"]) + ["STOP"], 0, desc="x++"))
        elif k == "incy":
            out.append(TFn(f"incy{i}()", _set(1, _y() + [("PUSH", 1), "ADD"]) + ["STOP"], 0, desc="y++"))
        elif k == "setx":
            c = rnd.randrange(3)
            body = _a() + [("PUSH", K), "EQ", ("PUSHL", lab), "JUMPI"] + revert_plain() + [("LABEL", lab)] + _set(0, _a() + [("PUSH", c), "ADD"]) + ["STOP"]
            out.append(TFn(f"setx{i}(uint256)", body, 1, desc=f"require(a&3=={K}); x=(a&3)+{c}"))
        elif k == "gate":
            body = _x() + [("PUSH", K), "EQ", ("PUSHL", lab), "JUMPI", "STOP", ("LABEL", lab)] + _set(1, _a()) + ["STOP"]
            out.append(TFn(f"gate{i}(uint256)", body, 1, desc=f"if(x=={K}) y=a&3"))
        elif k == "owner":
            body = ["CALLER", ("PUSH", OWNER), "EQ", ("PUSHL", lab), "JUMPI"] + revert_plain() + [("LABEL", lab)] + _set(0, [("PUSH", K)]) + ["STOP"]
            out.append(TFn(f"owner{i}()", body, 0, desc=f"require(msg.sender==OWNER); x={K}"))
        elif k == "pay":
            body = ["CALLVALUE", ("PUSH", 1), "EQ", ("PUSHL", lab), "JUMPI", "STOP", ("LABEL", lab)] + _set(1, [("PUSH", K)]) + ["STOP"]
            out.append(TFn(f"pay{i}()", body, 0, payable=True, desc=f"if(msg.value==1) y={K}"))
        elif k == "assertive":
            body = _x() + [("PUSH", K), "EQ"] + _a() + [("PUSH", K2), "EQ", "AND", ("PUSHL", lab), "JUMPI", "STOP", ("LABEL", lab)] + panic(1)
            out.append(TFn(f"assertive{i}(uint256)", body, 1, desc=f"assert(!(x=={K} && a&3=={K2}))"))
        elif k == "swap":
            out.append(TFn(f"swap{i}()", _x() + _y() + [("PUSH", 0), "SSTORE", ("PUSH", 1), "SSTORE", "STOP"], 0, desc="x,y=y,x"))
        elif k == "reset":
            out.append(TFn(f"reset{i}()", _set(0, [("PUSH", 0)]) + ["STOP"], 0, desc="x=0"))
        elif k == "sameblock":
            # slot 2 remembers the block timestamp of the latest call of this function
            body = ["TIMESTAMP", ("PUSH", 2), "SLOAD", "EQ", ("PUSHL", lab), "JUMPI", "TIMESTAMP", ("PUSH", 2), "SSTORE", "STOP", ("LABEL", lab)] + _set(0, [("PUSH", K)]) + ["STOP"]
            out.append(TFn(f"sameblock{i}()", body, 0, desc=f"if(block.timestamp==last) x={K} else last=block.timestamp"))
        elif k == "later":
            body = [("PUSH", 2), "SLOAD", "DUP1", "ISZERO", ("PUSHL", lab), "JUMPI", "DUP1", "TIMESTAMP", "GT", "ISZERO", ("PUSHL", lab), "JUMPI"] + _set(1, [("PUSH", K)]) + \
                   [("LABEL", lab), "POP", "TIMESTAMP", ("PUSH", 2), "SSTORE", "STOP"]
            out.append(TFn(f"later{i}()", body, 0, desc=f"if(last!=0 && block.timestamp>last) y={K}; last=block.timestamp"))
        elif k == "pairset":
            # two related arguments; the branch on b only matters through a <= b: the two arms reach states that
            # differ only in a constraint that does not mention the stored value directly
            a2 = arg(0) + [("PUSH", 3), "AND"]
            b2 = arg(1) + [("PUSH", 3), "AND"]
            neg = ["ISZERO"] if rnd.random() < 0.5 else []
            lab2 = f"rr{i}"
            body = a2 + b2 + ["LT", "ISZERO", ("PUSHL", lab), "JUMPI"] + revert_plain() + [("LABEL", lab)]  # require(a <= b)
            body += [("PUSH", max(K, 1))] + b2 + ["LT"] + neg + [("PUSHL", lab2), "JUMPI", ("LABEL", lab2)]  # if (b < K) {} - both arms continue here
            body += _set(0, a2) + ["STOP"]
            out.append(TFn(f"pairset{i}(uint256,uint256)", body, 2, desc=f"require(a&3<=b&3); if({'!' if neg else ''}(b&3<{max(K, 1)})){{}} x=a&3"))
        elif k == "addy":
            out.append(TFn(f"addy{i}()", _set(0, _x() + _y() + ["ADD"]) + ["STOP"], 0, desc="x+=y"))
    return out


@dataclass
class Machine:
    test: Contract
    target: Contract
    fns: list[TFn]
    inv_desc: str
    depth: int
    meta: dict = field(default_factory=dict)
    filters: Filters | None = None
    dummy: Contract | None = None
    depth_via: str = "cli"  # how the depth reaches halmos: "cli" (--invariant-depth) or "annotation" (@custom:halmos on the invariant function)


def gen_machine(rnd: random.Random, depth: int | None = None, fns: list[TFn] | None = None, inv: tuple | None = None,
                filters: Filters | None = None) -> Machine:
    fns = fns if fns is not None else gen_functions(rnd, rnd.randint(2, 4))
    getx = Fn("getx()", _x() + [("PUSH", 0), "MSTORE", ("PUSH", 32), ("PUSH", 0), "RETURN"], mutability="view")
    gety = Fn("gety()", _y() + [("PUSH", 0), "MSTORE", ("PUSH", 32), ("PUSH", 0), "RETURN"], mutability="view")
    target = Contract("Machine", [Fn(f.sig, _uniq(f.body, f"t{i}"), mutability="payable" if f.payable else "nonpayable") for i, f in enumerate(fns)] + [getx, gety],
                      filename="src/Machine.sol")
    tinit = target.creation()
    setup = [("PUSHN", 2, len(tinit)), ("PUSHL", "tinit"), ("PUSH", 0x100), "CODECOPY", ("PUSHN", 2, len(tinit)), ("PUSH", 0x100), ("PUSH", 0), "CREATE",
             ("PUSH", 0), "SSTORE"]
    extra_fns, extra_data, dummy = [], [], None
    if filters is not None:
        dummy = Contract("Dummy", [Fn("noop()", ["STOP"])], filename="src/Dummy.sol")
        dinit = dummy.creation()
        setup += [("PUSHN", 2, len(dinit)), ("PUSHL", "dinit"), ("PUSH", 0x100), "CODECOPY", ("PUSHN", 2, len(dinit)), ("PUSH", 0x100), ("PUSH", 0), "CREATE", "POP"]
        extra_fns, extra_data = getter_fns(filters)
        extra_data += [("MARK", "dinit"), ("RAW", dinit)]
    setup += ["STOP"]

    def call_get(sig, off):
        return [("PUSHN", 32, int(selector(sig), 16) << 224), ("PUSH", 0), "MSTORE",
                ("PUSH", 32), ("PUSH", off), ("PUSH", 4), ("PUSH", 0), ("PUSH", 0), ("PUSH", 0), "SLOAD", ("PUSH", 0xFFFFFF), "CALL", "POP"]

    V, V2 = rnd.randint(1, 4), rnd.randrange(4)
    kind = rnd.choice(["x", "sum", "pair"])
    if inv is not None:
        kind, V, V2 = inv
    load = call_get("getx()", 0x40) + call_get("gety()", 0x60)
    if kind == "x":
        cond = [("PUSH", 0x40), "MLOAD", ("PUSH", V), "EQ"]
        desc = f"x != {V}"
    elif kind == "sum":
        cond = [("PUSH", 0x40), "MLOAD", ("PUSH", 0x60), "MLOAD", "ADD", ("PUSH", V), "EQ"]
        desc = f"x + y != {V}"
    else:
        cond = [("PUSH", 0x40), "MLOAD", ("PUSH", V), "EQ", ("PUSH", 0x60), "MLOAD", ("PUSH", V2), "EQ", "AND"]
        desc = f"!(x == {V} && y == {V2})"
    inv = load + cond + [("PUSHL", "bad"), "JUMPI", "STOP", ("LABEL", "bad")] + panic(1)
    test = Contract("InvTest", [Fn("setUp()", setup), Fn("invariant_machine()", inv)] + extra_fns, data=[("MARK", "tinit"), ("RAW", tinit)] + extra_data)
    return Machine(test, target, fns, desc, depth if depth is not None else rnd.choice([1, 2, 2, 3]),
                   meta={"functions": [f"{f.sig}: {f.desc}" for f in fns], "invariant": desc, "filters": filters.describe() if filters else "none"},
                   filters=filters, dummy=dummy)


def _uniq(body, tag):
    out = []
    for it in body:
        if isinstance(it, tuple) and it[0] in ("LABEL", "PUSHL", "MARK"):
            out.append((it[0], f"{it[1]}_{tag}"))
        else:
            out.append(it)
    return out


def frontier_case(cid: int, m: Machine, depth: int | None = None, fns: list[TFn] | None = None, senders: list[int] | None = None,
                  first_at_setup: bool = True) -> dict:
    """The Frontier.tla case for machine m (optionally with a filtered function / sender set)."""
    w = e1.word
    base = e1.mk_case(cid, {}, [], balances={FOUNDRY_TEST: TEST_BALANCE, OWNER: 10, OTHER: 10, ANY: 10})
    base.pop("txs")
    base["pre"] = [
        e1.mk_tx(FOUNDRY_TEST, FOUNDRY_CALLER, FOUNDRY_CALLER, 0, m.test.creation(), create=True),
        e1.mk_tx(FOUNDRY_TEST, FOUNDRY_CALLER, FOUNDRY_CALLER, 0, bytes.fromhex(selector("setUp()"))),
    ]
    base["inv"] = e1.mk_tx(FOUNDRY_TEST, FOUNDRY_CALLER, FOUNDRY_CALLER, 0, bytes.fromhex(selector("invariant_machine()")))
    use = fns if fns is not None else m.fns

    def fn_rec(sig, nargs, payable, view=False):
        return {"sel": list(bytes.fromhex(selector(sig))), "nargs": nargs, "values": [w(0), w(1)] if payable else [w(0)], "view": view}

    # every deployed contract with every function of its ABI; which of them are called is decided by the
    # specification (Frontier!TargetAddrs / TargetFns) from the filters the test contract declares
    base["deployed"] = [{"addr": w(TARGET_ADDR), "fns": [fn_rec(f.sig, f.nargs, f.payable) for f in use] +
                         [fn_rec("getx()", 0, False, True), fn_rec("gety()", 0, False, True)]}]
    flt = m.filters or Filters()
    if m.filters is not None:
        base["deployed"].append({"addr": w(DUMMY_ADDR), "fns": [fn_rec("noop()", 0, False)]})

    def sel_list(items):
        return [{"addr": w(a), "sels": [list(bytes.fromhex(selector(sg))) for sg in sigs]} for a, sigs in items]

    base["test"] = w(FOUNDRY_TEST)
    base["filters"] = {"tSenders": [w(a) for a in flt.t_senders], "xSenders": [w(a) for a in flt.x_senders],
                       "tContracts": [w(a) for a in flt.t_contracts], "xContracts": [w(a) for a in flt.x_contracts],
                       "tSelectors": sel_list(flt.t_selectors), "xSelectors": sel_list(flt.x_selectors)}
    base["argdom"] = [w(i) for i in range(4)]
    base["senders"] = [w(s) for s in (senders if senders is not None else [OWNER, OTHER, ANY])]
    base["depth"] = depth if depth is not None else m.depth
    # timestamps: setUp runs at 1; the targets only compare timestamps with each other, so depth+1 values are complete
    base["tsdom"] = [w(t) for t in range(1, base["depth"] + 2)]
    base["firstAtSetup"] = first_at_setup
    return base


def late_machine() -> Machine:
    """Probe: the only way to break `x != 3` is a first call at a timestamp later than setUp's."""
    body = ["TIMESTAMP", ("PUSH", 1), "LT", ("PUSHL", "r"), "JUMPI", "STOP", ("LABEL", "r")] + _set(0, [("PUSH", 3)]) + ["STOP"]
    f = TFn("late()", body, 0, desc="if(block.timestamp>1) x=3")
    return gen_machine(random.Random(0), depth=1, fns=[f], inv=("x", 3, 0))


def same_block_machine() -> Machine:
    """Two calls in the same block: `x != 3` breaks only if the second call has the timestamp of the first."""
    body = ["TIMESTAMP", ("PUSH", 2), "SLOAD", "EQ", ("PUSHL", "r"), "JUMPI", "TIMESTAMP", ("PUSH", 2), "SSTORE", "STOP", ("LABEL", "r")] + _set(0, [("PUSH", 3)]) + ["STOP"]
    f = TFn("poke()", body, 0, desc="if(block.timestamp==last) x=3 else last=block.timestamp")
    return gen_machine(random.Random(0), depth=2, fns=[f], inv=("x", 3, 0))


def later_block_machine() -> Machine:
    """... and `y != 2` breaks only if the second call comes strictly later than the first."""
    body = [("PUSH", 2), "SLOAD", "DUP1", "ISZERO", ("PUSHL", "r"), "JUMPI", "DUP1", "TIMESTAMP", "GT", "ISZERO", ("PUSHL", "r"), "JUMPI"] + _set(0, [("PUSH", 3)]) + \
           [("LABEL", "r"), "POP", "TIMESTAMP", ("PUSH", 2), "SSTORE", "STOP"]
    f = TFn("tick()", body, 0, desc="if(last!=0 && block.timestamp>last) x=3; last=block.timestamp")
    return gen_machine(random.Random(0), depth=2, fns=[f], inv=("x", 3, 0))


def refuted_probe_machine(first_falls_through: bool = True) -> Machine:
    """Two assertions in one target function: the first can never fail (timestamps do not decrease) but its Panic branch is
    only refuted by the full query - the branching solver, which sees the sliced state, takes it for possible; the second
    one fails in the second call.  The refuted one must not stand in for the real one.  (The shape of the first check
    decides which of the two potential violations halmos meets first.)"""
    body = [("PUSH", 2), "SLOAD", "TIMESTAMP", "LT"]
    body += ["ISZERO", ("PUSHL", "ok1"), "JUMPI"] + panic(1) + [("LABEL", "ok1")] if first_falls_through else [("PUSHL", "p1"), "JUMPI"]
    body += ["TIMESTAMP", ("PUSH", 2), "SSTORE"] + _set(0, [("PUSH", 0), "SLOAD", ("PUSH", 1), "ADD"])
    body += [("PUSH", 2), ("PUSH", 0), "SLOAD", "LT", "ISZERO", ("PUSHL", "p2"), "JUMPI", "STOP", ("LABEL", "p2")] + panic(1)
    if not first_falls_through:
        body += [("LABEL", "p1")] + panic(1)
    f = TFn("touch()", body, 0, desc="assert(block.timestamp>=last); last=block.timestamp; x=x+1; assert(x<2)")
    return gen_machine(random.Random(0), depth=2, fns=[f], inv=("x", 7, 0))


def counter_machine(depth: int) -> Machine:
    """inc(): x = x + 1; invariant x != depth: broken by exactly `depth` calls.  The depth is given by a function-level
    annotation (`@custom:halmos --invariant-depth N`), not on the command line."""
    f = TFn("inc()", _set(0, [("PUSH", 0), "SLOAD", ("PUSH", 1), "ADD"]) + ["STOP"], 0, desc="x=x+1")
    m = gen_machine(random.Random(0), depth=depth, fns=[f], inv=("x", depth, 0))
    m.depth_via = "annotation"
    for fn in m.test.fns:
        if fn.sig == "invariant_machine()":
            fn.devdoc = f"--invariant-depth {depth}"
    return m


def merge_machine() -> Machine:
    """Two paths of one call end in states that differ only in a constraint on an argument the stored value is
    merely related to (a <= b, then b < 2 / b >= 2): they are different states and must not be merged."""
    a2 = arg(0) + [("PUSH", 3), "AND"]
    b2 = arg(1) + [("PUSH", 3), "AND"]
    body = a2 + b2 + ["LT", "ISZERO", ("PUSHL", "k1"), "JUMPI"] + revert_plain() + [("LABEL", "k1")]
    body += [("PUSH", 2)] + b2 + ["LT", "ISZERO", ("PUSHL", "k2"), "JUMPI", ("LABEL", "k2")]
    body += _set(0, a2) + ["STOP"]
    f = TFn("pair(uint256,uint256)", body, 2, desc="require(a&3<=b&3); if(!(b&3<2)){} x=a&3")
    return gen_machine(random.Random(0), depth=1, fns=[f], inv=("x", 3, 0))
