"""Replay of HashRegistry.tla histories into the real KeccakRegistry / OffsetMap (sevm.py, utils.py).

A model key k = (block, low) over OffsetBits = 2 is mapped to the real key ((BASE + block) << 16) | LOW[low], with
LOW = (0, 0x5555, 0xAAAA, 0xFFFF): both ends of a real 2^16 block are exercised and a model distance d corresponds to
the real distance 0x5555 * d.  After every operation of a history the complete lookup table and id table of every
registry is compared with the tables TLC computed from the specification.
"""

from __future__ import annotations

import z3

from .common import MachineryError

LOW = (0, 0x5555, 0xAAAA, 0xFFFF)
BASE = (0x5EED << 200) + 0x1234
M256 = 1 << 256


def real_key(k: int) -> int:
    return ((BASE + (k >> 2)) << 16) | LOW[k & 3]


def _api():
    from halmos.sevm import KeccakRegistry
    from halmos.utils import precomputed_keccak_registry

    for b in range(4):
        if (BASE + b) in precomputed_keccak_registry._map:
            raise MachineryError("replay blocks collide with the precomputed keccak table")
    return KeccakRegistry


def replay(rec: dict, registry_cls=None) -> list[str]:
    """Returns the list of disagreements (empty: the history is a behaviour of the implementation)."""
    K = registry_cls or _api()
    hv = rec["hv"]
    exprs = {e: z3.BitVec(f"f_sha3_probe_{e}", 256) for e in hv}
    regs = [K()]
    out = []
    for n, op in enumerate(rec["ops"]):
        i = op["reg"] - 1
        if op["op"] == "register":
            e = op["expr"]
            v = hv[e]
            regs[i].register(exprs[e], None if v < 0 else real_key(v).to_bytes(32, "big"))
        elif op["op"] == "copy":
            regs.append(regs[i].copy())
        else:
            raise MachineryError(f"unknown op {op}")
        tables, ids = op["tables"], op["ids"]
        if len(tables) != len(regs):
            raise MachineryError("registry count mismatch between history and replay")
        for j, reg in enumerate(regs):
            want_ids = ids[j]
            got_ids = list(reg)
            if [str(x) for x in got_ids] != [str(exprs[e]) for e in want_ids]:
                out.append(f"step {n + 1} ({op['op']} on registry {i + 1}): registry {j + 1} iterates {got_ids}, specification {want_ids}")
            for pos, e in enumerate(want_ids):
                if exprs[e] not in reg or reg.get_id(exprs[e]) != pos:
                    out.append(f"step {n + 1}: registry {j + 1}: id of {e} is {reg.get_id(exprs[e]) if exprs[e] in reg else None}, specification {pos}")
            for e in hv:
                if e not in want_ids and exprs[e] in reg:
                    out.append(f"step {n + 1}: registry {j + 1} contains {e}, which was never registered in it")
            tab = tables[j]
            for ks, want in (tab.items() if isinstance(tab, dict) else enumerate(tab)):
                k = int(ks)
                got = reg.reverse_lookup(real_key(k))
                if not want:
                    if got is not None:
                        out.append(f"step {n + 1}: registry {j + 1}: lookup of key {k} answers {got}, specification: not found")
                    continue
                e, d = want[0], int(want[1])
                if got is None:
                    out.append(f"step {n + 1} ({op['op']} on registry {i + 1}): registry {j + 1}: lookup of key {k} finds nothing, specification: {e} + {d}")
                    continue
                diff = z3.simplify(got - exprs[e])
                if not z3.is_bv_value(diff) or diff.as_long() != (0x5555 * d) % M256:
                    out.append(f"step {n + 1}: registry {j + 1}: lookup of key {k} answers {got}, specification: {e} + {d}")
                elif d == 0 and not z3.eq(got, exprs[e]):
                    out.append(f"step {n + 1}: registry {j + 1}: lookup of key {k} (distance 0) is not the registered expression itself: {got}")
    return out
