"""C17, last clause: a solver job that exceeds its time limit is reported as `unknown`, never `unsat`.

`halmos.solve.solve_low_level` is driven with its real collaborators (PathContext, SolvingContext,
PopenExecutor, real subprocesses) and a stub solver command (a shell script under /verif/.work) that
 * answers `unsat` only AFTER sleeping far beyond the limit,
 * answers `unsat` at once and then keeps running beyond the limit,
 * answers at once and exits (control: the harness does see `unsat`/`sat`/`unknown` when it is due).
"""

from __future__ import annotations

import os
import stat
import time
from pathlib import Path

from .common import MachineryError, repo_python_path

repo_python_path()

from z3 import sat, unknown, unsat  # noqa: E402

from halmos.config import ConfigSource, arg_parser, default_config  # noqa: E402
from halmos.sevm import SMTQuery  # noqa: E402
from halmos.solve import EXIT_TIMEDOUT, PathContext, SolvingContext, solve_low_level  # noqa: E402

STUBS = {
    # name: (script body, timeout, expected result, what it shows)
    "late-unsat": ("sleep 30\necho unsat\n", "400ms", "unknown"),
    "unsat-then-hang": ("echo unsat\nsleep 30\n", "400ms", "unknown"),
    "late-sat": ("sleep 30\necho sat\n", "300ms", "unknown"),
    "fast-unsat": ("echo unsat\n", "20s", "unsat"),
    "fast-sat": ("echo sat\n", "20s", "sat"),
    "fast-unknown": ("echo unknown\n", "20s", "unknown"),
    "no-limit-unsat": ("sleep 0.3\necho unsat\n", "0", "unsat"),
}


def _name(r) -> str:
    return "unsat" if r == unsat else "sat" if r == sat else "unknown" if r == unknown else str(r)


def mk_args(stub: Path, timeout: str):
    ns = arg_parser().parse_args(
        ["--solver-command", f"sh {stub}", "--solver-timeout-assertion", timeout]
    )
    return default_config().with_overrides(ConfigSource.command_line, **vars(ns))


def run_stub(work: Path, name: str, solve=solve_low_level) -> dict:
    body, timeout, expect = STUBS[name]
    d = work / f"solve-{name}"
    d.mkdir(parents=True, exist_ok=True)
    stub = d / "stub.sh"
    stub.write_text("#!/bin/sh\n# stub solver: ignores the query file\n" + body)
    os.chmod(stub, stat.S_IRWXU)
    args = mk_args(stub, timeout)
    if args.resolved_solver_command[:2] != ["sh", str(stub)]:
        raise MachineryError(f"stub solver command not taken over: {args.resolved_solver_command}")
    sctx = SolvingContext(dump_dir=d)
    pctx = PathContext(args=args, path_id=1, solving_ctx=sctx, query=SMTQuery("(assert true)", []))
    t0 = time.time()
    try:
        out = solve(pctx)
    finally:
        sctx.executor.shutdown(wait=False)
    took = time.time() - t0
    fut = sctx.executor.futures[0] if sctx.executor.futures else None
    return {
        "stub": name,
        "limit": timeout,
        "expected": expect,
        "result": _name(out.result),
        "returncode": out.returncode,
        "took_s": round(took, 2),
        "timed_out": fut is not None and type(fut._exception).__name__ == "TimeoutExpired",
        "still_running": bool(fut is not None and fut.is_running()),
        "exit_timedout_code": EXIT_TIMEDOUT,
    }


def judge(rec: dict) -> list[tuple[str, str]]:
    """Violations (key, what) of one stub run."""
    v = []
    if rec["timed_out"] and rec["result"] != "unknown":
        v.append((f"solver-timeout-reported-as-{rec['result']}",
                  f"stub {rec['stub']} exceeded its limit {rec['limit']} but solve_low_level returned {rec['result']}"))
    elif rec["result"] != rec["expected"]:
        if rec["expected"] == "unknown" and rec["result"] == "unsat":
            v.append(("solver-timeout-reported-as-unsat",
                      f"stub {rec['stub']} (limit {rec['limit']}) must give unknown, solve_low_level returned unsat"))
        else:
            v.append((f"solver-result-{rec['stub']}",
                      f"stub {rec['stub']}: expected {rec['expected']}, solve_low_level returned {rec['result']}"))
    if rec["still_running"]:
        v.append(("solver-process-survives", f"stub {rec['stub']}: the solver process is still running afterwards"))
    return v


def bad_solve(pctx):
    """Negative control: a wrapper of solve_low_level that turns a timeout into `unsat`."""
    from dataclasses import replace

    out = solve_low_level(pctx)
    if out.returncode == EXIT_TIMEDOUT:
        return replace(out, result=unsat) if hasattr(out, "__dataclass_fields__") else out
    return out


def run_refined_shutdown(work: Path) -> list[tuple[str, str]]:
    """solve_end_to_end: the first answer is `sat` with a model that mentions an abstraction, so a second (refined) job is
    issued; that job hangs.  A shutdown of the function's executor while it runs must reach it: solver process dead,
    solve_end_to_end back, and a refined job issued after the shutdown refused."""
    import threading

    from halmos.processes import ShutdownError
    from halmos.solve import solve_end_to_end

    d = work / "solve-refined"
    d.mkdir(parents=True, exist_ok=True)
    pidfile = d / "refined.pid"
    stub = d / "stub.sh"
    stub.write_text("#!/bin/sh\ncase \"$1\" in\n  *refined*) echo $$ > " + str(pidfile) + "; exec sleep 60;;\n"
                    "  *) echo sat; echo '((define-fun f_evm_bvmul_256 ((x!0 (_ BitVec 256)) (x!1 (_ BitVec 256))) (_ BitVec 256) #x" + "0" * 64 + "))';;\nesac\n")
    os.chmod(stub, stat.S_IRWXU)
    args = mk_args(stub, "0")
    sctx = SolvingContext(dump_dir=d)
    q = SMTQuery("(declare-fun f_evm_bvmul_256 ((_ BitVec 256) (_ BitVec 256)) (_ BitVec 256))\n(assert true)", [])
    pctx = PathContext(args=args, path_id=7, solving_ctx=sctx, query=q)
    box = {}
    th = threading.Thread(target=lambda: box.update(out=_safe(lambda: solve_end_to_end(pctx))), daemon=True)
    th.start()
    t0 = time.time()
    while time.time() - t0 < 10 and not pidfile.exists():
        time.sleep(0.05)
    v = []
    if not pidfile.exists():
        sctx.executor.shutdown(wait=False)
        raise MachineryError("the refined solver job was never started")
    pid = int(pidfile.read_text().strip() or 0)
    sctx.executor.shutdown(wait=False)
    th.join(timeout=8)
    alive = pid and os.path.exists(f"/proc/{pid}") and "sleep" in open(f"/proc/{pid}/cmdline").read()
    if th.is_alive():
        v.append(("refined-job-blocks-after-shutdown", "solve_end_to_end is still blocked 8 s after the executor of its function was shut down (the refined job was not reached)"))
    if alive:
        v.append(("refined-solver-survives-shutdown", f"the solver process of the refined query (pid {pid}) is still running after the shutdown request"))
        try:
            os.kill(pid, 9)
        except OSError:
            pass
    try:
        solve_low_level(pctx.refine())
        v.append(("refined-job-accepted-after-shutdown", "a refined job issued after the shutdown was accepted"))
    except ShutdownError:
        pass
    except Exception:  # noqa: BLE001 - any other refusal is fine
        pass
    finally:
        if pidfile.exists():
            try:
                os.kill(int(pidfile.read_text().strip() or 0), 9)
            except (OSError, ValueError):
                pass
    return v


def _safe(f):
    try:
        return f()
    except Exception as e:  # noqa: BLE001
        return e
