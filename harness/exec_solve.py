"""C17, last clause: a solver job that exceeds its time limit is reported as `unknown`, never `unsat`.

`halmos.solve.solve_low_level` is driven with its real collaborators (PathContext, SolvingContext,
PopenExecutor, real subprocesses) and a stub solver command (a shell script under /verif/.work) that
 * answers `unsat` only AFTER sleeping far beyond the limit,
 * answers `unsat` at once and then keeps running beyond the limit,
 * answers at once and exits (control: the harness does see `unsat`/`sat`/`unknown` when it is due).
"""

from __future__ import annotations

import os
import stat
import time
from pathlib import Path

from .common import MachineryError, repo_python_path

repo_python_path()

from z3 import sat, unknown, unsat  # noqa: E402

from halmos.config import ConfigSource, arg_parser, default_config  # noqa: E402
from halmos.sevm import SMTQuery  # noqa: E402
from halmos.solve import EXIT_TIMEDOUT, PathContext, SolvingContext, solve_low_level  # noqa: E402

STUBS = {
    # name: (script body, timeout, expected result, what it shows)
    "late-unsat": ("sleep 30\necho unsat\n", "400ms", "unknown"),
    "unsat-then-hang": ("echo unsat\nsleep 30\n", "400ms", "unknown"),
    "late-sat": ("sleep 30\necho sat\n", "300ms", "unknown"),
    "fast-unsat": ("echo unsat\n", "20s", "unsat"),
    "fast-sat": ("echo sat\n", "20s", "sat"),
    "fast-unknown": ("echo unknown\n", "20s", "unknown"),
    "no-limit-unsat": ("sleep 0.3\necho unsat\n", "0", "unsat"),
}


def _name(r) -> str:
    return "unsat" if r == unsat else "sat" if r == sat else "unknown" if r == unknown else str(r)


def mk_args(stub: Path, timeout: str):
    ns = arg_parser().parse_args(
        ["--solver-command", f"sh {stub}", "--solver-timeout-assertion", timeout]
    )
    return default_config().with_overrides(ConfigSource.command_line, **vars(ns))


def run_stub(work: Path, name: str, solve=solve_low_level) -> dict:
    body, timeout, expect = STUBS[name]
    d = work / f"solve-{name}"
    d.mkdir(parents=True, exist_ok=True)
    stub = d / "stub.sh"
    stub.write_text("#!/bin/sh\n# stub solver: ignores the query file\n" + body)
    os.chmod(stub, stat.S_IRWXU)
    args = mk_args(stub, timeout)
    if args.resolved_solver_command[:2] != ["sh", str(stub)]:
        raise MachineryError(f"stub solver command not taken over: {args.resolved_solver_command}")
    sctx = SolvingContext(dump_dir=d)
    pctx = PathContext(args=args, path_id=1, solving_ctx=sctx, query=SMTQuery("(assert true)", []))
    t0 = time.time()
    try:
        out = solve(pctx)
    finally:
        sctx.executor.shutdown(wait=False)
    took = time.time() - t0
    fut = sctx.executor.futures[0] if sctx.executor.futures else None
    return {
        "stub": name,
        "limit": timeout,
        "expected": expect,
        "result": _name(out.result),
        "returncode": out.returncode,
        "took_s": round(took, 2),
        "timed_out": fut is not None and type(fut._exception).__name__ == "TimeoutExpired",
        "still_running": bool(fut is not None and fut.is_running()),
        "exit_timedout_code": EXIT_TIMEDOUT,
    }


def judge(rec: dict) -> list[tuple[str, str]]:
    """Violations (key, what) of one stub run."""
    v = []
    if rec["timed_out"] and rec["result"] != "unknown":
        v.append((f"solver-timeout-reported-as-{rec['result']}",
                  f"stub {rec['stub']} exceeded its limit {rec['limit']} but solve_low_level returned {rec['result']}"))
    elif rec["result"] != rec["expected"]:
        if rec["expected"] == "unknown" and rec["result"] == "unsat":
            v.append(("solver-timeout-reported-as-unsat",
                      f"stub {rec['stub']} (limit {rec['limit']}) must give unknown, solve_low_level returned unsat"))
        else:
            v.append((f"solver-result-{rec['stub']}",
                      f"stub {rec['stub']}: expected {rec['expected']}, solve_low_level returned {rec['result']}"))
    if rec["still_running"]:
        v.append(("solver-process-survives", f"stub {rec['stub']}: the solver process is still running afterwards"))
    return v


def bad_solve(pctx):
    """Negative control: a wrapper of solve_low_level that turns a timeout into `unsat`."""
    from dataclasses import replace

    out = solve_low_level(pctx)
    if out.returncode == EXIT_TIMEDOUT:
        return replace(out, result=unsat) if hasattr(out, "__dataclass_fields__") else out
    return out
