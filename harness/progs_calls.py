"""Call-tree programs (E1 corpus for C09 and the call/creation part of C01).

A tree node is one account.  Every node performs state effects, calls its children with a chosen
call kind / value / return-area shape, copies what came back into its own memory, appends a report of
the context it observed (CALLER, ADDRESS, CALLVALUE, ORIGIN, storage, balance, transient storage) and
ends with a chosen outcome.  The root additionally re-reads the state of every account of the tree, so
atomicity, context, return data and value conservation are all visible in the root's output.
"""

from __future__ import annotations

import random
from dataclasses import dataclass, field

from .asm import assemble
from .hrun import CALLER, Prog, Sym, TARGET
from .progs import compile_expr

NODE_BASE = 0xC0DE00
GAS = 0xFFFFFF
MARKER = int.from_bytes(b"\x11" * 32, "big")
REPORT_WORDS = 10
REPORT = 32 * REPORT_WORDS
ARG_OFF = REPORT  # one word of arguments for children
KIDS_OFF = REPORT + 32

CALL_KINDS = ["CALL", "STATICCALL", "DELEGATECALL", "CALLCODE"]
OUTCOMES = ["return", "return", "return", "revert", "invalid", "oob", "stop", "static_write", "short", "short_revert", "split_fail", "split_mixed"]


@dataclass
class Node:
    addr: int
    kind: str  # how the parent reaches this node: CALL.. | CREATE | CREATE2 | ROOT
    value: tuple  # expression for the call value (CALL / CALLCODE / CREATE*)
    pre: list  # effects before the calls
    post: list  # effects after the calls
    outcome: str
    children: list = field(default_factory=list)
    retshape: tuple = ("copy",)  # ("copy",) RETURNDATACOPY everything | ("area", size) use the CALL return area
    retlen: int = 0
    salt: int = 0


def _effects(rnd, nin) -> list:
    out = []
    for _ in range(rnd.randint(0, 2)):
        k = rnd.random()
        val = ("in", rnd.randrange(nin)) if rnd.random() < 0.6 else ("c", rnd.choice([1, 2, 7, 2**255]))
        slot = rnd.choice([0, 0, 1, 2])
        if k < 0.4:
            out.append(("SSTORE", slot, val))
        elif k < 0.55:
            # read-modify-write: what is stored depends on what the frame finds (rolled-back or leaked state shows)
            out.append((rnd.choice(["SINC", "SINC", "TINC"]), slot, val))
        elif k < 0.8:
            out.append(("TSTORE", slot, val))
        else:
            out.append(("LOG", rnd.randint(0, 2), val))
    return out


def gen_tree(rnd: random.Random, depth: int, nin: int, counter: list, kind="ROOT", static: bool = False) -> Node:
    addr = TARGET if kind == "ROOT" else NODE_BASE + counter[0]
    counter[0] += 1
    vk = rnd.random()
    value = ("c", 0) if vk < 0.45 else (("in", rnd.randrange(nin)) if vk < 0.85 else ("c", rnd.choice([1, 2, 10**18])))
    if static and kind in ("CALL", "CALLCODE"):
        # a value-bearing CALL inside a static frame is a recorded finding (probe static-call-with-value)
        value = ("c", 0)
    n = Node(addr, kind, value, _effects(rnd, nin), _effects(rnd, nin), rnd.choice(OUTCOMES) if kind != "ROOT" else "return")
    if kind in ("CREATE", "CREATE2"):
        n.outcome = rnd.choice(["return", "return", "return", "revert", "invalid"])
        n.salt = rnd.choice([0, 1, 7])
    n.retshape = ("copy",) if rnd.random() < 0.65 else ("area", rnd.choice([0, 32, 40, 64, 4000]))
    if depth > 0:
        nk = rnd.choice([1, 1, 2]) if kind == "ROOT" else rnd.choice([0, 1, 1, 2])
        for _ in range(nk):
            ck = rnd.choice(CALL_KINDS + ["CALL", "CALL", "CREATE", "CREATE2"])
            child = gen_tree(rnd, depth - 1, nin, counter, ck, static or kind == "STATICCALL")
            n.children.append(child)
            if ck == "CREATE2" and rnd.random() < 0.4:
                # the same CREATE2 (salt, init code) twice: the first attempt fails inside the init code
                # (no value sent), the second one must then succeed - a failed creation leaves nothing behind
                import copy as _copy

                child.outcome = "needs_value"
                child.value = ("c", 0)
                twin = _copy.copy(child)
                twin.value = ("c", 1)
                n.children.append(twin)
    return n


def _retlen(n: Node) -> int:
    if n.kind in ("CREATE", "CREATE2"):
        # the parent sees: flag, extcodesize, then the return data of one call into the created code
        return 32
    total = KIDS_OFF
    for c in n.children:
        total += 64 + _retlen(c)
    n.retlen = total
    return total


RUNTIME_CREATED = assemble([
    # runtime of created contracts: returns CALLER ^ SLOAD(0) + 42 in one word
    "CALLER", ("PUSH", 0), "SLOAD", "XOR", ("PUSH", 42), "ADD", ("PUSH", 0), "MSTORE", ("PUSH", 32), ("PUSH", 0), "RETURN",
])


def _effect_code(e) -> list:
    op, a, val = e
    if op == "LOG":
        out = compile_expr(val) + [("PUSH", 0x1F00), "MSTORE"]
        for t in range(a):
            out += [("PUSH", 0x70 + t)]
        return out + [("PUSH", 32), ("PUSH", 0x1F00), f"LOG{a}"]
    if op in ("SINC", "TINC"):
        ld, st = ("SLOAD", "SSTORE") if op == "SINC" else ("TLOAD", "TSTORE")
        return [("PUSH", a), ld, ("PUSH", 1), "ADD", ("PUSH", a), st]
    return compile_expr(val) + [("PUSH", a), op]


def _report() -> list:
    ops = [["CALLER"], ["ADDRESS"], ["CALLVALUE"], ["ORIGIN"], [("PUSH", 0), "SLOAD"], ["SELFBALANCE"],
           [("PUSH", 0), "TLOAD"], [("PUSH", 0), "CALLDATALOAD"], [("PUSH", 1), "SLOAD"],
           ["CODESIZE"]]  # the size of the code being executed (the callee's, also in a DELEGATECALL / CALLCODE frame)
    out = []
    for i, o in enumerate(ops):
        out += o + [("PUSH", 32 * i), "MSTORE"]
    return out


def init_code(n: Node) -> bytes:
    """Creation code of a CREATE/CREATE2 node: effects, then deploy RUNTIME_CREATED (or fail)."""
    body = []
    for e in n.pre:
        body += _effect_code(e)
    if n.outcome == "needs_value":
        rl = len(RUNTIME_CREATED)
        body += ["CALLVALUE", ("PUSHL", "go"), "JUMPI", ("PUSH", 0), ("PUSH", 0), "REVERT", ("LABEL", "go"),
                 ("PUSHN", 2, rl), ("PUSHL", "rt"), ("PUSH", 0), "CODECOPY", ("PUSHN", 2, rl), ("PUSH", 0), "RETURN"]
    elif n.outcome == "revert":
        body += [("PUSH", 0xBAD), ("PUSH", 0), "MSTORE", ("PUSH", 32), ("PUSH", 0), "REVERT"]
    elif n.outcome == "invalid":
        body += ["INVALID"]
    else:
        rl = len(RUNTIME_CREATED)
        body += [("PUSHN", 2, rl), ("PUSHL", "rt"), ("PUSH", 0), "CODECOPY", ("PUSHN", 2, rl), ("PUSH", 0), "RETURN"]
    body += [("MARK", "rt"), ("RAW", RUNTIME_CREATED)]
    return assemble(body)


def node_code(n: Node, accounts: dict) -> bytes:
    body = []
    data = []
    for e in n.pre:
        body += _effect_code(e)
    base = KIDS_OFF
    for ci, c in enumerate(n.children):
        body += compile_expr(("in", ci % 3)) + [("PUSH", ARG_OFF), "MSTORE"]
        if c.kind in ("CREATE", "CREATE2"):
            ic = init_code(c)
            lab = f"init{ci}"
            data += [("MARK", lab), ("RAW", ic)]
            ioff = 0x1800
            body += [("PUSHN", 2, len(ic)), ("PUSHL", lab), ("PUSH", ioff), "CODECOPY"]
            if c.kind == "CREATE2":
                body += [("PUSH", c.salt)]
            body += [("PUSHN", 2, len(ic)), ("PUSH", ioff)] + compile_expr(c.value) + [c.kind]
            # stack: addr.  flag := addr != 0 ; codesize ; call it and keep one word of its return data
            # (the return-data buffer after a creation: empty on success, the revert data of the init code otherwise)
            body += ["RETURNDATASIZE", ("PUSH", 0x1F20), "MSTORE", ("PUSH", 0), ("PUSH", 0x1F40), "MSTORE",
                     "RETURNDATASIZE", ("PUSH", 0), ("PUSH", 0x1F40), "RETURNDATACOPY"]
            body += ["DUP1", "ISZERO", "ISZERO", ("PUSH", 0x1F20), "MLOAD", ("PUSH", 8), "SHL", "OR", ("PUSH", 0x1F40), "MLOAD", ("PUSH", 16), "SHL", "XOR", ("PUSH", base), "MSTORE"]
            body += ["DUP1", "EXTCODESIZE", ("PUSH", base + 32), "MSTORE"]
            body += [("PUSH", 32), ("PUSH", base + 64), ("PUSH", 0), ("PUSH", 0), ("PUSH", 0), "DUP6", ("PUSH", GAS), "CALL", "POP", "POP"]
            base += 64 + 32
            continue
        accounts[c.addr] = node_code(c, accounts)
        if c.retshape[0] == "area":
            rsz, roff = c.retshape[1], base + 64
            # dirty the return area first: bytes of it beyond the returned data must survive the call
            for k in range(0, min(rsz, 96), 32):
                body += [("PUSHN", 32, MARKER), ("PUSH", roff + k), "MSTORE"]
        else:
            rsz, roff = 0, 0
        body += [("PUSH", rsz), ("PUSH", roff), ("PUSH", 32), ("PUSH", ARG_OFF)]
        if c.kind in ("CALL", "CALLCODE"):
            body += compile_expr(c.value)
        body += [("PUSH", c.addr), ("PUSH", GAS), c.kind]
        body += [("PUSH", base), "MSTORE", "RETURNDATASIZE", ("PUSH", base + 32), "MSTORE"]
        if c.retshape[0] == "copy":
            body += ["RETURNDATASIZE", ("PUSH", 0), ("PUSH", base + 64), "RETURNDATACOPY"]
        base += 64 + c.retlen
    for e in n.post:
        body += _effect_code(e)
    body += _report()
    total = n.retlen
    if n.outcome in ("return",):
        body += [("PUSHN", 2, total), ("PUSH", 0), "RETURN"]
    elif n.outcome == "stop":
        body += ["STOP"]
    elif n.outcome == "short":
        # fewer bytes than any return area: the rest of the caller's area keeps its contents
        body += [("PUSH", 3), ("PUSH", 29), "RETURN"]
    elif n.outcome == "short_revert":
        body += [("PUSH", 2), ("PUSH", 30), "REVERT"]
    elif n.outcome == "revert":
        body += [("PUSHN", 2, total), ("PUSH", 0), "REVERT"]
    elif n.outcome in ("split_fail", "split_mixed"):
        # the frame ends in two different ways depending on a symbolic bit of its argument: the caller continues once
        # per way, each continuation from its own copy of the state
        lab = f"sp{n.addr:x}"
        body += [("PUSH", 0), "CALLDATALOAD", ("PUSH", 1), "AND", ("PUSHL", lab), "JUMPI", ("PUSH", 2), ("PUSH", 30), "REVERT", ("LABEL", lab)]
        body += ["INVALID"] if n.outcome == "split_fail" else [("PUSHN", 2, total), ("PUSH", 0), "RETURN"]
    elif n.outcome == "invalid":
        body += ["INVALID"]
    elif n.outcome == "oob":
        body += [("PUSH", 1), "RETURNDATASIZE", ("PUSH", 0), "RETURNDATACOPY", "STOP"]
    elif n.outcome == "static_write":
        # succeeds normally, fails inside a static context
        write = [[("PUSH", 5), ("PUSH", 2), "SSTORE"], [("PUSH", 5), ("PUSH", 2), "TSTORE"], [("PUSH", 0), ("PUSH", 0), "LOG0"]][n.addr % 3]
        body += write + [("PUSHN", 2, total), ("PUSH", 0), "RETURN"]
    return assemble(body + data)


def _all_nodes(n: Node):
    yield n
    for c in n.children:
        yield from _all_nodes(c)


def fam_calls(rnd: random.Random, ninputs: int = 10, depth: int | None = None):
    nin = 3
    counter = [0]
    root = gen_tree(rnd, depth if depth is not None else rnd.choice([1, 2, 2, 3]), nin, counter)
    _retlen(root)
    accounts: dict[int, bytes] = {}
    # the root appends an epilogue: balances / code sizes of every account of the tree
    nodes = [x for x in _all_nodes(root) if x.kind not in ("CREATE", "CREATE2")]
    epi = []
    off = root.retlen
    for x in nodes:
        epi += [("PUSH", x.addr), "BALANCE", ("PUSHN", 2, off), "MSTORE"]
        off += 32
    # accounts created by CREATE get consecutive addresses: after the whole tree has run, exactly those whose
    # creating frames (and all their ancestors) succeeded may have code
    ncreate = sum(1 for x in _all_nodes(root) if x.kind == "CREATE")
    for k in range(ncreate):
        epi += [("PUSH", 0xAAAA0002 + k), "EXTCODESIZE", ("PUSHN", 2, off), "MSTORE"]
        off += 32
    root_total = off
    root.outcome = "_epilogue"
    node_code(root, accounts)  # fills `accounts` with the code of every callee
    accounts[TARGET] = _root_with_epilogue(root, accounts, epi, root_total)
    names = [f"cd{i}" for i in range(nin)]
    prog = Prog(
        accounts=accounts,
        calldata=[Sym(nm, 256) for nm in names],
        caller=Sym("msg_sender", 160),
        value=0,
        balances={TARGET: Sym("bal_root", 256)},
        name="calls",
        meta={"tree": _show(root)},
    )
    inputs = []
    for _ in range(ninputs):
        inp = {nm: rnd.choice([0, 1, 2, 3, 10**18, 2**128, 2**255, rnd.getrandbits(64)]) for nm in names}
        inp["msg_sender"] = rnd.choice([CALLER, 1, 2**160 - 1])
        inp["bal_root"] = rnd.choice([0, 1, 2, 5, 10**18, 2 * 10**18, 2**128])
        inputs.append(inp)
    return prog, inputs


def _root_with_epilogue(root: Node, accounts: dict, epi: list, total: int) -> bytes:
    # regenerate the root's items and append epilogue + RETURN before the data section
    n = root
    body = []
    data = []
    for e in n.pre:
        body += _effect_code(e)
    base = KIDS_OFF
    for ci, c in enumerate(n.children):
        body += compile_expr(("in", ci % 3)) + [("PUSH", ARG_OFF), "MSTORE"]
        if c.kind in ("CREATE", "CREATE2"):
            ic = init_code(c)
            lab = f"init{ci}"
            data += [("MARK", lab), ("RAW", ic)]
            ioff = 0x1800
            body += [("PUSHN", 2, len(ic)), ("PUSHL", lab), ("PUSH", ioff), "CODECOPY"]
            if c.kind == "CREATE2":
                body += [("PUSH", c.salt)]
            body += [("PUSHN", 2, len(ic)), ("PUSH", ioff)] + compile_expr(c.value) + [c.kind]
            # (the return-data buffer after a creation: empty on success, the revert data of the init code otherwise)
            body += ["RETURNDATASIZE", ("PUSH", 0x1F20), "MSTORE", ("PUSH", 0), ("PUSH", 0x1F40), "MSTORE",
                     "RETURNDATASIZE", ("PUSH", 0), ("PUSH", 0x1F40), "RETURNDATACOPY"]
            body += ["DUP1", "ISZERO", "ISZERO", ("PUSH", 0x1F20), "MLOAD", ("PUSH", 8), "SHL", "OR", ("PUSH", 0x1F40), "MLOAD", ("PUSH", 16), "SHL", "XOR", ("PUSH", base), "MSTORE"]
            body += ["DUP1", "EXTCODESIZE", ("PUSH", base + 32), "MSTORE"]
            body += [("PUSH", 32), ("PUSH", base + 64), ("PUSH", 0), ("PUSH", 0), ("PUSH", 0), "DUP6", ("PUSH", GAS), "CALL", "POP", "POP"]
            base += 64 + 32
            continue
        if c.retshape[0] == "area":
            rsz, roff = c.retshape[1], base + 64
            # dirty the return area first: bytes of it beyond the returned data must survive the call
            for k in range(0, min(rsz, 96), 32):
                body += [("PUSHN", 32, MARKER), ("PUSH", roff + k), "MSTORE"]
        else:
            rsz, roff = 0, 0
        body += [("PUSH", rsz), ("PUSH", roff), ("PUSH", 32), ("PUSH", ARG_OFF)]
        if c.kind in ("CALL", "CALLCODE"):
            body += compile_expr(c.value)
        body += [("PUSH", c.addr), ("PUSH", GAS), c.kind]
        body += [("PUSH", base), "MSTORE", "RETURNDATASIZE", ("PUSH", base + 32), "MSTORE"]
        if c.retshape[0] == "copy":
            body += ["RETURNDATASIZE", ("PUSH", 0), ("PUSH", base + 64), "RETURNDATACOPY"]
        base += 64 + c.retlen
    for e in n.post:
        body += _effect_code(e)
    body += _report() + epi + [("PUSHN", 2, total), ("PUSH", 0), "RETURN"]
    return assemble(body + data)


def _show(n: Node, ind=0) -> str:
    s = " " * ind + f"{n.kind}@{n.addr:#x} value={n.value} pre={n.pre} post={n.post} -> {n.outcome} ret={n.retshape}\n"
    for c in n.children:
        s += _show(c, ind + 2)
    return s
