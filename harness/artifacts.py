"""Hand-assembled Foundry-style artifacts and a driver for halmos' `run_contract`.

No solc/forge exists offline, so test contracts are assembled (harness/asm.py) with a selector
dispatcher, and the build-output JSON halmos consumes (abi, methodIdentifiers, bytecode,
deployedBytecode, ast, metadata) is produced by hand.
"""

from __future__ import annotations

import contextlib
import io
import os
import re
import shutil
import sys
from dataclasses import dataclass, field

from eth_hash.auto import keccak

from .asm import assemble, initcode_for
from .common import VERIF, repo_python_path
from .hrun import captured_logs, mk_args

repo_python_path()

import halmos.__main__ as hmain  # noqa: E402
from halmos.solve import ContractContext  # noqa: E402

PANIC_SELECTOR = 0x4E487B71


def selector(sig: str) -> str:
    return keccak(sig.encode())[:4].hex()


@dataclass
class Fn:
    sig: str  # e.g. "check_foo(uint256,bytes)"
    body: list  # asm items; entered with an empty stack; must end the execution itself
    mutability: str = "nonpayable"
    devdoc: str | None = None  # text of a `@custom:halmos` annotation

    @property
    def name(self) -> str:
        return self.sig.split("(")[0]

    @property
    def types(self) -> list[str]:
        inner = self.sig[self.sig.index("(") + 1 : -1]
        return split_types(inner)


def split_types(s: str) -> list[str]:
    out, depth, cur = [], 0, ""
    for ch in s:
        if ch == "," and depth == 0:
            out.append(cur)
            cur = ""
            continue
        depth += ch == "("
        depth -= ch == ")"
        cur += ch
    if cur:
        out.append(cur)
    return out


def abi_input(t: str, name: str) -> dict:
    m = re.match(r"^\((.*)\)((\[[0-9]*\])*)$", t)
    if m:
        comps = [abi_input(x, f"{name}_{i}") for i, x in enumerate(split_types(m.group(1)))]
        return {"name": name, "type": "tuple" + m.group(2), "internalType": "struct S" + m.group(2), "components": comps}
    return {"name": name, "type": t, "internalType": t}


@dataclass
class Contract:
    name: str
    fns: list[Fn]
    ctor: list = field(default_factory=list)  # asm items run at deployment (stack balanced)
    natspec: str | None = None  # contract-level `@custom:halmos ...` text
    filename: str = "test/Verif.t.sol"
    fallback: list | None = None
    data: list = field(default_factory=list)  # asm items appended after all function bodies (data sections)
    # immutables: {magic: value} - every PUSH32 operand equal to `magic` in the bodies is an immutable variable: zero in the
    # artifact's runtime code (the placeholder solc leaves there), written by the constructor into the code it returns
    immutables: dict = field(default_factory=dict)

    def runtime(self) -> bytes:
        return self._runtime_and_patches()[0]

    def _runtime_and_patches(self):
        rt = bytearray(self._runtime_raw())
        patches = []
        for magic, val in self.immutables.items():
            m = magic.to_bytes(32, "big")
            i = rt.find(m)
            while i >= 0:
                if i == 0 or rt[i - 1] != 0x7F:
                    raise ValueError("immutable magic value is not a PUSH32 operand")
                patches.append((i, val))
                rt[i : i + 32] = bytes(32)
                i = rt.find(m, i + 32)
        return bytes(rt), patches

    def _runtime_raw(self) -> bytes:
        prog = [("PUSH", 0), "CALLDATALOAD", ("PUSH", 0xE0), "SHR"]
        for i, f in enumerate(self.fns):
            prog += ["DUP1", ("PUSHN", 4, int(selector(f.sig), 16)), "EQ", ("PUSHL", f"fn{i}"), "JUMPI"]
        prog += (self.fallback if self.fallback is not None else [("PUSH", 0), ("PUSH", 0), "REVERT"])
        for i, f in enumerate(self.fns):
            prog += [("LABEL", f"fn{i}"), "POP"] + f.body
        return assemble(prog + self.data)

    def creation(self) -> bytes:
        rt, patches = self._runtime_and_patches()
        pre = assemble(self.ctor) if self.ctor else b""
        # constructor body, then the standard CODECOPY/RETURN of the runtime (offsets shifted by len(pre))
        n = len(rt)
        if not patches:
            tail = assemble([("PUSHN", 2, n), "DUP1", ("PUSHN", 2, len(pre) + 13), ("PUSHN", 1, 0), "CODECOPY", ("PUSHN", 1, 0), "RETURN"])
            assert len(tail) == 13
            return pre + tail + rt
        # ... with the immutables written into the copy before it is returned

        def tail_for(off_rt):
            t = [("PUSHN", 2, n), ("PUSHN", 2, off_rt), ("PUSHN", 1, 0), "CODECOPY"]
            for o, val in patches:
                t += [("PUSHN", 32, val), ("PUSHN", 2, o), "MSTORE"]
            return assemble(t + [("PUSHN", 2, n), ("PUSHN", 1, 0), "RETURN"])

        tail = tail_for(len(pre) + len(tail_for(0)))
        return pre + tail + rt

    def json(self) -> dict:
        abi = []
        for f in self.fns:
            abi.append({
                "type": "function",
                "name": f.name,
                "inputs": [abi_input(t, f"p{i}") for i, t in enumerate(f.types)],
                "outputs": [],
                "stateMutability": f.mutability,
            })
        methods = {f.sig: {"custom:halmos": f.devdoc} for f in self.fns if f.devdoc}
        return {
            "abi": abi,
            "methodIdentifiers": {f.sig: selector(f.sig) for f in self.fns},
            "bytecode": {"object": "0x" + self.creation().hex(), "linkReferences": {}, "sourceMap": ""},
            "deployedBytecode": {"object": "0x" + self.runtime().hex(), "linkReferences": {}, "sourceMap": ""},
            "ast": {"absolutePath": self.filename, "nodes": [{"nodeType": "ContractDefinition", "name": self.name, "contractKind": "contract", "abstract": False}]},
            "metadata": {"compiler": {"version": "0.8.26+commit.verif"}, "output": {"devdoc": {"methods": methods}}},
            "id": 0,
        }


def build_out_map(contracts: list[Contract]) -> dict:
    m: dict = {}
    for c in contracts:
        nat = {"text": c.natspec} if c.natspec else None
        m.setdefault(c.filename, {})[c.name] = (c.json(), "contract", nat)
    return m


@dataclass
class RunOut:
    results: list  # TestResult
    stdout: str
    logs: str
    exception: str | None = None

    def by_sig(self) -> dict:
        return {r.name: r for r in self.results}


def mk_context(test: Contract, others: list[Contract], funsigs: list[str], args) -> ContractContext:
    bom = build_out_map([test] + others)
    cj, _, nat = bom[test.filename][test.name]
    from halmos.calldata import get_abi

    cargs = hmain.with_natspec(args, test.name, nat) if nat else args
    return ContractContext(
        args=cargs,
        name=test.name,
        funsigs=funsigs,
        creation_hexcode=cj["bytecode"]["object"],
        deployed_hexcode=cj["deployedBytecode"]["object"],
        abi=get_abi(cj),
        method_identifiers=cj["methodIdentifiers"],
        contract_json=cj,
        libs={},
        build_out_map=bom,
    )


def run_contract(test: Contract, others: list[Contract] | None = None, funsigs: list[str] | None = None, cli: tuple = (), args=None, dump_dir: str | None = None) -> RunOut:
    """halmos.__main__.run_contract on hand-built artifacts; stdout and logger output are captured."""
    others = others or []
    funsigs = funsigs if funsigs is not None else [f.sig for f in test.fns if re.match(r"^(check_|test_|prove_|invariant_)", f.sig)]
    cli = tuple(cli)
    if dump_dir and "--dump-smt-directory" not in cli:
        cli += ("--dump-smt-directory", dump_dir)
    args = args or mk_args("--no-status", *cli)
    ctx = mk_context(test, others, funsigs, args)
    out = io.StringIO()
    exc = None
    results = []
    from halmos.mapper import BuildOut, DeployAddressMapper

    # z3 terms must not be released on halmos' solver-callback threads while the main thread is inside z3 (the cyclic
    # garbage collector runs on whichever thread allocates; halmos has --disable-gc for the same reason): collections are
    # made here, on the main thread, between runs
    import gc

    was = gc.isenabled()
    gc.disable()
    try:
        with captured_logs() as buf, contextlib.redirect_stdout(out):
            try:
                results = hmain.run_contract(ctx)
            except BaseException as e:  # noqa: BLE001
                exc = f"{type(e).__name__}: {e}"
    finally:
        if was:
            gc.enable()
            gc.collect()
    return RunOut(results=results, stdout=out.getvalue(), logs=buf.getvalue(), exception=exc)


# ---------------------------------------------------------------------------------------------
# code snippets for test bodies


def arg(i: int) -> list:
    """Push the i-th static calldata word argument."""
    return [("PUSH", 4 + 32 * i), "CALLDATALOAD"]


def panic(code: int) -> list:
    return [("PUSHN", 32, PANIC_SELECTOR << 224), ("PUSH", 0), "MSTORE", ("PUSH", code), ("PUSH", 4), "MSTORE", ("PUSH", 36), ("PUSH", 0), "REVERT"]


def revert_plain() -> list:
    return [("PUSH", 0), ("PUSH", 0), "REVERT"]


HEVM = 0x7109709ECFA91A80626FF3989D68F67F5B1DD12D
SVM = 0xF3993A62377BCD56AE39D773740A5390411E8BC9


def cheat_call(addr: int, sig: str, args_code: list[list], ret_words: int = 0, mem: int = 0x200) -> list:
    """CALL a cheatcode with static word arguments; the flag is popped; returned words land at mem+0x100."""
    out = [("PUSHN", 32, int(selector(sig), 16) << 224), ("PUSH", mem), "MSTORE"]
    for i, a in enumerate(args_code):
        out += a + [("PUSH", mem + 4 + 32 * i), "MSTORE"]
    n = 4 + 32 * len(args_code)
    out += [("PUSH", 32 * ret_words), ("PUSH", mem + 0x100), ("PUSH", n), ("PUSH", mem), ("PUSH", 0), ("PUSHN", 20, addr), ("PUSH", 0xFFFFFF), "CALL", "POP"]
    return out


def dstest_fail() -> list:
    """DSTest.fail(): vm.store(HEVM_ADDRESS, bytes32("failed"), bytes32(uint256(1)))."""
    failed = int.from_bytes(b"failed".ljust(32, b"\0"), "big")
    return cheat_call(HEVM, "store(address,bytes32,bytes32)", [[("PUSHN", 20, HEVM)], [("PUSHN", 32, failed)], [("PUSH", 1)]])
