#!/venv/bin/python
"""coreless_solver.py <real solver command ...> <query.smt2>

A solver front-end that answers every query exactly like the real solver, except that its reply to `(get-unsat-core)` is the
empty list `()` - what a solver (or a `--solver-command` wrapper) does that accepts `:produce-unsat-cores` but does not track
named assertions.  An empty core names no assertion of the query it came from, so it proves nothing about any other query:
with `--cache-solver` such a reply must leave every later answer what it is with the cache off.
"""
import re
import subprocess
import sys


def main(argv: list[str]) -> int:
    p = subprocess.run(argv[1:], capture_output=True, text=True)
    out = p.stdout
    if out.lstrip().startswith("unsat"):
        out = re.sub(r"\(\s*(<[0-9]+>\s*)+\)", "()", out)
    sys.stdout.write(out)
    sys.stderr.write(p.stderr)
    return p.returncode


if __name__ == "__main__":
    sys.exit(main(sys.argv))
