"""C18 - replay of the cases enumerated by spec/Config.tla into halmos' configuration code.

TLC enumerates (and prints, one JSON record per enumerated *parent*) every layer stack, every string
of the structured-option grammars, every value of their domains, every annotation placement, with the
outcome the specification expects.  This module feeds each case to the real code

    default_config / Config.with_overrides / value_with_source / attribute reads /
    resolved_solver_command / the Parse* actions through arg_parser().parse_args /
    toml_parser().parse_str, parse_dict, parse_file / load_config / with_devdoc / with_natspec /
    get_contract_type / parse_build_out / run_contract / halmos.config.main

and compares.  Nothing under /repo is edited; `get_solver_command` (which would look for / download a
solver binary) and, for the run_contract level, `setup`/`run_test` are substituted *from this process*.
"""

from __future__ import annotations

import contextlib
import io
import json
import logging
import multiprocessing
import os
import re
import signal
import sys
import types
from collections import Counter
from dataclasses import dataclass, field
from fractions import Fraction
from pathlib import Path

from .common import NCPU, MachineryError, repo_python_path, run_tlc

repo_python_path()

# halmos.__main__ reconfigures sys.stdout when imported: import it once, before any redirection
import halmos.__main__ as hmain  # noqa: E402
import halmos.build as hbuild  # noqa: E402
import halmos.config as hconfig  # noqa: E402
from halmos.config import (  # noqa: E402
    Config,
    ConfigSource,
    ParseArrayLengths,
    ParseCSVInt,
    ParseCSVTraceEvent,
    ParseErrorCodes,
    ParseTimeout,
    TraceEvent,
    arg_parser,
    default_config,
    toml_parser,
)

# ---------------------------------------------------------------------------------------------
# small utilities


@contextlib.contextmanager
def config_quiet():
    """Silence halmos' loggers and argparse's usage messages while replaying."""
    loggers = [logging.getLogger("halmos"), logging.getLogger("halmos.unique"), logging.getLogger()]
    saved = [(lg, lg.level, list(lg.handlers), lg.propagate) for lg in loggers]
    for lg in loggers:
        lg.handlers = [logging.NullHandler()]
        lg.propagate = False
        lg.setLevel(logging.CRITICAL + 10)
    err = sys.stderr
    sys.stderr = io.StringIO()
    try:
        yield
    finally:
        sys.stderr = err
        for lg, lvl, hs, prop in saved:
            lg.handlers = hs
            lg.propagate = prop
            lg.setLevel(lvl)


def config_stub_solver(name):
    """Stands for halmos.solvers.get_solver_command: no lookup, no download."""
    return ["<solver>", str(name)]


@contextlib.contextmanager
def config_patched(obj, name, value):
    old = getattr(obj, name)
    setattr(obj, name, value)
    try:
        yield
    finally:
        setattr(obj, name, old)
        with contextlib.suppress(Exception):
            Config.__getattribute__.cache_clear()


@dataclass
class Mismatch:
    key: str
    what: str
    replay: dict


@dataclass
class Outcome:
    """Result of replaying a batch of records."""

    cases: int = 0
    counts: Counter = field(default_factory=Counter)
    mismatches: list = field(default_factory=list)
    nmismatch: int = 0
    extra: list = field(default_factory=list)  # data handed back to the caller (e.g. unparse output)

    def miss(self, key, what, replay, limit=40):
        self.nmismatch += 1
        if len(self.mismatches) < limit:
            self.mismatches.append(Mismatch(key, what, replay))

    def merge(self, o: "Outcome", limit=200):
        self.cases += o.cases
        self.counts.update(o.counts)
        self.nmismatch += o.nmismatch
        for m in o.mismatches:
            if len(self.mismatches) < limit:
                self.mismatches.append(m)
        self.extra += o.extra


SRC_NAME = {0: "void", 1: "default", 2: "config_file", 3: "contract_annotation", 4: "function_annotation",
            5: "command_line"}

# ---------------------------------------------------------------------------------------------
# 1. layer stacks

STACK_COLS = {
    "S3": ("loop", "panic_error_codes", "solver_timeout_assertion"),
    "S2": ("solver", "solver_command"),
    "SE": ("solver", "solver_command"),
}


def config_token_value(col: str, tok: int):
    """Python value standing for the token `tok` of the specification in column `col`.
    -2 = "", -1 = None, 0 = the value of default_config(), i >= 1 = the value set by layer i."""
    if tok == -1:
        return None
    if tok == -2:
        return ""
    if tok == 0:
        return object.__getattribute__(default_config(), col)
    if col == "loop":
        return 100 + tok
    if col == "panic_error_codes":
        return {tok}
    if col == "solver_timeout_assertion":
        return float(tok)
    if col == "solver":
        return f"solver{tok}"
    if col == "solver_command":
        return f"cmd{tok} --arg{tok}"
    raise MachineryError(f"unknown column {col}")


def config_decode_child(mode: str, child: list):
    """Inverse of Config!Expect: -> (void_cells, default_cells, cmd_void, cmd_default);
    cells = [(token, source)] per column, cmd = (kind, token)."""
    k = len(STACK_COLS[mode])

    def cells(n):
        out = []
        for _ in range(k):
            c = n % 48
            n //= 48
            out.append((c // 6 - 2, c % 6))
        return out

    def cmd(c):
        return ("usc"[c // 8], c % 8 - 2)

    if mode == "S3":
        return cells(child[0]), cells(child[1]), None, None
    return cells(child[0]), cells(child[1]), cmd(child[2] // 32), cmd(child[2] % 32)


def config_apply_layer(cfg, mode: str, src: int, cells: list, pos: int):
    cols = STACK_COLS[mode]
    ov = {}
    for c, cell in zip(cols, cells):
        if cell == 1:
            ov[c] = config_token_value(c, pos)
        elif cell == 2:
            ov[c] = ""
    return cfg.with_overrides(ConfigSource(src), **ov)


def config_void_root():
    return Config(_parent=None, _source=ConfigSource.void)


def config_expected_command(cmd):
    kind, tok = cmd
    if kind == "u":
        return None
    if kind == "s":
        return config_stub_solver(config_token_value("solver", tok))
    return [f"cmd{tok}", f"--arg{tok}"]


def config_check_stack(out: Outcome, mode, cfg, exp_cells, exp_cmd, describe, base):
    """Compare one Config object with the expectation of the specification."""
    cols = STACK_COLS[mode]
    for c, (tok, src) in zip(cols, exp_cells):
        want = config_token_value(c, tok)
        got_v, got_s = cfg.value_with_source(c)
        got_attr = getattr(cfg, c)
        if got_v != want or int(got_s) != src or got_attr != want:
            d = describe()
            d.update({"base": base, "option": c, "expected": [repr(want), SRC_NAME[src]],
                      "value_with_source": [repr(got_v), SRC_NAME.get(int(got_s), str(got_s))],
                      "attribute": repr(got_attr)})
            out.miss(f"resolve:{mode}:{base}:{d['stack']}:{c}",
                     f"option {c} of stack {d['stack']} on {base} root: expected {want!r} from "
                     f"{SRC_NAME[src]}, halmos gives {got_v!r} from {got_s!r} (attribute read {got_attr!r})", d)
        elif tok > 0:
            out.counts["resolved_from_override"] += 1
    if exp_cmd is not None:
        want = config_expected_command(exp_cmd)
        if want is None:
            out.counts["solver_undefined_skipped"] += 1
            return
        try:
            got = cfg.resolved_solver_command
        except Exception as e:  # noqa: BLE001
            got = f"{type(e).__name__}: {e}"
        if got != want:
            d = describe()
            d.update({"base": base, "expected_command": want, "resolved_solver_command": got})
            out.miss(f"solver-command:{mode}:{base}:{d['stack']}",
                     f"stack {d['stack']} on {base} root: expected command {want}, halmos resolves {got}", d)
        else:
            out.counts["solver_cmd_" + exp_cmd[0]] += 1


def config_replay_stack_records(args) -> Outcome:
    """Replay a batch of parent records of one stack family (runs in a worker process)."""
    mode, layer_seq, recs = args
    out = Outcome()
    with config_quiet(), config_patched(hconfig, "get_solver_command", config_stub_solver):
        for rec in recs:
            psrc, pset = rec["src"], rec["set"]
            roots = {"void": config_void_root(), "default": default_config()}
            parents = {}
            for base, cfg in roots.items():
                for i, (s, cells) in enumerate(zip(psrc, pset)):
                    cfg = config_apply_layer(cfg, mode, s, cells, i + 1)
                parents[base] = cfg
            n = len(psrc)
            for lay, child in zip(layer_seq, rec["r"]):
                ev, ed, cv, cd = config_decode_child(mode, child)

                def describe(lay=lay):
                    layers = list(zip(psrc, pset)) + [(lay["src"], lay["set"])]
                    return {"mode": mode, "columns": STACK_COLS[mode],
                            "stack": "/".join(f"{s}:{''.join(map(str, c))}" for s, c in layers),
                            "layers": [{"source": SRC_NAME[s], "cells": c} for s, c in layers]}

                for base, exp, cmd in (("void", ev, cv), ("default", ed, cd)):
                    cfg = config_apply_layer(parents[base], mode, lay["src"], lay["set"], n + 1)
                    config_check_stack(out, mode, cfg, exp, cmd, describe, base)
                out.cases += 1
                if n + 1 >= 2:
                    out.counts["stacks_ge2_layers"] += 1
    Config.__getattribute__.cache_clear()
    return out


def config_replay_stack_self(mode, child) -> Outcome:
    """The empty stack (header record)."""
    out = Outcome()
    ev, ed, cv, cd = config_decode_child(mode, child)
    with config_quiet(), config_patched(hconfig, "get_solver_command", config_stub_solver):
        for base, cfg, exp, cmd in (("void", config_void_root(), ev, cv), ("default", default_config(), ed, cd)):
            config_check_stack(out, mode, cfg, exp, cmd, lambda: {"mode": mode, "stack": "", "layers": []}, base)
    out.cases += 1
    return out


# ---------------------------------------------------------------------------------------------
# 2. strings of the structured-option grammars

KIND_OPTS = {
    "T": ("solver_timeout_assertion", "solver_timeout_branching"),
    "E": ("panic_error_codes",),
    "C": ("default_array_lengths", "default_bytes_lengths"),
    "A": ("array_lengths",),
    "V": ("trace_events",),
}
KIND_ACTION = {"T": ParseTimeout, "E": ParseErrorCodes, "C": ParseCSVInt, "A": ParseArrayLengths,
               "V": ParseCSVTraceEvent}
# family "B" = array-length maps over an alphabet of larger chunks ("x=", "{1,2}", ...)
STRING_FAMILY_KIND = {"B": "A"}
KIND_NAME = {"T": "timeout", "E": "error-codes", "C": "csv-int", "A": "array-lengths", "V": "trace-events"}


def config_py_value(kind: str, v):
    """Specification value (JSON) -> the Python value the implementation should produce."""
    if kind == "T":
        return Fraction(v[0]) + Fraction(v[1], 10**6)
    if kind == "E":
        return set() if v == [-1] else set(v)
    if kind == "C":
        return list(v)
    if kind == "A":
        return {"".join(name): list(sizes) for name, sizes in v}
    if kind == "V":
        return list(v)
    raise MachineryError(kind)


def config_same_value(kind: str, got, want) -> bool:
    if kind == "T":
        if isinstance(got, bool) or not isinstance(got, int | float):
            return False
        if got != got or got in (float("inf"), float("-inf")):
            return False
        return abs(Fraction(got) - want) <= Fraction(1, 10**12) * max(1, abs(want))
    if kind == "E":
        return isinstance(got, set | frozenset) and set(got) == want
    if kind == "C":
        return isinstance(got, list) and got == want and all(type(x) is int for x in got)
    if kind == "A":
        return isinstance(got, dict) and got == want
    if kind == "V":
        return isinstance(got, list) and [getattr(x, "value", x) for x in got] == want and all(
            isinstance(x, TraceEvent) for x in got)
    raise MachineryError(kind)


def config_show(kind, got):
    if kind == "V" and isinstance(got, list):
        return repr([getattr(x, "value", x) for x in got])
    return repr(got)


def _toml_quote(s: str) -> str:
    return '"' + s.replace("\\", "\\\\").replace('"', '\\"') + '"'


def config_channels(kind: str, s: str, n: int, mutate=None):
    """Feed the string to every entry point; yields (channel, ('ok', value) | ('rejected', why)).
    `mutate` optionally wraps the parse function of the Action (negative controls)."""
    action = KIND_ACTION[kind]
    opts = KIND_OPTS[kind]
    opt = opts[n % len(opts)]
    dashed = opt.replace("_", "-")

    def attempt(f):
        try:
            return ("ok", f())
        except SystemExit as e:
            return ("rejected", f"SystemExit({e.code})")
        except Exception as e:  # noqa: BLE001
            return ("rejected", f"{type(e).__name__}: {e}")

    yield "parse", attempt(lambda: action.parse(s))
    yield "argparse", attempt(lambda: getattr(arg_parser().parse_args([f"--{dashed}={s}"]), opt))
    yield "toml_str", attempt(lambda: toml_parser().parse_str(f"[global]\n{dashed} = {_toml_quote(s)}\n")[opt])
    yield "toml_dict", attempt(lambda: toml_parser().parse_dict({"global": {dashed: s}})[opt])
    if s and not re.search(r"\s", s) and "'" not in s and '"' not in s and "\\" not in s:
        # an annotation: the text after @custom:halmos, split like a shell command line
        text = f"--{dashed}={s}" if s.startswith("-") else f"--{dashed} {s}"
        cj = {"metadata": {"output": {"devdoc": {"methods": {"check_f()": {"custom:halmos": text}}}}}}

        def via_devdoc():
            cfg = hmain.with_devdoc(default_config(), "check_f()", cj)
            v, src = cfg.value_with_source(opt)
            if src != ConfigSource.function_annotation:
                raise MachineryError(f"annotation {text!r} did not produce a function_annotation layer")
            return v

        yield "devdoc", attempt(via_devdoc)


def config_judge_string(out: Outcome, kind: str, chars: list, outcome: list, n: int, wrap=None):
    """One string through every channel; at most one mismatch per string (listing the channels)."""
    s = "".join(chars)
    cls = outcome[0]
    want = config_py_value(kind, outcome[1]) if cls == "W" else None
    out.cases += 1
    out.counts[f"class_{cls}"] += 1
    rejected, wrong, accepted = {}, {}, {}
    for chan, (status, val) in config_channels(kind, s, n):
        if wrap is not None:
            status, val = wrap(kind, s, status, val)
        if cls == "W":
            if status != "ok":
                rejected[chan] = val
            elif not config_same_value(kind, val, want):
                wrong[chan] = config_show(kind, val)
            else:
                out.counts["wellformed_agreed"] += 1
        elif cls == "M":
            if status == "ok":
                accepted[chan] = config_show(kind, val)
            else:
                out.counts["malformed_rejected"] += 1
        else:
            out.counts[f"lenient_{status}"] += 1
    name = KIND_NAME[kind]
    if rejected:
        out.miss(f"wellformed-rejected:{kind}:{s!r}",
                 f"{name} value {s!r} is documented syntax for {config_show(kind, want)} but is rejected: {rejected}",
                 {"kind": kind, "string": s, "expected": str(want), "observed": rejected})
    if wrong:
        out.miss(f"parse-value:{kind}:{s!r}",
                 f"{name} value {s!r} must parse to {want!r}; halmos gives {wrong}",
                 {"kind": kind, "string": s, "expected": str(want), "observed": wrong})
    if accepted:
        out.miss(f"malformed-accepted:{kind}:{s!r}",
                 f"malformed {name} value {s!r} is accepted instead of being rejected: {accepted}",
                 {"kind": kind, "string": s, "expected": "rejected", "observed": accepted})


def config_replay_string_records(args) -> Outcome:
    kind, alpha, recs = args
    kind = STRING_FAMILY_KIND.get(kind, kind)
    out = Outcome()
    n = 0
    with config_quiet():
        for rec in recs:
            for sym, oc in zip(alpha, rec["r"]):
                n += 1
                config_judge_string(out, kind, rec["s"] + [sym], oc, n)
    return out


# ---------------------------------------------------------------------------------------------
# 3. values: unparse / parse round trips


def config_impl_value(kind: str, want):
    """The Python value as the implementation represents it."""
    if kind == "T":
        return float(want)
    if kind == "V":
        return [TraceEvent(x) for x in want]
    return want


def config_tokenize(kind: str, s: str) -> list:
    if kind == "V":
        return re.findall(r"LOG|SSTORE|SLOAD|log|.", s, re.S)
    return list(s)


def config_sample_config(argv: list[str]) -> str:
    """`python -m halmos.config ARGS`: the generated sample halmos.toml."""
    buf = io.StringIO()
    old = sys.argv
    sys.argv = ["halmos.config"] + argv
    try:
        with contextlib.redirect_stdout(buf):
            hconfig.main()
    finally:
        sys.argv = old
    return buf.getvalue()


def config_replay_values(recs: list, e2e_every: int = 1, work: Path | None = None) -> Outcome:
    """RT records: parse(unparse(v)) == v in the implementation, the canonical spelling of the
    specification parses to v, and `python -m halmos.config` writes a file that reads back
    (TomlParser.parse_file when a scratch directory is given) as v."""
    out = Outcome()
    lossy: dict[str, list] = {}
    e2e: dict[str, list] = {}
    with config_quiet():
        for idx, rec in enumerate(recs):
            kind, doc = rec["k"], rec["doc"]
            want = config_py_value(kind, rec["v"])
            pv = config_impl_value(kind, want)
            action = KIND_ACTION[kind]
            opt = KIND_OPTS[kind][0]
            out.cases += 1
            # (a) implementation round trip
            try:
                text = action.unparse(pv)
                back = action.parse(text)
                ok = config_same_value(kind, back, want)
                obs = config_show(kind, back)
            except Exception as e:  # noqa: BLE001
                text, ok, obs = locals().get("text"), False, f"{type(e).__name__}: {e}"
            if ok:
                out.counts["roundtrip_ok"] += 1
                out.extra.append({"id": len(out.extra), "k": kind, "s": config_tokenize(kind, text),
                                  "v": rec["v"], "text": text})
            else:
                if kind == "T":
                    key = "timeout-unparse-lossy" if doc else "timeout-unparse-lossy-subms"
                else:
                    key = f"unparse-lossy:{kind}:{text!r}"
                lossy.setdefault(key, []).append({"value": str(want), "unparse": text, "parse(unparse)": obs})
            if not doc:
                continue
            # (b) the canonical spelling of the specification
            spec_text = "".join(rec["u"])
            config_judge_string(out, kind, rec["u"], ["W", rec["v"]], idx)
            out.cases -= 1
            # (c) end to end through the sample-config generator
            if idx % e2e_every == 0 and (spec_text or kind in ("A", "V")):
                try:
                    toml_text = config_sample_config([f"--{opt.replace('_', '-')}={spec_text}"])
                    if work is not None:
                        sample = Path(work) / "sample-halmos.toml"
                        sample.write_text(toml_text)
                        data = toml_parser().parse_file(str(sample))
                    else:
                        data = toml_parser().parse_str(toml_text)
                    cfg = default_config().with_overrides(ConfigSource.config_file, **data)
                    got = getattr(cfg, opt)
                    ok2 = config_same_value(kind, got, want)
                    obs2 = config_show(kind, got)
                except SystemExit as e:
                    ok2, obs2 = False, f"SystemExit({e.code})"
                except Exception as e:  # noqa: BLE001
                    ok2, obs2 = False, f"{type(e).__name__}: {e}"
                out.counts["sample_config_roundtrips"] += 1
                if not ok2:
                    key = "timeout-unparse-lossy" if kind == "T" else f"sample-config-lossy:{kind}:{spec_text!r}"
                    out.counts["sample_config_not_roundtripping"] += 1
                    e2e.setdefault(key, []).append(
                        {"value": str(want), "command": f"python -m halmos.config --{opt.replace('_', '-')}={spec_text}",
                         "reads back as": obs2})
    for key in sorted(set(lossy) | set(e2e)):
        items, items2 = lossy.get(key, []), e2e.get(key, [])
        ex = (items or items2)[0]
        out.miss(key,
                 f"{len(items)} of the enumerated values do not survive unparse/parse"
                 f"{f' ({len(items2)} seen end to end through python -m halmos.config)' if items2 else ''}, "
                 f"e.g. {json.dumps(ex)}",
                 {"failing": items[:200], "count": len(items), "sample_config": items2[:50]})
        out.counts["values_not_roundtripping"] += len(items)
    return out


def config_replay_toml_scalars(recs: list) -> Outcome:
    """TS records: a value written in halmos.toml with a TOML type other than string."""
    out = Outcome()
    lits = {"0": 0, "1": 1, "1000": 1000, "1.5": 1.5, "true": True, "false": False, "[]": [], "[1]": [1]}
    with config_quiet():
        for rec in recs:
            kind, lit, oc = rec["k"], rec["lit"], rec["o"]
            opt = KIND_OPTS[kind][0]
            dashed = opt.replace("_", "-")
            out.cases += 1
            default = object.__getattribute__(default_config(), opt)
            bad = {}
            for chan, f in (("toml_str", lambda: toml_parser().parse_str(f"[global]\n{dashed} = {lit}\n")[opt]),
                            ("toml_dict", lambda: toml_parser().parse_dict({"global": {dashed: lits[lit]}})[opt])):
                try:
                    status, val = "ok", f()
                except SystemExit as e:
                    status, val = "rejected", f"SystemExit({e.code})"
                except Exception as e:  # noqa: BLE001
                    status, val = "rejected", f"{type(e).__name__}: {e}"
                if oc[0] == "W":
                    want = config_py_value(kind, oc[1])
                    if status != "ok" or not config_same_value(kind, val, want):
                        bad[chan] = f"{status} {val!r}"
                    else:
                        out.counts["wellformed_agreed"] += 1
                elif oc[0] == "M":
                    if status == "ok":
                        how = "silently replaced by the default" if val == default else "accepted as"
                        bad[chan] = f"{how} {config_show(kind, val)}"
                    else:
                        out.counts["malformed_rejected"] += 1
                else:
                    out.counts[f"lenient_{status}"] += 1
            if bad and oc[0] == "W":
                out.miss(f"toml-scalar:{opt}:{lit}",
                         f"`{dashed} = {lit}` in halmos.toml must give {config_py_value(kind, oc[1])!r}: {bad}",
                         {"option": opt, "toml": f"{dashed} = {lit}", "observed": bad})
            elif bad:
                out.miss(f"toml-nonstring-accepted:{opt}:{lit}",
                         f"`{dashed} = {lit}` in halmos.toml is not a {KIND_NAME[kind]} value but is not rejected: {bad}",
                         {"option": opt, "toml": f"{dashed} = {lit}", "expected": "rejected", "observed": bad,
                          "default": config_show(kind, default)})
    return out


def config_check_validation(extra: list, vd_records: list) -> Outcome:
    """The strings produced by the implementation's unparse, as read by the specification."""
    out = Outcome()
    by_id = {r["id"]: r["o"] for r in vd_records}
    for it in extra:
        oc = by_id.get(it["id"])
        if oc is None:
            raise MachineryError(f"no validation record for input {it['id']}")
        out.cases += 1
        if oc[0] == "W":
            if config_py_value(it["k"], oc[1]) == config_py_value(it["k"], it["v"]):
                out.counts["unparse_output_documented_syntax"] += 1
            else:
                out.miss(f"unparse-meaning:{it['k']}:{it['text']!r}",
                         f"unparse renders {it['v']} as {it['text']!r}, which the documented syntax reads as {oc[1]}",
                         {"kind": it["k"], "value": it["v"], "unparse": it["text"], "documented reading": oc[1]})
        elif oc[0] == "L":
            out.counts["unparse_output_lenient_syntax"] += 1
        else:
            out.miss(f"unparse-syntax:{it['k']}:{it['text']!r}",
                     f"unparse renders {it['v']} as {it['text']!r}, which is not a value of the documented syntax",
                     {"kind": it["k"], "value": it["v"], "unparse": it["text"]})
    return out


# ---------------------------------------------------------------------------------------------
# 4. annotation scoping

SC_FUNS = ("setUp()", "check_f1()", "check_f2()")
SC_SELECTORS = {"setUp()": "0a9254e4", "check_f1()": "c0a4d64d", "check_f2()": "b0ed0ac9"}
SC_TOKEN = {2: 2, 5: 5, 7: 7}  # default, halmos.toml, command line (sites: 100 + site id)


SC_FLAG = "no_status"  # the boolean option of the scoping scenarios


def config_scope_artifacts(sites: set, flag_c1: bool = False) -> dict:
    """Hand-built forge artifacts for contracts C1, C2 of one source file, `@custom:halmos --loop N`
    placed on the given sites (10c: contract c, 10c+f+1: function f of contract c)."""
    nodes = []
    for c in (1, 2):
        node = {"nodeType": "ContractDefinition", "name": f"C{c}", "contractKind": "contract", "abstract": False,
                "nodes": []}
        words = ([f"--loop {100 + 10 * c}"] if 10 * c in sites else []) + (["--no-status"] if flag_c1 and c == 1 else [])
        if words:
            node["documentation"] = {"id": 7 + c, "nodeType": "StructuredDocumentation",
                                     "text": "@custom:halmos " + " ".join(words)}
        nodes.append(node)
    arts = {}
    for c in (1, 2):
        methods = {}
        for f, sig in enumerate(SC_FUNS):
            site = 10 * c + f + 1
            if site in sites:
                methods[sig] = {"custom:halmos": f"--loop {100 + site}"}
            elif f == 2:
                methods[sig] = {"details": "no halmos tag here"}
        arts[f"C{c}"] = {
            "abi": [{"type": "function", "name": s.split("(")[0], "inputs": [], "outputs": [],
                     "stateMutability": "nonpayable"} for s in SC_FUNS],
            "bytecode": {"object": "0x" + SC_CREATION.hex(), "linkReferences": {}},
            "deployedBytecode": {"object": "0x" + SC_RUNTIME.hex(), "linkReferences": {}},
            "methodIdentifiers": dict(SC_SELECTORS),
            "metadata": {"compiler": {"version": "0.8.26+commit.8a97fa7a"},
                         "output": {"devdoc": {"kind": "dev", "methods": methods, "version": 1}}},
            "ast": {"absolutePath": "test/T.sol", "id": 1, "nodeType": "SourceUnit", "nodes": nodes},
            "id": 1,
        }
    return arts


# runtime: STOP for every call; creation: return the 1-byte runtime
SC_RUNTIME = bytes([0x00])
SC_CREATION = bytes([0x60, 0x01, 0x60, 0x0C, 0x60, 0x00, 0x39, 0x60, 0x01, 0x60, 0x00, 0xF3, 0x00])


def config_scope_base(root: Path, file: bool, cli: bool, flag: bool = False):
    """default -> halmos.toml -> command line, through halmos' own load_config."""
    d = root / f"proj-{int(file)}{int(cli)}{int(flag)}"
    d.mkdir(parents=True, exist_ok=True)
    toml_path = d / "halmos.toml"
    if file:
        toml_path.write_text("[global]\nloop = 5\n" + ("no-status = true\n" if flag else ""))
    elif toml_path.exists():
        toml_path.unlink()
    argv = ["--root", str(d)] + (["--loop", "7"] if cli else [])
    return hmain.load_config(argv), d, argv


def config_scope_expect(tokval):
    tok, src = tokval
    return tok, src


def config_replay_scope_job(args) -> Outcome:
    recs, root, deep_every, n = args
    return config_replay_scope(recs, Path(root) / f"job{n}", deep_every)


def config_replay_scope_parallel(recs: list, root: Path, deep_every: int) -> Outcome:
    jobs = [(ch, str(root), deep_every, i) for i, ch in enumerate(config_chunks(recs, NCPU))]
    return config_pool_map(config_replay_scope_job, jobs)


def config_replay_scope(recs: list, root: Path, deep_every: int = 0) -> Outcome:
    """SC records. Level A: get_contract_type + with_natspec + with_devdoc on hand-built artifacts.
    Level B (every `deep_every`-th scenario): the artifacts are written to <root>/out and halmos' own
    `_main` is run on them; the configuration each function actually runs with is observed by wrapping
    run_test/setup."""
    out = Outcome()
    bases = {}
    with config_quiet():
        for file in (False, True):
            for cli in (False, True):
                for flag in (False, True) if file else (False,):
                    bases[(file, cli, flag)] = config_scope_base(root, file, cli, flag)
        for idx, rec in enumerate(recs):
            sites = set(rec["sites"])
            flag_at = rec.get("flagAt", 0)
            args, projdir, argv = bases[(rec["file"], rec["cli"], flag_at == 2)]
            arts = config_scope_artifacts(sites, flag_c1=flag_at == 3)
            observed = {}
            for c in (1, 2):
                cj = arts[f"C{c}"]
                _ctype, natspec = hbuild.get_contract_type(cj["ast"]["nodes"], f"C{c}")
                cargs = hmain.with_natspec(args, f"C{c}", natspec)
                for f, sig in enumerate(SC_FUNS):
                    fargs = hmain.with_devdoc(cargs, sig, cj)
                    v, s = fargs.value_with_source("loop")
                    fv, fs = fargs.value_with_source(SC_FLAG)
                    observed[(c, f)] = (fargs.loop, v, int(s), getattr(fargs, SC_FLAG), fv, int(fs))
            config_scope_compare(out, rec, observed, "with_natspec/with_devdoc")
            out.cases += 1
            if sites:
                out.counts["scenarios_with_annotations"] += 1
            if deep_every and idx % deep_every == 0:
                obs2 = config_scope_run_contracts(argv, projdir, arts)
                config_scope_compare(out, rec, obs2, "halmos._main (load_config/parse_build_out/run_contract)")
                out.counts["run_contract_scenarios"] += 1
    return out


def config_scope_compare(out: Outcome, rec, observed: dict, level: str):
    for c in (1, 2):
        for f, sig in enumerate(SC_FUNS):
            tok, src = rec["exp"][c - 1][f][:2]
            got = observed.get((c, f))
            if got is None:
                raise MachineryError(f"{level}: no configuration observed for C{c}.{sig}")
            attr, v, s = got[:3]
            if len(rec["exp"][c - 1][f]) == 4 and len(got) == 6:
                wflag, wsrc = rec["exp"][c - 1][f][2:]
                fattr, fv, fs = got[3:]
                if bool(fattr) != bool(wflag) or bool(fv) != bool(wflag) or fs != wsrc:
                    out.miss(f"scope-flag:{'F' if rec['file'] else '-'}{'C' if rec['cli'] else '-'}:at{rec.get('flagAt')}:C{c}.{sig}",
                             f"{level}: `no-status` switched on {'in halmos.toml' if rec.get('flagAt') == 2 else 'in the annotation of C1' if rec.get('flagAt') == 3 else 'nowhere'}, "
                             f"annotations (--loop) on sites {sorted(rec['sites'])}, cli={rec['cli']}: C{c}.{sig} must run with no_status={bool(wflag)} "
                             f"(from {SRC_NAME.get(wsrc, wsrc)}), halmos uses {fattr} (value_with_source {fv}, {SRC_NAME.get(fs, fs)})",
                             {"scenario": rec, "contract": f"C{c}", "function": sig, "level": level, "expected": [bool(wflag), wsrc], "observed": [fattr, fv, fs]})
                else:
                    out.counts["function_flags_agreed"] += 1
            if attr != tok or v != tok or (s is not None and s != src):
                key = (f"scope:{'F' if rec['file'] else '-'}{'C' if rec['cli'] else '-'}:"
                       f"{','.join(map(str, sorted(rec['sites'])))}:C{c}.{sig}")
                out.miss(key,
                         f"{level}: annotations on sites {sorted(rec['sites'])}, file={rec['file']}, cli={rec['cli']}: "
                         f"C{c}.{sig} must run with --loop {tok} (from {SRC_NAME[src]}), halmos uses {attr} "
                         f"(value_with_source {v}, {SRC_NAME.get(s, s)})",
                         {"scenario": rec, "contract": f"C{c}", "function": sig, "level": level,
                          "expected": [tok, SRC_NAME[src]], "observed": [attr, v, s]})
            else:
                out.counts["function_configs_agreed"] += 1


class _NoForge:
    """Stands for the `subprocess` module inside halmos.__main__: `forge build` is not run (there is no
    forge here), the artifacts are already in <root>/out."""

    @staticmethod
    def run(cmd, *a, **k):
        if list(cmd[:2]) != ["forge", "build"]:
            raise MachineryError(f"unexpected subprocess started by halmos._main: {cmd}")
        return types.SimpleNamespace(returncode=0)


def config_scope_run_contracts(argv: list, projdir: Path, arts: dict) -> dict:
    """Write the artifacts where forge would and run halmos' own `_main(argv)` on them (command line and
    halmos.toml parsed by load_config, artifacts read by parse_build_out, contract annotations applied by
    the loop of _main, function annotations by run_contract/run_tests); the configuration every function
    is actually executed with is recorded by wrapping run_test and setup."""
    outdir = projdir / "out" / "T.sol"
    outdir.mkdir(parents=True, exist_ok=True)
    for name, cj in arts.items():
        (outdir / f"{name}.json").write_text(json.dumps(cj))
    observed = {}
    real_run_test, real_setup, real_subprocess = hmain.run_test, hmain.setup, hmain.subprocess

    def record(ctx, f):
        v, s = ctx.args.value_with_source("loop")
        fv, fs = ctx.args.value_with_source(SC_FLAG)
        observed[(int(ctx.contract_ctx.name[1:]), f)] = (ctx.args.loop, v, int(s), getattr(ctx.args, SC_FLAG), fv, int(fs))

    def spy_setup(ctx):
        record(ctx, 0)
        return real_setup(ctx)

    def spy_run_test(ctx):
        record(ctx, SC_FUNS.index(ctx.info.sig))
        return real_run_test(ctx)

    handlers = {sig: signal.getsignal(sig) for sig in (signal.SIGINT, signal.SIGTERM)}
    hmain.run_test, hmain.setup, hmain.subprocess = spy_run_test, spy_setup, _NoForge
    sink = io.StringIO()
    try:
        with contextlib.redirect_stdout(sink):
            result = hmain._main(list(argv))
    except SystemExit as e:
        raise MachineryError(f"halmos._main{argv} exited with {e.code}: {sink.getvalue()[-800:]}") from e
    finally:
        hmain.run_test, hmain.setup, hmain.subprocess = real_run_test, real_setup, real_subprocess
        for sig, h in handlers.items():
            with contextlib.suppress(Exception):
                signal.signal(sig, h)
    ntests = sum(len(v) for v in result.test_results.values()) if result.test_results else 0
    if result.exitcode != 0 or ntests != 4:
        raise MachineryError(
            f"halmos._main{argv} on the hand-built artifacts: exit code {result.exitcode}, {ntests} test results "
            f"(expected 0 and 4): {sink.getvalue()[-800:]}")
    return observed


NS_TEXT = {"P": "--loop 9", "W": "@custom:halmos --width 3", "N": "@notice --loop 9", "O": "@custom:halmoss --loop 9"}


def config_replay_natspec(recs: list) -> Outcome:
    """NS records: which part of a contract's NatSpec text is a halmos annotation."""
    out = Outcome()
    with config_quiet():
        for rec in recs:
            segs = rec["segs"]
            parts = [f"@custom:halmos --loop {10 + i + 1}" if k == "H" else NS_TEXT[k] for i, k in enumerate(segs)]
            for sep in (" ", "\n", "\n   "):
                text = sep.join(parts)
                out.cases += 1
                try:
                    cfg = hmain.with_natspec(default_config(), "C", {"text": text} if text else None)
                    loop, lsrc = cfg.value_with_source("loop")
                    width, _ = cfg.value_with_source("width")
                    err = None
                except (SystemExit, Exception) as e:  # noqa: BLE001
                    err = f"{type(e).__name__}: {e}"
                    loop = lsrc = width = None
                loops = rec["loops"]
                ok = err is None and (loop in loops if loops else (loop == 2 and lsrc == ConfigSource.default))
                ok = ok and width == (3 if rec["width"] else 0)
                if loops and ok and lsrc != ConfigSource.contract_annotation:
                    ok = False
                if not ok:
                    out.miss(f"natspec:{''.join(segs)}:{sep!r}",
                             f"contract NatSpec {text!r}: expected --loop in {loops or [2]} and width "
                             f"{3 if rec['width'] else 0}; halmos: loop={loop} ({lsrc!r}) width={width} {err or ''}",
                             {"natspec": text, "expected_loops": loops, "expected_width": rec["width"],
                              "observed": [loop, str(lsrc), width, err]})
                elif loops:
                    out.counts["natspec_annotations_applied"] += 1
                else:
                    out.counts["natspec_without_annotation"] += 1
    return out


# ---------------------------------------------------------------------------------------------
# 5. driving TLC and fanning the records out


def config_idle_cores() -> int:
    """Workers worth starting: on an oversubscribed machine 16 TLC workers (and 16 GC threads) are slower
    than 2."""
    try:
        load = os.getloadavg()[0]
    except OSError:
        load = 0.0
    return max(2, min(NCPU, int(round(NCPU - load))))


def config_enumerate(cfg: str, work: Path, coverage: bool):
    n = config_idle_cores()
    r = run_tlc("Config", cfg, work=work, coverage=coverage, timeout=3000, workers=n,
                env={"JAVA_TOOL_OPTIONS": f"-XX:ParallelGCThreads={max(2, n // 2)}"})
    if not r.ok:
        raise MachineryError(f"TLC reports {r.violated} on spec/Config.tla with {cfg}:\n{r.stdout[-2000:]}")
    by_mode: dict[str, list] = {}
    headers = {}
    for rec in r.records:
        m = rec.get("m")
        if "hdr" in rec or "alpha" in rec:
            headers[m] = rec
        else:
            by_mode.setdefault(m, []).append(rec)
    # TLC's workers print in a nondeterministic order: make the order of the cases reproducible
    for m, recs in by_mode.items():
        if m in STACK_COLS:
            recs.sort(key=lambda x: (len(x["src"]), x["src"], x["set"]))
        elif "s" in recs[0] and "r" in recs[0]:
            recs.sort(key=lambda x: (len(x["s"]), x["s"]))
        else:
            recs.sort(key=lambda x: json.dumps(x, sort_keys=True))
    return r, headers, by_mode


def config_validate_with_spec(extra: list, work: Path):
    path = work / "c18_unparse.json"
    path.write_text(json.dumps([{"id": e["id"], "k": e["k"], "s": e["s"]} for e in extra]))
    r = run_tlc("Config", "MC_ConfigValidate.cfg", work=work, workers=2,
                env={"C18_IN": str(path), "JAVA_TOOL_OPTIONS": "-XX:ParallelGCThreads=2"})
    if not r.ok:
        raise MachineryError(f"TLC failed validating unparse output: {r.violated}\n{r.stdout[-1500:]}")
    return r, [x for x in r.records if x.get("m") == "VD"]


def config_chunks(items: list, n: int):
    size = max(1, (len(items) + n - 1) // n)
    return [items[i : i + size] for i in range(0, len(items), size)]


_POOL = None


def config_pool():
    """One pool of forked workers for the whole check (forking a process that has z3 loaded is not free)."""
    global _POOL
    if _POOL is None:
        _POOL = multiprocessing.get_context("fork").Pool(max(4, config_idle_cores()))
    return _POOL


def config_pool_close():
    global _POOL
    if _POOL is not None:
        _POOL.close()
        _POOL.join()
        _POOL = None


def config_pool_map(fn, jobs: list) -> Outcome:
    total = Outcome()
    if not jobs:
        return total
    if len(jobs) == 1:
        total.merge(fn(jobs[0]))
        return total
    for o in config_pool().imap_unordered(fn, jobs):
        total.merge(o)
    return total


def config_replay_stacks(headers: dict, by_mode: dict, limit: int | None = None) -> dict[str, Outcome]:
    res = {}
    for mode in ("S3", "S2", "SE"):
        if mode not in headers:
            continue
        recs = by_mode.get(mode, [])
        if limit:
            recs = recs[:limit]
        layer_seq = headers[mode]["hdr"]
        jobs = [(mode, layer_seq, ch) for ch in config_chunks(recs, NCPU * 4)]
        o = config_pool_map(config_replay_stack_records, jobs)
        o.merge(config_replay_stack_self(mode, headers[mode]["self"]))
        res[mode] = o
    return res


def config_replay_strings(headers: dict, by_mode: dict) -> dict[str, Outcome]:
    res = {}
    for kind in ("T", "E", "C", "A", "B", "V"):
        if kind not in headers:
            continue
        alpha = headers[kind]["alpha"]
        jobs = [(kind, alpha, ch) for ch in config_chunks(by_mode.get(kind, []), NCPU * 4)]
        o = config_pool_map(config_replay_string_records, jobs)
        with config_quiet():
            config_judge_string(o, STRING_FAMILY_KIND.get(kind, kind), [], headers[kind]["self"], 0)
        res[kind] = o
    return res


# ---------------------------------------------------------------------------------------------
# 6. deliberately wrong implementations (negative controls)


def config_mutant_value_with_source(self, name):
    """value_with_source with `>=` instead of `>`: the OLDEST layer wins among equal sources."""
    best_value, best_source = None, ConfigSource.void
    current = self
    while current is not None:
        value = object.__getattribute__(current, name)
        if value is not None and (current_source := current._source) >= best_source:
            best_value, best_source = value, current_source
        current = current._parent
    return (best_value, best_source)


def config_mutant_recent_wins(self, name):
    """value_with_source that ignores the sources: the most recent layer that sets the option wins."""
    current = self
    while current is not None:
        value = object.__getattribute__(current, name)
        if value is not None:
            return (value, current._source)
        current = current._parent
    return (None, ConfigSource.void)


def config_mutant_solver_command(self):
    """resolved_solver_command with `>` instead of `>=`."""
    solver, solver_source = self.value_with_source("solver")
    cmd, cmd_source = self.value_with_source("solver_command")
    if cmd and cmd_source and cmd_source > solver_source:
        import shlex

        return shlex.split(cmd)
    return hconfig.get_solver_command(solver)


def config_control_resolver(headers, by_mode, mutant, mode="S3", nrec=60) -> int:
    """Replay a few stack records against halmos with a mutated resolver; returns #mismatches."""
    recs = by_mode.get(mode, [])[-nrec:]
    with config_patched(Config, "value_with_source", mutant):
        Config.__getattribute__.cache_clear()
        o = config_replay_stack_records((mode, headers[mode]["hdr"], recs))
    return o.nmismatch


def config_control_solver_command(headers, by_mode, nrec=60) -> int:
    recs = by_mode.get("S2", [])[-nrec:]
    with config_patched(Config, "resolved_solver_command", property(config_mutant_solver_command)):
        o = config_replay_stack_records(("S2", headers["S2"]["hdr"], recs))
    return o.nmismatch


def config_control_strings(headers, by_mode, nrec=200) -> dict:
    """(a) a parser that silently defaults instead of rejecting, (b) a mutated expectation."""
    res = {}

    def defaulting(kind, s, status, val):
        if status == "rejected":
            return "ok", object.__getattribute__(default_config(), KIND_OPTS[kind][0])
        return status, val

    for kind in ("T", "E", "C", "A"):
        recs = by_mode.get(kind, [])[:nrec]
        alpha = headers[kind]["alpha"]
        o1, o2 = Outcome(), Outcome()
        with config_quiet():
            n = 0
            for rec in recs:
                for sym, oc in zip(alpha, rec["r"]):
                    n += 1
                    config_judge_string(o1, kind, rec["s"] + [sym], oc, n, wrap=defaulting)
                    if oc[0] == "W":
                        config_judge_string(o2, kind, rec["s"] + [sym], ["W", config_mutate_value(kind, oc[1])], n)
        res[kind] = (o1.nmismatch, o2.nmismatch, o2.cases)
    return res


def config_mutate_value(kind, v):
    if kind == "T":
        return [v[0] + 1, v[1]]
    if kind == "E":
        return [0, 1] if v == [-1] else ([-1] if len(v) == 1 else v[1:])
    if kind == "C":
        return v + [7]
    if kind == "A":
        return v + [[["z"], [1]]] if not any(n == ["z"] for n, _ in v) else v[1:]
    return v[::-1] + ["LOG"]
